/-!
# The import layer: module graphs, visibility, the import decision, the cycle check

Mirrors `analyzer/topLevel.go` (`importItem`, `importDummyFields`), `analyzer/analyzer.go`
(`analyzeModule`: imports are analysed first, depth first, against the *current* tables of the
target module — empty while that module is still being analysed) and
`analyzer/importGraph.go` (`importGraphIsCyclic`, as it is after the fix for finding A8: every
module is expanded at most once).

A module is its name, its import statements and its top-level items (functions, globals, types,
each with a `pub` flag). Function bodies are a small action language (`Act`) that is enough to
make "which definition does this name denote" observable: print a label and some globals,
change a global, call a function.
-/
namespace Hms.Mod

inductive ItemKind where
  | fn | glob | type
  deriving DecidableEq, Repr, Inhabited

/-- `pAst.IMPORT_KIND_NORMAL` (functions and globals) / `IMPORT_KIND_TYPE`. -/
inductive ImpKind where
  | normal | type
  deriving DecidableEq, Repr, Inhabited

structure Item where
  kind : ItemKind
  name : String
  pub : Bool
  deriving DecidableEq, Repr, Inhabited

structure ImpItem where
  name : String
  kind : ImpKind
  deriving DecidableEq, Repr, Inhabited

/-- `import { items } from target;` -/
structure Import where
  target : String
  items : List ImpItem
  deriving DecidableEq, Repr, Inhabited

/-- Statements of the generated function bodies. -/
inductive Act where
  /-- `println(label, g₁, …)` -/
  | say (label : String) (globals : List String)
  /-- `g = g + "!";` -/
  | bump (g : String)
  /-- `f();` -/
  | call (f : String)
  deriving DecidableEq, Repr, Inhabited

structure Module where
  name : String
  imports : List Import
  items : List Item
  /-- initial value of every global -/
  inits : List (String × String)
  /-- function name ↦ body -/
  bodies : List (String × List Act)
  deriving Repr, Inhabited

abbrev Modules := List Module

def findMod (ms : Modules) (name : String) : Option Module := ms.find? (·.name == name)

def Module.defines (m : Module) (k : ItemKind) (n : String) : Bool :=
  m.items.any fun i => i.kind == k && i.name == n

def Module.hasMain (m : Module) : Bool := m.defines .fn "main"

/-! ## Diagnostics -/

inductive DiagClass where
  | cyclic | nomodule | notype | noitem | privtype | privfn | privvar | dupname | duptype | nomain
  | dupglobal | duptypedef | dupfn | nameclash
  deriving DecidableEq, Repr, Inhabited

def DiagClass.name : DiagClass → String
  | .cyclic => "cyclic" | .nomodule => "nomodule" | .notype => "notype" | .noitem => "noitem"
  | .privtype => "privtype" | .privfn => "privfn" | .privvar => "privvar" | .dupname => "dupname"
  | .duptype => "duptype" | .nomain => "nomain" | .dupglobal => "dupglobal" | .duptypedef => "duptypedef"
  | .dupfn => "dupfn" | .nameclash => "nameclash"

/-- An error-level diagnostic: class, the module whose text it points into, and the index of the
import statement it points at (`none`: not inside an import statement). -/
structure Diag where
  cls : DiagClass
  module : String
  stmt : Option Nat
  deriving DecidableEq, Repr, Inhabited

/-! ## The analyzer's per-module tables -/

/-- What `importItem` consults in the target module and extends in the importing module:
`Module.ImportsModules`, `Module.Functions` (name, is `pub`), `Scopes[0].Values` and
`Scopes[0].Types`. -/
structure Tables where
  importsModules : List String := []
  fns : List (String × Bool) := []
  values : List (String × Bool) := []
  types : List (String × Bool) := []
  deriving Repr, Inhabited, DecidableEq

/-- Root-scope additions of the host (never `pub`). Only their names matter here. -/
def builtinValues : List (String × Bool) :=
  ["print", "println", "debug", "assert", "fmt", "log", "time", "throw"].map fun n => (n, false)

def Tables.fresh : Tables := { values := builtinValues }

/-- `addVar(ident, …, forceAdd = false)`: an existing entry is kept. -/
def Tables.addValue (t : Tables) (n : String) (pub : Bool) : Tables :=
  if (t.values.lookup n).isSome then t else { t with values := t.values ++ [(n, pub)] }

def Tables.addType (t : Tables) (n : String) (pub : Bool) : Tables :=
  if (t.types.lookup n).isSome then t else { t with types := t.types ++ [(n, pub)] }

def dupValue (c : Tables) (n : String) : List DiagClass :=
  if (c.values.lookup n).isSome then [.dupname] else []

def dupType (c : Tables) (n : String) : List DiagClass :=
  if (c.types.lookup n).isSome then [.duptype] else []

/-- The decision `importItem` takes for one requested item: `t` = tables of the target module as
they are now, `c` = tables of the importing module. Returns the error classes raised and the
importing module's new tables. -/
def importOne (t c : Tables) (it : ImpItem) : List DiagClass × Tables :=
  match it.kind with
  | .type =>
    match t.types.lookup it.name with
    | none => (.notype :: dupType c it.name, c.addType it.name false)
    | some pub => ((if pub then [] else [.privtype]) ++ dupType c it.name, c.addType it.name false)
  | .normal =>
    match t.fns.lookup it.name with
    | some pub => ((if pub then [] else [.privfn]) ++ dupValue c it.name, c.addValue it.name false)
    | none =>
      match t.values.lookup it.name with
      | none => (.noitem :: dupValue c it.name, c.addValue it.name false)
      | some pub => ((if pub then [] else [.privvar]) ++ dupValue c it.name, c.addValue it.name false)

/-- The item loop of one import statement. `t = none`: the statement imports from the module
being analysed itself (the target tables *are* the current tables, item by item). -/
def importItems (t : Option Tables) (c : Tables) : List ImpItem → List DiagClass × Tables
  | [] => ([], c)
  | it :: rest =>
    let (d, c') := importOne (t.getD c) c it
    let (ds, c'') := importItems t c' rest
    (d ++ ds, c'')

/-- `importDummyFields`: after "module not found" every requested name is still declared. -/
def dummyItems (c : Tables) : List ImpItem → List DiagClass × Tables
  | [] => ([], c)
  | it :: rest =>
    let (d, c') := match it.kind with
      | .type => (dupType c it.name, c.addType it.name false)
      | .normal => (dupValue c it.name, c.addValue it.name false)
    let (ds, c'') := dummyItems c' rest
    (d ++ ds, c'')

/-! ## `importGraphIsCyclic` (after the fix for A8) -/

/-- Adjacency as the analyzer has it: module name ↦ `ImportsModules` (only modules whose analysis
has started have an entry). -/
abbrev Adj := List (String × List String)

/-- The loop over `module.ImportsModules`; `step` is the recursive call. A neighbour that was
already explored is skipped, a new one is marked before it is expanded. -/
def nbrLoop (step : List String → String → Bool × List String) (orig : String) :
    List String → List String → Bool × List String
  | vis, [] => (false, vis)
  | vis, node :: rest =>
    if node == orig then (true, vis)
    else if vis.contains node then nbrLoop step orig vis rest
    else
      match step (node :: vis) node with
      | (true, vis') => (true, vis')
      | (false, vis') => nbrLoop step orig vis' rest

/-- `importGraphIsCyclicInner(orig, start, …, visited)`; returns (cycle found, visited set). -/
def cyclicFrom (adj : Adj) (orig : String) : Nat → List String → String → Bool × List String
  | 0, vis, _ => (false, vis)
  | fuel + 1, vis, start =>
    match adj.lookup start with
    | none => (false, vis)
    | some nbrs => nbrLoop (cyclicFrom adj orig fuel) orig vis nbrs

/-- `importGraphIsCyclic(start)`: fuel = number of modules + 1 is always enough (every module is
expanded at most once; theorem `cycle_check_correct`). -/
def importGraphIsCyclic (adj : Adj) (start : String) : Bool :=
  (cyclicFrom adj start (adj.length + 1) [start] start).1

/-- The unfixed code: no visited set. Fuel exhaustion (`none`) stands for the unbounded recursion
(a fatal stack overflow of the host). -/
def cyclicFromUnfixed (adj : Adj) (orig : String) : Nat → String → Option Bool
  | 0, _ => none
  | fuel + 1, start =>
    match adj.lookup start with
    | none => some false
    | some nbrs =>
      nbrs.foldl (fun acc node =>
        match acc with
        | some false =>
          if node == orig then some true else cyclicFromUnfixed adj orig fuel node
        | r => r) (some false)

/-! ## `analyzeModule` / `importItem`: depth-first analysis of the import graph -/

structure AState where
  mods : List (String × Tables) := []
  diags : List Diag := []
  deriving Repr, Inhabited

def AState.get (st : AState) (n : String) : Option Tables := st.mods.lookup n

def AState.set (st : AState) (n : String) (t : Tables) : AState :=
  if (st.mods.lookup n).isSome then
    { st with mods := st.mods.map fun (k, old) => if k == n then (k, t) else (k, old) }
  else { st with mods := st.mods ++ [(n, t)] }

def AState.addDiags (st : AState) (m : String) (idx : Option Nat) (cs : List DiagClass) : AState :=
  { st with diags := st.diags ++ cs.map fun c => ⟨c, m, idx⟩ }

def AState.adj (st : AState) : Adj := st.mods.map fun (n, t) => (n, t.importsModules)

/-- The tables of a module once its imports are done: type definitions, function signatures,
globals; a definition whose name is already taken (by an import) is reported; a type keeps the
earlier entry, a global replaces it. -/
def Tables.complete (t0 : Tables) (m : Module) : Tables × List DiagClass :=
  m.items.foldl (fun (acc : Tables × List DiagClass) i =>
    let (t, ds) := acc
    match i.kind with
    | .type => if (t.types.lookup i.name).isSome then (t, ds ++ [.duptypedef]) else (t.addType i.name i.pub, ds)
    | .fn =>
      -- `functionSignature`: a second function of the name, and (repair F3) a function named like a value that is
      -- in the root scope when the signatures are registered: the imported values `t0.values` (the globals follow later)
      ({ t with fns := t.fns ++ [(i.name, i.pub)] },
       ds ++ (if (t.fns.lookup i.name).isSome then [.dupfn] else [])
          ++ (if (t0.values.lookup i.name).isSome then [.nameclash] else []))
    | .glob =>
      -- (repair F3) a global named like a function of the module, wherever the function stands in the source
      let dc : List DiagClass := if m.defines .fn i.name then [.nameclash] else []
      -- `addVar(…, forceAdd = true)`: a global replaces an entry of the same name (and is reported)
      if (t.values.lookup i.name).isSome then
        ({ t with values := t.values.map fun (k, p) => if k == i.name then (k, i.pub) else (k, p) }, ds ++ dc ++ [.dupglobal])
      else (t.addValue i.name i.pub, ds ++ dc)) (t0, [])

/-- `importItem(node)` for the import statement number `idx` of module `name`; `rec` is the
recursive call `analyzeModule`. -/
def importStmt (ms : Modules) (rec : AState → String → AState) (name : String)
    (st : AState) (idx : Nat) (imp : Import) : AState :=
  let cur := (st.get name).getD Tables.fresh
  match findMod ms imp.target with
  | none =>
    -- not a host module (and not a builtin module of the host): "Module not found", once
    let (ds, cur') := dummyItems cur imp.items
    (st.addDiags name (some idx) (.nomodule :: ds)).set name cur'
  | some _ =>
    let st := st.set name { cur with importsModules := cur.importsModules ++ [imp.target] }
    let st :=
      if (st.get imp.target).isSome then st
      else
        let st := rec st imp.target
        if importGraphIsCyclic st.adj name then st.addDiags name (some idx) [.cyclic] else st
    let cur := (st.get name).getD Tables.fresh
    let tgt := if imp.target == name then none else st.get imp.target
    let (ds, cur') := importItems tgt cur imp.items
    (st.addDiags name (some idx) ds).set name cur'

/-- The import statements of a module, in order. -/
def importStmts (ms : Modules) (rec : AState → String → AState) (name : String) :
    AState → Nat → List Import → AState
  | st, _, [] => st
  | st, idx, imp :: rest => importStmts ms rec name (importStmt ms rec name st idx imp) (idx + 1) rest

/-- `analyzeModule(name)`; `fuel` bounds the nesting depth (≤ number of modules). -/
def analyzeModule (ms : Modules) : Nat → AState → String → AState
  | 0, st, _ => st
  | fuel + 1, st, name =>
    match findMod ms name with
    | none => st
    | some m =>
      let st := st.set name Tables.fresh
      let st := importStmts ms (analyzeModule ms fuel) name st 0 m.imports
      let (done, ds) := ((st.get name).getD Tables.fresh).complete m
      let st := (st.set name done).addDiags name none ds
      if m.hasMain then st else st.addDiags name none [.nomain]

/-- All error-level diagnostics of analysing the program whose entry module is `entry`. -/
def analyze (ms : Modules) (entry : String := "main") : List Diag :=
  (analyzeModule ms (ms.length + 1) {} entry).diags

/-- The modules the analyzer visits (and hands to the compiler / interpreter). -/
def analysed (ms : Modules) (entry : String := "main") : Modules :=
  let st := analyzeModule ms (ms.length + 1) {} entry
  ms.filter fun m => (st.get m.name).isSome

/-! ## Specification: which import statements are illegal -/

/-- Complete tables of a module taken on its own (what a legal import consults). -/
def exportTables (m : Module) : Tables := (Tables.fresh.complete m).1

/-- Is the requested item importable from a module with tables `t`: present with the right kind
and `pub`. -/
def itemLegal (t : Tables) (it : ImpItem) : Bool :=
  match it.kind with
  | .type => t.types.lookup it.name == some true
  | .normal =>
    match t.fns.lookup it.name with
    | some pub => pub
    | none => t.values.lookup it.name == some true

/-- Import edges between host modules. -/
def edgesOf (ms : Modules) : Adj :=
  ms.map fun m => (m.name, (m.imports.filter fun i => (findMod ms i.target).isSome).map (·.target))

/-- `b` can be reached from `a` in at most `n` import steps (`n` ≥ 1 steps are taken). -/
def reachIn (adj : Adj) : Nat → String → String → Bool
  | 0, _, _ => false
  | n + 1, a, b =>
    match adj.lookup a with
    | none => false
    | some ns => ns.any fun c => c == b || reachIn adj n c b

/-- `b` is reachable from `a` along at least one import edge. -/
def reaches (ms : Modules) (a b : String) : Bool := reachIn (edgesOf ms) ms.length a b

/-- The import statement `imp` of module `m` is illegal: the module does not exist, the
statement lies on an import cycle (including a self-import), or some requested item is missing,
of the wrong kind or not `pub`. -/
def stmtIllegal (ms : Modules) (m : Module) (imp : Import) : Bool :=
  match findMod ms imp.target with
  | none => true
  | some t =>
    imp.target == m.name || reaches ms imp.target m.name ||
      imp.items.any fun it => !itemLegal (exportTables t) it

/-! ## The fragment the generated graphs live in -/

def namesDistinct (ms : Modules) : Bool := (ms.map (·.name)).Nodup

/-- Within one module no global and no type is defined twice and no function name is also the
name of a global (the generated graphs; imports that collide with definitions are modelled). -/
def noOwnOverlap (m : Module) : Bool :=
  ((m.items.filter (·.kind == .glob)).map (·.name)).Nodup &&
  ((m.items.filter (·.kind == .type)).map (·.name)).Nodup &&
  ((m.items.filter (·.kind == .fn)).map (·.name)).Nodup

def fragC15 (ms : Modules) : Bool := namesDistinct ms && ms.all noOwnOverlap

end Hms.Mod
