import Hms.Value.Cast
/-!
# JSON: `MarshalValue`, `UnmarshalValue`, `TypeAwareUnmarshalValue` over a JSON *tree*

The text layer (Go's `encoding/json`: printing, parsing, string escaping, number syntax) is
trusted; what is modelled is the mapping between values and the `interface{}` tree. A number of a
document comes in two kinds (J1: `parse_json` decodes with `UseNumber` and the spelling decides):
`int i` is a number spelled as an integer (no `.`, `e`, `E`) which fits an int64 — `parse_json` reads
it exactly; `num d _` is every other number, a float64 (`Dy`) after parsing (`intLit` records an
integer spelling beyond the int64 range, or an integer literal written for a float; the
unmarshallers ignore it). Hosts of the typed route still decode every number to a float64.

Post-fix behaviour: X4 (the VM keeps `null`/`none` list elements, as the interpreter does), X24
(both libraries write `none`/`null` object fields as `null` instead of leaving them out), X9 (a
range or a function is a JSON error, not a panic).
-/
namespace Hms.Value

mutual
inductive J where
  | null
  | bool (b : Bool)
  | num (d : Dy) (intLit : Bool)
  | int (i : BitVec 64)
  | str (s : String)
  | arr (xs : Js)
  | obj (fs : JFields)
inductive Js where
  | nil
  | cons (j : J) (js : Js)
inductive JFields where
  | nil
  | cons (k : String) (j : J) (fs : JFields)
end

instance : Inhabited J := ⟨.null⟩

def J.isNull : J → Bool
  | .null => true
  | _ => false

def JFields.lookup : JFields → String → Option J
  | .nil, _ => .none
  | .cons k j fs, q => if k = q then .some j else fs.lookup q

/-! ## Marshalling (`floatLit d` = does the library write the float `d` with a fraction part) -/

mutual
/-- `none` = the value cannot be encoded (range, function): JSON error. -/
def marshalWith (floatInt : Dy → Bool) : Val → Option J
  | .null => .some .null
  | .none => .some .null
  | .some v => marshalWith floatInt v
  | .int i => .some (.int i)                          -- written as an integer literal
  | .flt d => .some (.num d (floatInt d))
  | .bool b => .some (.bool b)
  | .str s => .some (.str s)
  | .list xs => (marshalList floatInt xs).map .arr
  | .obj fs => (marshalFields floatInt fs).map .obj
  | .anyobj fs => (marshalFields floatInt fs).map .obj
  | .range .. => .none
  | .fn => .none
/-- list elements are all kept (X4) -/
def marshalList (floatInt : Dy → Bool) : Vals → Option Js
  | .nil => .some .nil
  | .cons v vs =>
    match marshalWith floatInt v, marshalList floatInt vs with
    | .some j, .some js => .some (.cons j js)
    | _, _ => .none
/-- every field is written, a `none`/`null` one as `null` (X24) -/
def marshalFields (floatInt : Dy → Bool) : Fields → Option JFields
  | .nil => .some .nil
  | .cons k v fs =>
    match marshalWith floatInt v, marshalFields floatInt fs with
    | .some j, .some js => .some (.cons k j js)
    | _, _ => .none
end

/-- VM: `jsonFloat` always writes a fraction (`3.0`). -/
def marshalVM : Val → Option J := marshalWith (fun _ => false)
/-- interpreter: `jsonFloat` as well, a fraction is always written. -/
def marshalTree : Val → Option J := marshalWith (fun _ => false)

/-! ## Untyped unmarshalling (`parse_json`): `UnmarshalValue` / `unmarshalValue` -/

mutual
def unmarshalUntyped : J → Val
  | .null => .none
  | .bool b => .bool b
  | .num d _ => .flt d             -- J1: spelled with a fraction / an exponent (or beyond int64): a float
  | .int i => .int i               -- J1: an integer spelling which fits an int is read exactly
  | .str s => .str s
  | .arr xs => .list (unmarshalUntypedList xs)
  | .obj fs => .obj (unmarshalUntypedFields fs)
def unmarshalUntypedList : Js → Vals
  | .nil => .nil
  | .cons j js => .cons (unmarshalUntyped j) (unmarshalUntypedList js)
def unmarshalUntypedFields : JFields → Fields
  | .nil => .nil
  | .cons k j fs => .cons k (unmarshalUntyped j) (unmarshalUntypedFields fs)
end

/-! ## Typed unmarshalling: `TypeAwareUnmarshalValue` (VM library only) -/

/-- elements in order; `none` = a Go panic somewhere inside -/
def unmarshalTypedList (f : J → Option Val) : Js → Option Vals
  | .nil => .some .nil
  | .cons j js =>
    match f j, unmarshalTypedList f js with
    | .some v, .some vs => .some (.cons v vs)
    | _, _ => .none

mutual
/-- `none` = Go panic (type assertion on a type that is neither object nor list). -/
def unmarshalTyped : Ty → J → Option Val
  | .opt t, j => if j.isNull then .some .none else (unmarshalTyped t j).map .some
  | T, .str s => match T with | .opt _ => .none | _ => .some (.str s)
  | T, .bool b => match T with | .opt _ => .none | _ => .some (.bool b)
  | T, .null => match T with | .opt _ => .none | _ => .some .none
  | T, .num d _ => match T with | .opt _ => .none | .int => .some (.int (fltToInt d)) | _ => .some (.flt d)
  -- the host decodes every number to a float64 first
  | T, .int i => match T with | .opt _ => .none | .int => .some (.int (fltToInt (intToFlt i))) | _ => .some (.flt (intToFlt i))
  | .list t, .arr xs => (unmarshalTypedList (fun j => unmarshalTyped t j) xs).map .list
  | .obj tfs, .obj jfs => (unmarshalTypedFields tfs jfs).map .obj
  | _, .arr _ => .none
  | _, .obj _ => .none
/-- one field per *declared* field; a missing key is read as `null` -/
def unmarshalTypedFields : TyFields → JFields → Option Fields
  | .nil, _ => .some .nil
  | .cons k t rest, jfs =>
    match unmarshalTyped t ((jfs.lookup k).getD .null), unmarshalTypedFields rest jfs with
    | .some v, .some fs => .some (.cons k v fs)
    | _, _ => .none
end

/-! ## What survives the round trip

`JsonRepr T v`: `v` has type `T` and is JSON-representable *under that type* for the typed
route `TypeAwareUnmarshalValue ∘ parse ∘ print ∘ MarshalValue`:
* integers of magnitude below 2^53 (a JSON number is a float64 after parsing);
* no `null`-typed, `any`-typed, any-object, range or function component (the typed unmarshaller
  reads JSON `null` as `none`, and panics on an any-object type — X26, open);
* an option's payload type is not itself an option or `null` (JSON has one `null`). -/

def intFitsFloat (i : BitVec 64) : Bool := decide (i.toInt.natAbs < 2 ^ 53)

def Ty.nullish : Ty → Bool
  | .opt _ | .null | .any => true
  | _ => false

mutual
def jsonRepr : Ty → Val → Bool
  | .int, v => match v with | .int i => intFitsFloat i | _ => false
  | .float, v => match v with | .flt _ => true | _ => false
  | .bool, v => match v with | .bool _ => true | _ => false
  | .str, v => match v with | .str _ => true | _ => false
  | .list t, v => match v with | .list xs => xs.all (fun x => jsonRepr t x) | _ => false
  | .opt t, v => !t.nullish && (match v with | .none => true | .some x => jsonRepr t x | _ => false)
  | .obj tfs, v => match v with
      | .obj fs => jsonReprFields tfs fs && fs.keys.all (fun k => tfs.hasKey k)
      | _ => false
  | _, _ => false
def jsonReprFields : TyFields → Fields → Bool
  | .nil, _ => true
  | .cons k t rest, fs => (match fs.lookup k with | .some x => jsonRepr t x | .none => false) && jsonReprFields rest fs
end

/-! `JsonReprProg T v`: the same for the route a program takes (`to_json`, `parse_json`, annotated
`let` / `as`). Since J1 `parse_json` reads an integer spelling exactly: every int is representable
there, not only those a float64 holds. -/
mutual
def jsonReprProg : Ty → Val → Bool
  | .int, v => match v with | .int _ => true | _ => false
  | .float, v => match v with | .flt _ => true | _ => false
  | .bool, v => match v with | .bool _ => true | _ => false
  | .str, v => match v with | .str _ => true | _ => false
  | .list t, v => match v with | .list xs => xs.all (fun x => jsonReprProg t x) | _ => false
  | .opt t, v => !t.nullish && (match v with | .none => true | .some x => jsonReprProg t x | _ => false)
  | .obj tfs, v => match v with
      | .obj fs => jsonReprProgFields tfs fs && fs.keys.all (fun k => tfs.hasKey k)
      | _ => false
  | _, _ => false
def jsonReprProgFields : TyFields → Fields → Bool
  | .nil, _ => true
  | .cons k t rest, fs => (match fs.lookup k with | .some x => jsonReprProg t x | .none => false) && jsonReprProgFields rest fs
end

/-! Before J1 the in-program route (`to_json`, `parse_json`, annotated `let`) additionally lost the
difference between 2.0 and 2 (X5): floats had to be non-integral. Kept for the driver's report. -/
mutual
def noIntegralFloat : Val → Bool
  | .flt d => !d.isIntegral
  | .list xs => noIntegralFloatList xs
  | .obj fs => noIntegralFloatFields fs
  | .anyobj fs => noIntegralFloatFields fs
  | .some v => noIntegralFloat v
  | _ => true
def noIntegralFloatList : Vals → Bool
  | .nil => true
  | .cons v vs => noIntegralFloat v && noIntegralFloatList vs
def noIntegralFloatFields : Fields → Bool
  | .nil => true
  | .cons _ v fs => noIntegralFloat v && noIntegralFloatFields fs
end

end Hms.Value
