/-!
# Runtime values and value types (pure model)

Mirrors `homescript/runtime/value/*` and, where it differs, `homescript/interpreter/value/*`
(the *post-fix* code, see `fixes-proposed/X*.patch`). Values are trees; the Go runtime's `*Value`
cells matter only for the sharing laws and are modelled separately in `Hms/Value/Heap.lean`.

* `Val`/`Vals`/`Fields` and `Ty`/`TyFields` are mutually inductive (instead of nested `List`s) so
  that every function below is structurally recursive and every lemma a mutual structural
  induction.
* An object is an association list that stands for a finite map (Go: `map[string]*Value`).
  The representation invariant "no key occurs twice, at any depth" is `Val.wf` / `Ty.wf`; it is a
  hypothesis of the laws that need it and is checked by the driver on every generated case.
* Integers are `BitVec 64`. Floats are *not* Lean `Float`: `Dy = ⟨m, e⟩` stands for the rational
  `m / 2^e` (every finite float64 is one); the model only needs decidable equality, the
  conversions from/to integers and the zero test. What is assumed about IEEE-754 is confined to
  the class of floats the checks generate (|m| < 2^49, e ≤ 8, at most 15 significant decimal
  digits): there Go's conversions are exact and `%v` prints the exact decimal expansion. NaN and
  infinities are outside the model (the property excludes NaN).
-/
namespace Hms.Value

/-- A dyadic rational `m / 2^e`, kept normalised (`e = 0` or `m` odd) by `Dy.norm`. -/
structure Dy where
  m : Int
  e : Nat
  deriving DecidableEq, Repr, Inhabited

namespace Dy

def normAux : Nat → Int → Nat → Dy
  | 0, m, e => ⟨m, e⟩
  | fuel + 1, m, e => if e = 0 then ⟨m, 0⟩ else if m % 2 = 0 then normAux fuel (m / 2) (e - 1) else ⟨m, e⟩

def norm (d : Dy) : Dy := if d.m = 0 then ⟨0, 0⟩ else normAux d.e d.m d.e

def ofInt (i : Int) : Dy := ⟨i, 0⟩

def isZero (d : Dy) : Bool := d.m == 0

/-- Go `int64(f)`: truncation toward zero (in range for the generated class). -/
def trunc (d : Dy) : Int := Int.tdiv d.m (2 ^ d.e)

def isIntegral (d : Dy) : Bool := d.norm.e == 0

end Dy

mutual
inductive Val where
  | null
  | int (i : BitVec 64)
  | flt (d : Dy)
  | bool (b : Bool)
  | str (s : String)
  | list (xs : Vals)
  | obj (fs : Fields)
  | anyobj (fs : Fields)
  | none
  | some (v : Val)
  | range (a b : BitVec 64) (incl : Bool)
  | fn
inductive Vals where
  | nil
  | cons (v : Val) (vs : Vals)
inductive Fields where
  | nil
  | cons (k : String) (v : Val) (fs : Fields)
end

mutual
inductive Ty where
  | any | null | int | float | bool | str | range | anyobj | fn
  | list (t : Ty)
  | opt (t : Ty)
  | obj (fs : TyFields)
inductive TyFields where
  | nil
  | cons (k : String) (t : Ty) (fs : TyFields)
end

instance : Inhabited Val := ⟨.null⟩
instance : Inhabited Ty := ⟨.any⟩

/-! ## Decidable syntactic equality (used by the driver and by `decide` in examples) -/

mutual
def Val.beq : Val → Val → Bool
  | .null, .null => true
  | .int a, .int b => a == b
  | .flt a, .flt b => a == b
  | .bool a, .bool b => a == b
  | .str a, .str b => a == b
  | .list a, .list b => Vals.beq a b
  | .obj a, .obj b => Fields.beq a b
  | .anyobj a, .anyobj b => Fields.beq a b
  | .none, .none => true
  | .some a, .some b => Val.beq a b
  | .range a b i, .range a' b' i' => a == a' && b == b' && i == i'
  | .fn, .fn => true
  | _, _ => false
def Vals.beq : Vals → Vals → Bool
  | .nil, .nil => true
  | .cons a as, .cons b bs => Val.beq a b && Vals.beq as bs
  | _, _ => false
def Fields.beq : Fields → Fields → Bool
  | .nil, .nil => true
  | .cons k a as, .cons k' b bs => k == k' && Val.beq a b && Fields.beq as bs
  | _, _ => false
end

instance : BEq Val := ⟨Val.beq⟩

mutual
def Ty.beq : Ty → Ty → Bool
  | .any, .any | .null, .null | .int, .int | .float, .float | .bool, .bool | .str, .str
  | .range, .range | .anyobj, .anyobj | .fn, .fn => true
  | .list a, .list b => Ty.beq a b
  | .opt a, .opt b => Ty.beq a b
  | .obj a, .obj b => TyFields.beq a b
  | _, _ => false
def TyFields.beq : TyFields → TyFields → Bool
  | .nil, .nil => true
  | .cons k a as, .cons k' b bs => k == k' && Ty.beq a b && TyFields.beq as bs
  | _, _ => false
end

instance : BEq Ty := ⟨Ty.beq⟩

/-! ## Finite-map view of field lists -/

namespace Vals
def length : Vals → Nat
  | .nil => 0
  | .cons _ vs => vs.length + 1
def get? : Vals → Nat → Option Val
  | .nil, _ => .none
  | .cons v _, 0 => .some v
  | .cons _ vs, n + 1 => vs.get? n
def toList : Vals → List Val
  | .nil => []
  | .cons v vs => v :: vs.toList
def ofList : List Val → Vals
  | [] => .nil
  | v :: vs => .cons v (ofList vs)
def append : Vals → Vals → Vals
  | .nil, ys => ys
  | .cons v vs, ys => .cons v (vs.append ys)
def all (p : Val → Bool) : Vals → Bool
  | .nil => true
  | .cons v vs => p v && vs.all p
end Vals

namespace Fields
def lookup : Fields → String → Option Val
  | .nil, _ => .none
  | .cons k v fs, q => if k = q then .some v else fs.lookup q
def keys : Fields → List String
  | .nil => []
  | .cons k _ fs => k :: fs.keys
def length : Fields → Nat
  | .nil => 0
  | .cons _ _ fs => fs.length + 1
def hasKey (fs : Fields) (q : String) : Bool := fs.keys.contains q
def toList : Fields → List (String × Val)
  | .nil => []
  | .cons k v fs => (k, v) :: fs.toList
def ofList : List (String × Val) → Fields
  | [] => .nil
  | (k, v) :: r => .cons k v (ofList r)
end Fields

namespace TyFields
def lookup : TyFields → String → Option Ty
  | .nil, _ => .none
  | .cons k t fs, q => if k = q then .some t else fs.lookup q
def keys : TyFields → List String
  | .nil => []
  | .cons k _ fs => k :: fs.keys
def hasKey (fs : TyFields) (q : String) : Bool := fs.keys.contains q
def toList : TyFields → List (String × Ty)
  | .nil => []
  | .cons k t fs => (k, t) :: fs.toList
def ofList : List (String × Ty) → TyFields
  | [] => .nil
  | (k, t) :: r => .cons k t (ofList r)
end TyFields

/-- No repeated element (Boolean, so that the driver and `decide` can run it). -/
def nodupKeys : List String → Bool
  | [] => true
  | k :: ks => !ks.contains k && nodupKeys ks

/-! ## Representation invariant: every object, at any depth, is a finite map -/

mutual
def Val.wf : Val → Bool
  | .list xs => Vals.wf xs
  | .obj fs => nodupKeys fs.keys && Fields.wf fs
  | .anyobj fs => nodupKeys fs.keys && Fields.wf fs
  | .some v => Val.wf v
  | _ => true
def Vals.wf : Vals → Bool
  | .nil => true
  | .cons v vs => Val.wf v && Vals.wf vs
def Fields.wf : Fields → Bool
  | .nil => true
  | .cons _ v fs => Val.wf v && Fields.wf fs
end

mutual
def Ty.wf : Ty → Bool
  | .list t => Ty.wf t
  | .opt t => Ty.wf t
  | .obj fs => nodupKeys fs.keys && TyFields.wf fs
  | _ => true
def TyFields.wf : TyFields → Bool
  | .nil => true
  | .cons _ t fs => Ty.wf t && TyFields.wf fs
end

/-! Data values: no function inside (functions are never equal to anything, not even themselves,
and never cross the typed boundary; the properties quantify over data). -/
mutual
def Val.data : Val → Bool
  | .fn => false
  | .list xs => Vals.data xs
  | .obj fs => Fields.data fs
  | .anyobj fs => Fields.data fs
  | .some v => Val.data v
  | _ => true
def Vals.data : Vals → Bool
  | .nil => true
  | .cons v vs => Val.data v && Vals.data vs
def Fields.data : Fields → Bool
  | .nil => true
  | .cons _ v fs => Val.data v && Fields.data fs
end

/-! ## Equality (`IsEqual` of every value kind, post-fix)

Every kind first compares the kinds (X14), lists compare lengths and then element-wise, objects
and any-objects compare the number of fields and then look every left field up on the right
(X2), ranges compare both bounds and the inclusive flag (X3), functions are never equal. -/

mutual
def Val.isEqual : Val → Val → Bool
  | .null, w => match w with | .null => true | _ => false
  | .int a, w => match w with | .int b => a == b | _ => false
  | .flt a, w => match w with | .flt b => a == b | _ => false
  | .bool a, w => match w with | .bool b => a == b | _ => false
  | .str a, w => match w with | .str b => a == b | _ => false
  | .list xs, w => match w with | .list ys => xs.length == ys.length && Vals.isEqual xs ys | _ => false
  | .obj fs, w => match w with | .obj gs => fs.length == gs.length && Fields.isEqualIn fs gs | _ => false
  | .anyobj fs, w => match w with | .anyobj gs => fs.length == gs.length && Fields.isEqualIn fs gs | _ => false
  | .none, w => match w with | .none => true | _ => false
  | .some a, w => match w with | .some b => Val.isEqual a b | _ => false
  | .range a b i, w => match w with | .range a' b' i' => a == a' && b == b' && i == i' | _ => false
  | .fn, _ => false
/-- element-wise on equally long lists -/
def Vals.isEqual : Vals → Vals → Bool
  | .nil, _ => true
  | .cons a as, w => match w with | .cons b bs => Val.isEqual a b && Vals.isEqual as bs | .nil => false
/-- every field on the left has an equal field of that name on the right -/
def Fields.isEqualIn : Fields → Fields → Bool
  | .nil, _ => true
  | .cons k a as, gs => (match gs.lookup k with | .some b => Val.isEqual a b | .none => false) && Fields.isEqualIn as gs
end

/-! ## Conformance: the value deeply has the type -/

mutual
def conforms : Ty → Val → Bool
  | .any, _ => true
  | .null, v => match v with | .null => true | _ => false
  | .int, v => match v with | .int _ => true | _ => false
  | .float, v => match v with | .flt _ => true | _ => false
  | .bool, v => match v with | .bool _ => true | _ => false
  | .str, v => match v with | .str _ => true | _ => false
  | .range, v => match v with | .range .. => true | _ => false
  | .anyobj, v => match v with | .anyobj _ => true | _ => false
  | .fn, _ => false   -- functions never cross the boundary (`DeepCast` refuses them)
  | .list t, v => match v with | .list xs => xs.all (fun x => conforms t x) | _ => false
  | .opt t, v => match v with | .none => true | .some x => conforms t x | _ => false
  | .obj tfs, v => match v with
      | .obj fs => conformsFields tfs fs && fs.keys.all (fun k => tfs.hasKey k)
      | _ => false
/-- every declared field is present and conforms -/
def conformsFields : TyFields → Fields → Bool
  | .nil, _ => true
  | .cons k t rest, fs => (match fs.lookup k with | .some x => conforms t x | .none => false) && conformsFields rest fs
end
