import Hms.Value.Val
/-!
# Structural content of a value

The specification side of "`==` holds exactly when the values have the same structural content":
a value denotes a tree in which an object is a *finite map* from field names to contents (a
function `String → Option Content`), so field order and representation do not matter, while kind
tags, list order, option layers, both range bounds and the inclusive flag do.
-/
namespace Hms.Value

inductive Content where
  | null
  | int (i : BitVec 64)
  | flt (d : Dy)
  | bool (b : Bool)
  | str (s : String)
  | none
  | some (c : Content)
  | range (a b : BitVec 64) (incl : Bool)
  | fn
  | list (xs : List Content)
  | obj (f : String → Option Content)
  | anyobj (f : String → Option Content)

mutual
def content : Val → Content
  | .null => .null
  | .int i => .int i
  | .flt d => .flt d
  | .bool b => .bool b
  | .str s => .str s
  | .none => .none
  | .some v => .some (content v)
  | .range a b i => .range a b i
  | .fn => .fn
  | .list xs => .list (contentList xs)
  | .obj fs => .obj (contentFields fs)
  | .anyobj fs => .anyobj (contentFields fs)
def contentList : Vals → List Content
  | .nil => []
  | .cons v vs => content v :: contentList vs
def contentFields : Fields → String → Option Content
  | .nil => fun _ => .none
  | .cons k v fs => fun q => if k = q then .some (content v) else contentFields fs q
end

end Hms.Value
