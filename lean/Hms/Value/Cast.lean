import Hms.Value.Val
/-!
# The dynamic-to-static cast (`DeepCast` / `deepCastRecursive`), post-fix

`castAll allow T v path` mirrors `runtime/value/cast.go` and `interpreter/value/cast.go` after
X1 (a value wrapped into `?T` is itself cast to `T`, `null` becomes `none`), X21 (interpreter:
`any`, any-object, object → any-object) and X22 (path components keep their kind).

Go iterates the fields of an object *value* in map order and returns the first failure it meets,
so which of several offending fields is reported is not a function of the input. The model
therefore returns, on failure, the list of **all** errors some iteration order can report
(`Except (List CastErr) Val`); `deepCast` picks the first. The theorems about error paths
quantify over the whole list.
-/
namespace Hms.Value

inductive PathComp where
  | field (k : String)
  | index (i : Nat)
  | optInner
  deriving DecidableEq, Repr, Inhabited

abbrev Path := List PathComp

inductive ErrClass where
  | incompatible
  | unexpectedField (k : String)
  | missingField (k : String)
  deriving DecidableEq, Repr, Inhabited

structure CastErr where
  cls : ErrClass
  path : Path
  deriving DecidableEq, Repr, Inhabited

abbrev CastRes := Except (List CastErr) Val

def incompatible (p : Path) : CastRes := .error [⟨.incompatible, p⟩]

/-- Elements in order; the first failing element ends the loop (its errors are the result). -/
def castVals (f : Nat → Val → CastRes) : Nat → Vals → Except (List CastErr) Vals
  | _, .nil => .ok .nil
  | i, .cons x xs =>
    match f i x with
    | .error es => .error es
    | .ok x' =>
      match castVals f (i + 1) xs with
      | .error es => .error es
      | .ok xs' => .ok (.cons x' xs')

/-- Result of walking the declared fields: errors of nested casts (any of them may be the one Go
meets first), the converted fields, and the first declared field the value lacks. -/
structure FieldsRes where
  errs : List CastErr
  out : Fields
  missing : Option String

def boolToInt (b : Bool) : BitVec 64 := if b then 1#64 else 0#64
def boolToFlt (b : Bool) : Dy := if b then ⟨1, 0⟩ else ⟨0, 0⟩
/-- IEEE-754 round-to-nearest-even of a natural number to 53 significant bits (`float64(int64)`). -/
def roundTo53 (n : Nat) : Nat :=
  let bits := Nat.log2 n + 1
  if bits ≤ 53 then n
  else
    let shift := bits - 53
    let q := n >>> shift
    let r := n % 2 ^ shift
    let half := 2 ^ (shift - 1)
    let q' := if r > half ∨ (r = half ∧ q % 2 = 1) then q + 1 else q
    q' <<< shift

def intToFlt (i : BitVec 64) : Dy :=
  let n := i.toInt
  Dy.ofInt (if n < 0 then -(roundTo53 n.natAbs : Int) else (roundTo53 n.natAbs : Int))
def fltToInt (d : Dy) : BitVec 64 := BitVec.ofInt 64 d.trunc

mutual
def castAll (allow : Bool) : Ty → Val → Path → CastRes
  | .any, v, _ => .ok v
  | .opt t, v, p =>
    match v with
    | .none => .ok .none
    | .some x => (castAll allow t x (p ++ [.optInner])).map .some
    | .null => .ok .none
    | v => (castAll allow t v p).map .some
  | .null, v, p => match v with | .null => .ok v | _ => incompatible p
  | .str, v, p => match v with | .str _ => .ok v | _ => incompatible p
  | .range, v, p => match v with | .range .. => .ok v | _ => incompatible p
  | .fn, _, p => incompatible p
  | .bool, v, p =>
    match v with
    | .bool _ => .ok v
    | .int i => if allow then .ok (.bool (i != 0#64)) else incompatible p
    | .flt d => if allow then .ok (.bool (!d.isZero)) else incompatible p
    | _ => incompatible p
  | .int, v, p =>
    match v with
    | .int _ => .ok v
    | .bool b => if allow then .ok (.int (boolToInt b)) else incompatible p
    | .flt d => if allow then .ok (.int (fltToInt d)) else incompatible p
    | _ => incompatible p
  | .float, v, p =>
    match v with
    | .flt _ => .ok v
    | .bool b => if allow then .ok (.flt (boolToFlt b)) else incompatible p
    | .int i => if allow then .ok (.flt (intToFlt i)) else incompatible p
    | _ => incompatible p
  | .anyobj, v, p =>
    match v with
    | .anyobj _ => .ok v
    | .obj fs => .ok (.anyobj fs)
    | _ => incompatible p
  | .list t, v, p =>
    match v with
    | .list xs => (castVals (fun i x => castAll allow t x (p ++ [.index i])) 0 xs).map .list
    | _ => incompatible p
  | .obj tfs, v, p =>
    match v with
    | .obj fs =>
      let r := castFields allow tfs fs p
      let unexpected := (fs.keys.filter (fun k => !tfs.hasKey k)).map (fun k => CastErr.mk (.unexpectedField k) p)
      match r.errs ++ unexpected, r.missing with
      | [], .none => .ok (.obj r.out)
      | [], .some k => .error [⟨.missingField k, p⟩]
      | es, _ => .error es
    | _ => incompatible p
def castFields (allow : Bool) : TyFields → Fields → Path → FieldsRes
  | .nil, _, _ => ⟨[], .nil, .none⟩
  | .cons k t rest, fs, p =>
    let r := castFields allow rest fs p
    match fs.lookup k with
    | .none => ⟨r.errs, r.out, .some k⟩
    | .some x =>
      match castAll allow t x (p ++ [.field k]) with
      | .ok x' => ⟨r.errs, .cons k x' r.out, r.missing⟩
      | .error es => ⟨es ++ r.errs, r.out, r.missing⟩
end

/-- `DeepCast(val, typ, span, allowCasts)`: the converted value or one error. -/
def deepCast (allow : Bool) (v : Val) (T : Ty) : Except CastErr Val :=
  match castAll allow T v [] with
  | .ok v' => .ok v'
  | .error es => .error (es.headD ⟨.incompatible, []⟩)

/-! ## The permitted conversions, written from the property statement

"admitted only if it conforms to T after the permitted scalar conversions (bool/int/float among
each other, object to any-object, a T into an option of T)". `allow` says whether the scalar
conversions are permitted at this boundary (`as` permits them; annotated `let`, host arguments
and return values do not). -/

def isScalarNum : Val → Bool
  | .bool _ | .int _ | .flt _ => true
  | _ => false

mutual
def convertible (allow : Bool) : Ty → Val → Bool
  | .any, _ => true
  | .null, v => match v with | .null => true | _ => false
  | .str, v => match v with | .str _ => true | _ => false
  | .range, v => match v with | .range .. => true | _ => false
  | .fn, _ => false
  | .bool, v => match v with | .bool _ => true | v => allow && isScalarNum v
  | .int, v => match v with | .int _ => true | v => allow && isScalarNum v
  | .float, v => match v with | .flt _ => true | v => allow && isScalarNum v
  | .anyobj, v => match v with | .anyobj _ => true | .obj _ => true | _ => false
  | .list t, v => match v with | .list xs => xs.all (fun x => convertible allow t x) | _ => false
  | .opt t, v =>
    match v with
    | .none => true                       -- the empty option of any option type
    | .null => true                       -- `null` read as the empty option
    | .some x => convertible allow t x    -- an option of a convertible payload
    | v => convertible allow t v          -- "a T into an option of T"
  | .obj tfs, v =>
    match v with
    | .obj fs => convertibleFields allow tfs fs && fs.keys.all (fun k => tfs.hasKey k)
    | _ => false
def convertibleFields (allow : Bool) : TyFields → Fields → Bool
  | .nil, _ => true
  | .cons k t rest, fs =>
    (match fs.lookup k with | .some x => convertible allow t x | .none => false) && convertibleFields allow rest fs
end

/-! ## What an error path addresses -/

/-- Option layers of a type. -/
def Ty.stripOpt : Ty → Ty
  | .opt t => t.stripOpt
  | t => t

/-- The type a value is cast against after "a T into an option of T" (which adds no path
component): for a value that is neither an option nor `null`, the option layers are skipped. -/
def peel (v : Val) (T : Ty) : Ty :=
  match v with
  | .some _ | .none | .null => T
  | _ => T.stripOpt

/-- The (value, type) pair a path leads to (the type already looked through as in `peel`). -/
def subAt : Path → Val → Ty → Option (Val × Ty)
  | [], v, T => .some (v, peel v T)
  | c :: rest, v, T =>
    match c, v, peel v T with
    | .optInner, .some x, .opt t => subAt rest x t
    | .index i, .list xs, .list t => (xs.get? i).bind (fun x => subAt rest x t)
    | .field k, .obj fs, .obj tfs =>
      match fs.lookup k, tfs.lookup k with
      | .some x, .some t => subAt rest x t
      | _, _ => .none
    | _, _, _ => .none

/-- Does the kind of the value fit the (peeled) type at all, children aside? -/
def rootFits (allow : Bool) : Ty → Val → Bool
  | .any, _ => true
  | .null, .null => true
  | .str, .str _ => true
  | .range, .range .. => true
  | .bool, v => (match v with | .bool _ => true | v => allow && isScalarNum v)
  | .int, v => (match v with | .int _ => true | v => allow && isScalarNum v)
  | .float, v => (match v with | .flt _ => true | v => allow && isScalarNum v)
  | .anyobj, .anyobj _ => true
  | .anyobj, .obj _ => true
  | .list _, .list _ => true
  | .obj _, .obj _ => true
  | .opt _, .none => true
  | .opt _, .null => true
  | .opt _, .some _ => true
  | _, _ => false

/-- What an error of class `c` reported at a (value, type) pair claims about that pair. -/
def offends (allow : Bool) : ErrClass → Val → Ty → Bool
  | .incompatible, v, T => !rootFits allow T v
  | .unexpectedField k, .obj fs, .obj tfs => fs.hasKey k && !tfs.hasKey k
  | .missingField k, .obj fs, .obj tfs => tfs.hasKey k && !fs.hasKey k
  | _, _, _ => false

end Hms.Value
