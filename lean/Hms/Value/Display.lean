import Hms.Value.Val
/-!
# `Display()` of every value kind — VM library and interpreter library

Both are modelled (post-fix: X10 made the interpreter's range rendering the VM's, V21 made the
field order of objects the sorted key order in both). They are separate definitions on purpose:
`display_agree` (C13) is a theorem about two mirrors, and each is tied to its own Go package.

Floats: Go prints `%v` = shortest round-trip decimal digits; for the dyadic class of `Val.lean`
(≤ 15 significant digits) these are the digits of the exact decimal expansion, which is what
`Dy.display` computes (with Go's switch to exponent notation).
-/
namespace Hms.Value

def natDigits (n : Nat) : String := toString n

def stripTrailingZeros (cs : List Char) : List Char :=
  (cs.reverse.dropWhile (· == '0')).reverse

def zeros (n : Nat) : String := String.ofList (List.replicate n '0')

/-- Go `%v` of a float64 (`strconv.FormatFloat(x, 'g', -1, 64)`): the shortest digits that
round-trip — for the dyadic class the exact decimal expansion — in plain notation when the
decimal exponent is in [-4, 6), otherwise as `d.ddde±XX`. -/
def Dy.display (d0 : Dy) : String :=
  let d := d0.norm
  if d.m = 0 then "0" else
  let sign := if d.m < 0 then "-" else ""
  let scaled := d.m.natAbs * 5 ^ d.e          -- |x| = scaled / 10^e
  let all := (natDigits scaled).toList
  let digs := stripTrailingZeros all
  let dp : Int := (all.length : Int) - d.e    -- number of integer digits (may be ≤ 0)
  let exp : Int := dp - 1
  if exp < -4 ∨ exp ≥ 6 then
    let mant := match digs with
      | [] => "0"
      | [c] => String.singleton c
      | c :: rest => String.singleton c ++ "." ++ String.ofList rest
    let ea := exp.natAbs
    let es := (if ea < 10 then "0" else "") ++ natDigits ea
    sign ++ mant ++ "e" ++ (if exp < 0 then "-" else "+") ++ es
  else if dp ≤ 0 then
    sign ++ "0." ++ zeros (-dp).toNat ++ String.ofList digs
  else if digs.length ≤ dp.toNat then
    sign ++ String.ofList digs ++ zeros (dp.toNat - digs.length)
  else
    sign ++ String.ofList (digs.take dp.toNat) ++ "." ++ String.ofList (digs.drop dp.toNat)

def intDisplay (i : BitVec 64) : String := toString i.toInt

/-- insertion sort of rendered fields by key (Go: `sort.Strings(keys)`, bytewise = code point order) -/
def insertField (kv : String × String) : List (String × String) → List (String × String)
  | [] => [kv]
  | x :: xs => if kv.1 < x.1 then kv :: x :: xs else x :: insertField kv xs

def sortFields : List (String × String) → List (String × String)
  | [] => []
  | x :: xs => insertField x (sortFields xs)

def joinWith (sep : String) : List String → String
  | [] => ""
  | [x] => x
  | x :: xs => x ++ sep ++ joinWith sep xs

def indentNested (s : String) : String := s.replace "\n" "\n    "

def objFrame (fields : List String) : String := "{\n    " ++ joinWith ",\n    " fields ++ "\n}"

mutual
def displayVM : Val → String
  | .null => "null"
  | .int i => intDisplay i
  | .flt d => d.display
  | .bool b => if b then "true" else "false"
  | .str s => s
  | .list xs => "[" ++ joinWith ", " (displayVMList xs) ++ "]"
  | .obj fs => objFrame ((sortFields (displayVMFields fs)).map fun kv => kv.1 ++ ": " ++ indentNested kv.2)
  | .anyobj fs => objFrame ((sortFields (displayVMFields fs)).map fun kv => kv.1 ++ ": " ++ kv.2)
  | .none => "none"
  | .some v => "Some(" ++ displayVM v ++ ")"
  | .range a b _ => intDisplay a ++ ".." ++ intDisplay b
  | .fn => "<builtin-function>"
def displayVMList : Vals → List String
  | .nil => []
  | .cons v vs => displayVM v :: displayVMList vs
def displayVMFields : Fields → List (String × String)
  | .nil => []
  | .cons k v fs => (k, displayVM v) :: displayVMFields fs
end

mutual
def displayTree : Val → String
  | .null => "null"
  | .int i => intDisplay i
  | .flt d => d.display
  | .bool b => if b then "true" else "false"
  | .str s => s
  | .list xs => "[" ++ joinWith ", " (displayTreeList xs) ++ "]"
  | .obj fs => objFrame ((sortFields (displayTreeFields fs)).map fun kv => kv.1 ++ ": " ++ indentNested kv.2)
  | .anyobj fs => objFrame ((sortFields (displayTreeFields fs)).map fun kv => kv.1 ++ ": " ++ kv.2)
  | .none => "none"
  | .some v => "Some(" ++ displayTree v ++ ")"
  -- post-X10: `Display` of start and end, as the VM does (was `fmt.Sprintf("%d..%d", *start, *end)` = "{1}..{5}")
  | .range a b _ => intDisplay a ++ ".." ++ intDisplay b
  | .fn => "<builtin-function>"
def displayTreeList : Vals → List String
  | .nil => []
  | .cons v vs => displayTree v :: displayTreeList vs
def displayTreeFields : Fields → List (String × String)
  | .nil => []
  | .cons k v fs => (k, displayTree v) :: displayTreeFields fs
end

/-- The interpreter's range rendering before X10, kept for the counterexample. -/
def displayTreeRangePreFix (a b : BitVec 64) : String := "{" ++ intDisplay a ++ "}..{" ++ intDisplay b ++ "}"

end Hms.Value
