import Hms.Value.Val
/-!
# `Display()` of every value kind — VM library and interpreter library

Both are modelled (post-fix: X10 made the interpreter's range rendering the VM's, V21 made the
field order of objects the sorted key order in both). They are separate definitions on purpose:
`display_agree` (C13) is a theorem about two mirrors, and each is tied to its own Go package.

Floats: Go prints `%v` = shortest round-trip decimal; for the dyadic class of `Val.lean`
(≤ 15 significant digits, magnitude in [1e-4, 1e21)) that is the exact decimal expansion, which
is what `Dy.display` computes.
-/
namespace Hms.Value

def natDigits (n : Nat) : String := toString n

/-- exact decimal expansion of `m / 2^e` (normalised first) -/
def Dy.display (d0 : Dy) : String :=
  let d := d0.norm
  let sign := if d.m < 0 then "-" else ""
  let a := d.m.natAbs
  if d.e = 0 then sign ++ natDigits a
  else
    let scaled := a * 5 ^ d.e            -- a / 2^e = scaled / 10^e
    let ip := scaled / 10 ^ d.e
    let fp := scaled % 10 ^ d.e
    let fs := natDigits fp
    let pad := String.ofList (List.replicate (d.e - fs.length) '0')
    sign ++ natDigits ip ++ "." ++ pad ++ fs

def intDisplay (i : BitVec 64) : String := toString i.toInt

/-- insertion sort of rendered fields by key (Go: `sort.Strings(keys)`, bytewise = code point order) -/
def insertField (kv : String × String) : List (String × String) → List (String × String)
  | [] => [kv]
  | x :: xs => if kv.1 < x.1 then kv :: x :: xs else x :: insertField kv xs

def sortFields : List (String × String) → List (String × String)
  | [] => []
  | x :: xs => insertField x (sortFields xs)

def joinWith (sep : String) : List String → String
  | [] => ""
  | [x] => x
  | x :: xs => x ++ sep ++ joinWith sep xs

def indentNested (s : String) : String := s.replace "\n" "\n    "

def objFrame (fields : List String) : String := "{\n    " ++ joinWith ",\n    " fields ++ "\n}"

mutual
def displayVM : Val → String
  | .null => "null"
  | .int i => intDisplay i
  | .flt d => d.display
  | .bool b => if b then "true" else "false"
  | .str s => s
  | .list xs => "[" ++ joinWith ", " (displayVMList xs) ++ "]"
  | .obj fs => objFrame ((sortFields (displayVMFields fs)).map fun kv => kv.1 ++ ": " ++ indentNested kv.2)
  | .anyobj fs => objFrame ((sortFields (displayVMFields fs)).map fun kv => kv.1 ++ ": " ++ kv.2)
  | .none => "none"
  | .some v => "Some(" ++ displayVM v ++ ")"
  | .range a b _ => intDisplay a ++ ".." ++ intDisplay b
  | .fn => "<builtin-function>"
def displayVMList : Vals → List String
  | .nil => []
  | .cons v vs => displayVM v :: displayVMList vs
def displayVMFields : Fields → List (String × String)
  | .nil => []
  | .cons k v fs => (k, displayVM v) :: displayVMFields fs
end

mutual
def displayTree : Val → String
  | .null => "null"
  | .int i => intDisplay i
  | .flt d => d.display
  | .bool b => if b then "true" else "false"
  | .str s => s
  | .list xs => "[" ++ joinWith ", " (displayTreeList xs) ++ "]"
  | .obj fs => objFrame ((sortFields (displayTreeFields fs)).map fun kv => kv.1 ++ ": " ++ indentNested kv.2)
  | .anyobj fs => objFrame ((sortFields (displayTreeFields fs)).map fun kv => kv.1 ++ ": " ++ kv.2)
  | .none => "none"
  | .some v => "Some(" ++ displayTree v ++ ")"
  -- post-X10: `Display` of start and end, as the VM does (was `fmt.Sprintf("%d..%d", *start, *end)` = "{1}..{5}")
  | .range a b _ => intDisplay a ++ ".." ++ intDisplay b
  | .fn => "<builtin-function>"
def displayTreeList : Vals → List String
  | .nil => []
  | .cons v vs => displayTree v :: displayTreeList vs
def displayTreeFields : Fields → List (String × String)
  | .nil => []
  | .cons k v fs => (k, displayTree v) :: displayTreeFields fs
end

/-- The interpreter's range rendering before X10, kept for the counterexample. -/
def displayTreeRangePreFix (a b : BitVec 64) : String := "{" ++ intDisplay a ++ "}..{" ++ intDisplay b ++ "}"

end Hms.Value
