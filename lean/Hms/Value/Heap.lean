import Hms.Value.Cast
/-!
# Cells: the sharing model behind `Clone()` and in-place mutation

The Go runtime's values live in `*Value` cells: a list holds a slice of cell pointers, an object a
map from names to cell pointers, an option one cell pointer; `Opcode_Assign` overwrites a cell
(`*dest = *src`), the list builtins replace the slice of the list they are called on. This file
models exactly that: a heap is a list of nodes (address = index, allocation appends), a node
refers to other cells by address. `clone` follows `Clone()` of every kind of `runtime/value`
(a fresh cell for every cell reachable from the original); `applyOp` follows the builtins
`push/push_front/pop/pop_front/insert/remove/concat`, index assignment, field assignment
(`*fields[k] = v` for objects, `set` for any-objects) and plain assignment to a reached cell.

Simplification (stated, not hidden): a list cell holds its element cells directly — the Go
`ValueList` holds a pointer to a slice that two cells can share after `a = b`; the mutation
sequences of C13 act on a clone and on freshly built argument values, where no two cells share
a slice, so the extra level is not observable there.
-/
namespace Hms.Value.Heap
open Hms.Value

inductive Node where
  | leaf (v : Val)                       -- null, int, float, bool, string, none, range, function
  | list (cells : List Nat)
  | obj (fields : List (String × Nat))
  | anyobj (fields : List (String × Nat))
  | some (cell : Nat)
  deriving Inhabited

abbrev Heap := List Node

def Node.refs : Node → List Nat
  | .leaf _ => []
  | .list cells => cells
  | .obj fields => fields.map (·.2)
  | .anyobj fields => fields.map (·.2)
  | .some c => [c]

/-! ## Building a value into fresh cells -/

mutual
def alloc : Val → Heap → Heap × Nat
  | .list xs, h => let r := allocVals xs h; (r.1 ++ [.list r.2], r.1.length)
  | .obj fs, h => let r := allocFields fs h; (r.1 ++ [.obj r.2], r.1.length)
  | .anyobj fs, h => let r := allocFields fs h; (r.1 ++ [.anyobj r.2], r.1.length)
  | .some v, h => let r := alloc v h; (r.1 ++ [.some r.2], r.1.length)
  | v, h => (h ++ [.leaf v], h.length)
def allocVals : Vals → Heap → Heap × List Nat
  | .nil, h => (h, [])
  | .cons v vs, h => let r := alloc v h; let rs := allocVals vs r.1; (rs.1, r.2 :: rs.2)
def allocFields : Fields → Heap → Heap × List (String × Nat)
  | .nil, h => (h, [])
  | .cons k v fs, h => let r := alloc v h; let rs := allocFields fs r.1; (rs.1, (k, r.2) :: rs.2)
end

/-! ## Reading the value a cell denotes (fuel bounds the depth) -/

def read : Nat → Heap → Nat → Option Val
  | 0, _, _ => .none
  | fuel + 1, h, a =>
    match h[a]? with
    | .none => .none
    | .some (.leaf v) => .some v
    | .some (.some c) => (read fuel h c).map .some
    | .some (.list cells) => (cells.mapM (read fuel h)).map fun vs => .list (Vals.ofList vs)
    | .some (.obj fields) =>
      (fields.mapM fun kc => (read fuel h kc.2).map fun v => (kc.1, v)).map fun kvs => .obj (Fields.ofList kvs)
    | .some (.anyobj fields) =>
      (fields.mapM fun kc => (read fuel h kc.2).map fun v => (kc.1, v)).map fun kvs => .anyobj (Fields.ofList kvs)

/-! ## `Clone()` -/

/-- thread the heap through a list of cells -/
def mapThread (f : Heap → Nat → Option (Heap × Nat)) : Heap → List Nat → Option (Heap × List Nat)
  | h, [] => .some (h, [])
  | h, c :: cs =>
    match f h c with
    | .none => .none
    | .some (h1, c') =>
      match mapThread f h1 cs with
      | .none => .none
      | .some (h2, cs') => .some (h2, c' :: cs')

def mapThreadFields (f : Heap → Nat → Option (Heap × Nat)) : Heap → List (String × Nat) → Option (Heap × List (String × Nat))
  | h, [] => .some (h, [])
  | h, (k, c) :: cs =>
    match f h c with
    | .none => .none
    | .some (h1, c') =>
      match mapThreadFields f h1 cs with
      | .none => .none
      | .some (h2, cs') => .some (h2, (k, c') :: cs')

/-- `(*v).Clone()`: every kind builds a new cell; containers clone their element cells first. -/
def clone : Nat → Heap → Nat → Option (Heap × Nat)
  | 0, _, _ => .none
  | fuel + 1, h, a =>
    match h[a]? with
    | .none => .none
    | .some (.leaf v) => .some (h ++ [.leaf v], h.length)
    | .some (.some c) =>
      match clone fuel h c with
      | .none => .none
      | .some (h1, c') => .some (h1 ++ [.some c'], h1.length)
    | .some (.list cells) =>
      match mapThread (clone fuel) h cells with
      | .none => .none
      | .some (h1, cells') => .some (h1 ++ [.list cells'], h1.length)
    | .some (.obj fields) =>
      match mapThreadFields (clone fuel) h fields with
      | .none => .none
      | .some (h1, fields') => .some (h1 ++ [.obj fields'], h1.length)
    | .some (.anyobj fields) =>
      match mapThreadFields (clone fuel) h fields with
      | .none => .none
      | .some (h1, fields') => .some (h1 ++ [.anyobj fields'], h1.length)

/-! ## In-place mutation -/

inductive OpKind where
  | push (v : Val)
  | pushFront (v : Val)
  | pop
  | popFront
  | insert (i : Int) (v : Val)
  | remove (i : Int)
  | concat (v : Val)
  | setIndex (i : Int) (v : Val)
  | setField (k : String) (v : Val)
  | assign (v : Val)

structure Op where
  path : Path
  kind : OpKind

def lookupCell (fields : List (String × Nat)) (k : String) : Option Nat :=
  (fields.find? (·.1 == k)).map (·.2)

/-- the cell a path leads to -/
def walk (h : Heap) : Nat → Path → Option Nat
  | a, [] => if a < h.length then .some a else .none
  | a, c :: rest =>
    match h[a]?, c with
    | .some (.list cells), .index i => (cells[i]?).bind fun c => walk h c rest
    | .some (.obj fields), .field k => (lookupCell fields k).bind fun c => walk h c rest
    | .some (.anyobj fields), .field k => (lookupCell fields k).bind fun c => walk h c rest
    | .some (.some c), .optInner => walk h c rest
    | _, _ => .none

/-- Go index wrapping: a negative index counts from the end -/
def wrapIndex (i : Int) (len : Nat) : Int := if i < 0 then i + len else i

def upsert (fields : List (String × Nat)) (k : String) (c : Nat) : List (String × Nat) :=
  if fields.any (·.1 == k) then fields.map fun kc => if kc.1 == k then (k, c) else kc else fields ++ [(k, c)]

/-- One mutation applied at the cell `path` leads to from `root`; `false` = not applicable
(the harness skips it too). New values are always built into fresh cells. -/
def applyOp (h : Heap) (root : Nat) (op : Op) : Heap × Bool :=
  match walk h root op.path with
  | .none => (h, false)
  | .some c =>
    match op.kind, h[c]? with
    | .push v, .some (.list cells) => let r := alloc v h; (r.1.set c (.list (cells ++ [r.2])), true)
    | .pushFront v, .some (.list cells) => let r := alloc v h; (r.1.set c (.list (r.2 :: cells)), true)
    | .pop, .some (.list cells) => (h.set c (.list cells.dropLast), true)
    | .popFront, .some (.list cells) => (h.set c (.list (cells.drop 1)), true)
    | .insert i v, .some (.list cells) =>
      let idx := wrapIndex i cells.length
      if idx < 0 ∨ idx > cells.length then (h, false)
      else let r := alloc v h; (r.1.set c (.list (cells.take idx.toNat ++ [r.2] ++ cells.drop idx.toNat)), true)
    | .remove i, .some (.list cells) =>
      let idx := wrapIndex i cells.length
      if idx < 0 ∨ idx ≥ cells.length then (h, false)
      else (h.set c (.list (cells.take idx.toNat ++ cells.drop (idx.toNat + 1))), true)
    | .concat v, .some (.list cells) =>
      let r := alloc v h
      match r.1[r.2]? with
      | .some (.list more) => (r.1.set c (.list (cells ++ more)), true)
      | _ => (h, false)
    | .setIndex i v, .some (.list cells) =>
      let idx := wrapIndex i cells.length
      if idx < 0 ∨ idx ≥ cells.length then (h, false)
      else
        match cells[idx.toNat]? with
        | .none => (h, false)
        | .some dest => let r := alloc v h; (r.1.set dest (r.1[r.2]?.getD (.leaf .null)), true)
    | .setField k v, .some (.obj fields) =>
      match lookupCell fields k with
      | .none => (h, false)
      | .some dest => let r := alloc v h; (r.1.set dest (r.1[r.2]?.getD (.leaf .null)), true)
    | .setField k v, .some (.anyobj fields) => let r := alloc v h; (r.1.set c (.anyobj (upsert fields k r.2)), true)
    | .assign v, .some _ => let r := alloc v h; (r.1.set c (r.1[r.2]?.getD (.leaf .null)), true)
    | _, _ => (h, false)

def applyOps (h : Heap) (root : Nat) : List Op → Heap
  | [] => h
  | op :: ops => applyOps (applyOp h root op).1 root ops

def countApplied (h : Heap) (root : Nat) : List Op → Nat
  | [] => 0
  | op :: ops => let r := applyOp h root op; (if r.2 then 1 else 0) + countApplied r.1 root ops

structure MutResult where
  applied : Nat
  orig : Option Val
  clone : Option Val

/-- what `hv val (mut …)` does: build, clone, mutate one side, show both -/
def cloneAndMutate (onOrig : Bool) (v : Val) (ops : List Op) : MutResult :=
  let r := alloc v []
  match clone (r.1.length + 1) r.1 r.2 with
  | .none => ⟨0, .none, .none⟩
  | .some (h1, c) =>
    let target := if onOrig then r.2 else c
    let h2 := applyOps h1 target ops
    ⟨countApplied h1 target ops, read (h2.length + 1) h2 r.2, read (h2.length + 1) h2 c⟩

end Hms.Value.Heap
