import Hms.Conc.Protocol
import Hms.Conc.Invoke
/-!
# Spawned cores: argument passing and an executable interleaving semantics

* `spawnPop` / `callPush`: `compileCallExpr` pushes the arguments last-to-first, `Opcode_Spawn`
  pops them while *prepending* to its argument slice, `spawnCoreInternal` pre-pushes that slice
  onto the new core's stack, the callee pops one operand per parameter.
* `Sys`: the protocol state plus, per running core, the list of actions it still has to perform
  (print a line, spawn a core running program `j`, write / read a global, fail). `sysStep k`
  lets the `k`-th enabled agent (Wait or a core) take one step; every such step is a transition
  of `Hms.Conc.Step` (or changes the output only) — proved in `HmsProofs/Lemmas/ConcSpawn.lean`.
-/
namespace Hms.Conc

/-- `for i := len-1 … 0 { compileExpr(arg i) }`: afterwards the first argument is on top. -/
def callPush {V : Type} (st : List V) (args : List V) : List V := args.reverse.foldl push st

/-- `for i < n { args = append([]Value{pop()}, args...) }` -/
def spawnPop {V : Type} : Nat → List V → List V → List V × List V
  | 0, st, acc => (acc, st)
  | _ + 1, [], acc => (acc, [])
  | n + 1, v :: st, acc => spawnPop n st (v :: acc)

inductive Act where
  | print (line : String)
  | spawn (prog : Nat)
  | gwrite
  | gread
  | fail
  | gunlock   -- internal: the second half of a global write
  deriving Repr, DecidableEq

structure Sys where
  proto : PState
  /-- remaining actions of every core that has not signalled yet -/
  todo : List (Nat × List Act)
  progs : List (List Act)
  out : List String

def Sys.todoOf (s : Sys) (c : Nat) : List Act :=
  match s.todo.find? (fun e => e.1 == c) with
  | some e => e.2
  | none => []

def Sys.setTodo (s : Sys) (c : Nat) (acts : List Act) : Sys :=
  { s with todo := s.todo.map fun e => if e.1 == c then (c, acts) else e }

def Sys.dropTodo (s : Sys) (c : Nat) : Sys :=
  { s with todo := s.todo.filter fun e => e.1 != c }

/-- Start: the host spawns the entry core (program 0) and calls `Wait`. -/
def Sys.start (progs : List (List Act)) : Sys :=
  { proto := { PState.init.spawn with wait := .top }, todo := [(0, progs.headD [])], progs := progs, out := [] }

/-- One step of core `c` (`none`: the core cannot move now — blocked on a lock — or is gone). -/
def coreStep (cfg : Cfg) (s : Sys) (c : Nat) : Option Sys :=
  match s.proto.core c with
  | .running .idle =>
    if s.proto.cancelled then
      -- the next poll sees the cancellation
      some { (s.dropTodo c) with proto := { s.proto with core := upd s.proto.core c (sent cfg (some .terminate)) } }
    else
      match s.todoOf c with
      | [] => some { (s.dropTodo c) with proto := { s.proto with core := upd s.proto.core c (sent cfg none) } }
      | .print l :: rest => some { (s.setTodo c rest) with out := s.out ++ [l] }
      | .spawn j :: rest =>
        if s.proto.lockFree then
          let s1 := s.setTodo c rest
          some { s1 with proto := s.proto.spawn, todo := s1.todo ++ [(s.proto.n, s.progs.getD j [])] }
        else none
      | .gwrite :: _ =>
        if s.proto.gWriter.isNone && (List.range s.proto.n).all (fun d => !s.proto.gReader d) then
          some { s with proto := { s.proto with core := upd s.proto.core c (.running .wr), gWriter := some c } }
        else none
      | .gread :: _ =>
        if s.proto.gWriter.isNone then
          some { s with proto := { s.proto with core := upd s.proto.core c (.running .rd),
                                                gReader := upd s.proto.gReader c true } }
        else none
      | .fail :: _ =>
        some { (s.dropTodo c) with proto := { s.proto with core := upd s.proto.core c (sent cfg (some .fatal)) } }
      | .gunlock :: rest => some (s.setTodo c rest)
  | .running .wr =>
    match s.todoOf c with
    | .gwrite :: rest =>
      some { (s.setTodo c (.gunlock :: rest)) with proto := { s.proto with gVersion := s.proto.gVersion + 1 } }
    | rest =>
      some { (s.setTodo c (rest.drop 1)) with
             proto := { s.proto with core := upd s.proto.core c (.running .idle), gWriter := none } }
  | .running .rd =>
    some { (s.setTodo c ((s.todoOf c).drop 1)) with
           proto := { s.proto with core := upd s.proto.core c (.running .idle), gReader := upd s.proto.gReader c false } }
  | _ => none

/-- The agents that can move: `none` = Wait, `some c` = core `c`. -/
def Sys.enabled (cfg : Cfg) (s : Sys) : List (Option Nat) :=
  (if (waitStep cfg s.proto).isSome then [none] else []) ++
    (s.todo.filterMap fun e => if (coreStep cfg s e.1).isSome then some (some e.1) else none)

def sysStep (cfg : Cfg) (s : Sys) (pick : Nat) : Option Sys :=
  let en := s.enabled cfg
  if en.isEmpty then none else
  match en.getD (pick % en.length) none with
  | none => (waitStep cfg s.proto).map fun p => { s with proto := p }
  | some c => coreStep cfg s c

/-- Run under a schedule (a list of picks) until `Wait` has returned or nobody can move. -/
def runSys (cfg : Cfg) : List Nat → Sys → Sys
  | [], s => s
  | k :: ks, s =>
    match s.proto.wait with
    | .returned _ => s
    | _ =>
      match sysStep cfg s k with
      | some s' => runSys cfg ks s'
      | none => s

def scheduleAux : Nat → Nat → List Nat → List Nat
  | 0, _, acc => acc.reverse
  | n + 1, x, acc =>
    let x' := (x * 1103515245 + 12345) % 2147483648
    scheduleAux n x' ((x' / 65536) :: acc)

/-- Linear congruential picks. -/
def schedule (seed n : Nat) : List Nat := scheduleAux n seed []

end Hms.Conc
