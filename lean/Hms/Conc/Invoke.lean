import Hms.Conc.Protocol
/-!
# Host invocations on one VM (`SpawnSync`, `SpawnAsync` + `Wait` + `HandleTermination`)

`invoke` mirrors `runtime/vm.go`: signature lookup and arity check, reversal of the arguments,
`spawnCore` (needs the cores write lock), pre-push of the reversed arguments onto the fresh
core's operand stack, `Core.Run` (first action: poll the cancellation context), the callee
(prologue pops one operand per declared parameter, then an abstract body given by an oracle:
a function of the bound parameters and the globals), the signal, `Wait` (the protocol model run
to its return) and `HandleTermination` (return value = top of the finished core's stack, checked
against the declared return type). Values `V` and the globals `G` are abstract: every theorem
holds for all value types and all bodies.

The operand stack is a list whose head is the top.
-/
namespace Hms.Conc

/-- What the callee's body does, as far as a host can see. -/
inductive CallRes (V : Type) where
  | ret (v : Option V)                       -- falls off its end / `return`; `some v` is pushed
  | fail (i : Intr) (kind msg : String)      -- fatal exception (incl. uncaught throw), exit
  deriving Repr, DecidableEq

structure BodyOut (V G : Type) where
  globals : G
  out : String
  res : CallRes V

/-- Declared signature, as far as the host layer uses it: number of (non-extracted)
parameters, and whether the declared return type carries a value (`HandleTermination` reads
nothing for `null`, `never` and unknown). -/
structure FnSig where
  params : Nat
  hasValue : Bool
  deriving Repr, DecidableEq

structure Prog (V G : Type) where
  sig : String → Option FnSig
  body : String → List V → G → BodyOut V G
  /-- `DeepCast(v, declared return type, allowCasts = false)` succeeds. -/
  typeOk : String → V → Bool

/-- The finished core as the host can inspect it afterwards. -/
structure CoreObs (V : Type) where
  stack : List V
  frames : Nat
  deriving Repr, DecidableEq

structure VMState (V G : Type) where
  proto : PState
  globals : G
  last : Option (CoreObs V)

inductive Result (V : Type) where
  | ret (v : Option V)
  | exc (core : Nat) (i : Intr) (kind msg : String)
  | blocked
  | hostPanic (why : String)
  deriving Repr, DecidableEq

structure Call (V : Type) where
  fn : String
  args : List V

def push {V : Type} (st : List V) (v : V) : List V := v :: st

/-- `for _, elem := range addToStack { core.push(elem) }` on an empty stack. -/
def prePush {V : Type} (xs : List V) : List V := xs.foldl push []

/-- `n` successive `pop`s (the `SetVarImm` prologue): the popped values in pop order, and the rest. -/
def popN {V : Type} : Nat → List V → List V × List V
  | 0, st => ([], st)
  | _ + 1, [] => ([], [])
  | n + 1, v :: st => let r := popN n st; (v :: r.1, r.2)

/-- `invertedArgs` of `SpawnSync`/`SpawnAsync`. -/
def invert {V : Type} (args : List V) : List V := args.reverse

def waitFuel (p : PState) : Nat := 3 * p.listed.length + 5

def VMState.init {V G : Type} (g : G) : VMState V G := { proto := PState.init, globals := g, last := none }

/-- Outcome of `Core.Run` for one host call on a fresh core: the signal, the finished core,
the globals, the output and the interrupt's texts. -/
structure CoreRunOut (V G : Type) where
  sig : Sig
  core : CoreObs V
  globals : G
  out : String
  kind : String
  msg : String

def runCore {V G : Type} (prog : Prog V G) (cancelled : Bool) (fn : String) (np : Nat) (stack0 : List V)
    (g : G) : CoreRunOut V G :=
  if cancelled then
    { sig := some .terminate, core := { stack := stack0, frames := 1 }, globals := g, out := "",
      kind := "-", msg := "context canceled" }
  else
    let b := popN np stack0
    let o := prog.body fn b.1 g
    match o.res with
    | .ret v =>
      { sig := none, core := { stack := (match v with | some x => push b.2 x | none => b.2), frames := 0 },
        globals := o.globals, out := o.out, kind := "", msg := "" }
    | .fail i kind msg =>
      { sig := some i, core := { stack := b.2, frames := 1 }, globals := o.globals, out := o.out,
        kind := kind, msg := msg }

/-- `HandleTermination` for a `nil` interrupt. -/
def handleTermination {V G : Type} (prog : Prog V G) (fn : String) (sg : FnSig) (core : CoreObs V) : Result V :=
  if sg.hasValue then
    match core.stack with
    | [] => .hostPanic "index out of range"
    | v :: _ => if prog.typeOk fn v then .ret (some v) else .hostPanic "return type assertion failed"
  else .ret none

/-- `spawnCore`, the core's run up to its signal `sg`, and the host entering `Wait`. -/
def syncStart (cfg : Cfg) (p : PState) (sg : Sig) : PState :=
  { p.spawn with core := upd p.spawn.core p.n (sent cfg sg), wait := .top }

/-- One host invocation. Returns the new VM state, the result and the output. -/
def invoke {V G : Type} (cfg : Cfg) (prog : Prog V G) (s : VMState V G) (c : Call V) :
    VMState V G × Result V × String :=
  match prog.sig c.fn with
  | none => (s, .hostPanic "function does not exist", "")
  | some sg =>
    if c.args.length ≠ sg.params then (s, .hostPanic "illegal call: argument count", "") else
    if !s.proto.lockFree then (s, .blocked, "") else
    let r := runCore prog s.proto.cancelled c.fn sg.params (prePush (invert c.args)) s.globals
    let p2 := syncStart cfg s.proto r.sig
    let p3 := waitRun cfg (waitFuel p2) p2
    let s' : VMState V G := { proto := p3, globals := r.globals, last := some r.core }
    match p3.waitResult with
    | none => (s', .blocked, r.out)
    | some none => (s', handleTermination prog c.fn sg r.core, r.out)
    | some (some (cn, i)) => (s', .exc cn i r.kind r.msg, r.out)

/-- A history of invocations on one VM. -/
def runHistory {V G : Type} (cfg : Cfg) (prog : Prog V G) : VMState V G → List (Call V) →
    VMState V G × List (Result V × String)
  | s, [] => (s, [])
  | s, c :: cs =>
    let r := invoke cfg prog s c
    let rest := runHistory cfg prog r.1 cs
    (rest.1, r.2 :: rest.2)

/-- No core listed, cores lock free, `Wait` not running. -/
def VMState.quiescent {V G : Type} (s : VMState V G) : Prop :=
  s.proto.listed = [] ∧ s.proto.leaked = 0 ∧ s.proto.wait.active = false

def Result.isFailure {V : Type} : Result V → Bool
  | .exc .. => true
  | _ => false

def Result.isRet {V : Type} : Result V → Bool
  | .ret _ => true
  | _ => false

/-- The result without the number of the core that raised (core numbers are a counter). -/
def Result.anon {V : Type} : Result V → Result V
  | .exc _ i k m => .exc 0 i k m
  | r => r

end Hms.Conc
