import Hms.Conc.Protocol
/-!
# The run loop of one core and of the tree-walking interpreter, as far as cancellation goes

`run` mirrors `Core.Run` (`runtime/core.go`): while the call stack is not empty — poll the
cancellation context, check the limits, then execute up to `quantum` instructions; an
instruction that raises a *normal exception* is dispatched to the innermost handler (or becomes a
fatal `UncaughtThrow`), every other interrupt (termination from a polling builtin, fatal, exit)
ends the core at once. The instruction semantics is an arbitrary function (`Machine.step`), so the
theorems hold whatever the program does (loops, calls, handlers).

Time is counted in steps of the core (instructions executed and frames popped by the
"instruction pointer past the end" path); the context is cancelled from time `T` on.

`treeRun` mirrors the interpreter: `checkCancelation` at the start of every statement and every
expression (`interpreter/statement.go`, `expression.go`), `tryExpression` catches only normal
exceptions.
-/
namespace Hms.Conc

/-- What an instruction (or a node evaluation) can raise. -/
inductive Raised where
  | throw_
  | intr (i : Intr)
  deriving DecidableEq, Repr

inductive StepOut (σ : Type) where
  | next (s : σ)
  | raise (r : Raised) (s : σ)

structure Machine (σ : Type) where
  /-- `len(CallStack) == 0` -/
  empty : σ → Bool
  /-- the instruction pointer is past the end of the current function -/
  frameEnd : σ → Bool
  popFrame : σ → σ
  /-- `runInstruction`; the flag tells a polling builtin whether the context is cancelled -/
  step : σ → Bool → StepOut σ
  /-- `len(ExceptionCatchLabels)` -/
  handlers : σ → Nat
  /-- jump to the innermost catch label, push the error object -/
  catch_ : σ → σ
  /-- operand-stack or call-stack limit exceeded (checked right after the poll) -/
  overLimit : σ → Bool
  /-- an observation recorded at every poll (the driver counts prints) -/
  obs : σ → Nat

structure RunOut where
  sig : Sig
  t : Nat
  polls : Nat
  trace : List Nat
  deriving Repr, DecidableEq

inductive CycleOut (σ : Type) where
  | again (s : σ) (t : Nat)
  | done (sg : Sig) (t : Nat)

/-- The inner `for c := 0; c < quantum; c++` loop with `c` iterations left. -/
def inner {σ : Type} (m : Machine σ) (T : Nat) : Nat → Nat → σ → CycleOut σ
  | 0, t, s => .again s t
  | c + 1, t, s =>
    if m.empty s then .done none t
    else if m.frameEnd s then .again (m.popFrame s) (t + 1)
    else
      match m.step s (decide (T ≤ t)) with
      | .next s' => inner m T c (t + 1) s'
      | .raise .throw_ s' =>
        if m.handlers s' = 0 then .done (some .fatal) (t + 1) else inner m T c (t + 1) (m.catch_ s')
      | .raise (.intr i) _ => .done (some i) (t + 1)

/-- `Core.Run`: `fuel` bounds the number of outer iterations; `none` = fuel exhausted. -/
def run {σ : Type} (m : Machine σ) (quantum T : Nat) : Nat → Nat → Nat → List Nat → σ → Option RunOut
  | 0, _, _, _, _ => none
  | fuel + 1, t, p, tr, s =>
    if m.empty s then some ⟨none, t, p, tr⟩
    else if T ≤ t then some ⟨some .terminate, t, p + 1, tr ++ [m.obs s]⟩
    else if m.overLimit s then some ⟨some .fatal, t, p + 1, tr ++ [m.obs s]⟩
    else
      match inner m T quantum t s with
      | .again s' t' => run m quantum T fuel t' (p + 1) (tr ++ [m.obs s]) s'
      | .done sg t' => some ⟨sg, t', p + 1, tr ++ [m.obs s]⟩

/-- The interpreter: one poll per node visit (statement or expression). -/
structure TreeMachine (σ : Type) where
  finished : σ → Bool
  visit : σ → Bool → StepOut σ
  tryDepth : σ → Nat
  catch_ : σ → σ
  obs : σ → Nat

def treeRun {σ : Type} (m : TreeMachine σ) (T : Nat) : Nat → Nat → List Nat → σ → Option RunOut
  | 0, _, _, _ => none
  | fuel + 1, t, tr, s =>
    if m.finished s then some ⟨none, t, t, tr⟩
    else if T ≤ t then some ⟨some .terminate, t, t + 1, tr ++ [m.obs s]⟩
    else
      match m.visit s false with
      | .next s' => treeRun m T fuel (t + 1) (tr ++ [m.obs s]) s'
      | .raise .throw_ s' =>
        if m.tryDepth s' = 0 then some ⟨some .fatal, t + 1, t + 1, tr ++ [m.obs s]⟩
        else treeRun m T fuel (t + 1) (tr ++ [m.obs s]) (m.catch_ s')
      | .raise (.intr i) _ => some ⟨some i, t + 1, t + 1, tr ++ [m.obs s]⟩

/-! ## A concrete machine for the correspondence run: straight-line listings with calls -/

/-- Instruction classes of a compiled listing without jumps. -/
inductive Op where
  | plain
  | print
  | call (f : String)
  | ret
  deriving Repr, DecidableEq

structure Listing where
  fns : List (String × List Op)

def Listing.code (l : Listing) (f : String) : List Op :=
  match l.fns.find? (fun e => e.1 == f) with
  | some e => e.2
  | none => []

structure LState where
  frames : List (String × Nat)
  prints : Nat
  steps : Nat
  deriving Repr

def listingMachine (l : Listing) : Machine LState where
  empty := fun s => s.frames.isEmpty
  frameEnd := fun s => match s.frames with
    | (f, ip) :: _ => decide ((l.code f).length ≤ ip)
    | [] => false
  popFrame := fun s => { s with frames := s.frames.tail, steps := s.steps + 1 }
  step := fun s _ => match s.frames with
    | (f, ip) :: rest =>
      match (l.code f)[ip]? with
      | some .plain => .next { s with frames := (f, ip + 1) :: rest, steps := s.steps + 1 }
      | some .print => .next { frames := (f, ip + 1) :: rest, prints := s.prints + 1, steps := s.steps + 1 }
      | some (.call g) => .next { s with frames := (g, 0) :: (f, ip + 1) :: rest, steps := s.steps + 1 }
      | some .ret => .next { s with frames := rest, steps := s.steps + 1 }
      | none => .next { s with frames := rest, steps := s.steps + 1 }
    | [] => .next s
  handlers := fun _ => 0
  catch_ := fun s => s
  overLimit := fun _ => false
  obs := fun s => s.prints

end Hms.Conc
