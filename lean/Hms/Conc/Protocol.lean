/-!
# The Wait / cores / signal-channel / cores-lock / globals-mutex protocol

Transition system that mirrors `runtime/vm.go` (`spawnCore`, `spawnCoreInternal`, `Wait`),
the tail of `Core.Run` in `runtime/core.go` (every exit path sends exactly one value on the
core's signal channel) and the two globals instructions of `runtime/execute.go`
(`GetGlobImm`: RLock / read / RUnlock, `SetGlobImm`: Lock / write / Unlock).

* A core goroutine is `running` until it sends its signal (`nil` = finished, or an interrupt).
  With a buffered channel (capacity 1, after V19) the send never blocks: `signalled`.
  With the old unbuffered channel the goroutine stays in `sending` until `Wait` receives.
* `VM.Cores.Cores` is `listed`; its RW lock is held in read mode exactly while `Wait` is in a
  `scan` phase; write-locked sections (`spawnCore`, the two in `Wait`) touch nothing but the list
  and are therefore single atomic transitions. `leaked` counts read locks that were never
  released (V18: `Wait` used to return from the interrupt path holding one).
* The globals mutex is modelled by its holders (`gWriter`, `gReader`).

`Cfg.fixed` is the code after the fixes V18, V19, H1; the other configurations exist for the
counterexample theorems only.
-/
namespace Hms.Conc

/-- Interrupt classes a core can signal (`value.VmInterruptKind`, exceptions that reach the
host are always fatal: an uncaught `throw` is turned into a fatal `UncaughtThrow`). -/
inductive Intr where
  | terminate | fatal | exit
  deriving DecidableEq, Repr, Inhabited

/-- What travels over a signal channel: `none` = `nil` = the core finished normally. -/
abbrev Sig := Option Intr

/-- Position of a running core relative to the globals mutex. -/
inductive GPc where
  | idle | rd | wr
  deriving DecidableEq, Repr

inductive CoreSt where
  | absent
  | running (g : GPc)
  | sending (s : Sig)
  | signalled (s : Sig)
  | received (s : Sig)
  deriving DecidableEq, Repr

def CoreSt.isLive : CoreSt → Bool
  | .running _ | .sending _ | .signalled _ => true
  | _ => false

/-- Program counter of the goroutine that executes `VM.Wait`. -/
inductive WaitPc where
  | idle
  | top
  | scan (rest : List Nat)
  | rmWantLock (c : Nat) (stale : List Nat) (rest : List Nat)
  | rmWantRLock (rest : List Nat)
  | cancelWantLock (c : Nat) (i : Intr)
  | sleeping
  | returned (r : Option (Nat × Intr))
  deriving DecidableEq, Repr

def WaitPc.holdsR : WaitPc → Bool
  | .scan _ => true
  | _ => false

def WaitPc.active : WaitPc → Bool
  | .idle | .returned _ => false
  | _ => true

structure Cfg where
  buffered : Bool
  leakRLock : Bool
  staleFilter : Bool
  deriving DecidableEq, Repr

/-- The protocol as it is after V18 (no leaked read lock), V19 (buffered signal channels)
and H1 (core list shortened under the write lock). -/
def Cfg.fixed : Cfg := ⟨true, false, false⟩

def upd {α : Type} (f : Nat → α) (i : Nat) (v : α) : Nat → α := fun j => if j = i then v else f j

@[simp] theorem upd_same {α : Type} (f : Nat → α) (i : Nat) (v : α) : upd f i v i = v := by simp [upd]
theorem upd_other {α : Type} (f : Nat → α) (i j : Nat) (v : α) (h : j ≠ i) : upd f i v j = f j := by
  simp [upd, h]

structure PState where
  n : Nat
  core : Nat → CoreSt
  listed : List Nat
  leaked : Nat
  cancelled : Bool
  dropped : Bool
  wait : WaitPc
  gWriter : Option Nat
  gReader : Nat → Bool
  gVersion : Nat

def PState.init : PState :=
  { n := 0, core := fun _ => .absent, listed := [], leaked := 0, cancelled := false, dropped := false,
    wait := .idle, gWriter := none, gReader := fun _ => false, gVersion := 0 }

/-- Can `spawnCore` take the write lock on the core list? -/
def PState.lockFree (s : PState) : Bool := !s.wait.holdsR && s.leaked == 0

/-- `spawnCore` + `go core.Run(..)`: a new running core, appended to the list under the write lock. -/
def PState.spawn (s : PState) : PState :=
  { s with n := s.n + 1, core := upd s.core s.n (.running .idle), listed := s.listed ++ [s.n] }

/-- The state of a core goroutine right after `SignalHandle <- sg`. -/
def sent (cfg : Cfg) (sg : Sig) : CoreSt := if cfg.buffered then .signalled sg else .sending sg

/-- One step of the goroutine executing `Wait` (`none`: not in `Wait`, or blocked on the lock). -/
def waitStep (cfg : Cfg) (s : PState) : Option PState :=
  match s.wait with
  | .idle | .returned _ => none
  | .top => some { s with wait := .scan s.listed }
  | .sleeping => some { s with wait := .top }
  | .scan [] =>
    if s.listed.isEmpty then some { s with wait := .returned none } else some { s with wait := .sleeping }
  | .scan (c :: rest) =>
    let recv (sg : Sig) : PState :=
      match sg with
      | none => { s with core := upd s.core c (.received none),
                         wait := .rmWantLock c (s.listed.filter (· != c)) rest }
      | some i => { s with core := upd s.core c (.received (some i)), wait := .cancelWantLock c i }
    match s.core c with
    | .signalled sg => some (recv sg)
    | .sending sg => some (recv sg)
    | _ => some { s with wait := .scan rest }
  | .rmWantLock c stale rest =>
    if s.leaked = 0 then
      some { s with listed := if cfg.staleFilter then stale else s.listed.filter (· != c),
                    wait := .rmWantRLock rest }
    else none
  | .rmWantRLock rest => some { s with wait := .scan rest }
  | .cancelWantLock c i =>
    if s.leaked = 0 then
      some { s with cancelled := true, dropped := true, listed := [],
                    leaked := if cfg.leakRLock then 1 else 0, wait := .returned (some (c, i)) }
    else none

/-- All interleavings: the transitions of the host, of every core and of `Wait`. -/
inductive Step (cfg : Cfg) : PState → PState → Prop where
  | hostSpawn (s : PState) : s.lockFree = true → Step cfg s s.spawn
  | coreSpawn (s : PState) (c : Nat) : s.core c = .running .idle → s.lockFree = true → Step cfg s s.spawn
  | hostCancel (s : PState) : Step cfg s { s with cancelled := true }
  | coreFinish (s : PState) (c : Nat) (sg : Sig) : s.core c = .running .idle →
      (sg = some .terminate → s.cancelled = true) →
      Step cfg s { s with core := upd s.core c (sent cfg sg) }
  | gRLock (s : PState) (c : Nat) : s.core c = .running .idle → s.gWriter = none →
      Step cfg s { s with core := upd s.core c (.running .rd), gReader := upd s.gReader c true }
  | gRUnlock (s : PState) (c : Nat) : s.core c = .running .rd →
      Step cfg s { s with core := upd s.core c (.running .idle), gReader := upd s.gReader c false }
  | gLock (s : PState) (c : Nat) : s.core c = .running .idle → s.gWriter = none →
      (∀ d, s.gReader d = false) →
      Step cfg s { s with core := upd s.core c (.running .wr), gWriter := some c }
  | gWrite (s : PState) (c : Nat) : s.core c = .running .wr →
      Step cfg s { s with gVersion := s.gVersion + 1 }
  | gUnlock (s : PState) (c : Nat) : s.core c = .running .wr →
      Step cfg s { s with core := upd s.core c (.running .idle), gWriter := none }
  | waitStart (s : PState) : s.wait.active = false → Step cfg s { s with wait := .top }
  | wait (s s' : PState) : waitStep cfg s = some s' → Step cfg s s'

inductive Reach (cfg : Cfg) : PState → Prop where
  | init : Reach cfg PState.init
  | step (s s' : PState) : Reach cfg s → Step cfg s s' → Reach cfg s'

/-- `Wait` running alone for at most `fuel` of its own steps. -/
def waitRun (cfg : Cfg) : Nat → PState → PState
  | 0, s => s
  | fuel + 1, s =>
    match waitStep cfg s with
    | some s' => waitRun cfg fuel s'
    | none => s

/-- `Wait`'s answer. -/
def PState.waitResult (s : PState) : Option (Option (Nat × Intr)) :=
  match s.wait with
  | .returned r => some r
  | _ => none

end Hms.Conc
