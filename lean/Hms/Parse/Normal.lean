import Hms.Parse.Pratt
/-!
# Normal trees

`normal prec p t`: `t` is a tree that the precedence-climbing loop, entered at binding
power `p`, rebuilds from its own flattening. `rightSpineOK prec q t`: no operator on the
right spine of `t` would give up its right operand to a following operator of left
power `q` (a range literal parses its right operand at power 0 and therefore gives way to
nothing: it absorbs whatever follows).
-/
namespace Hms.Pratt
open Hms

def headLbp (prec : Prec) : List TokKind → Nat
  | [] => 0
  | k :: _ => (prec k).1

def rightSpineOK (prec : Prec) (q : Nat) : Tree → Bool
  | .bin _ o r => decide ((prec o).2 ≥ q) && rightSpineOK prec q r
  | .asg _ o r => decide ((prec o).2 ≥ q) && rightSpineOK prec q r
  | .pre _ e => decide (prefixBp ≥ q) && rightSpineOK prec q e
  | .range _ _ b => decide (q = 0) && rightSpineOK prec q b
  | _ => true

mutual
def normal (prec : Prec) (p : Nat) : Tree → Bool
  | .atom k => isAtom k
  | .grp e => normal prec 0 e
  | .pre op e => isPrefix op && normal prec prefixBp e
  | .bin l o r =>
      isInfix o && decide ((prec o).1 > p) && normal prec p l && rightSpineOK prec (prec o).1 l
        && normal prec (prec o).2 r
  | .asg l o r =>
      isAssign o && decide ((prec o).1 > p) && normal prec p l && rightSpineOK prec (prec o).1 l
        && validAssignTarget l && normal prec (prec o).2 r
  | .call f args =>
      decide ((prec .lParen).1 > p) && normal prec p f && rightSpineOK prec (prec .lParen).1 f
        && normalArgs prec args
  | .index b i =>
      decide ((prec .lBracket).1 > p) && normal prec p b && rightSpineOK prec (prec .lBracket).1 b
        && normal prec 0 i
  | .member b op name =>
      isMemberOp op && (name == .identifier || name == .underscore) && decide ((prec op).1 > p)
        && normal prec p b && rightSpineOK prec (prec op).1 b
  | .cast b ty =>
      (ty == .identifier) && decide ((prec .as).1 > p) && normal prec p b
        && rightSpineOK prec (prec .as).1 b
  | .range a _ b =>
      decide ((prec .doubleDot).1 > p) && normal prec p a && rightSpineOK prec (prec .doubleDot).1 a
        && normal prec 0 b
  | .list xs => normalArgs prec xs
def normalArgs (prec : Prec) : Args → Bool
  | .nil => true
  | .cons x xs => normal prec 0 x && normalArgs prec xs
end

/-- The facts about closing tokens and operator classes that the loop relies on: closers and
separators never continue an expression, and every token with a non-zero left power is one of
the kinds the loop's `switch` handles. -/
def TableSane (prec : Prec) : Prop :=
  (prec .rParen).1 = 0 ∧ (prec .rBracket).1 = 0 ∧ (prec .comma).1 = 0

end Hms.Pratt
