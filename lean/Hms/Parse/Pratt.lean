import Hms.Lex.Token
/-!
# Expression parser model (precedence climbing)

Mirrors `parser.expression`, `prefixExpression`, `infixExpression`, `assignExpression`,
`rangeLiteral`, `callArgs`, `indexExpression`, `memberExpression`, `castExpression`,
`groupedExpression` and `listLiteral` of `homescript/parser/expression.go`, over token
*kinds*. The binding-power table is a parameter (`prec`), instantiated with the table
regenerated from `TokenKind.Prec()`.

Operands that the expression level treats as opaque (blocks, `if`, `match`, `try`, `fn`
literals, `new { }`, `spawn`, `$singleton`) are outside this model: their first token is
reported as `Err.unsupported`, and the correspondence run never generates them.
A cast type is a single identifier token.
-/
namespace Hms.Pratt
open Hms

abbrev Prec := TokKind → Nat × Nat

mutual
inductive Tree where
  | atom (k : TokKind)
  | grp (e : Tree)
  | pre (op : TokKind) (e : Tree)
  | bin (l : Tree) (op : TokKind) (r : Tree)
  | asg (l : Tree) (op : TokKind) (r : Tree)
  | call (f : Tree) (args : Args)
  | index (b : Tree) (i : Tree)
  | member (b : Tree) (op : TokKind) (name : TokKind)
  | cast (b : Tree) (ty : TokKind)
  | range (a : Tree) (incl : Bool) (b : Tree)
  | list (xs : Args)
inductive Args where
  | nil
  | cons (x : Tree) (xs : Args)
end

inductive Err where
  | fuel
  | syntax
  | unsupported
  deriving DecidableEq, Repr

/-- Single-token operands (`literal` and `identExpression`). -/
def isAtom : TokKind → Bool
  | .identifier | .int | .float | .true_ | .false_ | .string | .null | .none_ => true
  | _ => false

def isPrefix : TokKind → Bool
  | .not_ | .minus | .questionMark => true
  | _ => false

/-- The `case` list of infix operators in `expression`'s loop. -/
def isInfix : TokKind → Bool
  | .plus | .minus | .multiply | .divide | .modulo | .power | .shiftLeft | .shiftRight
  | .bitOr | .bitAnd | .bitXor | .or_ | .and_ | .equal | .notEqual | .lessThan
  | .lessThanEqual | .greaterThan | .greaterThanEqual => true
  | _ => false

def isAssign : TokKind → Bool
  | .assign | .plusAssign | .minusAssign | .multiplyAssign | .divideAssign | .moduloAssign
  | .powerAssign | .shiftLeftAssign | .shiftRightAssign | .bitOrAssign | .bitAndAssign
  | .bitXorAssign => true
  | _ => false

def isMemberOp : TokKind → Bool
  | .dot | .arrow | .tildeArrow => true
  | _ => false

/-- Operands whose first token starts a construct this model does not cover. -/
def isOpaqueStart : TokKind → Bool
  | .lCurly | .if_ | .match_ | .try_ | .spawn | .new | .fn_ | .dollarSymbol => true
  | _ => false

/-- `assignExpression` accepts only these left-hand sides. -/
def validAssignTarget : Tree → Bool
  | .atom .identifier | .index _ _ | .member _ _ _ | .cast _ _ => true
  | _ => false

/-- The binding power used for a prefix operand (`self.expression(29)`). -/
def prefixBp : Nat := 29

abbrev Res (α : Type) := Except Err (α × List TokKind)

mutual
/-- `Parser.expression(p)`. -/
def parseE (prec : Prec) : (fuel : Nat) → (p : Nat) → List TokKind → Res Tree
  | 0, _, _ => .error .fuel
  | fuel+1, p, ts =>
    match ts with
    | [] => .error .syntax
    | k :: rest =>
      if isAtom k then loop prec fuel p (.atom k) rest
      else if k == .lParen then
        match parseE prec fuel 0 rest with
        | .ok (e, .rParen :: rest') => loop prec fuel p (.grp e) rest'
        | .ok _ => .error .syntax
        | .error e => .error e
      else if isPrefix k then
        match parseE prec fuel prefixBp rest with
        | .ok (e, rest') => loop prec fuel p (.pre k e) rest'
        | .error e => .error e
      else if k == .lBracket then
        match parseArgs prec fuel .rBracket rest with
        | .ok (xs, rest') => loop prec fuel p (.list xs) rest'
        | .error e => .error e
      else if isOpaqueStart k then .error .unsupported
      else .error .syntax
/-- The `for left > prec` loop of `Parser.expression`. -/
def loop (prec : Prec) : (fuel : Nat) → (p : Nat) → Tree → List TokKind → Res Tree
  | 0, _, _, _ => .error .fuel
  | fuel+1, p, lhs, ts =>
    match ts with
    | [] => .ok (lhs, [])
    | k :: rest =>
      if (prec k).1 > p then
        if k == .doubleDot then
          let (incl, rest1) := match rest with
            | .assign :: r => (true, r)
            | r => (false, r)
          match parseE prec fuel 0 rest1 with
          | .ok (e, rest') => loop prec fuel p (.range lhs incl e) rest'
          | .error e => .error e
        else if isInfix k then
          match parseE prec fuel (prec k).2 rest with
          | .ok (r, rest') => loop prec fuel p (.bin lhs k r) rest'
          | .error e => .error e
        else if isAssign k then
          match parseE prec fuel (prec k).2 rest with
          | .ok (r, rest') =>
            if validAssignTarget lhs then loop prec fuel p (.asg lhs k r) rest'
            else .error .syntax
          | .error e => .error e
        else if k == .lParen then
          match parseArgs prec fuel .rParen rest with
          | .ok (xs, rest') => loop prec fuel p (.call lhs xs) rest'
          | .error e => .error e
        else if k == .lBracket then
          match parseE prec fuel 0 rest with
          | .ok (i, .rBracket :: rest') => loop prec fuel p (.index lhs i) rest'
          | .ok _ => .error .syntax
          | .error e => .error e
        else if isMemberOp k then
          match rest with
          | .identifier :: rest' => loop prec fuel p (.member lhs k .identifier) rest'
          | .underscore :: rest' => loop prec fuel p (.member lhs k .underscore) rest'
          | _ => .error .syntax
        else if k == .as then
          match rest with
          | .identifier :: rest' => loop prec fuel p (.cast lhs .identifier) rest'
          | _ => .error .unsupported
        else .error .syntax
      else .ok (lhs, ts)
/-- Comma-separated expressions up to the closing token, trailing comma allowed
(`callArgs`, `listLiteral`); the opening token has been consumed. -/
def parseArgs (prec : Prec) : (fuel : Nat) → (close : TokKind) → List TokKind → Res Args
  | 0, _, _ => .error .fuel
  | fuel+1, close, ts =>
    match ts with
    | [] => .error .syntax
    | k :: rest =>
      if k == close then .ok (.nil, rest)
      else
        match parseE prec fuel 0 ts with
        | .ok (e, .comma :: rest') =>
          match parseArgs prec fuel close rest' with
          | .ok (xs, rest'') => .ok (.cons e xs, rest'')
          | .error e => .error e
        | .ok (e, k' :: rest') => if k' == close then .ok (.cons e .nil, rest') else .error .syntax
        | .ok (_, []) => .error .syntax
        | .error e => .error e
end

mutual
/-- Token kinds of the canonical text of a tree (what the Go `String()` methods print, minus layout). -/
def flatten : Tree → List TokKind
  | .atom k => [k]
  | .grp e => [.lParen] ++ flatten e ++ [.rParen]
  | .pre op e => op :: flatten e
  | .bin l op r => flatten l ++ [op] ++ flatten r
  | .asg l op r => flatten l ++ [op] ++ flatten r
  | .call f args => flatten f ++ [.lParen] ++ flattenArgs args ++ [.rParen]
  | .index b i => flatten b ++ [.lBracket] ++ flatten i ++ [.rBracket]
  | .member b op name => flatten b ++ [op, name]
  | .cast b ty => flatten b ++ [.as, ty]
  | .range a incl b => flatten a ++ (if incl then [.doubleDot, .assign] else [.doubleDot]) ++ flatten b
  | .list xs => [.lBracket] ++ flattenArgs xs ++ [.rBracket]
def flattenArgs : Args → List TokKind
  | .nil => []
  | .cons x .nil => flatten x
  | .cons x xs => flatten x ++ [.comma] ++ flattenArgs xs
end

/-- Entry point with enough fuel for any input (see `HmsProofs.C05` for the bound). -/
def parseExpr (prec : Prec) (ts : List TokKind) : Res Tree :=
  parseE prec (2 * ts.length + 2) 0 ts

mutual
partial def Tree.render : Tree → String
  | .atom k => s!"{k.code}"
  | .grp e => s!"(grp {e.render})"
  | .pre op e => s!"(pre {op.code} {e.render})"
  | .bin l op r => s!"(bin {op.code} {l.render} {r.render})"
  | .asg l op r => s!"(asg {op.code} {l.render} {r.render})"
  | .call f args => s!"(call {f.render}{args.render})"
  | .index b i => s!"(index {b.render} {i.render})"
  | .member b op _ => s!"(member {op.code} {b.render})"
  | .cast b _ => s!"(cast {b.render})"
  | .range a incl b => s!"(range {incl} {a.render} {b.render})"
  | .list xs => s!"(list{xs.render})"
partial def Args.render : Args → String
  | .nil => ""
  | .cons x xs => s!" {x.render}{xs.render}"
end

end Hms.Pratt
