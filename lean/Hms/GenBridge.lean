import Hms.Lex.Token
import HmsGen.Tokens
/-! Functions over the regenerated tables (`HmsGen`), typed with the model's `TokKind`. -/
namespace Hms.Gen
open Hms

/-- `TokenKind.Prec()` as regenerated from the Go code: lookup by numeric code, `(0, 0)` otherwise. -/
def precOfCode (n : Nat) : Nat × Nat :=
  match HmsGen.precTable.find? (fun e => e.1 == n) with
  | some (_, l, r) => (l, r)
  | none => (0, 0)

def prec (k : TokKind) : Nat × Nat := precOfCode k.code

/-- `TokenKind.String()` as regenerated; `none` = the Go call panics. -/
def tokString (k : TokKind) : Option String :=
  match HmsGen.tokStrings.find? (fun e => e.1 == k.code) with
  | some (_, s) => s
  | none => none

end Hms.Gen
