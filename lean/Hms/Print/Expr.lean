import Hms.Parse.Normal
/-!
# Printer of the expression core

Mirrors the `String()` methods of the expression nodes of `parser/ast` and `analyzer/ast`
(`InfixExpression`, `PrefixExpression`, `AssignExpression`, `CallExpression`, `IndexExpression`,
`MemberExpression`, `CastExpression`, `RangeLiteralExpression`, `ListLiteralExpression`,
`GroupedExpression`, identifiers and literals) at the level of token kinds: every method prints
its children in source order, separated by the operator / punctuation tokens, and adds **no
parentheses of its own** — the only node that prints `(` … `)` is the grouped node. That is
exactly `Pratt.flatten`; the printer of the model is defined as that function, so that the
theorems of C07 about `flatten` are theorems about the printer.

Layout (spaces, line breaks, indentation) is not part of the model: the lexer drops it (C06).
-/
namespace Hms.Print
open Hms Hms.Pratt

/-- Token kinds of the text `String()` prints for an expression tree. -/
def printTree (t : Tree) : List TokKind := flatten t

/-- Token kinds of a printed argument list (`CallArgs.String()`, list literal elements). -/
def printArgs (xs : Args) : List TokKind := flattenArgs xs

theorem printTree_eq_flatten : printTree = flatten := rfl

/-- Parsing a printed tree (`hms.Parse(e.String())` restricted to the expression). -/
def reparse (prec : Prec) (t : Tree) : Res Tree := parseExpr prec (printTree t)

end Hms.Print
