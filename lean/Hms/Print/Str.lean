import Hms.Lex.Lexer
/-!
# Printer of string literals

Mirrors `ast.EscapeString` (parser/ast/expression.go, after the fix of finding R1), which both
`StringLiteralExpression.String()` and `AnalyzedStringLiteralExpression.String()` use, and which is
also applied to quoted object keys: a single left-to-right pass (`strings.NewReplacer`) that
replaces the backslash, the double quote, newline, tab and carriage return by their escape
sequences and copies every other character; the result is put between double quotes.
-/
namespace Hms.Print
open Hms

/-- What `EscapeString` writes for one character. -/
def escapeChar (c : Char) : List Char :=
  if c = '\\' then ['\\', '\\']
  else if c = '"' then ['\\', '"']
  else if c = '\n' then ['\\', 'n']
  else if c = '\t' then ['\\', 't']
  else if c = '\r' then ['\\', 'r']
  else [c]

/-- `EscapeString`. -/
def escape : List Char → List Char
  | [] => []
  | c :: cs => escapeChar c ++ escape cs

/-- `fmt.Sprintf("\"%s\"", EscapeString(value))`. -/
def quote (s : List Char) : List Char := '"' :: escape s ++ ['"']

end Hms.Print
