import Hms.Core.Sem
/-!
# Model of the optimizer

Mirrors `optimizer.Optimizer` (`homescript/optimizer/optimizer.go`): `Optimize` maps every
function of every module through `optimizeFn`, which rewrites the function's body with
`block`: the statements are kept up to and INCLUDING the first one whose recorded type is
`never`, every statement after it is dropped (dead-statement elimination); the trailing
expression of the block stays, the result type becomes `never` if a statement was found.
`optStatement` and `optExpression` are the identity, so nested blocks are not touched.
Imports, types, singletons, impl blocks and globals are copied.

The recorded type of a statement (`AnalyzedStatement.Type()`) is a parameter `isNever`: for
`return` / `break` / `continue` it is always `never`, for an expression statement it is the
recorded type of the expression, for the three loops it is the analyzer's `NeverTerminates` flag
(which the analysed AST of the model does not carry: the harness reports it, see `hv optimize`).
-/
namespace Hms.Print
open Hms.Core

/-- The statements up to and including the first one satisfying `isNever`. -/
def takeThrough (isNever : Stmt → Bool) : List Stmt → List Stmt
  | [] => []
  | s :: ss => if isNever s then [s] else s :: takeThrough isNever ss

/-- `Optimizer.block`. -/
def optimizeBlock (isNever : Stmt → Bool) : Block → Block
  | .mk sp _ stmts e =>
    let ty := if stmts.any isNever then Ty.never
      else match e with
        | some e => e.ty
        | none => .null
    .mk sp ty (takeThrough isNever stmts) e

/-- `Optimizer.optimizeFn`. -/
def optimizeFn (isNever : Stmt → Bool) (f : FnDef) : FnDef :=
  { f with body := optimizeBlock isNever f.body }

/-- `Optimizer.analyzeModule`. -/
def optimizeModule (isNever : Stmt → Bool) (m : Module) : Module :=
  { m with fns := m.fns.map (optimizeFn isNever) }

/-- `Optimizer.Optimize`. -/
def optimizeProgram (isNever : Stmt → Bool) (p : Program) : Program :=
  p.map (optimizeModule isNever)

/-- The part of the recorded type that the analysed AST of the model determines: `return`,
`break`, `continue`, and expression statements of recorded type `never`; `loopNever` supplies the
flag of the loop statements. -/
def recordedNever (loopNever : Stmt → Bool) : Stmt → Bool
  | .ret .. | .brk _ | .cont _ => true
  | .exprS _ e => match e.ty with
    | .never => true
    | _ => false
  | s@(.loopS ..) | s@(.whileS ..) | s@(.forS ..) => loopNever s
  | _ => false

/-- Number of statements `takeThrough` keeps, on the list of flags (driver: tie with the Go
optimizer, which reports the flags and the length of the optimised body). -/
def keptCount : List Bool → Nat
  | [] => 0
  | b :: bs => if b then 1 else 1 + keptCount bs

end Hms.Print
