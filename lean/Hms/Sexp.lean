/-! Minimal S-expressions: the line protocol shared with the Go harness (`harness/sexp.go`). -/
namespace Hms

inductive Sexp where
  | atom (s : String)
  | list (xs : List Sexp)
  deriving Repr, Inhabited, BEq

namespace Sexp

private def isDelim (c : Char) : Bool := c == ' ' || c == '(' || c == ')' || c == '\t'

/-- Tokenise into "(" , ")" and atoms. -/
def tokenize (s : String) : List String := Id.run do
  let mut out : Array String := #[]
  let mut cur : String := ""
  for c in s.toList do
    if isDelim c then
      if cur != "" then
        out := out.push cur
        cur := ""
      if c == '(' then out := out.push "("
      else if c == ')' then out := out.push ")"
    else
      cur := cur.push c
  if cur != "" then out := out.push cur
  return out.toList

/-- Stack-based reader (total, no recursion on input structure needed). -/
def parseToks (toks : List String) : Option Sexp := Id.run do
  -- stack of partially built lists (innermost first); `top` collects finished items at top level
  let mut stack : List (Array Sexp) := []
  let mut top : Array Sexp := #[]
  for t in toks do
    if t == "(" then
      stack := #[] :: stack
    else if t == ")" then
      match stack with
      | [] => return none
      | cur :: rest =>
        let item := Sexp.list cur.toList
        match rest with
        | [] => top := top.push item; stack := []
        | p :: rest' => stack := (p.push item) :: rest'
    else
      match stack with
      | [] => top := top.push (Sexp.atom t)
      | cur :: rest => stack := (cur.push (Sexp.atom t)) :: rest
  if !stack.isEmpty then return none
  if top.size == 1 then return some top[0]! else return none

def parse (s : String) : Option Sexp := parseToks (tokenize s)

partial def toString : Sexp → String
  | atom s => s
  | list xs => "(" ++ " ".intercalate (xs.map toString) ++ ")"

instance : ToString Sexp := ⟨Sexp.toString⟩

def tag : Sexp → String
  | list (atom t :: _) => t
  | _ => ""

def args : Sexp → List Sexp
  | list (_ :: xs) => xs
  | _ => []

def items : Sexp → List Sexp
  | list xs => xs
  | _ => []

def asNat? : Sexp → Option Nat
  | atom s => s.toNat?
  | _ => none

def asInt? : Sexp → Option Int
  | atom s => s.toInt?
  | _ => none

def asBool? : Sexp → Option Bool
  | atom "true" => some true
  | atom "false" => some false
  | _ => none

private def hexVal (c : Char) : Option Nat :=
  if '0' ≤ c ∧ c ≤ '9' then some (c.toNat - '0'.toNat)
  else if 'a' ≤ c ∧ c ≤ 'f' then some (c.toNat - 'a'.toNat + 10)
  else if 'A' ≤ c ∧ c ≤ 'F' then some (c.toNat - 'A'.toNat + 10)
  else none

private def hexBytes : List Char → Option (List UInt8)
  | [] => some []
  | a :: b :: rest => do
    let x ← hexVal a
    let y ← hexVal b
    let r ← hexBytes rest
    pure (UInt8.ofNat (x * 16 + y) :: r)
  | _ => none

/-- Decode an `x<hex>` atom into the byte list. -/
def asBytes? : Sexp → Option (List UInt8)
  | atom s =>
    match s.toList with
    | 'x' :: rest => hexBytes rest
    | _ => none
  | _ => none

/-- Decode an `x<hex>` atom as a UTF-8 string (invalid sequences are replaced). -/
def asStr? (s : Sexp) : Option String := do
  let bs ← asBytes? s
  let ba : ByteArray := ⟨bs.toArray⟩
  pure (String.fromUTF8? ba |>.getD "�")

/-- Decode a list of code points. -/
def asRunes? : Sexp → Option (List Char)
  | list xs => xs.mapM fun x => do
      let n ← asNat? x
      pure (Char.ofNat n)
  | _ => none

private def hexDigit (n : Nat) : Char :=
  if n < 10 then Char.ofNat ('0'.toNat + n) else Char.ofNat ('a'.toNat + n - 10)

/-- Encode a string as an `x<hex>` atom. -/
def hexOfString (s : String) : String :=
  s.toUTF8.toList.foldl (fun acc b => acc.push (hexDigit (b.toNat / 16)) |>.push (hexDigit (b.toNat % 16))) "x"

end Sexp
end Hms
