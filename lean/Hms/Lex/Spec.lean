import Hms.Lex.Lexer
/-!
# Lexical specification

Written from `grammar.ebnf` (section *Tokens*) plus the punctuation the grammar uses in its
productions and the undocumented tokens `? @ $ # ~>`. Independent of the scanning
algorithm of `Hms.Lex.Lexer`: token classes are predicates on *lexemes*.
-/
namespace Hms.Lex.Spec
open Hms Hms.Lex

/-- Every punctuation / operator lexeme of the language with its kind. -/
def operators : List (String × TokKind) := [
  ("#", .hashTag), ("?", .questionMark), ("@", .atSymbol), ("$", .dollarSymbol),
  (";", .semicolon), (",", .comma), (":", .colon), (".", .dot), ("..", .doubleDot),
  ("->", .arrow), ("=>", .fatArrow), ("~>", .tildeArrow),
  ("(", .lParen), (")", .rParen), ("{", .lCurly), ("}", .rCurly), ("[", .lBracket), ("]", .rBracket),
  ("||", .or_), ("&&", .and_), ("==", .equal), ("!=", .notEqual), ("<", .lessThan),
  ("<=", .lessThanEqual), (">", .greaterThan), (">=", .greaterThanEqual), ("!", .not_),
  ("+", .plus), ("-", .minus), ("*", .multiply), ("/", .divide), ("%", .modulo), ("**", .power),
  ("<<", .shiftLeft), (">>", .shiftRight), ("|", .bitOr), ("&", .bitAnd), ("^", .bitXor),
  ("=", .assign), ("+=", .plusAssign), ("-=", .minusAssign), ("*=", .multiplyAssign),
  ("/=", .divideAssign), ("**=", .powerAssign), ("%=", .moduloAssign), ("<<=", .shiftLeftAssign),
  (">>=", .shiftRightAssign), ("|=", .bitOrAssign), ("&=", .bitAndAssign), ("^=", .bitXorAssign)
]

/-- Reserved words (grammar: `bool`, the keywords used in productions, `_`). -/
def keywords : List (String × TokKind) := [
  ("true", .true_), ("on", .true_), ("false", .false_), ("off", .false_), ("null", .null),
  ("none", .none_), ("pub", .pub), ("fn", .fn_), ("if", .if_), ("else", .else_), ("match", .match_),
  ("for", .for_), ("while", .while), ("loop", .loop), ("break", .break), ("continue", .continue),
  ("return", .return_), ("import", .import_), ("as", .as), ("from", .from_), ("let", .let_),
  ("in", .in_), ("type", .type_), ("try", .try_), ("catch", .catch_), ("new", .new), ("spawn", .spawn),
  ("event", .event), ("impl", .impl), ("with", .with_), ("templ", .templ), ("trigger", .trigger),
  ("_", .underscore)
]

def isOperatorKind (k : TokKind) : Bool := operators.any fun e => e.2 == k
def isKeywordKind (k : TokKind) : Bool := keywords.any fun e => e.2 == k

/-- `ident = LETTER , { LETTER | DIGIT }` -/
def identShaped : List Char → Bool
  | [] => false
  | c :: cs => isLetter c && cs.all fun x => isLetter x || isDigit x

/-- `DIGIT , { DIGIT | '_' }` -/
def digitsShaped : List Char → Bool
  | [] => false
  | c :: cs => isDigit c && cs.all fun x => isDigit x || x == '_'

def splitAtChar (c : Char) : List Char → List Char × Option (List Char)
  | [] => ([], none)
  | x :: xs => if x = c then ([], some xs) else let (a, b) := splitAtChar c xs; (x :: a, b)

/-- `number = DIGIT , { DIGIT | '_' } , [ 'f' | '.' , DIGIT , { DIGIT | '_' } ]` -/
def numberShaped (lx : List Char) : Option TokKind :=
  match splitAtChar '.' lx with
  | (a, some b) => if digitsShaped a && digitsShaped b then some .float else none
  | (_, none) =>
    if digitsShaped lx then some .int
    else if lx.getLast? = some 'f' && digitsShaped lx.dropLast then some .float
    else none

/-- Decoding of a string body per `escape_seq` (plus `\'` and `\"`, which the grammar needs
for quotes inside strings). `none`: not a well-formed body for the quote `q`. -/
def decodeBody (q : Char) : Nat → List Char → Option (List Char)
  | 0, _ => none
  | _ + 1, [] => some []
  | fuel + 1, c :: cs =>
    if c = q then none
    else if c = '\\' then
      match cs with
      | [] => none
      | e :: rest =>
        let simple (r : Char) := (decodeBody q fuel rest).map (r :: ·)
        let coded (pre : List Char) (p : Char → Bool) (radix n : Nat) :=
          if rest.length ≥ n ∧ (rest.take n).all p then
            (decodeBody q fuel (rest.drop n)).map
              (decodeRune (min (digitsVal radix (pre ++ rest.take n)) (2 ^ 31 - 1)) :: ·)
          else none
        if e = '\\' then simple '\\'
        else if e = '\'' then simple '\''
        else if e = '"' then simple '"'
        else if e = 'b' then simple (Char.ofNat 8)
        else if e = 'n' then simple '\n'
        else if e = 'r' then simple '\r'
        else if e = 't' then simple '\t'
        else if e = 'x' then coded [] isHex 16 2
        else if e = 'u' then coded [] isHex 16 4
        else if e = 'U' then coded [] isHex 16 8
        else if isOctal e then coded [e] isOctal 8 2
        else none
    else (decodeBody q fuel cs).map (c :: ·)

/-- The lexeme `lx` is a token of kind `k` with decoded value `v`, per the grammar. -/
def lexemeOK (k : TokKind) (lx v : List Char) : Bool :=
  if isOperatorKind k then operators.contains (String.ofList lx, k) && v == lx
  else if isKeywordKind k then keywords.contains (String.ofList lx, k) && v == lx
  else match k with
    | .identifier => identShaped lx && !(keywords.any fun e => e.1 == String.ofList lx) && v == lx
    | .int => numberShaped lx == some .int && v == lx.filter (· != '_')
    | .float => numberShaped lx == some .float && v == lx.filter (fun c => c != '_' && c != 'f')
    | .string =>
      match lx with
      | q :: rest =>
        (q == '"' || q == '\'') && rest.getLast? == some q
          && decodeBody q (rest.length + 1) rest.dropLast == some v
      | [] => false
    | _ => false

def startsWith (pre : List Char) (s : List Char) : Bool := pre.isPrefixOf s

def containsSeq (pat : List Char) : List Char → Bool
  | [] => pat.isEmpty
  | c :: cs => pat.isPrefixOf (c :: cs) || containsSeq pat cs

/-- White space and comments. `last`: the piece is the final piece of the input (only then
may a comment be unterminated). -/
def triviaOK (p : Piece) (last : Bool) : Bool :=
  match p with
  | .space c => c == ' ' || c == '\n' || c == '\t' || c == '\r'
  | .lineComment cs =>
    startsWith ['/', '/'] cs &&
      (let body := cs.drop 2
       (body.getLast? == some '\n' && !(body.dropLast.contains '\n')) || (last && !(body.contains '\n')))
  | .blockComment cs =>
    startsWith ['/', '*'] cs &&
      (let body := cs.drop 2
       (body.length ≥ 2 && body.drop (body.length - 2) == ['*', '/'] && !(containsSeq ['*', '/'] body.dropLast))
        || (last && !(containsSeq ['*', '/'] body)))
  | .token _ _ => false

/-- Independent description of the position of index `i` in `src`: 1 + number of newlines
before it, 1 + number of characters since the last newline, and `i` itself. -/
def locAt (src : List Char) (i : Nat) : Loc :=
  let pre := src.take i
  let afterNl := (pre.reverse.takeWhile (· != '\n')).length
  ⟨1 + pre.count '\n', 1 + afterNl, i⟩

/-- Can the operator lexeme `lx` followed by character `c` be read as (the start of) a longer
operator? Maximal munch demands the lexer never stops in such a situation. -/
def extendable (lx : List Char) (c : Char) : Bool :=
  operators.any fun e => e.1.toList == lx ++ [c]

/-- The whole specification, as a checkable predicate over a piece list for `src`. -/
def tokenizes (src : List Char) (ps : List Piece) : Bool :=
  let rec go (off : Nat) : List Piece → Bool
    | [] => true
    | p :: rest =>
      let next : Option Char := (rest.flatMap Piece.chars).head?
      (match p with
       | .token t lx =>
         !lx.isEmpty && lexemeOK t.kind lx t.value
           && t.start == locAt src off && t.stop == locAt src (off + lx.length - 1)
           && (match next with
               | some c =>
                 if isOperatorKind t.kind then !(extendable lx c)
                 else if t.kind == .identifier || isKeywordKind t.kind then !(isLetter c || isDigit c)
                 else if t.kind == .int then !(isDigit c || c == '_' || c == 'f')
                 else true
               | none => true)
       | _ => triviaOK p rest.isEmpty)
      && go (off + p.chars.length) rest
  (ps.flatMap Piece.chars == src) && go 0 ps

end Hms.Lex.Spec

namespace Hms.Lex.Spec
open Hms Hms.Lex

/-- Split a gap between tokens into white-space and comment pieces (specification side,
used to judge the token stream of the implementation). -/
def splitTrivia : Nat → List Char → Option (List Piece)
  | 0, _ => none
  | _ + 1, [] => some []
  | fuel + 1, c :: cs =>
    if isSpace c then (splitTrivia fuel cs).map (Piece.space c :: ·)
    else if c = '/' ∧ cs.head? = some '/' then
      let (body, rest) := lineBody cs.tail
      (splitTrivia fuel rest).map (Piece.lineComment ('/' :: '/' :: body) :: ·)
    else if c = '/' ∧ cs.head? = some '*' then
      let (body, rest) := blockBody cs.tail
      (splitTrivia fuel rest).map (Piece.blockComment ('/' :: '*' :: body) :: ·)
    else none

/-- Rebuild a piece list from a token list (with index spans) over `src`. -/
def piecesOfTokens (src : List Char) : Nat → List Tok → Option (List Piece)
  | off, [] => splitTrivia (src.length + 1) (src.drop off)
  | off, t :: ts =>
    if t.start.idx < off ∨ t.stop.idx < t.start.idx ∨ t.stop.idx ≥ src.length then none
    else do
      let gap ← splitTrivia (src.length + 1) ((src.drop off).take (t.start.idx - off))
      let lx := (src.drop t.start.idx).take (t.stop.idx + 1 - t.start.idx)
      let rest ← piecesOfTokens src (t.stop.idx + 1) ts
      pure (gap ++ Piece.token t lx :: rest)

/-- Does this token stream (of the implementation) satisfy the lexical specification? -/
def tokensMeetSpec (src : List Char) (toks : List Tok) : Bool :=
  match piecesOfTokens src 0 toks with
  | some ps => tokenizes src ps
  | none => false

end Hms.Lex.Spec
