import Hms.Lex.Token
/-!
# Lexer model

Mirrors `homescript/lexer/lexer.go` (`NextToken` and the `make*` routines) after the
`fix:` commits L1–L8. The input is a list of code points (the Go lexer works on
`[]rune`). The model is *piece based*: one step consumes a non-empty prefix of the
remaining input and classifies it as white space, a comment or a token with its lexeme,
so that the partition, maximal-munch and span theorems (HmsProofs.C06) can talk about the
lexemes directly. Positions follow `errors.Location.Advance`.
-/
namespace Hms.Lex
open Hms

structure Loc where
  line : Nat
  col : Nat
  idx : Nat
  deriving DecidableEq, Repr, Inhabited

def Loc.start : Loc := ⟨1, 1, 0⟩

/-- `errors.Location.Advance` applied for the character `c`. -/
def Loc.advance (l : Loc) (c : Char) : Loc :=
  if c = '\n' then ⟨l.line + 1, 1, l.idx + 1⟩ else ⟨l.line, l.col + 1, l.idx + 1⟩

def Loc.advanceBy (l : Loc) : List Char → Loc
  | [] => l
  | c :: cs => (l.advance c).advanceBy cs

structure Tok where
  kind : TokKind
  value : List Char
  start : Loc
  stop : Loc
  deriving DecidableEq, Repr, Inhabited

inductive ErrKind where
  | illegalChar | stringNeverClosed | unfinishedEscape | invalidEscape | expectedGt
  deriving DecidableEq, Repr, Inhabited

structure LexErr where
  kind : ErrKind
  start : Loc
  stop : Loc
  deriving DecidableEq, Repr, Inhabited

inductive Piece where
  | space (c : Char)
  | lineComment (cs : List Char)
  | blockComment (cs : List Char)
  | token (t : Tok) (lexeme : List Char)
  deriving DecidableEq, Repr, Inhabited

def Piece.chars : Piece → List Char
  | .space c => [c]
  | .lineComment cs => cs
  | .blockComment cs => cs
  | .token _ lx => lx

/-! ## Character classes (`lexer/util`) -/

def isDigit (c : Char) : Bool := '0' ≤ c && c ≤ '9'
def isOctal (c : Char) : Bool := '0' ≤ c && c ≤ '7'
def isHex (c : Char) : Bool := ('0' ≤ c && c ≤ '9') || ('A' ≤ c && c ≤ 'F') || ('a' ≤ c && c ≤ 'f')
def isLetter (c : Char) : Bool := ('A' ≤ c && c ≤ 'Z') || ('a' ≤ c && c ≤ 'z') || c == '_'
def isSpace (c : Char) : Bool := c == ' ' || c == '\n' || c == '\t' || c == '\r'

/-! ## Keywords (`makeName`) -/

def keywordKind (w : String) : Option TokKind :=
  match w with
  | "true" | "on" => some .true_
  | "false" | "off" => some .false_
  | "null" => some .null
  | "none" => some .none_
  | "pub" => some .pub
  | "fn" => some .fn_
  | "if" => some .if_
  | "else" => some .else_
  | "match" => some .match_
  | "for" => some .for_
  | "while" => some .while
  | "loop" => some .loop
  | "break" => some .break
  | "continue" => some .continue
  | "return" => some .return_
  | "import" => some .import_
  | "as" => some .as
  | "from" => some .from_
  | "let" => some .let_
  | "in" => some .in_
  | "type" => some .type_
  | "try" => some .try_
  | "catch" => some .catch_
  | "new" => some .new
  | "spawn" => some .spawn
  | "event" => some .event
  | "impl" => some .impl
  | "with" => some .with_
  | "templ" => some .templ
  | "trigger" => some .trigger
  | "_" => some .underscore
  | _ => none

/-! ## Operators and punctuation

`matchOp c rest` mirrors the decision structure of `NextToken`'s `switch` and the
`make*` routines for punctuation: given the current character and the characters after
it, the kind and the lexeme. `none`: `c` does not start a punctuation token
(`'/'` followed by `'/'` or `'*'` is a comment and handled before). `'~'` is handled
separately because it can fail. -/
def matchOp (c : Char) (rest : List Char) : Option (TokKind × String) :=
  match c with
  | '#' => some (.hashTag, "#")
  | '?' => some (.questionMark, "?")
  | '@' => some (.atSymbol, "@")
  | '$' => some (.dollarSymbol, "$")
  | ';' => some (.semicolon, ";")
  | ',' => some (.comma, ",")
  | ':' => some (.colon, ":")
  | '(' => some (.lParen, "(")
  | ')' => some (.rParen, ")")
  | '{' => some (.lCurly, "{")
  | '}' => some (.rCurly, "}")
  | '[' => some (.lBracket, "[")
  | ']' => some (.rBracket, "]")
  | '.' => match rest with
    | '.' :: _ => some (.doubleDot, "..")
    | _ => some (.dot, ".")
  | '=' => match rest with
    | '>' :: _ => some (.fatArrow, "=>")
    | '=' :: _ => some (.equal, "==")
    | _ => some (.assign, "=")
  | '|' => match rest with
    | '|' :: _ => some (.or_, "||")
    | '=' :: _ => some (.bitOrAssign, "|=")
    | _ => some (.bitOr, "|")
  | '&' => match rest with
    | '&' :: _ => some (.and_, "&&")
    | '=' :: _ => some (.bitAndAssign, "&=")
    | _ => some (.bitAnd, "&")
  | '^' => match rest with
    | '=' :: _ => some (.bitXorAssign, "^=")
    | _ => some (.bitXor, "^")
  | '!' => match rest with
    | '=' :: _ => some (.notEqual, "!=")
    | _ => some (.not_, "!")
  | '<' => match rest with
    | '<' :: '=' :: _ => some (.shiftLeftAssign, "<<=")
    | '<' :: _ => some (.shiftLeft, "<<")
    | '=' :: _ => some (.lessThanEqual, "<=")
    | _ => some (.lessThan, "<")
  | '>' => match rest with
    | '>' :: '=' :: _ => some (.shiftRightAssign, ">>=")
    | '>' :: _ => some (.shiftRight, ">>")
    | '=' :: _ => some (.greaterThanEqual, ">=")
    | _ => some (.greaterThan, ">")
  | '+' => match rest with
    | '=' :: _ => some (.plusAssign, "+=")
    | _ => some (.plus, "+")
  | '-' => match rest with
    | '=' :: _ => some (.minusAssign, "-=")
    | '>' :: _ => some (.arrow, "->")
    | _ => some (.minus, "-")
  | '*' => match rest with
    | '=' :: _ => some (.multiplyAssign, "*=")
    | '*' :: '=' :: _ => some (.powerAssign, "**=")
    | '*' :: _ => some (.power, "**")
    | _ => some (.multiply, "*")
  | '/' => match rest with
    | '=' :: _ => some (.divideAssign, "/=")
    | _ => some (.divide, "/")
  | '%' => match rest with
    | '=' :: _ => some (.moduloAssign, "%=")
    | _ => some (.modulo, "%")
  | _ => none

/-! ## Scanning helpers (all structurally recursive) -/

/-- Longest prefix whose characters satisfy `p`, and the remainder. -/
def spanWhile (p : Char → Bool) : List Char → List Char × List Char
  | [] => ([], [])
  | c :: cs => if p c then let (a, b) := spanWhile p cs; (c :: a, b) else ([], c :: cs)

/-- Body of a line comment after `//`: up to and including the newline, or to the end. -/
def lineBody : List Char → List Char × List Char
  | [] => ([], [])
  | c :: cs => if c = '\n' then ([c], cs) else let (a, b) := lineBody cs; (c :: a, b)

/-- Body of a block comment after `/*`: up to and including `*/`, or to the end. -/
def blockBody : List Char → List Char × List Char
  | [] => ([], [])
  | '*' :: '/' :: cs => (['*', '/'], cs)
  | c :: cs => let (a, b) := blockBody cs; (c :: a, b)

def hexVal (c : Char) : Nat :=
  if '0' ≤ c && c ≤ '9' then c.toNat - '0'.toNat
  else if 'a' ≤ c && c ≤ 'f' then c.toNat - 'a'.toNat + 10
  else if 'A' ≤ c && c ≤ 'F' then c.toNat - 'A'.toNat + 10
  else 0

def digitsVal (radix : Nat) (ds : List Char) : Nat := ds.foldl (fun acc d => acc * radix + hexVal d) 0

/-- `rune(code)` followed by `string([]rune)`: `strconv.ParseInt(.., 32)` saturates at
2^31-1 and code points that are not Unicode scalar values become U+FFFD. -/
def decodeRune (n : Nat) : Char :=
  if h : n.isValidChar then Char.ofNatAux n h else Char.ofNat 0xFFFD

inductive EscRes where
  | ok (c : Char) (consumed : List Char) (rest : List Char)
  | unfinished
  | invalid (consumed : List Char)   -- characters consumed before the failure was detected

/-- Take exactly `n` characters satisfying `p`. -/
def takeDigits (p : Char → Bool) : Nat → List Char → Option (List Char × List Char)
  | 0, cs => some ([], cs)
  | _ + 1, [] => none
  | n + 1, c :: cs =>
    if p c then (takeDigits p n cs).map fun (a, b) => (c :: a, b) else none

/-- Number of leading characters (at most `n`) satisfying `p` — how far `escapePart` gets
before it reports the error. -/
def countDigits (p : Char → Bool) : Nat → List Char → List Char
  | 0, _ => []
  | _ + 1, [] => []
  | n + 1, c :: cs => if p c then c :: countDigits p n cs else []

/-- `makeEscapeSequence`: `cs` is the input after the backslash. -/
def escape (cs : List Char) : EscRes :=
  match cs with
  | [] => .unfinished
  | c :: rest =>
    let simple (r : Char) := EscRes.ok r [c] rest
    let part (pre : List Char) (p : Char → Bool) (radix n : Nat) :=
      match takeDigits p n rest with
      | some (ds, rest') => EscRes.ok (decodeRune (min (digitsVal radix (pre ++ ds)) (2 ^ 31 - 1))) (c :: ds) rest'
      | none => EscRes.invalid (c :: countDigits p n rest)
    if c = '\\' then simple '\\'
    else if c = '\'' then simple '\''
    else if c = '"' then simple '"'
    else if c = 'b' then simple (Char.ofNat 8)
    else if c = 'n' then simple '\n'
    else if c = 'r' then simple '\r'
    else if c = 't' then simple '\t'
    else if c = 'x' then part [] isHex 16 2
    else if c = 'u' then part [] isHex 16 4
    else if c = 'U' then part [] isHex 16 8
    else if isOctal c then part [c] isOctal 8 2
    else .invalid []

inductive StrRes where
  | ok (value : List Char) (body : List Char) (rest : List Char)  -- body excludes the closing quote
  | neverClosed (consumed : List Char)
  | badEscape (kind : ErrKind) (before : List Char) (consumed : List Char)

/-- Body of a string literal after the opening quote `q` (`makeString`'s loop). Fuel: the
input length suffices because every round consumes at least one character. -/
def stringBody (q : Char) : Nat → List Char → StrRes
  | 0, _ => .neverClosed []
  | fuel + 1, cs =>
    match cs with
    | [] => .neverClosed []
    | c :: rest =>
      if c = q then .ok [] [] rest
      else if c = '\\' then
        match escape rest with
        | .ok r consumed rest' =>
          match stringBody q fuel rest' with
          | .ok v b r' => .ok (r :: v) (c :: consumed ++ b) r'
          | .neverClosed cons => .neverClosed (c :: consumed ++ cons)
          | .badEscape k before cons => .badEscape k (c :: consumed ++ before) cons
        | .unfinished => .badEscape .unfinishedEscape [] [c]
        | .invalid consumed => .badEscape .invalidEscape [] (c :: consumed)
      else
        match stringBody q fuel rest with
        | .ok v b r' => .ok (c :: v) (c :: b) r'
        | .neverClosed cons => .neverClosed (c :: cons)
        | .badEscape k before cons => .badEscape k (c :: before) cons

/-- `makeNumber`: `d` is the first digit, `cs` what follows. Returns kind, lexeme, rest. -/
def number (d : Char) (cs : List Char) : TokKind × List Char × List Char :=
  let (intPart, r1) := spanWhile (fun c => isDigit c || c == '_') cs
  match r1 with
  | '.' :: d2 :: r2 =>
    if isDigit d2 then
      let (frac, r3) := spanWhile (fun c => isDigit c || c == '_') (d2 :: r2)
      (.float, d :: intPart ++ '.' :: frac, r3)
    else (.int, d :: intPart, r1)
  | 'f' :: r2 => (.float, d :: intPart ++ ['f'], r2)
  | _ => (.int, d :: intPart, r1)

/-- The value of a number token: the lexeme without `_` and without the `f` suffix. -/
def numberValue (lexeme : List Char) : List Char :=
  lexeme.filter fun c => c != '_' && c != 'f'

def mkTok (kind : TokKind) (value : List Char) (loc : Loc) (lexeme : List Char) : Tok :=
  { kind, value, start := loc, stop := loc.advanceBy lexeme.dropLast }

/-- One step of the lexer: classify a non-empty prefix of `c :: cs` at position `loc`. -/
def nextPiece (loc : Loc) (c : Char) (cs : List Char) : Except LexErr (Piece × List Char) :=
  if isSpace c then .ok (.space c, cs)
  else if c = '/' ∧ cs.head? = some '/' then
    let (body, rest) := lineBody cs.tail
    .ok (.lineComment ('/' :: '/' :: body), rest)
  else if c = '/' ∧ cs.head? = some '*' then
    let (body, rest) := blockBody cs.tail
    .ok (.blockComment ('/' :: '*' :: body), rest)
  else if c = '\'' ∨ c = '"' then
    match stringBody c (cs.length + 1) cs with
    | .ok v body rest =>
      let lx := c :: body ++ [c]
      .ok (.token (mkTok .string v loc lx) lx, rest)
    | .neverClosed consumed =>
      .error ⟨.stringNeverClosed, loc, loc.advanceBy (c :: consumed)⟩
    | .badEscape k before consumed =>
      .error ⟨k, loc.advanceBy (c :: before), loc.advanceBy (c :: before ++ consumed)⟩
  else if c = '~' then
    match cs with
    | '>' :: rest => .ok (.token (mkTok .tildeArrow ['~', '>'] loc ['~', '>']) ['~', '>'], rest)
    | _ => .error ⟨.expectedGt, loc.advance c, loc.advance c⟩
  else
    match matchOp c cs with
    | some (k, lx) =>
      .ok (.token (mkTok k lx.toList loc lx.toList) lx.toList, (c :: cs).drop lx.length)
    | none =>
      if isDigit c then
        let (k, lx, rest) := number c cs
        .ok (.token (mkTok k (numberValue lx) loc lx) lx, rest)
      else if isLetter c then
        let (tail, rest) := spanWhile (fun x => isDigit x || isLetter x) cs
        let lx := c :: tail
        let k := (keywordKind (String.ofList lx)).getD .identifier
        .ok (.token (mkTok k lx loc lx) lx, rest)
      else .error ⟨.illegalChar, loc, loc⟩

/-- All pieces of the input (fuel = input length + 1 always suffices, see `lex_total`). -/
def pieces : Nat → Loc → List Char → Except LexErr (List Piece) ⊕ Unit
  | 0, _, _ => .inr ()
  | _ + 1, _, [] => .inl (.ok [])
  | fuel + 1, loc, c :: cs =>
    match nextPiece loc c cs with
    | .error e => .inl (.error e)
    | .ok (p, rest) =>
      match pieces fuel (loc.advanceBy p.chars) rest with
      | .inl (.ok ps) => .inl (.ok (p :: ps))
      | .inl (.error e) => .inl (.error e)
      | .inr () => .inr ()

def tokensOf : List Piece → List Tok
  | [] => []
  | .token t _ :: ps => t :: tokensOf ps
  | _ :: ps => tokensOf ps

structure LexResult where
  tokens : List Tok            -- tokens delivered before the end or the error
  eof : Option Tok             -- the EOF token when the whole text was lexed
  err : Option LexErr
  deriving Repr

/-- What repeated calls of `NextToken` deliver: the tokens up to the first error, or all
tokens followed by EOF. -/
def lexPrefix : Nat → Loc → List Char → List Tok → LexResult
  | 0, _, _, acc => ⟨acc.reverse, none, none⟩
  | _ + 1, loc, [], acc => ⟨acc.reverse, some ⟨.eof, "EOF".toList, loc, loc⟩, none⟩
  | fuel + 1, loc, c :: cs, acc =>
    match nextPiece loc c cs with
    | .error e => ⟨acc.reverse, none, some e⟩
    | .ok (p, rest) =>
      let acc' := match p with
        | .token t _ => t :: acc
        | _ => acc
      lexPrefix fuel (loc.advanceBy p.chars) rest acc'

def lexAll (src : List Char) : LexResult := lexPrefix (src.length + 1) Loc.start src []

end Hms.Lex
