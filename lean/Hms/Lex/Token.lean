/-! Token kinds: mirrors the `const` block of `homescript/lexer/token.go` (same order).
The order is tied to the Go code by `HmsProofs.Tables.kind_names_agree`. -/
namespace Hms

inductive TokKind where
  | unknown
  | eof
  | hashTag
  | questionMark
  | atSymbol
  | dollarSymbol
  | underscore
  | semicolon
  | comma
  | colon
  | dot
  | doubleDot
  | arrow
  | fatArrow
  | tildeArrow
  | lParen
  | rParen
  | lCurly
  | rCurly
  | lBracket
  | rBracket
  | or_
  | and_
  | equal
  | notEqual
  | lessThan
  | lessThanEqual
  | greaterThan
  | greaterThanEqual
  | not_
  | plus
  | minus
  | multiply
  | divide
  | modulo
  | power
  | shiftLeft
  | shiftRight
  | bitOr
  | bitAnd
  | bitXor
  | assign
  | plusAssign
  | minusAssign
  | multiplyAssign
  | divideAssign
  | powerAssign
  | moduloAssign
  | shiftLeftAssign
  | shiftRightAssign
  | bitOrAssign
  | bitAndAssign
  | bitXorAssign
  | import_
  | as
  | from_
  | try_
  | catch_
  | in_
  | let_
  | pub
  | fn_
  | if_
  | else_
  | match_
  | for_
  | while
  | loop
  | break
  | continue
  | return_
  | type_
  | new
  | spawn
  | event
  | impl
  | with_
  | templ
  | trigger
  | true_
  | false_
  | none_
  | null
  | string
  | int
  | float
  | identifier
  deriving DecidableEq, Repr, BEq, Inhabited, Hashable

namespace TokKind

/-- All kinds in Go iota order. -/
def all : List TokKind := [
  .unknown, .eof, .hashTag, .questionMark, .atSymbol, .dollarSymbol, .underscore, .semicolon, .comma, .colon, .dot, .doubleDot, .arrow, .fatArrow, .tildeArrow, .lParen, .rParen, .lCurly, .rCurly, .lBracket, .rBracket, .or_, .and_, .equal, .notEqual, .lessThan, .lessThanEqual, .greaterThan, .greaterThanEqual, .not_, .plus, .minus, .multiply, .divide, .modulo, .power, .shiftLeft, .shiftRight, .bitOr, .bitAnd, .bitXor, .assign, .plusAssign, .minusAssign, .multiplyAssign, .divideAssign, .powerAssign, .moduloAssign, .shiftLeftAssign, .shiftRightAssign, .bitOrAssign, .bitAndAssign, .bitXorAssign, .import_, .as, .from_, .try_, .catch_, .in_, .let_, .pub, .fn_, .if_, .else_, .match_, .for_, .while, .loop, .break, .continue, .return_, .type_, .new, .spawn, .event, .impl, .with_, .templ, .trigger, .true_, .false_, .none_, .null, .string, .int, .float, .identifier
]

/-- Go constant name of a kind. -/
def goName : TokKind → String
  | .unknown => "Unknown"
  | .eof => "EOF"
  | .hashTag => "HashTag"
  | .questionMark => "QuestionMark"
  | .atSymbol => "AtSymbol"
  | .dollarSymbol => "DollarSymbol"
  | .underscore => "Underscore"
  | .semicolon => "Semicolon"
  | .comma => "Comma"
  | .colon => "Colon"
  | .dot => "Dot"
  | .doubleDot => "DoubleDot"
  | .arrow => "Arrow"
  | .fatArrow => "FatArrow"
  | .tildeArrow => "TildeArrow"
  | .lParen => "LParen"
  | .rParen => "RParen"
  | .lCurly => "LCurly"
  | .rCurly => "RCurly"
  | .lBracket => "LBracket"
  | .rBracket => "RBracket"
  | .or_ => "Or"
  | .and_ => "And"
  | .equal => "Equal"
  | .notEqual => "NotEqual"
  | .lessThan => "LessThan"
  | .lessThanEqual => "LessThanEqual"
  | .greaterThan => "GreaterThan"
  | .greaterThanEqual => "GreaterThanEqual"
  | .not_ => "Not"
  | .plus => "Plus"
  | .minus => "Minus"
  | .multiply => "Multiply"
  | .divide => "Divide"
  | .modulo => "Modulo"
  | .power => "Power"
  | .shiftLeft => "ShiftLeft"
  | .shiftRight => "ShiftRight"
  | .bitOr => "BitOr"
  | .bitAnd => "BitAnd"
  | .bitXor => "BitXor"
  | .assign => "Assign"
  | .plusAssign => "PlusAssign"
  | .minusAssign => "MinusAssign"
  | .multiplyAssign => "MultiplyAssign"
  | .divideAssign => "DivideAssign"
  | .powerAssign => "PowerAssign"
  | .moduloAssign => "ModuloAssign"
  | .shiftLeftAssign => "ShiftLeftAssign"
  | .shiftRightAssign => "ShiftRightAssign"
  | .bitOrAssign => "BitOrAssign"
  | .bitAndAssign => "BitAndAssign"
  | .bitXorAssign => "BitXorAssign"
  | .import_ => "Import"
  | .as => "As"
  | .from_ => "From"
  | .try_ => "Try"
  | .catch_ => "Catch"
  | .in_ => "In"
  | .let_ => "Let"
  | .pub => "Pub"
  | .fn_ => "Fn"
  | .if_ => "If"
  | .else_ => "Else"
  | .match_ => "Match"
  | .for_ => "For"
  | .while => "While"
  | .loop => "Loop"
  | .break => "Break"
  | .continue => "Continue"
  | .return_ => "Return"
  | .type_ => "Type"
  | .new => "New"
  | .spawn => "Spawn"
  | .event => "Event"
  | .impl => "Impl"
  | .with_ => "With"
  | .templ => "Templ"
  | .trigger => "Trigger"
  | .true_ => "True"
  | .false_ => "False"
  | .none_ => "None"
  | .null => "Null"
  | .string => "String"
  | .int => "Int"
  | .float => "Float"
  | .identifier => "Identifier"

/-- Numeric code (Go iota value). -/
def code : TokKind → Nat
  | .unknown => 0
  | .eof => 1
  | .hashTag => 2
  | .questionMark => 3
  | .atSymbol => 4
  | .dollarSymbol => 5
  | .underscore => 6
  | .semicolon => 7
  | .comma => 8
  | .colon => 9
  | .dot => 10
  | .doubleDot => 11
  | .arrow => 12
  | .fatArrow => 13
  | .tildeArrow => 14
  | .lParen => 15
  | .rParen => 16
  | .lCurly => 17
  | .rCurly => 18
  | .lBracket => 19
  | .rBracket => 20
  | .or_ => 21
  | .and_ => 22
  | .equal => 23
  | .notEqual => 24
  | .lessThan => 25
  | .lessThanEqual => 26
  | .greaterThan => 27
  | .greaterThanEqual => 28
  | .not_ => 29
  | .plus => 30
  | .minus => 31
  | .multiply => 32
  | .divide => 33
  | .modulo => 34
  | .power => 35
  | .shiftLeft => 36
  | .shiftRight => 37
  | .bitOr => 38
  | .bitAnd => 39
  | .bitXor => 40
  | .assign => 41
  | .plusAssign => 42
  | .minusAssign => 43
  | .multiplyAssign => 44
  | .divideAssign => 45
  | .powerAssign => 46
  | .moduloAssign => 47
  | .shiftLeftAssign => 48
  | .shiftRightAssign => 49
  | .bitOrAssign => 50
  | .bitAndAssign => 51
  | .bitXorAssign => 52
  | .import_ => 53
  | .as => 54
  | .from_ => 55
  | .try_ => 56
  | .catch_ => 57
  | .in_ => 58
  | .let_ => 59
  | .pub => 60
  | .fn_ => 61
  | .if_ => 62
  | .else_ => 63
  | .match_ => 64
  | .for_ => 65
  | .while => 66
  | .loop => 67
  | .break => 68
  | .continue => 69
  | .return_ => 70
  | .type_ => 71
  | .new => 72
  | .spawn => 73
  | .event => 74
  | .impl => 75
  | .with_ => 76
  | .templ => 77
  | .trigger => 78
  | .true_ => 79
  | .false_ => 80
  | .none_ => 81
  | .null => 82
  | .string => 83
  | .int => 84
  | .float => 85
  | .identifier => 86

def ofCode? (n : Nat) : Option TokKind := all[n]?

end TokKind
end Hms
