import Hms.Members.Go
/-!
# Model of indexing and of the builtin members (C18)

Transcribed from `runtime/value/index.go`, `valueList.go`, `valueString.go`, `valueRange.go`,
`valueOption.go`, `valueAnyObject.go`, `valueInt.go`, `valueBool.go` (and their twins under
`interpreter/value`, which differ only in the interrupt constructors). Strings are sequences of
code points (`[]rune(s)`), as `len`, iteration and — since fix X14 — indexing and `substring` see them.
-/
namespace Hms.Members

def oobMsgIndex (what : String) (n : Nat) (index : I64) : String :=
  s!"Index out of bounds: cannot index a {what} of length {n} with {index.toInt}"
def oobMsgMember (n : Nat) (index : I64) : String :=
  s!"Index out of bounds: the index is {index.toInt}, the but length is {n}"

/-- `IndexValue` on a list. -/
def listIndex (xs : List MVal) (i : I64) : Res :=
  let length := goLen xs
  let index := wrapIdx i length
  if index.slt 0 || !(index.slt length) then .fatal "IndexOutOfBounds" (oobMsgIndex "list" xs.length index)
  else match goIdx xs index with
    | .some v => .ok v (.list xs)
    | .none => .panic "index out of range"

/-- `IndexValue` on a string (by code point). -/
def strIndex (cs : List Char) (i : I64) : Res :=
  let length := goLen cs
  let index := wrapIdx i length
  if index.slt 0 || !(index.slt length) then .fatal "IndexOutOfBounds" (oobMsgIndex "string" cs.length index)
  else match goIdx cs index with
    | .some c => .ok (.str [c]) (.str cs)
    | .none => .panic "index out of range"

def lookupKey (keys : List String) (vals : List MVal) (k : String) : Option MVal :=
  match keys, vals with
  | k' :: ks, v :: vs => if k' == k then Option.some v else lookupKey ks vs k
  | _, _ => Option.none

/-- `IndexValue` on an object / any-object (data fields, fix X15). -/
def keyIndex (kindName : String) (recv : MVal) (keys : List String) (vals : List MVal) (k : String) : Res :=
  match lookupKey keys vals k with
  | .some v => .ok v recv
  | .none => .fatal "IndexOutOfBounds" s!"Value of type '{kindName}' has no field named '{k}'"

def indexValue (recv idx : MVal) : Res :=
  match recv, idx with
  | .list xs, .int i => listIndex xs i
  | .str cs, .int i => strIndex cs i
  | .obj ks vs, .str k => keyIndex "object" recv ks vs (String.ofList k)
  | .anyobj ks vs, .str k => keyIndex "any-object" recv ks vs (String.ofList k)
  | _, _ => .unmodelled

/-- `insert`. -/
def listInsert (xs : List MVal) (i : I64) (v : MVal) : Res :=
  let length := goLen xs
  let index := wrapIdx i length
  if index.slt 0 || length.slt index then .fatal "IndexOutOfBounds" (oobMsgMember xs.length index)
  else if length == index then .ok .null (.list (xs ++ [v]))
  else
    -- *self.Values = append((*self.Values)[:index+1], (*self.Values)[index:]...)
    match goSliceTo xs (index + 1), goSliceFrom xs index with
    | .some a, .some b =>
      -- (*self.Values)[index] = &args[1]
      match goSet (a ++ b) index v with
      | .some r => .ok .null (.list r)
      | .none => .panic "index out of range"
    | _, _ => .panic "slice bounds out of range"

/-- `remove`. -/
def listRemove (xs : List MVal) (i : I64) : Res :=
  let length := goLen xs
  let index := wrapIdx i length
  if index.slt 0 || !(index.slt length) then .fatal "IndexOutOfBounds" (oobMsgMember xs.length index)
  else
    -- *self.Values = append((*self.Values)[:index], (*self.Values)[index+1:]...)
    match goSliceTo xs index, goSliceFrom xs (index + 1) with
    | .some a, .some b => .ok .null (.list (a ++ b))
    | _, _ => .panic "slice bounds out of range"

/-- `pop`. -/
def listPop (xs : List MVal) : Res :=
  let length := goLen xs
  if length == 0 then .ok .none (.list xs)
  else match goIdx xs (length - 1), goSliceTo xs (length - 1) with
    | .some last, .some rest => .ok (.some last) (.list rest)
    | _, _ => .panic "index out of range"

/-- `pop_front`. -/
def listPopFront (xs : List MVal) : Res :=
  let length := goLen xs
  if length == 0 then .ok .none (.list xs)
  else match goIdx xs 0, goSliceFrom xs 1 with
    | .some first, .some rest => .ok (.some first) (.list rest)
    | _, _ => .panic "index out of range"

/-- `last`. -/
def listLast (xs : List MVal) : Res :=
  let length := goLen xs
  if length == 0 then .ok .none (.list xs)
  else match goIdx xs (length - 1) with
    | .some last => .ok (.some last) (.list xs)
    | .none => .panic "index out of range"

/-- `substring(upper)` (fixes X8, X14). -/
def strSubstring (cs : List Char) (upper : I64) : Res :=
  if upper.slt 0 || !(upper.slt (goLen cs)) then .throw "index out of range"
  else match goSliceTo cs upper with
    | .some sub => .ok (.str sub) (.str cs)
    | .none => .panic "slice bounds out of range"

/-- `repeat(count)` (fix X8). -/
def strRepeat (cs : List Char) (count : I64) : Res :=
  if count.slt 0 then .throw "negative repeat count"
  else if byteLen cs > 0 && count.toInt > (maxInt : Int) / (byteLen cs : Int) then .throw "repeat output length overflow"
  else match goRepeat cs count.toNat with
    | .some r => .ok (.str r) (.str cs)
    | .none => .panic "strings: Repeat output length overflow"

def setKey (keys : List String) (vals : List MVal) (k : String) (v : MVal) : List String × List MVal :=
  match keys, vals with
  | k' :: ks, v' :: vs =>
    if k' == k then (k' :: ks, v :: vs)
    else let r := setKey ks vs k v; (k' :: r.1, v' :: r.2)
  | _, _ => ([k], [v])

def typeKindName : MVal → Option String
  | .null => "null" | .int _ => "int" | .float _ => "float" | .bool _ => "bool" | .str _ => "str"
  | .range .. => "range" | .list _ => "list" | .none | .some _ => "Option"
  | .anyobj .. => "any-object" | .obj .. => "object" | .fn => "function" | .other _ => Option.none

/-- Call of a builtin member. `vm`: which runtime (kept in the signature; since the repair of X13 both raise the same
catchable exception for `unwrap` of `none`). `unmodelled`: the member is outside the model (only the oracle judges it). -/
def callMember (vm : Bool) (recv : MVal) (name : String) (args : List MVal) : Res :=
  match recv, name, args with
  | .list xs, "len", [] => .ok (.int (goLen xs)) recv
  | .list xs, "push", [v] => .ok .null (.list (xs ++ [v]))
  | .list xs, "push_front", [v] => .ok .null (.list ([v] ++ xs))
  | .list xs, "pop", [] => listPop xs
  | .list xs, "pop_front", [] => listPopFront xs
  | .list xs, "last", [] => listLast xs
  | .list xs, "insert", [.int i, v] => listInsert xs i v
  | .list xs, "remove", [.int i] => listRemove xs i
  | .list xs, "concat", [.list ys] => .ok .null (.list (xs ++ ys))
  | .str cs, "len", [] => .ok (.int (goLen cs)) recv
  | .str cs, "substring", [.int u] => strSubstring cs u
  | .str cs, "repeat", [.int n] => strRepeat cs n
  | .range a b incl, "rev", [] => .ok (.range b a incl) recv
  | .range a b _, "diff", [] => .ok (.int (if b.slt a then a - b else b - a)) recv
  | .int i, "to_range", [] => .ok (.range 0 i false) recv
  | .int i, "to_string", [] => .ok (.str (toString i.toInt).toList) recv
  | .bool b, "to_string", [] => .ok (.str (if b then "true" else "false").toList) recv
  | .none, "is_some", [] => .ok (.bool false) recv
  | .some _, "is_some", [] => .ok (.bool true) recv
  | .none, "is_none", [] => .ok (.bool true) recv
  | .some _, "is_none", [] => .ok (.bool false) recv
  | .none, "unwrap", [] =>
    .throw "Called 'unwrap' on a 'null' option value"
  | .some v, "unwrap", [] => .ok v recv
  | .none, "unwrap_or", [d] => .ok d recv
  | .some v, "unwrap_or", [_] => .ok v recv
  | .none, "expect", [.str msg] => .fatal "ValueError" (String.ofList msg)
  | .some v, "expect", [.str _] => .ok v recv
  | .anyobj ks vs, "get", [.str k] =>
    match lookupKey ks vs (String.ofList k) with
    | .some v => .ok (.some v) recv
    | .none => .ok .none recv
  | .anyobj ks _, "keys", [] => .ok (.list ((sortStrings ks).map fun k => .str k.toList)) recv
  | .obj ks _, "keys", [] => .ok (.list ((sortStrings ks).map fun k => .str k.toList)) recv
  | .anyobj ks vs, "set", [.str k, v] =>
    let r := setKey ks vs (String.ofList k) v
    .ok .null (.anyobj r.1 r.2)
  | .anyobj ks vs, "get_type", [.str k] =>
    match lookupKey ks vs (String.ofList k) with
    | .some v =>
      match typeKindName v with
      | .some n => .ok (.str n.toList) recv
      | .none => .panic "Unsupported type"
    | .none => .fatal "IndexOutOfBounds" s!"Value of type 'any-object' has no field named '{String.ofList k}'"
  | _, _, _ => .unmodelled

/-- Field access (`range.start`, `range.end`, object fields). -/
def fieldMember (recv : MVal) (name : String) : Res :=
  match recv, name with
  | .range a _ _, "start" => .ok (.int a) recv
  | .range _ b _, "end" => .ok (.int b) recv
  | .obj ks vs, k =>
    match lookupKey ks vs k with
    | .some v => .ok v recv
    | .none => .unmodelled
  | _, _ => .unmodelled

end Hms.Members
