import HmsGen.Members
/-!
# C18 — values, advertised types and outcomes of the member model

`MVal` is the structural image of a runtime value of either value package (what `hv membercall`
dumps). `GTy` (generated, `HmsGen/Members.lean`) is the analyzer's type as far as member signatures
need it. `conforms v t` is "v is a value of the advertised type t".
-/
namespace Hms.Members
open HmsGen (GTy)

abbrev I64 := BitVec 64

inductive MVal where
  | null
  | int (v : I64)
  | float (bits : Nat)
  | bool (b : Bool)
  | str (cs : List Char)
  | range (a b : I64) (incl : Bool)
  | list (xs : List MVal)
  | none
  | some (v : MVal)
  | anyobj (keys : List String) (vals : List MVal)
  | obj (keys : List String) (vals : List MVal)
  | fn
  | other (kind : String)
  deriving Inhabited, Repr

mutual
/-- Structural equality (floats by bits). -/
def MVal.beq : MVal → MVal → Bool
  | .null, .null => true
  | .int a, .int b => a == b
  | .float a, .float b => a == b
  | .bool a, .bool b => a == b
  | .str a, .str b => a == b
  | .range a b i, .range c d j => a == c && b == d && i == j
  | .list xs, .list ys => MVal.beqList xs ys
  | .none, .none => true
  | .some a, .some b => MVal.beq a b
  | .anyobj k v, .anyobj k' v' => k == k' && MVal.beqList v v'
  | .obj k v, .obj k' v' => k == k' && MVal.beqList v v'
  | .fn, .fn => true
  | .other a, .other b => a == b
  | _, _ => false
def MVal.beqList : List MVal → List MVal → Bool
  | [], [] => true
  | x :: xs, y :: ys => MVal.beq x y && MVal.beqList xs ys
  | _, _ => false
end

instance : BEq MVal := ⟨MVal.beq⟩

mutual
/-- `v` is a value of the advertised type `t`. `any` and `unknown` accept every value (they make no
static claim); function and object types are opaque (kind only); `other` (pointer, iterator: kinds
no member is advertised to return) conforms to nothing else. -/
def conforms : MVal → GTy → Bool
  | .null, t => t == .null || t == .any || t == .unknown
  | .int _, t => t == .int || t == .any || t == .unknown
  | .float _, t => t == .float || t == .any || t == .unknown
  | .bool _, t => t == .bool || t == .any || t == .unknown
  | .str _, t => t == .str || t == .any || t == .unknown
  | .range .., t => t == .range || t == .any || t == .unknown
  | .list xs, t =>
    match t with
    | .list e => conformsAll xs e
    | .any | .unknown => true
    | _ => false
  | .none, t =>
    match t with
    | .opt _ | .any | .unknown => true
    | _ => false
  | .some v, t =>
    match t with
    | .opt e => conforms v e
    | .any | .unknown => true
    | _ => false
  | .anyobj .., t => t == .anyobj || t == .any || t == .unknown
  | .obj .., t => t == .obj || t == .any || t == .unknown
  | .fn, t => t == .fn || t == .any || t == .unknown
  | .other _, t => t == .any || t == .unknown
def conformsAll : List MVal → GTy → Bool
  | [], _ => true
  | x :: xs, e => conforms x e && conformsAll xs e
end

/-- Argument list against parameter types (same length, pointwise). -/
def conformsArgs : List MVal → List GTy → Bool
  | [], [] => true
  | v :: vs, t :: ts => conforms v t && conformsArgs vs ts
  | _, _ => false

/-- Outcome of a member call / an index operation in the model. A Go run-time panic of the
transcribed code (slice or index expression out of range, `strings.Repeat` with an overflowing
length, nil dereference) is the explicit constructor `panic`, so that "never panics" is a statement. -/
inductive Res where
  | ok (ret : MVal) (recv : MVal)
  | fatal (kind : String) (msg : String)
  | throw (msg : String)
  | panic (what : String)
  | unmodelled
  deriving Inhabited, Repr

end Hms.Members
