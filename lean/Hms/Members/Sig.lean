import Hms.Members.Model
/-!
# Signatures: what the model was proved against, and lookups in the regenerated tables
-/
namespace Hms.Members
open HmsGen (GTy)

/-- Signature (parameter types, result type) under which `callMember` is proved to be typed, as a
function of the receiver type. `none`: the member is not covered by `member_typed`. The table
theorem `member_sigs_agree` proves that the regenerated analyzer table advertises exactly these. -/
def expectedSig : GTy → String → Option (List GTy × GTy)
  | .list _, "len" => some ([], .int)
  | .list e, "push" => some ([e], .null)
  | .list e, "push_front" => some ([e], .null)
  | .list e, "pop" => some ([], .opt e)
  | .list e, "pop_front" => some ([], .opt e)
  | .list e, "last" => some ([], .opt e)
  | .list e, "insert" => some ([.int, e], .null)
  | .list _, "remove" => some ([.int], .null)
  | .list e, "concat" => some ([.list e], .null)
  | .str, "len" => some ([], .int)
  | .str, "substring" => some ([.int], .str)
  | .str, "repeat" => some ([.int], .str)
  | .range, "rev" => some ([], .range)
  | .range, "diff" => some ([], .int)
  | .int, "to_range" => some ([], .range)
  | .int, "to_string" => some ([], .str)
  | .bool, "to_string" => some ([], .str)
  | .opt _, "is_some" => some ([], .bool)
  | .opt _, "is_none" => some ([], .bool)
  | .opt e, "unwrap" => some ([], e)
  | .opt e, "unwrap_or" => some ([e], e)
  | .opt e, "expect" => some ([.str], e)
  | .anyobj, "get" => some ([.str], .opt .any)
  | .anyobj, "keys" => some ([], .list .str)
  | .obj, "keys" => some ([], .list .str)
  | .anyobj, "set" => some ([.str, .unknown], .null)
  | _, _ => none

/-- Type of the fields the model covers. -/
def expectedField : GTy → String → Option GTy
  | .range, "start" => some .int
  | .range, "end" => some .int
  | _, _ => none

def repType (rep : String) : Option GTy := HmsGen.repTypes.lookup rep

/-- Row of the regenerated typed analyzer table for `(rep, member)`. -/
def advertised (rep member : String) : Option (Bool × List GTy × GTy) :=
  (HmsGen.membersAnalyzerTyped.find? fun r => r.1 == rep && r.2.1 == member).map fun r => r.2.2

/-- Is the row inside `member_typed`? -/
def modelled (rep member : String) (isMethod : Bool) : Bool :=
  match repType rep with
  | some t => if isMethod then (expectedSig t member).isSome else (expectedField t member).isSome
  | none => false

/-- Result type of indexing a value of type `t` (the analyzer's `indexExpression`). -/
def indexResultType : GTy → Option GTy
  | .list e => some e
  | .str => some .str
  | .obj | .anyobj => some .any
  | _ => none

/-- The list/string is as long as a Go slice can be. -/
def goSized : MVal → Prop
  | .list xs => xs.length < 2 ^ 63
  | .str cs => cs.length < 2 ^ 63
  | _ => True

/-- What "behaves as typed" means for one outcome: a returned value has the advertised type and
the receiver still has its type; interrupts are allowed; a panic or "unmodelled" is not. -/
def typedOutcome (r : Res) (recvTy resTy : GTy) : Prop :=
  match r with
  | .ok ret recv => conforms ret resTy = true ∧ conforms recv recvTy = true
  | .fatal .. => True
  | .throw _ => True
  | .panic _ => False
  | .unmodelled => False

end Hms.Members
