import Hms.Members.Value
/-!
# Go primitives used by the transcribed member code

Indices are `int64`/`int` (64-bit two's complement, `BitVec 64`): `+` wraps, comparisons are signed.
An index or slice expression outside its bounds is a Go run-time panic: the primitives return
`none` there and the callers turn that into `Res.panic`.

Assumption (trusted): `int` is 64 bits wide (`int(x)` of an `int64` is the identity), as on every
platform the project builds for. A slice is never longer than `2^63 - 1` (Go's `len` is an `int`);
the theorems carry that bound as the hypothesis `xs.length < 2^63`.
-/
namespace Hms.Members

def maxInt : Nat := 2 ^ 63 - 1

/-- `int64(len(xs))`. -/
def goLen {α} (xs : List α) : I64 := BitVec.ofNat 64 xs.length

/-- `xs[i]`: panics unless `0 ≤ i < len(xs)`. -/
def goIdx {α} (xs : List α) (i : I64) : Option α :=
  if i.slt 0 then Option.none else xs[i.toNat]?

/-- `xs[:hi]`: panics unless `0 ≤ hi ≤ len(xs)` (the capacity is not modelled: `len` is the
conservative bound). -/
def goSliceTo {α} (xs : List α) (hi : I64) : Option (List α) :=
  if hi.slt 0 || (goLen xs).slt hi then Option.none else Option.some (xs.take hi.toNat)

/-- `xs[lo:]`: panics unless `0 ≤ lo ≤ len(xs)`. -/
def goSliceFrom {α} (xs : List α) (lo : I64) : Option (List α) :=
  if lo.slt 0 || (goLen xs).slt lo then Option.none else Option.some (xs.drop lo.toNat)

/-- `xs[i] = v`: panics unless `0 ≤ i < len(xs)`. -/
def goSet {α} (xs : List α) (i : I64) (v : α) : Option (List α) :=
  if i.slt 0 || !(i.toNat < xs.length) then Option.none else Option.some (xs.set i.toNat v)

/-- The wrap step of the code: `if index < 0 { index = index + length }` (wrapping `+`). -/
def wrapIdx (i length : I64) : I64 := if i.slt 0 then i + length else i

/-! ## The rule of the property, over the integers -/

/-- "Negative indices count from the end; anything outside `0 ≤ k < n` is out of range." -/
def wrapSpec (i : Int) (n : Nat) : Option Nat :=
  let k := if i < 0 then i + n else i
  if 0 ≤ k ∧ k < n then Option.some k.toNat else Option.none

/-- The same rule for an insertion position (`k = n` appends). -/
def wrapSpecIns (i : Int) (n : Nat) : Option Nat :=
  let k := if i < 0 then i + n else i
  if 0 ≤ k ∧ k ≤ n then Option.some k.toNat else Option.none

/-- The index the error message names. -/
def wrappedInt (i : Int) (n : Nat) : Int := if i < 0 then i + n else i

/-- `len(s)` of a Go string: the number of UTF-8 bytes. -/
def byteLen (cs : List Char) : Nat := (cs.map Char.utf8Size).sum

/-- `strings.Repeat(s, count)` for `count ≥ 0`: panics when `len(s) * count` overflows `int`. -/
def goRepeat (cs : List Char) (count : Nat) : Option (List Char) :=
  if byteLen cs * count > maxInt then Option.none
  else if cs.isEmpty then Option.some []     -- `if len(s) == 0 { return "" }`
  else Option.some (List.replicate count cs).flatten

/-- Insertion sort by `<` on strings (`sort.Strings`: byte-wise order = code point order). -/
def insertSorted (k : String) : List String → List String
  | [] => [k]
  | x :: xs => if k < x then k :: x :: xs else x :: insertSorted k xs
def sortStrings (ks : List String) : List String := ks.foldr insertSorted []

end Hms.Members
