import Hms.Lex.Spec
/-!
# Source spans (`errors.Span`) and their well-formedness

`errors.Location` is `Hms.Lex.Loc` (line, column, rune index). A span is *in the text* when both of
its ends are real positions of the text: the index is at most the number of runes (the end-of-input
position is allowed: the EOF token and errors at end of input carry it) and line and column are the
ones the independent description `Spec.locAt` gives for that index. The *whole-file* position is the
all-zero span (`errors.Span{Filename: f}`), which `Diagnostic.Display` treats specially.
-/
namespace Hms.Pos
open Hms Hms.Lex

structure Span where
  start : Loc
  stop : Loc
  deriving DecidableEq, Repr, Inhabited

def Loc.zero : Loc := ⟨0, 0, 0⟩

/-- Both ends are real positions of `src`. -/
def InText (src : List Char) (sp : Span) : Prop :=
  sp.start.idx ≤ src.length ∧ sp.stop.idx ≤ src.length
    ∧ sp.start = Spec.locAt src sp.start.idx ∧ sp.stop = Spec.locAt src sp.stop.idx

/-- The explicit whole-file position. -/
def WholeFile (sp : Span) : Prop := sp.start = Loc.zero ∧ sp.stop = Loc.zero

/-- Start not after end. -/
def Ordered (sp : Span) : Prop := sp.start.idx ≤ sp.stop.idx

instance (src : List Char) (sp : Span) : Decidable (InText src sp) := by unfold InText; infer_instance
instance (sp : Span) : Decidable (WholeFile sp) := by unfold WholeFile; infer_instance
instance (sp : Span) : Decidable (Ordered sp) := by unfold Ordered; infer_instance

/-- `a.Until(b)` of the Go code. -/
def spanUntil (a b : Loc) : Span := ⟨a, b⟩

/-- Containment of spans by rune index (the culprit construct contains the reported position). -/
def Within (inner outer : Span) : Prop :=
  outer.start.idx ≤ inner.start.idx ∧ inner.stop.idx ≤ outer.stop.idx

instance (a b : Span) : Decidable (Within a b) := by unfold Within; infer_instance

end Hms.Pos
