/-!
# Module recursion of the analyzer (`analyzer.analyzeModule`, `importItem`, `importGraphIsCyclic`)

Only what matters for termination is modelled: which modules the host can resolve, which module
names each module text imports (in statement order), the set of modules whose analysis has started
(`self.modules`), the `ImportsModules` lists as they grow, and the cycle check that runs after a
module was analysed for the first time. Running out of fuel is an explicit `none`, so that "the
recursion terminates" is a statement (`HmsProofs.C05.analyze_terminates`).

`cyc` is the cycle check *with* the visited set (fix A8); `cycUnfixed` the code as it was.
-/
namespace Hms.Pos.Imports

/-- The host: module name ↦ the module names its text imports, in order. -/
abbrev Host := List (String × List String)

/-- `ImportsModules` of every module whose analysis has started. -/
abbrev Graph := List (String × List String)

/-- Every name that occurs in a graph. -/
def univ (g : Graph) : List String := g.flatMap fun e => e.1 :: e.2

/-- Names of `u` that are not yet in `vis` (the termination measure). -/
def white (u vis : List String) : Nat := (u.filter fun x => !vis.contains x).length

/-- The loop over `module.ImportsModules` in `importGraphIsCyclicInner`; `step` is the recursive call. -/
def cycLoop (step : String → List String → Option (Bool × List String)) (orig : String) :
    List String → List String → Option (Bool × List String)
  | [], vis => some (false, vis)
  | n :: rest, vis =>
    if n = orig then some (true, vis)
    else if vis.contains n then cycLoop step orig rest vis
    else
      match step n (n :: vis) with
      | none => none
      | some (true, v) => some (true, v)
      | some (false, v) => cycLoop step orig rest v

/-- `importGraphIsCyclicInner(orig, start, …, visited)`: (cycle found, visited set); `none` = fuel ran out. -/
def cyc (g : Graph) (orig : String) : Nat → String → List String → Option (Bool × List String)
  | 0, _, _ => none
  | fuel + 1, start, vis =>
    match g.lookup start with
    | none => some (false, vis)
    | some ns => cycLoop (cyc g orig fuel) orig ns vis

/-- `importGraphIsCyclic(start)` with enough fuel (see `import_cycle_total`). -/
def isCyclic (g : Graph) (start : String) : Option Bool :=
  (cyc g start ((univ g).length + 1) start [start]).map (·.1)

/-- The code before the fix: no visited set. -/
def cycUnfixed (g : Graph) (orig : String) : Nat → String → Option Bool
  | 0, _ => none
  | fuel + 1, start =>
    match g.lookup start with
    | none => some false
    | some ns =>
      ns.foldl (fun acc n =>
        match acc with
        | some false => if n = orig then some true else cycUnfixed g orig fuel n
        | r => r) (some false)

structure AState where
  visited : List String := []      -- keys of `self.modules`
  imports : Graph := []            -- `ImportsModules`, as appended so far
  cyclicAt : List String := []     -- modules in which "Illegal cyclic import" was reported
  deriving Repr, Inhabited

def addImport (g : Graph) (cur x : String) : Graph :=
  g.map fun e => if e.1 = cur then (e.1, e.2 ++ [x]) else e

/-- One `importItem` of module `cur` for the module name `x`; `rec` is `analyzeModule`. -/
def importItem (host : Host) (rec : String → AState → Option AState) (cur x : String) (st : AState) :
    Option AState :=
  match host.lookup x with
  | none => some st                                   -- builtin module or "module not found"
  | some _ =>
    let st := { st with imports := addImport st.imports cur x }
    if st.visited.contains x then some st
    else
      match rec x st with
      | none => none
      | some st' =>
        match isCyclic st'.imports cur with
        | none => none
        | some true => some { st' with cyclicAt := st'.cyclicAt ++ [cur] }
        | some false => some st'

def importLoop (host : Host) (rec : String → AState → Option AState) (cur : String) :
    List String → AState → Option AState
  | [], st => some st
  | x :: rest, st =>
    match importItem host rec cur x st with
    | none => none
    | some st' => importLoop host rec cur rest st'

/-- `analyzeModule(m)`: register the module, then its import statements in order. -/
def analyzeModule (host : Host) : Nat → String → AState → Option AState
  | 0, _, _ => none
  | fuel + 1, m, st =>
    let st := { st with visited := m :: st.visited, imports := st.imports ++ [(m, [])] }
    importLoop host (analyzeModule host fuel) m ((host.lookup m).getD []) st

/-- `Analyzer.Analyze(entry)` as far as the recursion goes. -/
def analyze (host : Host) (entry : String) : Option AState :=
  analyzeModule host (host.length + 1) entry {}

end Hms.Pos.Imports
