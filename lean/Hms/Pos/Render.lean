import Hms.Pos.Span
/-!
# The index and `strings.Repeat` arithmetic of the two renderers

Transcription of `errors.Error.Display` (errors/error.go) and `diagnostic.Diagnostic.Display`
(diagnostic/diagnostic.go): does the Go code index `lines[...]` in range and call `strings.Repeat`
with a non-negative count? Go's `uint`/`int` are 64-bit: `int(a - b) + 1` is computed with
wrap-around, a count is negative iff its two's-complement value is ≥ 2^63.

`lines := strings.Split(program, "\n")`; `len(lines[k])` is a length in *bytes* (UTF-8).
-/
namespace Hms.Pos
open Hms Hms.Lex

/-- `strings.Split(program, "\n")` on the runes of the program. -/
def splitLines : List Char → List (List Char)
  | [] => [[]]
  | c :: cs =>
    if c = '\n' then [] :: splitLines cs
    else match splitLines cs with
      | l :: ls => (c :: l) :: ls
      | [] => [[c]]

/-- `len(s)` of a Go string holding these runes (valid UTF-8). -/
def byteLen (l : List Char) : Nat := (l.map Char.utf8Size).sum

def two64 : Nat := 18446744073709551616
def two63 : Nat := 9223372036854775808

/-- The 64-bit pattern of `a - b` for `uint` operands. -/
def usub (a b : Nat) : Nat := (a % two64 + two64 - b % two64) % two64

/-- `int(x) + k` as a 64-bit pattern. -/
def iadd (x k : Nat) : Nat := (x + k) % two64

/-- Is the 64-bit pattern a non-negative `int`? -/
def nonneg (x : Nat) : Bool := decide (x % two64 < two63)

/-- `strings.Repeat(m, int(ec - sc) + 1)` does not panic with "negative Repeat count". -/
def repeatSpanOK (ec sc : Nat) : Bool := nonneg (iadd (usub ec sc) 1)

/-- `strings.Repeat(" ", int(sc + 6))`. -/
def padOK (sc : Nat) : Bool := nonneg (iadd sc 6)

/-- `lines[sl-2]` (when `sl > 1`), `lines[sl-1]`, `lines[sl]` (when `sl < len(lines)`) are in range. -/
def linesOK (nl sl : Nat) : Bool := decide (1 ≤ sl ∧ sl ≤ nl)

/-- `errors.Error.Display(program)` returns (no index out of range, no negative `Repeat` count). -/
def renderErrOK (src : List Char) (sp : Span) : Bool :=
  linesOK (splitLines src).length sp.start.line
    && (if sp.start.line = sp.stop.line then repeatSpanOK sp.stop.col sp.start.col else true)
    && padOK sp.start.col

/-- The count of the multi-line marker: `len(lines[sl-1]) - int(sc) + 1`; `bl k` is the length in
bytes of line `k` (for valid UTF-8 the sum of the UTF-8 sizes of its runes, `byteLen`). -/
def multiLineOKWith (bl : Nat → Nat) (src : List Char) (sl sc : Nat) : Bool :=
  match (splitLines src)[sl - 1]? with
  | some _ => nonneg (iadd (usub (bl (sl - 1)) sc) 1)
  | none => false

/-- `diagnostic.Diagnostic.Display(program)` returns; byte lengths of the lines given by `bl`. -/
def renderDiagOKWith (bl : Nat → Nat) (src : List Char) (sp : Span) : Bool :=
  if sp.start.line = 0 ∧ sp.start.col = 0 ∧ sp.stop.line = 0 ∧ sp.stop.col = 0 then true
  else
    linesOK (splitLines src).length sp.start.line
      && (if sp.start.line = sp.stop.line then
            (if sp.start.col = sp.stop.col then true else repeatSpanOK sp.stop.col sp.start.col)
          else multiLineOKWith bl src sp.start.line sp.start.col)
      && padOK sp.start.col

/-- Byte length of line `k` of a valid UTF-8 text. -/
def lineBytes (src : List Char) (k : Nat) : Nat := byteLen ((splitLines src)[k]?.getD [])

/-- `diagnostic.Diagnostic.Display(program)` returns (program text valid UTF-8). -/
def renderDiagOK (src : List Char) (sp : Span) : Bool := renderDiagOKWith (lineBytes src) src sp

end Hms.Pos
