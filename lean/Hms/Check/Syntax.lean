/-!
# C03 — parser-level AST of the core language (the analyzer's input)

Mirrors `parser/ast` for the core language. Lists that occur inside the mutually recursive
syntax are spelled out as their own inductive types (`PExprs`, `PFields`, `PArms`, `PLits`,
`PStmts`) so that every function and proof over the syntax is plain mutual structural
recursion. Not modelled (programs using them are answered `UNSUPPORTED` by the driver):
imports, singletons, `impl` blocks, `trigger` statements, annotations, type definitions.
-/
namespace Hms.Check

/-- Type syntax (`parser/ast.HmsType`). -/
inductive PTy where
  | name (s : String)
  | opt (t : PTy)
  | list (t : PTy)
  | anyobj
  | obj (fields : List (String × PTy))
  | fn (params : List (String × PTy)) (ret : PTy)
  deriving Repr, Inhabited

inductive PrefixOp where
  | neg | not | some
  deriving Repr, DecidableEq, Inhabited

inductive InfixOp where
  | add | sub | mul | div | rem | pow | shl | shr | bitOr | bitAnd | bitXor
  | or | and | eq | ne | lt | le | gt | ge
  deriving Repr, DecidableEq, Inhabited

inductive MemberOp where
  | dot | arrow | tildeArrow
  deriving Repr, DecidableEq, Inhabited

mutual
inductive PExpr where
  | int (v : Int)
  | float (bits : Nat)
  | bool (b : Bool)
  | str (s : String)
  | ident (name : String)
  | null
  | none
  | range (a b : PExpr) (incl : Bool)
  | list (xs : PExprs)
  | anyobj
  | obj (fs : PFields)
  | lambda (params : List (String × PTy)) (ret : PTy) (body : PBlock)
  | grp (e : PExpr)
  | pre (op : PrefixOp) (e : PExpr)
  | infix (op : InfixOp) (l r : PExpr)
  /-- `op = none` is plain `=` -/
  | assign (op : Option InfixOp) (l r : PExpr)
  | call (base : PExpr) (args : PExprs)
  /-- `spawn name(args)`: the parser only accepts an identifier as the base of a `spawn` -/
  | spawn (name : String) (args : PExprs)
  | index (b i : PExpr)
  | member (b : PExpr) (name : String) (op : MemberOp)
  | cast (e : PExpr) (t : PTy)
  | blk (b : PBlock)
  | ifElse (c : PExpr) (t : PBlock) (e : PBlock)
  | ifThen (c : PExpr) (t : PBlock)
  | matchE (c : PExpr) (arms : PArms)
  | tryE (t : PBlock) (name : String) (c : PBlock)
inductive PExprs where
  | nil
  | cons (e : PExpr) (rest : PExprs)
inductive PFields where
  | nil
  | cons (key : String) (e : PExpr) (rest : PFields)
inductive PArms where
  | nil
  | cons (lits : PLits) (action : PExpr) (rest : PArms)
/-- literals of one match arm; `dflt` is `_` -/
inductive PLits where
  | nil
  | dflt (rest : PLits)
  | lit (e : PExpr) (rest : PLits)
inductive PStmt where
  | letS (name : String) (ann : Option PTy) (e : PExpr)
  | ret (e : PExpr)
  | retNone
  | brk
  | cont
  | loopS (b : PBlock)
  | whileS (c : PExpr) (b : PBlock)
  | forS (name : String) (it : PExpr) (b : PBlock)
  | exprS (e : PExpr)
inductive PStmts where
  | nil
  | cons (s : PStmt) (rest : PStmts)
inductive PBlock where
  | mk (ss : PStmts) (e : PExpr)
  | mkNoTail (ss : PStmts)
end

instance : Inhabited PExpr := ⟨.null⟩
instance : Inhabited PBlock := ⟨.mkNoTail .nil⟩
instance : Inhabited PStmt := ⟨.brk⟩

def PExprs.ofList : List PExpr → PExprs
  | [] => .nil
  | e :: es => .cons e (PExprs.ofList es)

def PExprs.length : PExprs → Nat
  | .nil => 0
  | .cons _ r => r.length + 1

def PFields.ofList : List (String × PExpr) → PFields
  | [] => .nil
  | (k, e) :: r => .cons k e (PFields.ofList r)

def PStmts.ofList : List PStmt → PStmts
  | [] => .nil
  | s :: r => .cons s (PStmts.ofList r)

def PLits.ofList : List (Option PExpr) → PLits
  | [] => .nil
  | Option.none :: r => .dflt (PLits.ofList r)
  | some e :: r => .lit e (PLits.ofList r)

def PArms.ofList : List (PLits × PExpr) → PArms
  | [] => .nil
  | (l, a) :: r => .cons l a (PArms.ofList r)

def PLits.hasDefault : PLits → Bool
  | .nil => false
  | .dflt _ => true
  | .lit _ r => r.hasDefault

def PLits.length : PLits → Nat
  | .nil => 0
  | .dflt r => r.length + 1
  | .lit _ r => r.length + 1

def PArms.isEmpty : PArms → Bool
  | .nil => true
  | _ => false

/-- Function definition (`parser/ast.FunctionDefinition`); modifier 0 none, 1 pub, 2 event. -/
structure PFn where
  name : String
  params : List (String × PTy)
  ret : PTy
  modifier : Nat
  body : PBlock
  deriving Inhabited

/-- Global `let`. -/
structure PGlobal where
  name : String
  ann : Option PTy
  e : PExpr
  deriving Inhabited

structure PProg where
  globals : List PGlobal
  fns : List PFn
  deriving Inhabited

end Hms.Check
