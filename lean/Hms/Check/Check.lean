import Hms.Check.Types
import Hms.Check.Syntax
/-!
# C03 — the algorithmic checker

`check : PProg → List Diag` mirrors the analyzer's per-construct rules
(`analyzer/expression.go`, `statement.go`, `topLevel.go functionSignature /
functionDefinition / analyzeParams`, `analyzer.go analyzeModule`) for the core language,
*after* the repairs A1–A7, A9, A10, A14, S1 (DESIGN §9). Error recovery is modelled too
(`unknown` results, dropped arguments …) because
the behavioural tie compares the multiset of error classes on ill-typed programs as well.

State of the Go analyzer and where it lives here:
* `Module.Scopes`              → `Ctx.vars` (innermost binding first), threaded through blocks
* `Module.Functions`           → `Ctx.fns`
* `Module.CurrentFunction`     → `Ctx.ret` (`none` outside of any function)
* `Module.LoopDepth > 0`       → `Ctx.inLoop`
* `CreateErrorIfContainsAny`   → the `strict` argument of `checkExpr`
* `CurrentLoopIsTerminated`    → `Res.ex` ("a `break` or a diverging expression was seen")
* `Constant()` of the analysed tree → `Res.cst`
* the analysed tree's recorded types, in pre-order → `Res.tys`
-/
namespace Hms.Check

/-- Rule classes of the property statement (what is broken), independent of the wording of
the message. -/
inductive Rule where
  | operandMismatch | operatorNotAdmitted | argMismatch | arity | returnMismatch | assignMismatch
  | conditionNotBool | branchMismatch | notIterable | unknownIdent | unknownType | unknownMember
  | breakOutsideLoop | continueOutsideLoop | duplicateDefinition | nonConstantGlobal | implicitAny
  | mainShape | annotationMismatch | elementMismatch | notCallable | indexMismatch | impossibleCast
  | missingDefault | loopBody | matchLiteral | returnOutsideFunction | nullArgument | unreachable
  | closureAcrossThreads | spawnNonFunction
  deriving Repr, DecidableEq, Inhabited

def Rule.name : Rule → String
  | .operandMismatch => "operandMismatch" | .operatorNotAdmitted => "operatorNotAdmitted"
  | .argMismatch => "argMismatch" | .arity => "arity" | .returnMismatch => "returnMismatch"
  | .assignMismatch => "assignMismatch" | .conditionNotBool => "conditionNotBool"
  | .branchMismatch => "branchMismatch" | .notIterable => "notIterable" | .unknownIdent => "unknownIdent"
  | .unknownType => "unknownType" | .unknownMember => "unknownMember" | .breakOutsideLoop => "breakOutsideLoop"
  | .continueOutsideLoop => "continueOutsideLoop" | .duplicateDefinition => "duplicateDefinition"
  | .nonConstantGlobal => "nonConstantGlobal" | .implicitAny => "implicitAny" | .mainShape => "mainShape"
  | .annotationMismatch => "annotationMismatch" | .elementMismatch => "elementMismatch"
  | .notCallable => "notCallable" | .indexMismatch => "indexMismatch" | .impossibleCast => "impossibleCast"
  | .missingDefault => "missingDefault" | .loopBody => "loopBody" | .matchLiteral => "matchLiteral"
  | .returnOutsideFunction => "returnOutsideFunction" | .nullArgument => "nullArgument"
  | .unreachable => "unreachable" | .closureAcrossThreads => "closureAcrossThreads"
  | .spawnNonFunction => "spawnNonFunction"

/-- An error-level diagnostic: message class (what the Go analyzer prints) and rule class. -/
structure Err where
  msg : Msg
  rule : Rule
  deriving Repr, DecidableEq, Inhabited

inductive Level where
  | error | warning | hint
  deriving Repr, DecidableEq, Inhabited

structure Diag where
  level : Level
  rule : Rule
  msg : Option Msg
  deriving Repr, DecidableEq, Inhabited

def Diag.ofErr (e : Err) : Diag := ⟨.error, e.rule, some e.msg⟩
def notError (d : Diag) : Bool := d.level != .error

structure Ctx where
  vars : List (String × Ty)
  fns : List (String × Ty)
  ret : Option Ty
  inLoop : Bool
  deriving Inhabited

def Ctx.bind (Γ : Ctx) (name : String) (t : Ty) : Ctx := { Γ with vars := (name, t) :: Γ.vars }

/-- `getVar`, then `getFunc` -/
def Ctx.lookup (Γ : Ctx) (name : String) : Option Ty :=
  match lookupTy name Γ.vars with
  | some t => some t
  | none => lookupTy name Γ.fns

structure Res where
  errs : List Err := []
  ty : Ty
  ex : Bool := false
  cst : Bool := false
  tys : List Ty := []
  deriving Inhabited

/-- May an expression of type `t` stand in a position that is `strict` about `any`?
(`CreateErrorIfContainsAny`; function and option types are exempt.) -/
def anyOK (strict : Bool) (t : Ty) : Bool :=
  !(strict && t.hasAny && t.kind != .fn && t.kind != .opt)

/-- Tail of `Analyzer.expression`: a diverging expression counts as a loop exit; a type that
contains `any` is an error unless the context asked for it. -/
def wrap (strict : Bool) (r : Res) : Res :=
  if anyOK strict r.ty then { r with ex := r.ex || r.ty.isNever }
  else { errs := r.errs ++ [⟨.implicitAny, .implicitAny⟩], ty := .unknown, ex := r.ex || r.ty.isNever, cst := true,
         tys := [.unknown] }

/-! ## `ConvertType` -/

def primTy : String → Option Ty
  | "null" => some .null | "int" => some .int | "float" => some .float | "range" => some .range
  | "bool" => some .bool | "str" => some .str | "any" => some .any
  | _ => none

mutual
/-- `Analyzer.ConvertType t createErrors` (after repair A3). -/
def convertType (ce : Bool) : PTy → List Err × Ty
  | .name s =>
    match primTy s with
    | some t => ([], t)
    | none => (if ce then [⟨.unknownType, .unknownType⟩] else [], .unknown)
  | .opt t => let r := convertType true t; (r.1, .opt r.2)
  | .list t => let r := convertType ce t; (r.1, .list r.2)
  | .anyobj => ([], .anyobj)
  | .obj fs =>
    match convertFields ce [] fs with
    | (e, some fs') => (e, .obj fs')
    | (e, none) => (e, .unknown)
  | .fn ps r =>
    match convertParams ce [] ps with
    | (e, some ps') => let rr := convertType ce r; (e ++ rr.1, .fn ps' rr.2)
    | (e, none) => (e, .unknown)
def convertFields (ce : Bool) (acc : List (String × Ty)) : List (String × PTy) → List Err × Option (List (String × Ty))
  | [] => ([], some acc)
  | (n, t) :: rest =>
    if (lookupTy n acc).isSome then (if ce then [⟨.duplicateTypeField, .duplicateDefinition⟩] else [], none)
    else
      let r := convertType ce t
      let rr := convertFields ce (acc ++ [(n, r.2)]) rest
      (r.1 ++ rr.1, rr.2)
def convertParams (ce : Bool) (acc : List (String × Ty)) : List (String × PTy) → List Err × Option (List (String × Ty))
  | [] => ([], some acc)
  | (n, t) :: rest =>
    if (lookupTy n acc).isSome then (if ce then [⟨.duplicateFnTypeParam, .duplicateDefinition⟩] else [], none)
    else
      let r := convertType ce t
      let rr := convertParams ce (acc ++ [(n, r.2)]) rest
      (r.1 ++ rr.1, rr.2)
end

/-! ## Operator tables -/

def InfixOp.isArith : InfixOp → Bool
  | .add | .sub | .mul | .div | .rem | .pow | .shl | .shr | .bitOr | .bitAnd | .bitXor => true
  | _ => false
def InfixOp.isCmp : InfixOp → Bool
  | .eq | .ne | .lt | .le | .gt | .ge => true
  | _ => false
def InfixOp.isEq : InfixOp → Bool
  | .eq | .ne => true
  | _ => false

/-- result type of `l op _` by the kind of the left operand; `none`: operator not admitted -/
def infixResult (op : InfixOp) (l : Ty) : Option Ty :=
  match l.kind with
  | .int => if op.isArith then some .int else if op.isCmp then some .bool else none
  | .float =>
    match op with
    | .add | .sub | .mul | .div | .pow => some .float
    | _ => if op.isCmp then some .bool else none
  | .bool =>
    match op with
    | .bitOr | .bitAnd | .bitXor | .or | .and | .eq | .ne => some .bool
    | _ => none
  | .str =>
    match op with
    | .add => some .str
    | .eq | .ne => some .bool
    | _ => none
  | .unknown | .never => some l
  | _ => if op.isEq then some .bool else none

/-- is `l op= _` admitted for a left-hand side of this type (`op = none`: plain `=`) -/
def assignOk (op : Option InfixOp) (l : Ty) : Bool :=
  match l.kind with
  | .int | .unknown | .never | .any => true
  | .float =>
    match op with
    | none | some .add | some .sub | some .mul | some .div | some .pow => true
    | _ => false
  | .bool =>
    match op with
    | none | some .bitOr | some .bitAnd | some .bitXor => true
    | _ => false
  | .str =>
    match op with
    | none | some .add => true
    | _ => false
  | _ => op.isNone

def prefixResult (op : PrefixOp) (b : Ty) : Option Ty :=
  match op with
  | .neg =>
    match b.kind with
    | .int | .float => some b
    | .never | .unknown => some .unknown
    | _ => none
  | .not =>
    match b.kind with
    | .int | .bool => some b
    | .never | .unknown => some .unknown
    | _ => none
  | .some => some (.opt b)

/-- primitive conversions that `as` always admits -/
def castAlways (b a : Ty) : Bool :=
  match b.kind, a.kind with
  | .bool, .int | .bool, .float | .int, .bool | .int, .float | .float, .bool | .float, .int => true
  | .obj, .anyobj => true
  | _, _ => false

/-- `e as a` is admitted -/
def castOK (b a : Ty) : Bool :=
  castAlways b a || ((typeCheck false b a).isNone && a.kind != .fn)

/-- type of an assignment expression -/
def assignTy (l r : Ty) : Ty := if l.isNever || r.isNever then .never else .null

/-- type of `if … {then} else {else}` once the branches are compatible: a diverging branch
does not contribute -/
def ifElseTy (t e : Ty) : Ty :=
  if t.isNever then (if e.isNever then .never else e) else if e.isNever then t else e

/-- type of `try {…} catch e {…}` once the branches are compatible -/
def tryTy (t c : Ty) : Ty :=
  if t.isNever then (if c.isNever then .never else c) else t

/-- type of a block from its statements (`never`: one of them diverges) and its value -/
def blockTy (never : Bool) (t : Ty) : Ty := if never then .never else t

/-- type of a `loop` statement: it diverges unless its body may leave it -/
def loopTy (exits : Bool) : Ty := if exits then .null else .never

/-- the parameter type an argument is checked against -/
def argParam (ps : List Ty) (rest : Option Ty) : Ty :=
  match ps with
  | p :: _ => p
  | [] => rest.getD .unknown

/-- result type of a `match` after one more arm of type `a`: the first arm that yields a
value fixes it, later arms must be compatible with it (`none`: they are not) -/
def armJoin (rt a : Ty) : Option Ty :=
  if rt.isUnknown || rt.isNever then some a
  else if (typeCheck true a rt).isNone then some rt else none

/-- type of a `match` from the joined arm type: without a default arm it falls through with
`null` when every arm diverges or there is no arm (repair A5) -/
def matchTy (hasDefault : Bool) (noArms : Bool) (rt : Ty) : Ty :=
  if !hasDefault && (rt.isNever || noArms) then .null else rt

/-- a loop body must not produce a value -/
def loopBodyOK (t : Ty) : Bool :=
  match t.kind with
  | .unknown | .never | .null => true
  | _ => false

/-- a list element of type `t` fits a list whose element type so far is `lt` (`any`: none yet) -/
def elemOK (t lt : Ty) : Bool := lt.kind == .any || (typeCheck false t lt).isNone

/-- what can be called -/
inductive Callee where
  | fn (ps : List (String × Ty)) (ret : Ty)
  | var (ps : List Ty) (rest ret : Ty)
  /-- the callee never yields a value (`unknown`, `never`) -/
  | div
  | bad

def callee : Ty → Callee
  | .fn ps ret => .fn ps ret
  | .fnvar ps rest ret => .var ps rest ret
  | .unknown => .div
  | .never => .div
  | _ => .bad

/-- type of `b[i]` from the types of `b` and `i` and the key if `i` is a string literal -/
def indexRule (tb ti : Ty) (lit : Option String) : Option Ty :=
  match tb with
  | .anyobj => if ti.kind == .str then some .any else none
  | .obj fields =>
    if ti.kind == .str then
      match lit with
      | some key => lookupTy key fields
      | none => some .any
    else none
  | .list inner => if ti.kind == .int then some inner else none
  | .str => if ti.kind == .int then some .str else none
  | .unknown => some .unknown
  | .never => some .never
  | _ => none

/-- the diagnostic when `indexRule` has no answer -/
def indexErr (tb ti : Ty) : Err :=
  match tb with
  | .anyobj => ⟨.indexType, .indexMismatch⟩
  | .obj _ => if ti.kind == .str then ⟨.unknownField, .unknownMember⟩ else ⟨.indexType, .indexMismatch⟩
  | .list _ => ⟨.indexType, .indexMismatch⟩
  | .str => ⟨.indexType, .indexMismatch⟩
  | _ => ⟨.notIndexable, .indexMismatch⟩

/-- type of `b.name`, `b->name`, `b~>name` -/
def memberRule (tb : Ty) (name : String) (op : MemberOp) : Option Ty :=
  match tb.kind with
  | .unknown | .never => some tb
  | .any => none
  | _ =>
    match op with
    | .dot => memberTy tb name
    | .arrow => if tb.kind == .anyobj then some (.opt .any) else none
    | .tildeArrow => if tb.kind == .anyobj then some .any else none

/-- constant-ness of a block expression: no statements, constant value -/
def blockCst (ss : PStmts) (c : Bool) : Bool :=
  match ss with
  | .nil => c
  | _ => false

def tcErr (allowFn : Bool) (got exp : Ty) (rule : Rule) : List Err :=
  match typeCheck allowFn got exp with
  | some m => [⟨m, rule⟩]
  | none => []

def builtinFieldNames : List String := ["keys", "to_json", "to_json_indent"]

/-- parameter scope of a function: of two parameters with one name the first one stays -/
def paramScope (acc : List (String × Ty)) : List (String × Ty) → List (String × Ty)
  | [] => acc
  | (n, t) :: rest => if (lookupTy n acc).isSome then paramScope acc rest else paramScope (acc ++ [(n, t)]) rest

def dupNames (seen : List String) : List (String × Ty) → Nat
  | [] => 0
  | (n, _) :: rest => (if seen.contains n then 1 else 0) + dupNames (n :: seen) rest

/-- `ConvertType(…, true)` over a parameter list (functions and function literals) -/
def convertParamList : List (String × PTy) → List Err × List (String × Ty)
  | [] => ([], [])
  | (n, t) :: rest =>
    let r := convertType true t
    let rr := convertParamList rest
    (r.1 ++ rr.1, (n, r.2) :: rr.2)

def iterTy (t : Ty) : Option Ty :=
  match t with
  | .range => some .int
  | .str => some .str
  | .list inner => some inner
  | .unknown | .never => some .unknown
  | _ => none

def isStrLit : PExpr → Option String
  | .str s => some s
  | _ => none

structure ArgsRes where
  errs : List Err := []
  ex : Bool := false
  tys : List Ty := []

structure ElemsRes where
  errs : List Err := []
  lt : Ty
  ex : Bool := false
  cst : Bool := true
  tys : List Ty := []

structure FieldsRes where
  errs : List Err := []
  fields : List (String × Ty) := []
  ex : Bool := false
  cst : Bool := true
  tys : List Ty := []

/-- state of `matchExpression` across the arms -/
structure MSt where
  rt : Ty := .unknown
  hadErr : Bool := false
  dflt : Option (List Ty) := none

structure ArmsRes where
  errs : List Err := []
  st : MSt
  ex : Bool := false
  tys : List Ty := []

structure LitsRes where
  errs : List Err := []
  ex : Bool := false
  tys : List Ty := []

structure StmtRes where
  errs : List Err := []
  ty : Ty := .null
  ex : Bool := false
  tys : List Ty := []
  vars : List (String × Ty)

structure StmtsRes where
  errs : List Err := []
  never : Bool := false
  ex : Bool := false
  tys : List Ty := []
  vars : List (String × Ty)

/-- annotation / implicit-`any` rule of `let`: diagnostics and the type of the variable -/
def letVarTy (ann : Option PTy) (t : Ty) : List Err × Ty :=
  match ann with
  | some a =>
    match typeCheck (!t.hasAny) t (convertType true a).2 with
    | some m => ((convertType true a).1 ++ [⟨m, .annotationMismatch⟩], t)
    | none => ((convertType true a).1, (convertType true a).2)
  | none => if t.hasAny then ([⟨.implicitAny, .implicitAny⟩], .unknown) else ([], t)

/-- `Analyzer.letStatement` after the initialiser has been analysed (`e`). -/
def letRule (Γ : Ctx) (name : String) (ann : Option PTy) (e : Res) (isGlobal : Bool) : StmtRes :=
  let nonConst := isGlobal && !e.cst
  let e1 : List Err := if nonConst then [⟨.nonConstantGlobal, .nonConstantGlobal⟩] else []
  let v := letVarTy ann e.ty
  let varTy : Ty := if nonConst then .unknown else v.2
  let e3 : List Err :=
    if isGlobal && (lookupTy name Γ.vars).isSome then [⟨.duplicateGlobal, .duplicateDefinition⟩] else []
  { errs := e.errs ++ e1 ++ v.1 ++ e3, ty := .null, ex := e.ex, tys := varTy :: e.tys, vars := (name, varTy) :: Γ.vars }

/-- `identExpression` before the tail of `Analyzer.expression`: the base of a `spawn` -/
def identRes (Γ : Ctx) (name : String) : Res :=
  match Γ.lookup name with
  | some t => { ty := t, tys := [t] }
  | none => { errs := [⟨.unknownIdent, .unknownIdent⟩], ty := .unknown, tys := [.unknown] }

/-- `spawn name(…)` on a callable `name`: only a function of the program can be spawned, not a
function value (`isProgramFunction`: a variable — local, parameter, global, builtin — takes
precedence over a function of the same name; imported functions are outside of the model) -/
def spawnTargetErr (Γ : Ctx) (name : String) : List Err :=
  if (lookupTy name Γ.vars).isSome then [⟨.spawnNonFunction, .spawnNonFunction⟩] else []

def loopBodyErr (t : Ty) : List Err :=
  if loopBodyOK t then [] else [⟨.loopBody, .loopBody⟩]

mutual
/-- `Analyzer.expression` -/
def checkExpr (Γ : Ctx) (strict : Bool) : PExpr → Res
  | .int _ => wrap strict { ty := .int, cst := true, tys := [.int] }
  | .float _ => wrap strict { ty := .float, cst := true, tys := [.float] }
  | .bool _ => wrap strict { ty := .bool, cst := true, tys := [.bool] }
  | .str _ => wrap strict { ty := .str, cst := true, tys := [.str] }
  | .null => wrap strict { ty := .null, cst := true, tys := [.null] }
  | .none => wrap strict { ty := .opt .any, cst := true, tys := [.opt .any] }
  | .anyobj => wrap strict { ty := .anyobj, cst := true, tys := [.anyobj] }
  | .ident name =>
    wrap strict <|
      match Γ.lookup name with
      | some t => { ty := t, tys := [t] }
      | none => { errs := [⟨.unknownIdent, .unknownIdent⟩], ty := .unknown, tys := [.unknown] }
  | .range a b _ =>
    let ra := checkExpr Γ true a
    let rb := checkExpr Γ true b
    let ea : List Err := if (typeCheck false ra.ty .int).isSome then [⟨.rangeOperand, .operandMismatch⟩] else []
    let eb : List Err := if (typeCheck false rb.ty .int).isSome then [⟨.rangeOperand, .operandMismatch⟩] else []
    wrap strict { errs := ra.errs ++ rb.errs ++ ea ++ eb, ty := .range, ex := ra.ex || rb.ex, cst := ra.cst && rb.cst,
                  tys := .range :: (ra.tys ++ rb.tys) }
  | .list xs =>
    let r := checkElems Γ .any xs
    wrap strict { errs := r.errs, ty := .list r.lt, ex := r.ex, cst := r.cst, tys := .list r.lt :: r.tys }
  | .obj fs =>
    let r := checkFields Γ [] fs
    wrap strict { errs := r.errs, ty := .obj r.fields, ex := r.ex, cst := r.cst, tys := .obj r.fields :: r.tys }
  | .lambda params ret body =>
    let ps := convertParamList params
    let dupErrs : List Err := List.replicate (dupNames [] ps.2) ⟨.duplicateParam, .duplicateDefinition⟩
    let rt := convertType true ret
    let Γ' : Ctx := { vars := paramScope [] ps.2 ++ Γ.vars, fns := Γ.fns, ret := some rt.2, inLoop := false }
    let b := checkBlock Γ' body
    let t : Ty := .fn ps.2 rt.2
    wrap strict { errs := dupErrs ++ ps.1 ++ rt.1 ++ b.errs ++ tcErr true b.ty rt.2 .returnMismatch, ty := t, ex := false,
                  cst := false, tys := t :: b.tys }
  | .grp e =>
    let r := checkExpr Γ true e
    wrap strict { r with tys := r.ty :: r.tys }
  | .pre op e =>
    let r := checkExpr Γ true e
    match prefixResult op r.ty with
    | some t => wrap strict { errs := r.errs, ty := t, ex := r.ex, cst := r.cst, tys := t :: r.tys }
    | none => wrap strict { errs := r.errs ++ [⟨.prefixOperand, .operandMismatch⟩], ty := .unknown, ex := r.ex, cst := r.cst,
                            tys := .unknown :: r.tys }
  | .infix op l r =>
    let a := checkExpr Γ true l
    let b := checkExpr Γ true r
    let e1 := tcErr true b.ty a.ty .operandMismatch
    match infixResult op a.ty with
    | some t => wrap strict { errs := a.errs ++ b.errs ++ e1, ty := t, ex := a.ex || b.ex, cst := a.cst && b.cst,
                              tys := t :: (a.tys ++ b.tys) }
    | none => wrap strict { errs := a.errs ++ b.errs ++ e1 ++ [⟨.infixOperand, .operatorNotAdmitted⟩], ty := .unknown,
                            ex := a.ex || b.ex, cst := a.cst && b.cst, tys := .unknown :: (a.tys ++ b.tys) }
  | .assign op l r =>
    let a := checkExpr Γ true l
    let b := checkExpr Γ true r
    let t : Ty := assignTy a.ty b.ty
    let e1 := tcErr false b.ty a.ty .assignMismatch
    let e2 : List Err := if assignOk op a.ty || !e1.isEmpty then [] else [⟨.assignOperand, .operatorNotAdmitted⟩]
    wrap strict { errs := a.errs ++ b.errs ++ e1 ++ e2, ty := t, ex := a.ex || b.ex, cst := false, tys := t :: (a.tys ++ b.tys) }
  | .call base args =>
    let b := checkExpr Γ true base
    match callee b.ty with
    | .fn ps ret =>
      if args.length != ps.length then
        wrap strict { errs := b.errs ++ [⟨.arity, .arity⟩], ty := ret, ex := b.ex, cst := false, tys := ret :: b.tys }
      else
        let r := checkArgs Γ (ps.map (·.2)) Option.none args
        wrap strict { errs := b.errs ++ r.errs, ty := ret, ex := b.ex || r.ex, cst := false, tys := ret :: (b.tys ++ r.tys) }
    | .var ps rest ret =>
      if ps.length != 0 && args.length < ps.length then
        wrap strict { errs := b.errs ++ [⟨.arity, .arity⟩], ty := ret, ex := b.ex, cst := false, tys := ret :: b.tys }
      else
        let r := checkArgs Γ ps (some rest) args
        wrap strict { errs := b.errs ++ r.errs, ty := ret, ex := b.ex || r.ex, cst := false, tys := ret :: (b.tys ++ r.tys) }
    | .div =>
      wrap strict { errs := b.errs, ty := .unknown, ex := b.ex, cst := false, tys := .unknown :: b.tys }
    | .bad =>
      wrap strict { errs := b.errs ++ [⟨.notCallable, .notCallable⟩], ty := .unknown, ex := b.ex, cst := false,
                    tys := .unknown :: b.tys }
  /- `callExpression` with `IsSpawn`: the arguments must not be function values, the callee must be a
     function of the program, and the expression has no value (`null`) whatever the callee returns -/
  | .spawn name args =>
    let b := wrap true (identRes Γ name)
    match callee b.ty with
    | .fn ps _ =>
      if args.length != ps.length then
        wrap strict { errs := b.errs ++ [⟨.arity, .arity⟩] ++ spawnTargetErr Γ name, ty := .null, ex := b.ex, cst := false,
                      tys := .null :: b.tys }
      else
        let r := checkSpawnArgs Γ (ps.map (·.2)) Option.none args
        wrap strict { errs := b.errs ++ r.errs ++ spawnTargetErr Γ name, ty := .null, ex := b.ex || r.ex, cst := false,
                      tys := .null :: (b.tys ++ r.tys) }
    | .var ps rest _ =>
      if ps.length != 0 && args.length < ps.length then
        wrap strict { errs := b.errs ++ [⟨.arity, .arity⟩] ++ spawnTargetErr Γ name, ty := .null, ex := b.ex, cst := false,
                      tys := .null :: b.tys }
      else
        let r := checkSpawnArgs Γ ps (some rest) args
        wrap strict { errs := b.errs ++ r.errs ++ spawnTargetErr Γ name, ty := .null, ex := b.ex || r.ex, cst := false,
                      tys := .null :: (b.tys ++ r.tys) }
    | .div =>
      wrap strict { errs := b.errs, ty := .null, ex := b.ex, cst := false, tys := .null :: b.tys }
    | .bad =>
      wrap strict { errs := b.errs ++ [⟨.notCallable, .notCallable⟩], ty := .null, ex := b.ex, cst := false,
                    tys := .null :: b.tys }
  | .index base idx =>
    let b := checkExpr Γ true base
    let i := checkExpr Γ true idx
    match indexRule b.ty i.ty (isStrLit idx) with
    | some t =>
      wrap strict { errs := b.errs ++ i.errs, ty := t, ex := b.ex || i.ex, cst := b.cst, tys := t :: (b.tys ++ i.tys) }
    | Option.none =>
      wrap strict { errs := b.errs ++ i.errs ++ [indexErr b.ty i.ty], ty := .unknown, ex := b.ex || i.ex, cst := b.cst,
                    tys := .unknown :: (b.tys ++ i.tys) }
  | .member base name op =>
    let b := checkExpr Γ false base
    match memberRule b.ty name op with
    | some t => wrap strict { errs := b.errs, ty := t, ex := b.ex, cst := b.cst, tys := t :: b.tys }
    | Option.none =>
      if b.ty.kind == .any then
        wrap strict { errs := b.errs ++ [⟨.implicitAny, .implicitAny⟩], ty := .unknown, ex := b.ex, cst := true,
                      tys := [.unknown, .unknown] }
      else
        match op with
        | .dot => wrap strict { errs := b.errs ++ [⟨.unknownMember, .unknownMember⟩], ty := .unknown, ex := b.ex, cst := b.cst,
                                tys := .unknown :: b.tys }
        | .arrow => wrap strict { errs := b.errs ++ [⟨.memberOperator, .unknownMember⟩], ty := .opt .any, ex := b.ex,
                                  cst := b.cst, tys := .opt .any :: b.tys }
        | .tildeArrow => wrap strict { errs := b.errs ++ [⟨.memberOperator, .unknownMember⟩], ty := .any, ex := b.ex,
                                       cst := b.cst, tys := .any :: b.tys }
  | .cast e t =>
    let b := checkExpr Γ false e
    let c := convertType true t
    let own : List Err :=
      if castOK b.ty c.2 then []
      else if (typeCheck false b.ty c.2).isSome then [⟨.impossibleCast, .impossibleCast⟩]
      else [⟨.castToFunction, .impossibleCast⟩]
    wrap strict { errs := b.errs ++ c.1 ++ own, ty := c.2, ex := b.ex, cst := b.cst, tys := c.2 :: b.tys }
  | .blk b =>
    wrap strict (checkBlock Γ b)
  | .ifElse c t e =>
    let rc := checkExpr Γ true c
    let ec := tcErr true rc.ty .bool .conditionNotBool
    let rt := checkBlock Γ t
    let re := checkBlock Γ e
    let eb := tcErr true re.ty rt.ty .branchMismatch
    let ty : Ty := if !eb.isEmpty then .unknown else ifElseTy rt.ty re.ty
    wrap strict { errs := rc.errs ++ ec ++ rt.errs ++ re.errs ++ eb, ty := ty, ex := rc.ex || rt.ex || re.ex, cst := false,
                  tys := ty :: (rc.tys ++ rt.tys ++ re.tys) }
  | .ifThen c t =>
    let rc := checkExpr Γ true c
    let ec := tcErr true rc.ty .bool .conditionNotBool
    let rt := checkBlock Γ t
    let (eb, ty) : List Err × Ty :=
      if (typeCheck true rt.ty .null).isSome then ([⟨.missingElse, .branchMismatch⟩], .unknown) else ([], .null)
    wrap strict { errs := rc.errs ++ ec ++ rt.errs ++ eb, ty := ty, ex := rc.ex || rt.ex, cst := false,
                  tys := ty :: (rc.tys ++ rt.tys) }
  | .matchE c arms =>
    let rc := checkExpr Γ true c
    let r := checkArms Γ rc.ty {} arms
    let rt : Ty := if r.st.hadErr then r.st.rt else matchTy r.st.dflt.isSome arms.isEmpty r.st.rt
    let em : List Err :=
      if r.st.dflt.isNone && (typeCheck true .null rt).isSome then [⟨.missingDefault, .missingDefault⟩] else []
    wrap strict { errs := rc.errs ++ r.errs ++ em, ty := rt, ex := rc.ex || r.ex, cst := false,
                  tys := rt :: (rc.tys ++ r.tys ++ r.st.dflt.getD []) }
  | .tryE t name c =>
    let rt := checkBlock Γ t
    let rc := checkBlock (Γ.bind name errorTy) c
    let eb := tcErr true rc.ty rt.ty .branchMismatch
    let ty : Ty := if !eb.isEmpty then .unknown else tryTy rt.ty rc.ty
    wrap strict { errs := rt.errs ++ rc.errs ++ eb, ty := ty, ex := rt.ex || rc.ex, cst := false,
                  tys := ty :: (rt.tys ++ rc.tys) }
/-- `listLiteralExpression`: the element type is the type of the first value -/
def checkElems (Γ : Ctx) (lt : Ty) : PExprs → ElemsRes
  | .nil => { lt := lt }
  | .cons x xs =>
    let r := checkExpr Γ true x
    let lt' : Ty := if elemOK r.ty lt then (if lt.kind == .any then r.ty else lt) else .unknown
    let own : List Err := if elemOK r.ty lt then [] else tcErr false r.ty lt .elementMismatch
    let rr := checkElems Γ lt' xs
    { errs := r.errs ++ own ++ rr.errs, lt := rr.lt, ex := r.ex || rr.ex, cst := r.cst && rr.cst, tys := r.tys ++ rr.tys }
/-- `objectLiteralExpression` -/
def checkFields (Γ : Ctx) (seen : List String) : PFields → FieldsRes
  | .nil => {}
  | .cons k e rest =>
    if builtinFieldNames.contains k then
      let rr := checkFields Γ seen rest
      { rr with errs := ⟨.builtinFieldName, .duplicateDefinition⟩ :: rr.errs }
    else if seen.contains k then
      let rr := checkFields Γ seen rest
      { rr with errs := ⟨.duplicateField, .duplicateDefinition⟩ :: rr.errs }
    else
      let r := checkExpr Γ true e
      let rr := checkFields Γ (k :: seen) rest
      { errs := r.errs ++ rr.errs, fields := (k, r.ty) :: rr.fields, ex := r.ex || rr.ex, cst := r.cst && rr.cst,
        tys := r.tys ++ rr.tys }
/-- `callArgs` once the number of arguments is acceptable: `ps` are the remaining fixed
parameter types, `rest` the type of the variadic remainder -/
def checkArgs (Γ : Ctx) (ps : List Ty) (rest : Option Ty) : PExprs → ArgsRes
  | .nil => {}
  | .cons a as =>
    let r := checkExpr Γ true a
    let own : List Err :=
      if r.ty.kind == .null then [⟨.nullArgument, .nullArgument⟩] else tcErr true r.ty (argParam ps rest) .argMismatch
    let rr := checkArgs Γ ps.tail rest as
    { errs := r.errs ++ own ++ rr.errs, ex := r.ex || rr.ex, tys := (if own.isEmpty then r.tys else []) ++ rr.tys }
/-- `callArgs` with `baseIsSpawn`: an argument of a function type is rejected (and dropped)
instead of being checked against the parameter -/
def checkSpawnArgs (Γ : Ctx) (ps : List Ty) (rest : Option Ty) : PExprs → ArgsRes
  | .nil => {}
  | .cons a as =>
    let r := checkExpr Γ true a
    let own : List Err :=
      if r.ty.kind == .null then [⟨.nullArgument, .nullArgument⟩]
      else if r.ty.kind == .fn then [⟨.closureAcrossThreads, .closureAcrossThreads⟩]
      else tcErr true r.ty (argParam ps rest) .argMismatch
    let rr := checkSpawnArgs Γ ps.tail rest as
    { errs := r.errs ++ own ++ rr.errs, ex := r.ex || rr.ex, tys := (if own.isEmpty then r.tys else []) ++ rr.tys }
/-- the arms of `matchExpression` (after repair A5) -/
def checkArms (Γ : Ctx) (ctl : Ty) (st : MSt) : PArms → ArmsRes
  | .nil => { st := st }
  | .cons lits act rest =>
    let a := checkExpr Γ true act
    let (st1, e1) : MSt × List Err :=
      if st.hadErr then
        -- after a mismatch the result type is frozen; later arms are still compared with it
        match typeCheck true a.ty st.rt with
        | some m => (st, [⟨m, .branchMismatch⟩])
        | none => (st, [])
      else
        match armJoin st.rt a.ty with
        | some t => ({ st with rt := t }, [])
        | none => ({ st with hadErr := true }, tcErr true a.ty st.rt .branchMismatch)
    if lits.hasDefault then
      -- (the action of a default arm is analysed once: repair A14)
      let r := checkArms Γ ctl { st1 with dflt := some a.tys } rest
      { errs := a.errs ++ e1 ++ r.errs, st := r.st, ex := a.ex || r.ex, tys := r.tys }
    else
      let l := checkLits Γ ctl lits
      let r := checkArms Γ ctl st1 rest
      { errs := a.errs ++ e1 ++ l.errs ++ r.errs, st := r.st, ex := a.ex || l.ex || r.ex, tys := l.tys ++ a.tys ++ r.tys }
def checkLits (Γ : Ctx) (ctl : Ty) : PLits → LitsRes
  | .nil => {}
  | .dflt rest => checkLits Γ ctl rest
  | .lit e rest =>
    let r := checkExpr Γ true e
    let own := tcErr true r.ty ctl .matchLiteral
    let rr := checkLits Γ ctl rest
    { errs := r.errs ++ own ++ rr.errs, ex := r.ex || rr.ex, tys := r.tys ++ rr.tys }
/-- `Analyzer.statement` -/
def checkStmt (Γ : Ctx) : PStmt → StmtRes
  | .letS name ann e => letRule Γ name ann (checkExpr Γ false e) false
  | .ret e =>
    let r := checkExpr Γ true e
    let own : List Err :=
      match Γ.ret with
      | Option.none => [⟨.returnOutsideFunction, .returnOutsideFunction⟩]
      | some rt => tcErr true r.ty rt .returnMismatch
    { errs := r.errs ++ own, ty := .never, ex := r.ex, tys := r.tys, vars := Γ.vars }
  | .retNone =>
    let own : List Err :=
      match Γ.ret with
      | Option.none => [⟨.returnOutsideFunction, .returnOutsideFunction⟩]
      | some rt => tcErr true .null rt .returnMismatch
    { errs := own, ty := .never, vars := Γ.vars }
  | .brk =>
    { errs := if Γ.inLoop then [] else [⟨.breakOutsideLoop, .breakOutsideLoop⟩], ty := .never, ex := true, vars := Γ.vars }
  | .cont =>
    { errs := if Γ.inLoop then [] else [⟨.continueOutsideLoop, .continueOutsideLoop⟩], ty := .never, vars := Γ.vars }
  | .loopS b =>
    let r := checkBlock { Γ with inLoop := true } b
    { errs := r.errs ++ loopBodyErr r.ty, ty := loopTy r.ex, ex := false, tys := r.tys, vars := Γ.vars }
  | .whileS c b =>
    let rc := checkExpr Γ true c
    let ec := tcErr true rc.ty .bool .conditionNotBool
    let r := checkBlock { Γ with inLoop := true } b
    { errs := rc.errs ++ ec ++ r.errs ++ loopBodyErr r.ty, ty := .null, ex := rc.ex, tys := rc.tys ++ r.tys, vars := Γ.vars }
  | .forS name it b =>
    let ri := checkExpr Γ true it
    let (ei, vt) : List Err × Ty :=
      match iterTy ri.ty with
      | some t => ([], t)
      | Option.none => ([⟨.notIterable, .notIterable⟩], .unknown)
    let r := checkBlock { (Γ.bind name vt) with inLoop := true } b
    { errs := ri.errs ++ ei ++ r.errs ++ loopBodyErr r.ty, ty := .null, ex := ri.ex, tys := vt :: (ri.tys ++ r.tys), vars := Γ.vars }
  | .exprS e =>
    let r := checkExpr Γ true e
    { errs := r.errs, ty := r.ty, ex := r.ex, tys := r.tys, vars := Γ.vars }
def checkStmts (Γ : Ctx) : PStmts → StmtsRes
  | .nil => { vars := Γ.vars }
  | .cons s rest =>
    let r := checkStmt Γ s
    let rr := checkStmts { Γ with vars := r.vars } rest
    { errs := r.errs ++ rr.errs, never := r.ty.isNever || rr.never, ex := r.ex || rr.ex, tys := r.tys ++ rr.tys, vars := rr.vars }
/-- `Analyzer.block`: the scope pushed for the block is dropped with the result -/
def checkBlock (Γ : Ctx) : PBlock → Res
  | .mk ss e =>
    let r := checkStmts Γ ss
    let t := checkExpr { Γ with vars := r.vars } true e
    let ty : Ty := blockTy r.never t.ty
    { errs := r.errs ++ t.errs, ty := ty, ex := r.ex || t.ex,
      cst := blockCst ss t.cst, tys := ty :: (r.tys ++ t.tys) }
  | .mkNoTail ss =>
    let r := checkStmts Γ ss
    let ty : Ty := blockTy r.never .null
    { errs := r.errs, ty := ty, ex := r.ex, cst := false, tys := ty :: r.tys }
end

/-! ## Program level -/

/-- Root scope of the testing host (`TestingAnalyzerScopeAdditions` + `throw`). -/
def timeObjTy : Ty :=
  .obj [("year", .int), ("month", .int), ("year_day", .int), ("hour", .int), ("minute", .int), ("second", .int),
        ("month_day", .int), ("week_day", .int), ("unix_milli", .int)]

def hostScope : List (String × Ty) :=
  [("log", .fn [("base", .float), ("value", .float)] .float),
   ("print", .fnvar [] .unknown .null), ("println", .fnvar [] .unknown .null), ("debug", .fnvar [] .unknown .null),
   ("fmt", .fnvar [.str] .unknown .str),
   ("time", .obj [("sleep", .fn [("seconds", .float)] .null), ("now", .fn [] timeObjTy),
                  ("add_days", .fn [("time", timeObjTy), ("days", .int)] timeObjTy)]),
   ("assert", .fn [("t", .bool)] .null),
   ("throw", .fn [("error", .unknown)] .never)]

/-- `functionSignature`: the function's type as seen by its callers (no diagnostics) -/
def fnSig (f : PFn) : Ty :=
  .fn (f.params.map fun (n, t) => (n, (convertType false t).2)) (convertType false f.ret).2

/-- duplicate function definitions (`functionSignature`) -/
def dupFnErrs (seen : List String) : List PFn → List Err
  | [] => []
  | f :: rest =>
    (if seen.contains f.name then [⟨.duplicateFunction, .duplicateDefinition⟩] else []) ++ dupFnErrs (f.name :: seen) rest

/-- a function named like a value that is already in the root scope when the signatures are
registered (`functionSignature`): imports and builtins there, the host scope in the model (imports
are outside of it). Such a value would win over the function wherever the name is used. -/
def fnClashErrs (root : List (String × Ty)) : List PFn → List Err
  | [] => []
  | f :: rest =>
    (if (lookupTy f.name root).isSome then [⟨.nameClash, .duplicateDefinition⟩] else []) ++ fnClashErrs root rest

/-- a global named like a function of the module (`letStatement`, global case: the signatures
are registered before the globals, whatever the order in the source) -/
def globalClashErrs (fns : List (String × Ty)) (name : String) : List Err :=
  if (lookupTy name fns).isSome then [⟨.nameClash, .duplicateDefinition⟩] else []

structure GlobalsRes where
  errs : List Err := []
  vars : List (String × Ty)
  tys : List Ty := []

/-- global `let` statements, in order, outside of any function -/
def checkGlobals (fns : List (String × Ty)) (vars : List (String × Ty)) : List PGlobal → GlobalsRes
  | [] => { vars := vars }
  | g :: rest =>
    let Γ : Ctx := { vars := vars, fns := fns, ret := none, inLoop := false }
    let r := letRule Γ g.name g.ann (checkExpr Γ false g.e) true
    let rr := checkGlobals fns r.vars rest
    { errs := r.errs ++ globalClashErrs fns g.name ++ rr.errs, vars := rr.vars, tys := r.tys ++ rr.tys }

/-- `setCurrentFunc`: `return` statements are checked against the return type of the first
function registered under the name -/
def curRet (fns : List (String × Ty)) (name : String) : Ty :=
  match lookupTy name fns with
  | some (.fn _ r) => r
  | _ => .unknown

/-- `functionDefinition` -/
def checkFn (fns : List (String × Ty)) (globals : List (String × Ty)) (f : PFn) : List Err × List Ty :=
  let rt := convertType true f.ret
  let isMain := f.name == "main"
  let ps := if isMain then ([], []) else convertParamList f.params
  let e1 : List Err :=
    if isMain then (if f.params.length > 0 then [⟨.mainParams, .mainShape⟩] else [])
    else List.replicate (dupNames [] ps.2) ⟨.duplicateParam, .duplicateDefinition⟩
  let badMainRet := isMain && rt.2.kind != .unknown && rt.2.kind != .null
  let e2 : List Err := if badMainRet then [⟨.mainReturn, .mainShape⟩] else []
  let declared : Ty := if badMainRet then .unknown else rt.2
  let Γ : Ctx := { vars := paramScope [] ps.2 ++ globals, fns := fns, ret := some (curRet fns f.name), inLoop := false }
  let b := checkBlock Γ f.body
  (rt.1 ++ e1 ++ e2 ++ ps.1 ++ b.errs ++ tcErr true b.ty declared .returnMismatch, declared :: b.tys)

def checkFns (fns : List (String × Ty)) (globals : List (String × Ty)) : List PFn → List Err × List Ty
  | [] => ([], [])
  | f :: rest =>
    let r := checkFn fns globals f
    let rr := checkFns fns globals rest
    (r.1 ++ rr.1, r.2 ++ rr.2)

structure ProgRes where
  errs : List Err
  tys : List Ty

/-- `analyzeModule` for a program of the core language; `needMain`: the host requires `main` -/
def checkProg (needMain : Bool) (p : PProg) : ProgRes :=
  let fns := p.fns.map fun f => (f.name, fnSig f)
  let e0 := dupFnErrs [] p.fns ++ fnClashErrs hostScope p.fns
  let g := checkGlobals fns hostScope p.globals
  let f := checkFns fns g.vars p.fns
  let em : List Err :=
    if needMain && !(p.fns.any fun f => f.name == "main") then [⟨.mainMissing, .mainShape⟩] else []
  { errs := e0 ++ g.errs ++ f.1 ++ em, tys := g.tys ++ f.2 }

/-! ## Warnings: unreachable match arms (purely syntactic) -/

mutual
def unreachE : PExpr → Nat
  | .range a b _ => unreachE a + unreachE b
  | .list xs => unreachEs xs
  | .obj fs => unreachFs fs
  | .lambda _ _ b => unreachB b
  | .grp e => unreachE e
  | .pre _ e => unreachE e
  | .infix _ l r => unreachE l + unreachE r
  | .assign _ l r => unreachE l + unreachE r
  | .call b as => unreachE b + unreachEs as
  | .spawn _ as => unreachEs as
  | .index b i => unreachE b + unreachE i
  | .member b _ _ => unreachE b
  | .cast e _ => unreachE e
  | .blk b => unreachB b
  | .ifElse c t e => unreachE c + unreachB t + unreachB e
  | .ifThen c t => unreachE c + unreachB t
  | .matchE c arms => unreachE c + unreachA false arms
  | .tryE t _ c => unreachB t + unreachB c
  | _ => 0
def unreachEs : PExprs → Nat
  | .nil => 0
  | .cons e r => unreachE e + unreachEs r
def unreachFs : PFields → Nat
  | .nil => 0
  | .cons _ e r => unreachE e + unreachFs r
/-- one warning per `match` that has a literal arm after a default arm -/
def unreachA (seenDefault : Bool) : PArms → Nat
  | .nil => 0
  | .cons lits a r =>
    let inner := (if lits.hasDefault then 2 else 1) * unreachE a + unreachL lits
    if lits.hasDefault then inner + unreachA true r
    else if seenDefault then inner + 1 + unreachA2 r
    else inner + unreachA false r
/-- the rest of the arms once the warning has been given -/
def unreachA2 : PArms → Nat
  | .nil => 0
  | .cons lits a r => (if lits.hasDefault then 2 else 1) * unreachE a + unreachL lits + unreachA2 r
def unreachL : PLits → Nat
  | .nil => 0
  | .dflt r => unreachL r
  | .lit e r => unreachE e + unreachL r
def unreachS : PStmt → Nat
  | .letS _ _ e => unreachE e
  | .ret e => unreachE e
  | .loopS b => unreachB b
  | .whileS c b => unreachE c + unreachB b
  | .forS _ it b => unreachE it + unreachB b
  | .exprS e => unreachE e
  | _ => 0
def unreachSs : PStmts → Nat
  | .nil => 0
  | .cons s r => unreachS s + unreachSs r
def unreachB : PBlock → Nat
  | .mk ss e => unreachSs ss + unreachE e
  | .mkNoTail ss => unreachSs ss
end

def warnings (p : PProg) : List Diag :=
  let n := (p.globals.map fun g => unreachE g.e).foldl (· + ·) 0 + (p.fns.map fun f => unreachB f.body).foldl (· + ·) 0
  List.replicate n ⟨.warning, .unreachable, none⟩

/-- The diagnostics of a program: error-level ones with their classes, then warnings. -/
def checkWith (needMain : Bool) (p : PProg) : List Diag :=
  (checkProg needMain p).errs.map Diag.ofErr ++ warnings p

/-- The host requires `main` (the setting of the property). -/
def check (p : PProg) : List Diag := checkWith true p

/-- The types recorded for the program, in pre-order of the analysed tree. -/
def inferTypes (p : PProg) : List Ty := (checkProg true p).tys

end Hms.Check
