import Hms.Check.Types
/-!
# C03 — decision-table model of the `impl` / template rules

Mirrors `analyzer/topLevel.go implBlock / validateTemplateConstraints / templateTypeFail` and
`analyzer/singleton.go templateCapabilitiesWithDefault / WithCapabilities` on the abstraction
the rules depend on: which capabilities were selected, and for every method its name, its
non-singleton parameters, its return type, its modifier and whether it extracts the singleton
the block is written for. (The bodies of the methods are ordinary functions of the core.)
-/
namespace Hms.Check

structure TMethod where
  name : String
  params : List (String × Ty)
  ret : Ty
  modifier : Nat
  deriving Inhabited

structure TCap where
  name : String
  requires : List String
  conflicts : List String
  deriving Inhabited

/-- `ast.TemplateSpec` (maps as association lists with distinct keys) -/
structure Template where
  methods : List TMethod
  caps : List TCap
  defaults : List String
  deriving Inhabited

structure IMethod where
  name : String
  params : List (String × Ty)
  ret : Ty
  modifier : Nat
  extracts : Bool
  deriving Inhabited

/-- the `impl T with { caps } for $S { methods }` block -/
structure Impl where
  caps : List String
  methods : List IMethod
  deriving Inhabited

/-- rule classes of the template diagnostics (names of the harness table) -/
inductive TErr where
  | unknownCapability | capabilityConflict | missingMethod | extraMethod | paramCount | paramName
  | modifier | noExtraction
  | tc (m : Msg)
  deriving Repr, DecidableEq, Inhabited

def TErr.name : TErr → String
  | .unknownCapability => "implUnknownCapability" | .capabilityConflict => "implCapabilityConflict"
  | .missingMethod => "implMissingMethod" | .extraMethod => "implExtraMethod" | .paramCount => "implParamCount"
  | .paramName => "implParamName" | .modifier => "implModifier" | .noExtraction => "implNoExtraction"
  | .tc m => m.name

def findCap (t : Template) (name : String) : Option TCap := t.caps.find? (·.name == name)

/-- capabilities named by the user that do not exist on the template -/
def unknownCaps (t : Template) (i : Impl) : List String := i.caps.filter fun c => (findCap t c).isNone

/-- `templateCapabilitiesWithDefault`: the defaults plus the user's (known) capabilities -/
def selectedCaps (t : Template) (i : Impl) : List TCap :=
  (t.defaults ++ i.caps).eraseDups.filterMap (findCap t)

/-- a selected capability that lists another selected capability as a conflict -/
def conflicting (sel : List TCap) (c : TCap) : Bool := c.conflicts.any fun n => sel.any (·.name == n)

/-- `WithCapabilities`: one diagnostic per conflict found; a conflict that was already reported
from the other side is not repeated (`conflictsReverse`) -/
def conflictErrs (sel : List TCap) : List TCap → List String → List TErr
  | [], _ => []
  | c :: rest, reported =>
    match c.conflicts.find? (fun n => sel.any (·.name == n)) with
    | none => conflictErrs sel rest reported
    | some other =>
      if reported.contains c.name then conflictErrs sel rest reported
      else .capabilityConflict :: conflictErrs sel rest (other :: reported)

/-- the methods the selected capabilities require -/
def requiredMethods (t : Template) (sel : List TCap) : List TMethod :=
  t.methods.filter fun m => sel.any fun c => c.requires.contains m.name

/-- parameters are compared in order; the first difference is reported -/
def paramErrs : List (String × Ty) → List (String × Ty) → List TErr
  | (rn, rt) :: rs, (gn, gt) :: gs =>
    if rn != gn then [.paramName]
    else
      match typeCheck true gt rt with
      | some m => [.tc m]
      | none => paramErrs rs gs
  | _, _ => []

def methodErrs (req : TMethod) (m : IMethod) : List TErr :=
  if req.params.length != m.params.length then [.paramCount]
  else
    let pe := paramErrs req.params m.params
    let e1 : List TErr := if pe.isEmpty && !m.extracts then [.noExtraction] else []
    let re : List TErr :=
      match typeCheck true m.ret req.ret with
      | some msg => [.tc msg]
      | none => if !m.extracts then [.noExtraction] else []
    let me : List TErr := if m.modifier != req.modifier then [.modifier] else []
    pe ++ e1 ++ re ++ me

def requiredErrs (ms : List IMethod) (req : TMethod) : List TErr :=
  match ms.find? (·.name == req.name) with
  | none => [.missingMethod]
  | some m => methodErrs req m

/-- `implBlock` after the template has been found: the template diagnostics of the block -/
def templateCheck (t : Template) (i : Impl) : List TErr :=
  let e1 : List TErr := (unknownCaps t i).map fun _ => .unknownCapability
  let sel := selectedCaps t i
  let e2 := conflictErrs sel sel []
  if !e2.isEmpty then e1 ++ e2
  else
    let req := requiredMethods t sel
    e1 ++ req.flatMap (requiredErrs i.methods)
      ++ (i.methods.filter fun m => !(req.any (·.name == m.name))).map fun _ => .extraMethod

/-! ## Specification -/

/-- parameters agree: same number, same names in order, compatible types -/
inductive ParamsOK : List (String × Ty) → List (String × Ty) → Prop where
  | nil : ParamsOK [] []
  | cons {n rt gt rs gs} : typeCheck true gt rt = none → ParamsOK rs gs → ParamsOK ((n, rt) :: rs) ((n, gt) :: gs)

/-- an implementation fits a required method -/
structure MethodOK (req : TMethod) (m : IMethod) : Prop where
  params : ParamsOK req.params m.params
  ret : typeCheck true m.ret req.ret = none
  modifier : m.modifier = req.modifier
  extracts : m.extracts = true

/-- the `impl` block matches its template -/
structure TemplateOK (t : Template) (i : Impl) : Prop where
  /-- every capability named exists on the template -/
  capsKnown : ∀ c ∈ i.caps, (findCap t c).isSome = true
  /-- no selected capability conflicts with a selected capability -/
  noConflict : ∀ c ∈ selectedCaps t i, conflicting (selectedCaps t i) c = false
  /-- every required method is implemented, and its (first) implementation fits -/
  required : ∀ r ∈ requiredMethods t (selectedCaps t i), ∃ m, i.methods.find? (·.name == r.name) = some m ∧ MethodOK r m
  /-- nothing else is implemented -/
  noExtra : ∀ m ∈ i.methods, (requiredMethods t (selectedCaps t i)).any (·.name == m.name) = true

/-- The template of the testing host (`TestingAnalyzerHost.GetBuiltinImport "templates" "FooFeature"`). -/
def fooFeature : Template :=
  { methods := [⟨"dim", [("percent", .int)], .bool, 0⟩, ⟨"set_temp", [("celsius", .float)], .null, 0⟩],
    caps := [⟨"light", ["dim"], ["temperature"]⟩, ⟨"temperature", ["set_temp"], ["light"]⟩],
    defaults := [] }

end Hms.Check

namespace Hms.Check

/-! ## Decision-table model of the `trigger` statement (`statement.go triggerStatement`) -/

/-- What the rules of `trigger cb <kw> trig(args);` depend on. -/
structure TrigCase where
  /-- the trigger function was imported -/
  triggerKnown : Bool
  /-- the callback names a function of the module -/
  callbackKnown : Bool
  /-- the statement stands in the callback function itself -/
  fromItself : Bool
  /-- modifier of the callback function: 0 none, 1 pub, 2 event -/
  modifier : Nat
  cbParams : List (String × Ty)
  cbRet : Ty
  /-- `TriggerFunction.CallbackFnType` -/
  expParams : List (String × Ty)
  expRet : Ty
  /-- parameter types of `TriggerFunction.TriggerFnType` -/
  trigParams : List Ty
  /-- types of the (individually well-typed) arguments -/
  argTys : List Ty
  deriving Inhabited

inductive TrigErr where
  | unknownTrigger | unknownCallback | triggerSelf | triggerModifier | arity | nullArgument
  | tc (m : Msg)
  deriving Repr, DecidableEq, Inhabited

def TrigErr.name : TrigErr → String
  | .unknownTrigger => "unknownTrigger" | .unknownCallback => "unknownCallback" | .triggerSelf => "triggerSelf"
  | .triggerModifier => "triggerModifier" | .arity => "arity" | .nullArgument => "nullArgument"
  | .tc m => m.name

/-- `TypeCheck got expected` on parameter lists with `IgnoreFnParamNameMismatches`: parameters
correspond by position (repair F1); under the same name the types must be compatible, under
different names the types must be compatible the other way round -/
def cbParamErr : List (String × Ty) → List (String × Ty) → Option Msg
  | (gn, g) :: gs, (n, e) :: rest =>
    if gn == n then
      match typeCheck true g e with
      | some m => some m
      | none => cbParamErr gs rest
    else if (typeCheck true e g).isNone then cbParamErr gs rest else some .fnParamMissing
  | _, _ => none

def callbackShapeErr (c : TrigCase) : Option Msg :=
  match typeCheck true c.cbRet c.expRet with
  | some m => some m
  | none => if c.expParams.length != c.cbParams.length then some .fnParamCount else cbParamErr c.cbParams c.expParams

def trigArgErrs : List Ty → List Ty → List TrigErr
  | p :: ps, a :: as =>
    (if a.kind == .null then [.nullArgument]
     else match typeCheck true a p with
       | some m => [.tc m]
       | none => []) ++ trigArgErrs ps as
  | _, _ => []

def triggerCheck (c : TrigCase) : List TrigErr :=
  let e1 : List TrigErr := if c.triggerKnown then [] else [.unknownTrigger]
  if !c.callbackKnown then e1 ++ [.unknownCallback]
  else
    let e2 : List TrigErr := if c.fromItself then [.triggerSelf] else []
    let e3 : List TrigErr := if c.modifier != 2 then [.triggerModifier] else []
    let e4 : List TrigErr :=
      if !c.triggerKnown then []
      else
        (match callbackShapeErr c with
         | some m => [.tc m]
         | none => []) ++
        (if c.argTys.length != c.trigParams.length then [.arity] else trigArgErrs c.trigParams c.argTys)
    e1 ++ e2 ++ e3 ++ e4

/-- arguments fit the trigger's parameters -/
inductive TrigArgsOK : List Ty → List Ty → Prop where
  | nil : TrigArgsOK [] []
  | cons {p a ps as} : a.kind ≠ .null → typeCheck true a p = none → TrigArgsOK ps as → TrigArgsOK (p :: ps) (a :: as)

/-- the `trigger` statement is well-formed -/
structure TriggerOK (c : TrigCase) : Prop where
  triggerKnown : c.triggerKnown = true
  callbackKnown : c.callbackKnown = true
  notFromItself : c.fromItself = false
  isEvent : c.modifier = 2
  /-- the callback has the shape the trigger demands -/
  shape : callbackShapeErr c = none
  args : TrigArgsOK c.trigParams c.argTys

end Hms.Check
