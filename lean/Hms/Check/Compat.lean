import Hms.Check.Types
/-!
# C03 — structural compatibility as a relation

`Compatible a got exp`: a value of type `got` may be used where `exp` is expected (`a`: function
types are admitted at this position). Written as inference rules; `HmsProofs.Lemmas.CheckCompat`
proves that it is exactly what `typeCheck` (the model of `Analyzer.TypeCheck`) decides.
-/
namespace Hms.Check

/-- types that are compared by their kind alone -/
def Ty.isAtom : Ty → Bool
  | .null | .int | .float | .bool | .str | .range | .anyobj => true
  | _ => false

mutual
inductive Compatible : Bool → Ty → Ty → Prop where
  /-- everything fits `any`; `unknown` and `never` as expectation never complain -/
  | toAny {a g} : Compatible a g .any
  | toUnknown {a g} : Compatible a g .unknown
  | toNever {a g} : Compatible a g .never
  /-- a diverging or erroneous expression fits everywhere; `any` is checked at run time -/
  | fromUnknown {a e} : Compatible a .unknown e
  | fromNever {a e} : Compatible a .never e
  | fromAny {a e} : Compatible a .any e
  | atom {a g} : g.isAtom = true → Compatible a g g
  | list {a g e} : Compatible a g e → Compatible a (.list g) (.list e)
  /-- inside an option function types are admitted -/
  | opt {a g e} : Compatible true g e → Compatible a (.opt g) (.opt e)
  /-- objects: every expected field is present and compatible, no other field is present -/
  | obj {a gf ef} : FieldsCompatible a gf ef → hasExcessField gf ef = false → Compatible a (.obj gf) (.obj ef)
  /-- functions (where admitted): compatible result, same number of parameters, the parameters
  correspond by position: same name, compatible type -/
  | fn {gp gr ep er} : Compatible true gr er → ep.length = gp.length → ParamsCompatible gp ep →
      Compatible true (.fn gp gr) (.fn ep er)
  | fnvar {gp grest gr ep erest er} : Compatible true gr er → ep.length = gp.length → TysCompatible gp ep →
      Compatible true grest erest → Compatible true (.fnvar gp grest gr) (.fnvar ep erest er)
inductive FieldsCompatible : Bool → List (String × Ty) → List (String × Ty) → Prop where
  | nil {a gf} : FieldsCompatible a gf []
  | cons {a gf n e g rest} : lookupTy n gf = some g → Compatible a g e → FieldsCompatible a gf rest →
      FieldsCompatible a gf ((n, e) :: rest)
inductive ParamsCompatible : List (String × Ty) → List (String × Ty) → Prop where
  | nil : ParamsCompatible [] []
  | cons {n g e gs rest} : Compatible true g e → ParamsCompatible gs rest →
      ParamsCompatible ((n, g) :: gs) ((n, e) :: rest)
inductive TysCompatible : List Ty → List Ty → Prop where
  | nilL {es} : TysCompatible [] es
  | nilR {gs} : TysCompatible gs []
  | cons {g e gs es} : Compatible true g e → TysCompatible gs es → TysCompatible (g :: gs) (e :: es)
end

end Hms.Check
