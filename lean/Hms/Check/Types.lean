/-!
# C03 — semantic types of the analyzer, structural compatibility (`TypeCheck`), `CheckAny`,
builtin member tables

Mirrors `analyzer/ast/types.go` (types without spans, `Fields()`), `analyzer/typing.go`
(`TypeCheck`, `checkTypeKindEquality`, `CheckAny`). Core Lean only.
-/
namespace Hms.Check

/-- Semantic types (`ast.Type` without spans). Function types carry parameter names because
`TypeCheck` compares the names of corresponding parameters. `fnvar` is the host-only variadic function type. -/
inductive Ty where
  | unknown | never | any | null | int | float | bool | str | range | anyobj
  | list (t : Ty)
  | opt (t : Ty)
  | obj (fields : List (String × Ty))
  | fn (params : List (String × Ty)) (ret : Ty)
  | fnvar (params : List Ty) (rest : Ty) (ret : Ty)
  deriving Repr, Inhabited

/-- `TypeKind` -/
inductive Kind where
  | unknown | never | any | null | int | float | bool | str | range | list | anyobj | obj | opt | fn
  deriving Repr, DecidableEq, Inhabited

def Ty.kind : Ty → Kind
  | .unknown => .unknown | .never => .never | .any => .any | .null => .null | .int => .int
  | .float => .float | .bool => .bool | .str => .str | .range => .range | .anyobj => .anyobj
  | .list _ => .list | .opt _ => .opt | .obj _ => .obj | .fn .. => .fn | .fnvar .. => .fn

def Ty.isNever (t : Ty) : Bool := t.kind == .never
def Ty.isUnknown (t : Ty) : Bool := t.kind == .unknown

/-- Message classes of the error-level diagnostics (the rule-class table of `harness/analyze.go`). -/
inductive Msg where
  | typeMismatch | missingElse | fieldMissing | fieldUnexpected | fnValueCast | fnParamKind
  | fnParamCount | fnParamMissing | unknownType | duplicateTypeField | duplicateFnTypeParam
  | implicitAny | unknownIdent | rangeOperand | builtinFieldName | duplicateField | duplicateParam
  | prefixOperand | infixOperand | assignOperand | arity | nullArgument | notCallable | indexType
  | unknownField | notIndexable | memberOperator | unknownMember | impossibleCast | castToFunction
  | missingDefault | nonConstantGlobal | duplicateGlobal | returnOutsideFunction | breakOutsideLoop
  | continueOutsideLoop | notIterable | loopBody | duplicateFunction | mainParams | mainReturn
  | mainMissing | nameClash | closureAcrossThreads | spawnNonFunction
  deriving Repr, DecidableEq, Inhabited

def Msg.name : Msg → String
  | .typeMismatch => "typeMismatch" | .missingElse => "missingElse" | .fieldMissing => "fieldMissing"
  | .fieldUnexpected => "fieldUnexpected" | .fnValueCast => "fnValueCast" | .fnParamKind => "fnParamKind"
  | .fnParamCount => "fnParamCount" | .fnParamMissing => "fnParamMissing" | .unknownType => "unknownType"
  | .duplicateTypeField => "duplicateTypeField" | .duplicateFnTypeParam => "duplicateFnTypeParam"
  | .implicitAny => "implicitAny" | .unknownIdent => "unknownIdent" | .rangeOperand => "rangeOperand"
  | .builtinFieldName => "builtinFieldName" | .duplicateField => "duplicateField"
  | .duplicateParam => "duplicateParam" | .prefixOperand => "prefixOperand" | .infixOperand => "infixOperand"
  | .assignOperand => "assignOperand" | .arity => "arity" | .nullArgument => "nullArgument"
  | .notCallable => "notCallable" | .indexType => "indexType" | .unknownField => "unknownField"
  | .notIndexable => "notIndexable" | .memberOperator => "memberOperator" | .unknownMember => "unknownMember"
  | .impossibleCast => "impossibleCast" | .castToFunction => "castToFunction"
  | .missingDefault => "missingDefault" | .nonConstantGlobal => "nonConstantGlobal"
  | .duplicateGlobal => "duplicateGlobal" | .returnOutsideFunction => "returnOutsideFunction"
  | .breakOutsideLoop => "breakOutsideLoop" | .continueOutsideLoop => "continueOutsideLoop"
  | .notIterable => "notIterable" | .loopBody => "loopBody" | .duplicateFunction => "duplicateFunction"
  | .mainParams => "mainParams" | .mainReturn => "mainReturn" | .mainMissing => "mainMissing"
  | .nameClash => "nameClash" | .closureAcrossThreads => "closureAcrossThreads"
  | .spawnNonFunction => "spawnNonFunction"

/-! ## Equality test (used by examples and the driver; `DecidableEq` cannot be derived for
the nested type) -/

mutual
def Ty.beq : Ty → Ty → Bool
  | .unknown, .unknown | .never, .never | .any, .any | .null, .null | .int, .int | .float, .float
  | .bool, .bool | .str, .str | .range, .range | .anyobj, .anyobj => true
  | .list a, .list b => a.beq b
  | .opt a, .opt b => a.beq b
  | .obj a, .obj b => beqFields a b
  | .fn pa ra, .fn pb rb => beqFields pa pb && ra.beq rb
  | .fnvar pa sa ra, .fnvar pb sb rb => beqTys pa pb && sa.beq sb && ra.beq rb
  | _, _ => false
def beqFields : List (String × Ty) → List (String × Ty) → Bool
  | [], [] => true
  | (n, a) :: r, (m, b) :: s => n == m && a.beq b && beqFields r s
  | _, _ => false
def beqTys : List Ty → List Ty → Bool
  | [], [] => true
  | a :: r, b :: s => a.beq b && beqTys r s
  | _, _ => false
end

instance : BEq Ty := ⟨Ty.beq⟩

/-! ## `CheckAny` -/

mutual
/-- `Analyzer.CheckAny`: does the type contain `any`? -/
def Ty.hasAny : Ty → Bool
  | .any => true
  | .list t => t.hasAny
  | .opt t => t.hasAny
  | .obj fs => hasAnyFields fs
  | .fn ps r => hasAnyFields ps || r.hasAny
  /- the variadic case of `CheckAny` looks at the fixed and the remaining parameter types only -/
  | .fnvar ps rest _ => hasAnyTys ps || rest.hasAny
  | _ => false
def hasAnyFields : List (String × Ty) → Bool
  | [] => false
  | (_, t) :: rest => t.hasAny || hasAnyFields rest
def hasAnyTys : List Ty → Bool
  | [] => false
  | t :: rest => t.hasAny || hasAnyTys rest
end

/-! ## `TypeCheck` -/

def lookupTy (name : String) : List (String × Ty) → Option Ty
  | [] => none
  | (n, t) :: rest => if n == name then some t else lookupTy name rest

/-- names of `got` that do not occur in `exp` (first one is reported) -/
def hasExcessField (gf ef : List (String × Ty)) : Bool :=
  gf.any fun (n, _) => (lookupTy n ef).isNone

mutual
/-- `Analyzer.TypeCheck got expected {AllowFunctionTypes := allowFn}` with
`IgnoreFnParamNameMismatches = false`: `none` = compatible, `some m` = message class of the
error-level diagnostic. Structural recursion on `expected`. -/
def typeCheck (allowFn : Bool) : (got : Ty) → (exp : Ty) → Option Msg
  | _, .any => none
  | _, .unknown => none
  | _, .never => none
  | .unknown, _ => none
  | .never, _ => none
  | .any, _ => none
  | .list g, .list e => typeCheck allowFn g e
  | .opt g, .opt e => typeCheck true g e
  | .obj gf, .obj ef =>
    match tcFields allowFn gf ef with
    | some m => some m
    | none => if hasExcessField gf ef then some .fieldUnexpected else none
  | .fn gp gr, .fn ep er =>
    if !allowFn then some .fnValueCast else
    match typeCheck allowFn gr er with
    | some m => some m
    | none =>
      if ep.length != gp.length then some .fnParamCount else tcParams allowFn gp ep
  | .fnvar gp grest gr, .fnvar ep erest er =>
    if !allowFn then some .fnValueCast else
    match typeCheck allowFn gr er with
    | some m => some m
    | none =>
      if ep.length != gp.length then some .fnParamCount else
      match tcTys allowFn gp ep with
      | some m => some m
      | none => typeCheck allowFn grest erest
  | .fn _ gr, .fnvar _ _ er =>
    if !allowFn then some .fnValueCast else
    match typeCheck allowFn gr er with
    | some m => some m
    | none => some .fnParamKind
  | .fnvar _ _ gr, .fn _ er =>
    if !allowFn then some .fnValueCast else
    match typeCheck allowFn gr er with
    | some m => some m
    | none => some .fnParamKind
  | .fn .., _ => if !allowFn then some .fnValueCast else some .typeMismatch
  | .fnvar .., _ => if !allowFn then some .fnValueCast else some .typeMismatch
  | g, e => if g.kind == e.kind then none else some .typeMismatch
/-- every expected field exists on `got` with a compatible type -/
def tcFields (allowFn : Bool) (gf : List (String × Ty)) : (ef : List (String × Ty)) → Option Msg
  | [] => none
  | (n, e) :: rest =>
    match lookupTy n gf with
    | none => some .fieldMissing
    | some g =>
      match typeCheck allowFn g e with
      | some m => some m
      | none => tcFields allowFn gf rest
/-- parameters correspond by position (call arguments are bound in this order): the i-th
parameter of `got` has the name of the i-th expected one and a compatible type (repair F1; the
lists have the same length where this is called) -/
def tcParams (allowFn : Bool) : (gp : List (String × Ty)) → (ep : List (String × Ty)) → Option Msg
  | (gn, g) :: gs, (n, e) :: rest =>
    if gn != n then some .fnParamMissing else
    match typeCheck allowFn g e with
    | some m => some m
    | none => tcParams allowFn gs rest
  | _, _ => none
def tcTys (allowFn : Bool) : (gs : List Ty) → (es : List Ty) → Option Msg
  | g :: gs, e :: es =>
    match typeCheck allowFn g e with
    | some m => some m
    | none => tcTys allowFn gs es
  | _, _ => none
end

/-! ## Builtin members (`Type.Fields`) -/

def fn0 (ret : Ty) : Ty := .fn [] ret

def listMembers (inner : Ty) : List (String × Ty) :=
  [("to_string", fn0 .str), ("len", fn0 .int), ("contains", .fn [("element", inner)] .bool),
   ("concat", .fn [("other", .list inner)] .null), ("join", .fn [("sep", .str)] .str),
   ("push", .fn [("element", inner)] .null), ("pop", fn0 (.opt inner)),
   ("push_front", .fn [("element", inner)] .null), ("pop_front", fn0 (.opt inner)),
   ("insert", .fn [("index", .int), ("element", inner)] .null), ("remove", .fn [("index", .int)] .null),
   ("last", fn0 (.opt inner)), ("to_json", fn0 .str), ("to_json_indent", fn0 .str)]
  ++ (match inner.kind with
      | .int | .float | .str => [("sort", fn0 .null)]
      | _ => [])

def objBuiltinMembers : List (String × Ty) :=
  [("keys", fn0 (.list .str)), ("to_json", fn0 .str), ("to_json_indent", fn0 .str)]

/-- `t.Fields()[name]` -/
def memberTy (t : Ty) (name : String) : Option Ty :=
  match t with
  | .int => lookupTy name [("to_string", fn0 .str), ("to_range", fn0 .range)]
  | .float => lookupTy name [("is_int", fn0 .bool), ("trunc", fn0 .int), ("round", fn0 .int), ("to_string", fn0 .str)]
  | .bool => lookupTy name [("to_string", fn0 .str)]
  | .str => lookupTy name
      [("len", fn0 .int), ("replace", .fn [("old", .str), ("new", .str)] .str), ("repeat", .fn [("count", .int)] .str),
       ("contains", .fn [("substring", .str)] .bool), ("starts_with", .fn [("substring", .str)] .bool),
       ("split", .fn [("separator", .str)] (.list .str)), ("parse_int", fn0 .int), ("parse_float", fn0 .float),
       ("parse_bool", fn0 .bool), ("to_lower", fn0 .str), ("to_upper", fn0 .str),
       ("compare_lev", .fn [("other", .str)] .int), ("substring", .fn [("upper", .int)] .str),
       ("parse_json", fn0 .any)]
  | .range => lookupTy name
      [("to_string", fn0 .str), ("start", .int), ("end", .int), ("rev", fn0 .range), ("diff", fn0 .int)]
  | .list inner => lookupTy name (listMembers inner)
  | .anyobj => lookupTy name
      [("set", .fn [("key", .str), ("value", .unknown)] .null), ("get", .fn [("key", .str)] (.opt .any)),
       ("get_type", .fn [("key", .str)] .str), ("keys", fn0 (.list .str)), ("to_string", fn0 .str),
       ("to_json", fn0 .str), ("to_json_indent", fn0 .str)]
  | .obj fields =>
      /- own fields override the builtin ones; of two fields with one name the later wins (Go map) -/
      match lookupTy name fields.reverse with
      | some t => some t
      | none => lookupTy name objBuiltinMembers
  | .opt inner => lookupTy name
      [("is_some", fn0 .bool), ("is_none", fn0 .bool), ("unwrap", fn0 inner),
       ("unwrap_or", .fn [("fallback", inner)] inner), ("expect", .fn [("message", .str)] inner),
       ("to_string", fn0 .str)]
  | _ => none

/-- type of the identifier bound by `catch` -/
def errorTy : Ty := .obj [("message", .str), ("line", .int), ("column", .int), ("filename", .str)]

end Hms.Check
