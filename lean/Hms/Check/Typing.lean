import Hms.Check.Check
import Hms.Check.Compat
/-!
# C03 — the declarative typing relation (the specification)

`HasType Γ s e τ x c tys` — "in context `Γ`, at a position that is strict about `any` iff `s`,
expression `e` has type `τ`"; the three further columns are attributes the rules of the
language need:

* `x`   — the expression contains a loop exit (`break`) or a diverging sub-expression
          (a `loop` statement is of type `never` iff its body has none),
* `c`   — the expression is constant (global initialisers must be),
* `tys` — the types of `e` and of its sub-expressions, blocks, `let`- and `for`-variables in
          pre-order: what an analysis has to *record* for the later stages.

One rule per construct and case of the language rules named in the property statement:
operand / argument / return / assignment / condition / branch / iterator compatibility, arity,
known identifiers / types / members, `break` / `continue` only in loops, no duplicates,
constant globals, no implicit `any`, shape of `main`. There is no error recovery, no
diagnostic and no analyzer state here.

The finite parts (operator admissibility, member tables, `as` conversions) are shared with the
checker as tables; structural compatibility is the relation `Compatible` of
`Hms/Check/Compat.lean` (proved equivalent to the checker's `typeCheck`).
-/
namespace Hms.Check

/-- structural compatibility: a `got` may stand where an `exp` is expected -/
abbrev Compat (allowFn : Bool) (got exp : Ty) : Prop := Compatible allowFn got exp

/-- `let` without annotation needs an `any`-free initialiser; with annotation the initialiser
must be compatible with it (function values only if no `any` is involved) -/
inductive LetTy : Option PTy → Ty → Ty → Prop where
  | plain {t : Ty} : t.hasAny = false → LetTy none t t
  | annotated {a : PTy} {t at' : Ty} : convertType true a = ([], at') → Compat (!t.hasAny) t at' → LetTy (some a) t at'

mutual
/-- the rule of the construct itself -/
inductive Raw : Ctx → PExpr → Ty → Bool → Bool → List Ty → Prop where
  | int {Γ v} : Raw Γ (.int v) .int false true [.int]
  | float {Γ v} : Raw Γ (.float v) .float false true [.float]
  | bool {Γ v} : Raw Γ (.bool v) .bool false true [.bool]
  | str {Γ v} : Raw Γ (.str v) .str false true [.str]
  | null {Γ} : Raw Γ .null .null false true [.null]
  | none {Γ} : Raw Γ .none (.opt .any) false true [.opt .any]
  | anyobj {Γ} : Raw Γ .anyobj .anyobj false true [.anyobj]
  | ident {Γ name t} : Γ.lookup name = some t → Raw Γ (.ident name) t false false [t]
  | range {Γ a b incl ta xa ca la tb xb cb lb} :
      HasType Γ true a ta xa ca la → HasType Γ true b tb xb cb lb → Compat false ta .int → Compat false tb .int →
      Raw Γ (.range a b incl) .range (xa || xb) (ca && cb) (.range :: (la ++ lb))
  | list {Γ xs lt x c l} : ElemsOK Γ .any xs lt x c l → Raw Γ (.list xs) (.list lt) x c (.list lt :: l)
  | obj {Γ fs fields x c l} : FieldsOK Γ [] fs fields x c l → Raw Γ (.obj fs) (.obj fields) x c (.obj fields :: l)
  | lambda {Γ params ret body ps rt tb xb cb lb} :
      convertParamList params = ([], ps) → dupNames [] ps = 0 → convertType true ret = ([], rt) →
      BlockOK { vars := paramScope [] ps ++ Γ.vars, fns := Γ.fns, ret := some rt, inLoop := false } body tb xb cb lb →
      Compat true tb rt →
      Raw Γ (.lambda params ret body) (.fn ps rt) false false (.fn ps rt :: lb)
  | grp {Γ e t x c l} : HasType Γ true e t x c l → Raw Γ (.grp e) t x c (t :: l)
  | pre {Γ op e tb t x c l} : HasType Γ true e tb x c l → prefixResult op tb = some t → Raw Γ (.pre op e) t x c (t :: l)
  | infix {Γ op l r tl xl cl ll tr xr cr lr t} :
      HasType Γ true l tl xl cl ll → HasType Γ true r tr xr cr lr → Compat true tr tl → infixResult op tl = some t →
      Raw Γ (.infix op l r) t (xl || xr) (cl && cr) (t :: (ll ++ lr))
  | assign {Γ op l r tl xl cl ll tr xr cr lr} :
      HasType Γ true l tl xl cl ll → HasType Γ true r tr xr cr lr → Compat false tr tl → assignOk op tl = true →
      Raw Γ (.assign op l r) (assignTy tl tr) (xl || xr) false (assignTy tl tr :: (ll ++ lr))
  | callFn {Γ base args tb ps ret xb cb lb xa la} :
      HasType Γ true base tb xb cb lb → callee tb = .fn ps ret → args.length = ps.length →
      ArgsOK Γ (ps.map (·.2)) Option.none args xa la →
      Raw Γ (.call base args) ret (xb || xa) false (ret :: (lb ++ la))
  | callVar {Γ base args tb ps rest ret xb cb lb xa la} :
      HasType Γ true base tb xb cb lb → callee tb = .var ps rest ret → (ps.length = 0 ∨ ps.length ≤ args.length) →
      ArgsOK Γ ps (some rest) args xa la →
      Raw Γ (.call base args) ret (xb || xa) false (ret :: (lb ++ la))
  /-- calling something that never yields a value -/
  | callDiv {Γ base args tb xb cb lb} :
      HasType Γ true base tb xb cb lb → callee tb = .div →
      Raw Γ (.call base args) .unknown xb false (.unknown :: lb)
  /-- `spawn name(…)` starts a function *of the program* (a name no variable — local, parameter,
  global, builtin — stands for) on a new thread; no function value travels to that thread, and the
  expression itself has no value -/
  | spawnFn {Γ name args tb ps ret xb cb lb xa la} :
      HasType Γ true (.ident name) tb xb cb lb → callee tb = .fn ps ret → lookupTy name Γ.vars = Option.none →
      args.length = ps.length → SpawnArgsOK Γ (ps.map (·.2)) Option.none args xa la →
      Raw Γ (.spawn name args) .null (xb || xa) false (.null :: (lb ++ la))
  | spawnVar {Γ name args tb ps rest ret xb cb lb xa la} :
      HasType Γ true (.ident name) tb xb cb lb → callee tb = .var ps rest ret → lookupTy name Γ.vars = Option.none →
      (ps.length = 0 ∨ ps.length ≤ args.length) → SpawnArgsOK Γ ps (some rest) args xa la →
      Raw Γ (.spawn name args) .null (xb || xa) false (.null :: (lb ++ la))
  /-- spawning something that never yields a value -/
  | spawnDiv {Γ name args tb xb cb lb} :
      HasType Γ true (.ident name) tb xb cb lb → callee tb = .div →
      Raw Γ (.spawn name args) .null xb false (.null :: lb)
  | index {Γ b i tb xb cb lb ti xi ci li t} :
      HasType Γ true b tb xb cb lb → HasType Γ true i ti xi ci li → indexRule tb ti (isStrLit i) = some t →
      Raw Γ (.index b i) t (xb || xi) cb (t :: (lb ++ li))
  | member {Γ b name op tb xb cb lb t} :
      HasType Γ false b tb xb cb lb → memberRule tb name op = some t →
      Raw Γ (.member b name op) t xb cb (t :: lb)
  | cast {Γ e t tb a xb cb lb} :
      HasType Γ false e tb xb cb lb → convertType true t = ([], a) → castOK tb a = true →
      Raw Γ (.cast e t) a xb cb (a :: lb)
  | blk {Γ b t x c l} : BlockOK Γ b t x c l → Raw Γ (.blk b) t x c l
  | ifElse {Γ c t e tc xc cc lc tt xt ct lt te xe ce le} :
      HasType Γ true c tc xc cc lc → Compat true tc .bool → BlockOK Γ t tt xt ct lt → BlockOK Γ e te xe ce le →
      Compat true te tt →
      Raw Γ (.ifElse c t e) (ifElseTy tt te) (xc || xt || xe) false (ifElseTy tt te :: (lc ++ lt ++ le))
  | ifThen {Γ c t tc xc cc lc tt xt ct lt} :
      HasType Γ true c tc xc cc lc → Compat true tc .bool → BlockOK Γ t tt xt ct lt → Compat true tt .null →
      Raw Γ (.ifThen c t) .null (xc || xt) false (.null :: (lc ++ lt))
  | matchE {Γ c arms tc xc cc lc rt d xa la} :
      HasType Γ true c tc xc cc lc → ArmsOK Γ tc .unknown Option.none arms rt d xa la →
      (d.isSome = true ∨ Compat true .null (matchTy d.isSome arms.isEmpty rt)) →
      Raw Γ (.matchE c arms) (matchTy d.isSome arms.isEmpty rt) (xc || xa) false
        (matchTy d.isSome arms.isEmpty rt :: (lc ++ la ++ d.getD []))
  | tryE {Γ t name c tt xt ct lt tc xc cc lc} :
      BlockOK Γ t tt xt ct lt → BlockOK (Γ.bind name errorTy) c tc xc cc lc → Compat true tc tt →
      Raw Γ (.tryE t name c) (tryTy tt tc) (xt || xc) false (tryTy tt tc :: (lt ++ lc))
/-- an expression at a position: its own rule, plus "no implicit `any`"; a diverging
expression counts as a loop exit -/
inductive HasType : Ctx → Bool → PExpr → Ty → Bool → Bool → List Ty → Prop where
  | mk {Γ s e t x c l} : Raw Γ e t x c l → anyOK s t = true → HasType Γ s e t (x || t.isNever) c l
/-- list elements: the first element fixes the element type, the others are compatible with it -/
inductive ElemsOK : Ctx → Ty → PExprs → Ty → Bool → Bool → List Ty → Prop where
  | nil {Γ lt} : ElemsOK Γ lt .nil lt false true []
  | cons {Γ lt e rest t x c l lt' x' c' l'} :
      HasType Γ true e t x c l → elemOK t lt = true →
      ElemsOK Γ (if lt.kind == .any then t else lt) rest lt' x' c' l' →
      ElemsOK Γ lt (.cons e rest) lt' (x || x') (c && c') (l ++ l')
/-- object literal fields: distinct names, none of them a builtin member name -/
inductive FieldsOK : Ctx → List String → PFields → List (String × Ty) → Bool → Bool → List Ty → Prop where
  | nil {Γ seen} : FieldsOK Γ seen .nil [] false true []
  | cons {Γ seen k e rest t x c l fields x' c' l'} :
      builtinFieldNames.contains k = false → seen.contains k = false → HasType Γ true e t x c l →
      FieldsOK Γ (k :: seen) rest fields x' c' l' →
      FieldsOK Γ seen (.cons k e rest) ((k, t) :: fields) (x || x') (c && c') (l ++ l')
/-- arguments against the remaining parameter types -/
inductive ArgsOK : Ctx → List Ty → Option Ty → PExprs → Bool → List Ty → Prop where
  | nil {Γ ps rest} : ArgsOK Γ ps rest .nil false []
  | cons {Γ ps rest a as t x c l x' l'} :
      HasType Γ true a t x c l → t.kind ≠ .null → Compat true t (argParam ps rest) → ArgsOK Γ ps.tail rest as x' l' →
      ArgsOK Γ ps rest (.cons a as) (x || x') (l ++ l')
/-- arguments of a `spawn`: as for a call, and none of them is a function value -/
inductive SpawnArgsOK : Ctx → List Ty → Option Ty → PExprs → Bool → List Ty → Prop where
  | nil {Γ ps rest} : SpawnArgsOK Γ ps rest .nil false []
  | cons {Γ ps rest a as t x c l x' l'} :
      HasType Γ true a t x c l → t.kind ≠ .null → t.kind ≠ .fn → Compat true t (argParam ps rest) →
      SpawnArgsOK Γ ps.tail rest as x' l' →
      SpawnArgsOK Γ ps rest (.cons a as) (x || x') (l ++ l')
/-- match arms: joined result type and the (last) default arm's recorded types -/
inductive ArmsOK : Ctx → Ty → Ty → Option (List Ty) → PArms → Ty → Option (List Ty) → Bool → List Ty → Prop where
  | nil {Γ ctl rt d} : ArmsOK Γ ctl rt d .nil rt d false []
  | lits {Γ ctl rt d lits act rest ta xa ca la rt1 xl ll rt' d' xr lr} :
      HasType Γ true act ta xa ca la → armJoin rt ta = some rt1 → lits.hasDefault = false → LitsOK Γ ctl lits xl ll →
      ArmsOK Γ ctl rt1 d rest rt' d' xr lr →
      ArmsOK Γ ctl rt d (.cons lits act rest) rt' d' (xa || xl || xr) (ll ++ la ++ lr)
  | dflt {Γ ctl rt d lits act rest ta xa ca la rt1 rt' d' xr lr} :
      HasType Γ true act ta xa ca la → armJoin rt ta = some rt1 → lits.hasDefault = true →
      ArmsOK Γ ctl rt1 (some la) rest rt' d' xr lr →
      ArmsOK Γ ctl rt d (.cons lits act rest) rt' d' (xa || xr) lr
/-- the literals of an arm are compatible with the control expression -/
inductive LitsOK : Ctx → Ty → PLits → Bool → List Ty → Prop where
  | nil {Γ ctl} : LitsOK Γ ctl .nil false []
  | dflt {Γ ctl rest x l} : LitsOK Γ ctl rest x l → LitsOK Γ ctl (.dflt rest) x l
  | lit {Γ ctl e rest t x c l x' l'} :
      HasType Γ true e t x c l → Compat true t ctl → LitsOK Γ ctl rest x' l' →
      LitsOK Γ ctl (.lit e rest) (x || x') (l ++ l')
/-- statements: type of the statement, loop-exit flag, recorded types, variables afterwards -/
inductive StmtOK : Ctx → PStmt → Ty → Bool → List Ty → List (String × Ty) → Prop where
  | letS {Γ name ann e t x c l vt} :
      HasType Γ false e t x c l → LetTy ann t vt →
      StmtOK Γ (.letS name ann e) .null x (vt :: l) ((name, vt) :: Γ.vars)
  | ret {Γ e t x c l rt} :
      HasType Γ true e t x c l → Γ.ret = some rt → Compat true t rt → StmtOK Γ (.ret e) .never x l Γ.vars
  | retNone {Γ rt} : Γ.ret = some rt → Compat true .null rt → StmtOK Γ .retNone .never false [] Γ.vars
  | brk {Γ} : Γ.inLoop = true → StmtOK Γ .brk .never true [] Γ.vars
  | cont {Γ} : Γ.inLoop = true → StmtOK Γ .cont .never false [] Γ.vars
  | loopS {Γ b t x c l} :
      BlockOK { Γ with inLoop := true } b t x c l → loopBodyOK t = true →
      StmtOK Γ (.loopS b) (loopTy x) false l Γ.vars
  | whileS {Γ cnd b tc xc cc lc t x c l} :
      HasType Γ true cnd tc xc cc lc → Compat true tc .bool → BlockOK { Γ with inLoop := true } b t x c l →
      loopBodyOK t = true →
      StmtOK Γ (.whileS cnd b) .null xc (lc ++ l) Γ.vars
  | forS {Γ name it b ti xi ci li vt t x c l} :
      HasType Γ true it ti xi ci li → iterTy ti = some vt →
      BlockOK { (Γ.bind name vt) with inLoop := true } b t x c l → loopBodyOK t = true →
      StmtOK Γ (.forS name it b) .null xi (vt :: (li ++ l)) Γ.vars
  | exprS {Γ e t x c l} : HasType Γ true e t x c l → StmtOK Γ (.exprS e) t x l Γ.vars
/-- statement sequences: `never` = one of them diverges -/
inductive StmtsOK : Ctx → PStmts → Bool → Bool → List Ty → List (String × Ty) → Prop where
  | nil {Γ} : StmtsOK Γ .nil false false [] Γ.vars
  | cons {Γ s rest t x l v n x' l' v'} :
      StmtOK Γ s t x l v → StmtsOK { Γ with vars := v } rest n x' l' v' →
      StmtsOK Γ (.cons s rest) (t.isNever || n) (x || x') (l ++ l') v'
/-- blocks: the value of the trailing expression, `null` without one, `never` if a statement diverges -/
inductive BlockOK : Ctx → PBlock → Ty → Bool → Bool → List Ty → Prop where
  | mk {Γ ss e n x l v t xe ce le} :
      StmtsOK Γ ss n x l v → HasType { Γ with vars := v } true e t xe ce le →
      BlockOK Γ (.mk ss e) (blockTy n t) (x || xe) (blockCst ss ce) (blockTy n t :: (l ++ le))
  | mkNoTail {Γ ss n x l v} :
      StmtsOK Γ ss n x l v → BlockOK Γ (.mkNoTail ss) (blockTy n .null) x false (blockTy n .null :: l)
end

/-! ## Program level -/

/-- A global: constant, well-typed outside of any function, not a redefinition, not named like
a function of the module. -/
inductive GlobalsOK : List (String × Ty) → List (String × Ty) → List PGlobal → List (String × Ty) → List Ty → Prop where
  | nil {fns vars} : GlobalsOK fns vars [] vars []
  | cons {fns vars g rest t x l vt vars' l'} :
      HasType { vars := vars, fns := fns, ret := none, inLoop := false } false g.e t x true l →
      LetTy g.ann t vt → lookupTy g.name vars = none → lookupTy g.name fns = none →
      GlobalsOK fns ((g.name, vt) :: vars) rest vars' l' →
      GlobalsOK fns vars (g :: rest) vars' (vt :: l ++ l')

/-- A function definition other than `main`: distinct, well-formed parameters, a well-formed
return type, a body compatible with it; `return` statements are checked against the return
type of the signature registered under the function's name (`curRet`). -/
inductive FnOK (fns globals : List (String × Ty)) : PFn → List Ty → Prop where
  | normal {f ps rt tb xb cb lb} :
      f.name ≠ "main" → convertParamList f.params = ([], ps) → dupNames [] ps = 0 → convertType true f.ret = ([], rt) →
      BlockOK { vars := paramScope [] ps ++ globals, fns := fns, ret := some (curRet fns f.name), inLoop := false } f.body tb xb cb lb →
      Compat true tb rt →
      FnOK fns globals f (rt :: lb)
  /-- `main` has no parameters and no result -/
  | main {f rt tb xb cb lb} :
      f.name = "main" → f.params = [] → convertType true f.ret = ([], rt) → (rt.kind = .null ∨ rt.kind = .unknown) →
      BlockOK { vars := globals, fns := fns, ret := some (curRet fns f.name), inLoop := false } f.body tb xb cb lb →
      Compat true tb rt →
      FnOK fns globals f (rt :: lb)

inductive FnsOK (fns globals : List (String × Ty)) : List PFn → List Ty → Prop where
  | nil : FnsOK fns globals [] []
  | cons {f rest l l'} : FnOK fns globals f l → FnsOK fns globals rest l' → FnsOK fns globals (f :: rest) (l ++ l')

/-- no two functions share a name -/
def distinctFnNames (seen : List String) : List PFn → Bool
  | [] => true
  | f :: rest => !seen.contains f.name && distinctFnNames (f.name :: seen) rest

/-- no function takes a name of the root scope (the values the host provides; imports are
outside of the model) -/
def fnNamesFree (root : List (String × Ty)) (fs : List PFn) : Bool :=
  fs.all fun f => (lookupTy f.name root).isNone

/-- `ProgOK p tys`: the program is well-typed (the host requires `main`) and `tys` are the
types to be recorded for it. -/
inductive ProgOK (p : PProg) : List Ty → Prop where
  | mk {vars lg lf} :
      distinctFnNames [] p.fns = true →
      fnNamesFree hostScope p.fns = true →
      GlobalsOK (p.fns.map fun f => (f.name, fnSig f)) hostScope p.globals vars lg →
      FnsOK (p.fns.map fun f => (f.name, fnSig f)) vars p.fns lf →
      p.fns.any (fun f => f.name == "main") = true →
      ProgOK p (lg ++ lf)

/-- The specification of "well-typed". -/
def WellTyped (p : PProg) : Prop := ∃ tys, ProgOK p tys

end Hms.Check
