import Hms.Core.Sem
/-!
# Rewrite rules of the semantic fuzzer

Every variant constructor of `fuzzer/expression.go` (`expressionVariants`, `ifExpression`),
`fuzzer/infixExpression.go` (`infixExpr`) and `fuzzer/statement.go` (`stmtVariants`,
`IterOnceWhileLoop`, `WhileStmtAsLoop`) as a function on the analysed AST of the model, plus the
loop-control guard of `fuzzer/nodeHelper.go`. The functions mirror the code AFTER the fixes of
findings R8 (operands that change position are wrapped in a grouped node), R14 (a diverging
statement only gets diverging wrappers), R17 (a product is unrolled only for a non-negative
literal multiplier); the unrepaired constructors are kept with the suffix `Unfixed` for the
counterexample theorems.

The transformer picks, per node, one element of the variant list with its random source; the
lists here are those lists (`exprVariants`, `stmtVariants`, with the recursive calls of the Go code
abstracted by the parameters `te` / `tb`: any transformation of sub-expressions / blocks).
Spans are copied from the node (the Go code does the same); recorded types are set as the Go code
sets them (they do not influence the specification semantics).
-/
namespace Hms.Fuzz
open Hms.Core

/-! ## Expression rules -/

/-- The "useless values" of the literal rules. -/
def uselessValues : List Int := [42, 69, 4711]

/-- `(n + k - k)` -/
def litAddSub (k : Int) (e : Expr) : Expr :=
  let sp := spOf e
  .grouped sp (.infix sp .int .sub (.infix sp .int .add e (.int sp k)) (.int sp k))

/-- `(n - k + k)` -/
def litSubAdd (k : Int) (e : Expr) : Expr :=
  let sp := spOf e
  .grouped sp (.infix sp .int .add (.infix sp .int .sub e (.int sp k)) (.int sp k))

/-- `(n * k / k)` -/
def litMulDiv (k : Int) (e : Expr) : Expr :=
  let sp := spOf e
  .grouped sp (.infix sp .int .div (.infix sp .int .mul e (.int sp k)) (.int sp k))

/-- IEEE-754 bit patterns of the useless values 42.0, 69.0, 4711.0 of the float literal rules. -/
def uselessFloatBits : List Nat := [4631107791820423168, 4634555860285128704, 4661901813979545600]

/-- `(x op₁ k op₂ k)` on a float literal (only built for integer-valued floats): the three float
literal rules are `(.add, .sub)`, `(.sub, .add)`, `(.mul, .div)`. -/
def litFloat (op₁ op₂ : InfixOp) (kbits : Nat) (e : Expr) : Expr :=
  let sp := spOf e
  .grouped sp (.infix sp .float op₂ (.infix sp .float op₁ e (.float sp kbits)) (.float sp kbits))

/-- `!!(b)` on a bool literal -/
def notNot (e : Expr) : Expr :=
  let sp := spOf e
  .pre sp .bool .not (.pre sp .bool .not (.grouped sp e))

/-- `((e))` -/
def groupAgain (e : Expr) : Expr := .grouped (spOf e) e

/-- `({ e })` -/
def groupBlock (e : Expr) : Expr :=
  .grouped (spOf e) (.blockE (.mk (spOf e) e.ty [] (some e)))

/-- `e as T as T` -/
def castTwice : Expr → Expr
  | .cast sp ty e => .cast sp ty (.cast sp ty e)
  | e => e

/-- The operand wrapper of the repaired fuzzer (`grouped` in infixExpression.go). -/
def grp (e : Expr) : Expr := .grouped (spOf e) e

/-- `a + b` → `(b) + (a)`, `a * b` → `(b) * (a)` -/
def commute : Expr → Expr
  | .infix sp ty op l r => .infix sp ty op (grp r) (grp l)
  | e => e

/-- The same as the unrepaired code built it: the operands change places as they are. -/
def commuteUnfixed : Expr → Expr
  | .infix sp ty op l r => .infix sp ty op r l
  | e => e

/-- `a - b` → `a + -(b)`, `a + b` → `a - -(b)` -/
def subAsAddNeg : Expr → Expr
  | .infix sp _ .sub l r => .infix sp .int .add l (.pre sp .int .neg (grp r))
  | .infix sp _ .add l r => .infix sp .int .sub l (.pre sp .int .neg (grp r))
  | e => e

def subAsAddNegUnfixed : Expr → Expr
  | .infix sp _ .sub l r => .infix sp .int .add l (.pre sp .int .neg r)
  | .infix sp _ .add l r => .infix sp .int .sub l (.pre sp .int .neg r)
  | e => e

def identE (sp : Span) (ty : Ty) (name : String) : Expr := .ident sp ty name false false false

/-- `a * b` → `{ let lhs_init = a; let mul_res = 0; let mul_count = 0;
      while mul_count < b { mul_res += lhs_init; mul_count += 1; } mul_res }` -/
def mulAsLoop : Expr → Expr
  | .infix sp ty .mul l r =>
    .blockE (.mk sp ty
      [ .letS sp "lhs_init" l.ty false .unknown l,
        .letS sp "mul_res" ty false .unknown (.int sp 0),
        .letS sp "mul_count" .int false .unknown (.int sp 0),
        .whileS sp (.infix sp .bool .lt (identE sp .null "mul_count") r)
          (.mk sp .null
            [ .exprS sp (.assign sp (some .add) (identE sp ty "mul_res") (identE sp ty "lhs_init")),
              .exprS sp (.assign sp (some .add) (identE sp .int "mul_count") (.int sp 1)) ]
            none) ]
      (some (identE sp ty "mul_res")))
  | e => e

/-- The guard of the repaired code: both operands `int`, the multiplier a non-negative literal. -/
def mulAsLoopApplies : Expr → Bool
  | .infix _ _ .mul l (.int _ k) => (match l.ty with | .int => true | _ => false) && decide (0 ≤ k)
  | _ => false

def negOp : InfixOp → InfixOp
  | .eq => .ne
  | .ne => .eq
  | o => o

/-- `a == b` → `!(a' != b')`, `a != b` → `!(a' == b')` -/
def eqAsNotNe (l' r' : Expr) : Expr → Expr
  | .infix sp _ op _ _ => .pre sp .bool .not (.grouped sp (.infix sp .bool (negOp op) l' r'))
  | e => e

/-- the same with a doubled grouping: `!((a' != b'))` -/
def eqAsNotNe2 (l' r' : Expr) : Expr → Expr
  | .infix sp _ op _ _ =>
    .pre sp .bool .not (.grouped sp (.grouped sp (.infix sp .bool (negOp op) l' r')))
  | e => e

def revOp : InfixOp → InfixOp
  | .lt => .gt
  | .gt => .lt
  | .le => .ge
  | .ge => .le
  | o => o

/-- `a < b` → `b' > a'` (and the three other comparisons) -/
def cmpSwap (l' r' : Expr) : Expr → Expr
  | .infix sp ty op _ _ => .infix sp ty (revOp op) r' l'
  | e => e

def emptyBlock (sp : Span) : Block := .mk sp .null [] none

/-- `if c { t } else { e }` → `if !(c') { e' } else { t' }` (an absent `else` becomes an empty
block) -/
def ifInverted (c' : Expr) (t' : Block) (e' : Option Block) : Expr → Expr
  | .ifE sp ty _ _ _ =>
    .ifE sp ty (.pre sp .bool .not (.grouped sp c')) (e'.getD (emptyBlock sp)) (some t')
  | e => e

/-- The variant list of `expressionVariants` for a node `e`; `te` stands for the recursive
`self.Expression` calls, `tb` for `self.Block`, `k` for the useless value drawn. -/
def exprVariants (te : Expr → Expr) (tb : Block → Block) (k : Int) (static : Bool) (e : Expr) : List Expr :=
  match e with
  | .int .. => [e, litAddSub k e, litSubAdd k e, litMulDiv k e]
  | .float .. => [e] ++ uselessFloatBits.flatMap fun kb =>
      [litFloat .add .sub kb e, litFloat .sub .add kb e, litFloat .mul .div kb e]
  | .bool .. => [e, notNot e]
  | .grouped .. => [e, groupAgain e, groupBlock e]
  | .cast .. => [e, castTwice e]
  | .lambda sp ty ps ret body => [.lambda sp ty ps ret (tb body)]
  | .ifE sp ty c t el => [e, .ifE sp ty c (tb t) (el.map tb), ifInverted (te c) (tb t) (el.map tb) e]
  | .infix _ _ op l r =>
    match op with
    | .add =>
      (match l.ty with
        | .int | .float => [e, commute e, subAsAddNeg e]
        | _ => [e, e])
    | .sub =>
      (match l.ty with
        | .int | .float => [e, subAsAddNeg e]
        | _ => [e, e])
    | .mul =>
      [e] ++ (match l.ty with | .int | .float => [commute e] | _ => [])
        ++ (if !static && mulAsLoopApplies e then [mulAsLoop e] else [])
    | .eq | .ne => [e, e, eqAsNotNe (te l) (te r) e, eqAsNotNe2 (te l) (te r) e]
    | .lt | .gt | .le | .ge => [e, e, cmpSwap (te l) (te r) e]
    | _ => [e, e]
  | _ => [e]

/-! ## The loop-control guard -/

mutual
/-- `exprCanControlLoop`: may evaluating the expression end in `break` / `continue` of an enclosing
loop? (The Go guard does not look at the literals of match arms: the parser only admits literals
there. The model looks at them too, so that the soundness theorem needs no side condition.) -/
def exprCCL : Expr → Bool
  | .int .. | .float .. | .bool .. | .str .. | .null _ | .none _ | .ident .. | .anyobj _ => false
  | .lambda .. => false
  | .range _ a b _ => exprCCL a || exprCCL b
  | .list _ _ xs => listCCL xs
  | .obj _ _ fs => fieldsCCL fs
  | .grouped _ e => exprCCL e
  | .pre _ _ _ e => exprCCL e
  | .infix _ _ _ l r => exprCCL l || exprCCL r
  | .assign _ _ l r => exprCCL l || exprCCL r
  | .call _ _ b args _ => exprCCL b || argsCCL args
  | .index _ _ b i => exprCCL b || exprCCL i
  | .member _ _ b _ _ => exprCCL b
  | .cast _ _ e => exprCCL e
  | .blockE b => blockCCL b
  | .ifE _ _ c t e => exprCCL c || blockCCL t || optBlockCCL e
  | .matchE _ _ c arms d => exprCCL c || armsCCL arms || optExprCCL d
  | .tryE _ _ t _ c => blockCCL t || blockCCL c
def optExprCCL : Option Expr → Bool
  | none => false
  | some e => exprCCL e
def optBlockCCL : Option Block → Bool
  | none => false
  | some b => blockCCL b
def listCCL : List Expr → Bool
  | [] => false
  | e :: es => exprCCL e || listCCL es
def fieldsCCL : List (String × Expr) → Bool
  | [] => false
  | (_, e) :: fs => exprCCL e || fieldsCCL fs
def argsCCL : List (String × Expr) → Bool
  | [] => false
  | (_, e) :: fs => exprCCL e || argsCCL fs
def armsCCL : List (List Expr × Expr) → Bool
  | [] => false
  | (lits, act) :: as => listCCL lits || exprCCL act || armsCCL as
/-- `stmtCanControlLoop`: the body of a loop statement is irrelevant (a `break` there addresses
that loop), the condition of a `while` and the iterated expression of a `for` are not. -/
def stmtCCL : Stmt → Bool
  | .typedef _ => false
  | .trigger _ _ _ _ args => argsCCL args
  | .letS _ _ _ _ _ e => exprCCL e
  | .ret _ e => optExprCCL e
  | .brk _ | .cont _ => true
  | .loopS .. => false
  | .whileS _ c _ => exprCCL c
  | .forS _ _ _ it _ => exprCCL it
  | .exprS _ e => exprCCL e
def blockCCL : Block → Bool
  | .mk _ _ stmts e => stmtsCCL stmts || optExprCCL e
def stmtsCCL : List Stmt → Bool
  | [] => false
  | s :: ss => stmtCCL s || stmtsCCL ss
end

/-! ## Statement rules -/

/-- Recorded type of a statement as far as the wrappers need it: `never` for the control
statements and for expression statements of recorded type `never`; `loopNever` supplies the
`NeverTerminates` flag of loop statements. -/
def stmtNever (loopNever : Stmt → Bool) : Stmt → Bool
  | .ret .. | .brk _ | .cont _ => true
  | .exprS _ e => (match e.ty with | .never => true | _ => false)
  | s@(.loopS ..) | s@(.whileS ..) | s@(.forS ..) => loopNever s
  | _ => false

def stmtSpan : Stmt → Span
  | .typedef sp | .trigger sp .. | .letS sp .. | .ret sp _ | .brk sp | .cont sp | .loopS sp _
  | .whileS sp .. | .forS sp .. | .exprS sp _ => sp

/-- `if true { s }` -/
def ifTrueWrap (s : Stmt) : Stmt :=
  let sp := stmtSpan s
  .exprS sp (.ifE sp .null (.bool sp true) (.mk sp .null [s] none) none)

/-- `{ let count_once = 0; while count_once < 1 { count_once += 1; s } };` -/
def iterOnceWhile (s : Stmt) : Stmt :=
  let sp := stmtSpan s
  .exprS sp (.blockE (.mk sp .null
    [ .letS sp "count_once" .int false .unknown (.int sp 0),
      .whileS sp (.infix sp .bool .lt (.ident sp .int "count_once" true false false) (.int sp 1))
        (.mk sp .null
          [ .exprS sp (.assign sp (some .add) (identE sp .int "count_once") (.int sp 1)), s ] none) ]
    none))

/-- `for _i in 0..1 { s }` -/
def iterOnceFor (s : Stmt) : Stmt :=
  let sp := stmtSpan s
  .forS sp "_i" .range (.range sp (.int sp 0) (.int sp 1) false) (.mk sp .null [s] none)

/-- `return e;` → `loop { return e; }` (repaired code; the unrepaired one built
`while { return e; } { }`, which the analyzer types `null`). -/
def retInLoop (s : Stmt) : Stmt := .loopS (stmtSpan s) (.mk (stmtSpan s) .never [s] none)

def retInWhileCondUnfixed (s : Stmt) : Stmt :=
  let sp := stmtSpan s
  .whileS sp (.blockE (.mk sp .never [s] none)) (.mk sp .null [] none)

/-- `break;` → `{ break; };` -/
def inBlock (s : Stmt) : Stmt := .exprS (stmtSpan s) (.blockE (.mk (stmtSpan s) .never [s] none))

/-- `loop { b }` → `while true { b' }` (only for a loop that `break` can leave) -/
def loopAsWhileTrue (tb : Block → Block) : Stmt → Stmt
  | .loopS sp b => .whileS sp (.bool sp true) (tb b)
  | s => s

/-- `while c { b }` → `loop { if !(c) { break; } b'… }` (`WhileStmtAsLoop`, first form: the
statements of the transformed body follow the guard, a trailing expression becomes a statement) -/
def whileAsLoop0 (tb : Block → Block) : Stmt → Stmt
  | .whileS sp c b =>
    match tb b with
    | .mk _ _ stmts e =>
      let guard := Stmt.exprS sp (.ifE sp .null (.pre sp .bool .not (.grouped sp c))
        (.mk sp .never [.brk sp] none) none)
      let tail := match e with
        | some e => [Stmt.exprS sp e]
        | none => []
      .loopS sp (.mk sp .null (guard :: stmts ++ tail) none)
  | s => s

/-- `while c { b }` → `loop { if c { b' } else { break; } }` (second form) -/
def whileAsLoop1 (tb : Block → Block) : Stmt → Stmt
  | .whileS sp c b =>
    .loopS sp (.mk sp .null
      [.exprS sp (.ifE sp .null c (tb b) (some (.mk sp .never [.brk sp] none)))] none)
  | s => s

/-- The wrappers `stmtVariants` appends after the node-specific variants: none for `let` and type
definitions (they would lose their scope), none for a diverging statement (its block would no
longer diverge for the analyzer), the two one-iteration loops only if the statement cannot
control an enclosing loop. -/
def wrappers (loopNever : Stmt → Bool) (s : Stmt) : List Stmt :=
  match s with
  | .letS .. | .typedef _ => []
  | _ =>
    if stmtNever loopNever s then []
    else [ifTrueWrap s] ++ (if stmtCCL s then [] else [iterOnceWhile s, iterOnceFor s])

/-- The variant list of `stmtVariants`. -/
def stmtVariants (te : Expr → Expr) (tb : Block → Block) (loopNever : Stmt → Bool) (s : Stmt) : List Stmt :=
  (match s with
    | .letS sp n vt nc ot e => [.letS sp n vt nc ot (te e)]
    | .ret sp e => [.ret sp (e.map te), retInLoop (.ret sp (e.map te))]
    | .brk _ => [s, inBlock s]
    | .loopS sp b => [.loopS sp (tb b)] ++ (if loopNever s then [] else [loopAsWhileTrue tb s])
    | .whileS sp c b =>
      (match c.ty with
        | .never => [s]
        | _ => [whileAsLoop0 tb s, whileAsLoop1 tb s]) ++ [.whileS sp (te c) (tb b)]
    | .forS sp n vt it b => [.forS sp n vt (te it) (tb b)]
    | .exprS sp e => [.exprS sp (te e)]
    | _ => [])
  ++ [s] ++ wrappers loopNever s

end Hms.Fuzz
