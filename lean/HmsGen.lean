import HmsGen.Tokens
import HmsGen.Enums
import HmsGen.Members
