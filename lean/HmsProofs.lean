import HmsProofs.Tables
import HmsProofs.C07
import HmsProofs.C06
