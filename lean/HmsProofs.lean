import HmsProofs.Tables
import HmsProofs.C07
