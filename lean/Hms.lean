import Hms.Sexp
import Hms.Lex.Token
import Hms.Parse.Pratt
import Hms.GenBridge
import Hms.Parse.Normal
import Hms.Lex.Lexer
import Hms.Lex.Spec
