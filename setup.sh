#!/bin/bash
# Offline setup: build the Go harness against /repo and the Lean project (models, proofs, driver).
set -e
cd "$(dirname "$0")"
export GOFLAGS=-mod=mod GOPROXY=off GOSUMDB=off GOTOOLCHAIN=local CGO_ENABLED=0
mkdir -p .build evidence replays
python3 - <<'PY'
import sys
sys.path.insert(0, '.')
from vlib import core
ok, log = core.build_harness()
print("harness:", "ok" if ok else log)
if not ok:
    sys.exit(1)
ok, log = core.regenerate()
print("dump:", log.strip() if ok else log)
if not ok:
    sys.exit(1)
PY
cd lean
lake build Hms HmsGen hmsdrv HmsProofs 2>&1 | tail -5
