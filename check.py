#!/usr/bin/env python3
"""./check.py Cxx [--tier quick|thorough] [--replay path]

Exit 0: the property held on everything explored. Exit 1 with
`VIOLATION property=<id> replay=<path>` otherwise. Evidence goes to
evidence/<id>.json. Seeds: VERIF_SEED (default 1); tier: VERIF_TIER or --tier.
"""
import argparse
import importlib
import json
import os
import sys
import traceback

sys.path.insert(0, os.path.dirname(os.path.abspath(__file__)))
from vlib import core


def main():
    ap = argparse.ArgumentParser()
    ap.add_argument("prop")
    ap.add_argument("--tier", default=os.environ.get("VERIF_TIER", "quick"))
    ap.add_argument("--replay")
    a = ap.parse_args()
    tier = a.tier if a.tier in ("quick", "thorough") else "quick"
    try:
        seed = int(os.environ.get("VERIF_SEED", "1"))
    except ValueError:
        seed = 1
    mod = importlib.import_module(f"props.{a.prop}")
    ctx = core.Ctx(a.prop, tier, seed)
    if a.replay:
        rep = json.load(open(a.replay))
        rc = mod.replay(ctx, rep["replay"])
        sys.exit(rc)
    try:
        mod.run(ctx)
    except Exception:
        traceback.print_exc()
        ctx.broken.append("check-crashed")
        ctx.violation({"kind": "check-crashed", "trace": traceback.format_exc()[-2000:]},
                      "the check itself crashed", no_input=True)
    level = getattr(mod, "LEVEL", "proof")
    sys.exit(ctx.finish(level=level))


if __name__ == "__main__":
    main()
