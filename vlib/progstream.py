"""Shared program stream: run programs on the real backends (hv run) and on the Lean
specification semantics (driver command `spec`), parse the canonical outcome lines."""
import re

from . import core


def x(s):
    return "x" + s.encode("utf-8").hex()


def singletons_sexp(singletons):
    """{"$Name": "<value sexp of harness/values.go>"} -> `(singletons (x<name> V)…)`; the same text
    is understood by `hv run` and (inside `(hosted … <modules>)`) by the driver's spec/vmrun."""
    return "(singletons" + "".join(f" ({x(k)} {v})" for k, v in singletons.items()) + ")"


def run_line(main, mods=None, backends=("vm", "tree"), ast=True, limits=None, entry=None, timeout_ms=None, asm=False,
             singletons=None):
    parts = ["(run"]
    if asm:
        parts.append("(asm true)")
    parts.append("(backends " + " ".join(backends) + ")" if backends else "(backends)")
    parts.append("(ast true)" if ast else "(ast false)")
    if limits:
        parts.append("(limits %d %d %d)" % limits)
    if entry:
        parts.append(f"(entry {x(entry)})")
    if timeout_ms:
        parts.append(f"(timeout {timeout_ms})")
    if singletons is not None:
        parts.append(singletons_sexp(singletons))
    parts.append(f"(main {x(main)})")
    for name, src in (mods or {}).items():
        parts.append(f"(mod {x(name)} {x(src)})")
    return " ".join(parts) + ")"


def source_record(src):
    """A source of run_all (main text, (main, mods) or (main, mods, singletons)) as the fields of a
    replayable violation record: main, and mods / singletons when present."""
    if not isinstance(src, tuple):
        return {"main": src}
    rec = {"main": src[0]}
    if len(src) > 1 and src[1]:
        rec["mods"] = dict(src[1])
    if len(src) > 2 and src[2] is not None:
        rec["singletons"] = dict(src[2])
    return rec


def source_of_record(rec):
    """Inverse of source_record (a recorded violation back into a source of run_all)."""
    if "mods" in rec or "singletons" in rec:
        return (rec["main"], rec.get("mods"), rec.get("singletons"))
    return rec["main"]


def source_text(src):
    """One printable string naming the case (case key, messages)."""
    if not isinstance(src, tuple):
        return src
    t = src[0]
    for name, text in sorted((src[1] or {}).items()):
        t += f"\n// module {name}:\n{text}"
    if len(src) > 2 and src[2] is not None:
        t += "\n// host provides: " + " ".join(f"{k}={v}" for k, v in sorted(src[2].items()))
    return t


def split_fields(line):
    out = {}
    for p in line.strip().split(" | "):
        if "=" in p:
            k, v = p.split("=", 1)
            out[k] = v
        else:
            out["RAW"] = p
    return out


def parse_outcome(s):
    """-> dict(cls=OK|FATAL|TERM|PANIC|..., kind, msg, span, out, trig, stack, mp, handlers)"""
    if s is None:
        return {"cls": "MISSING"}
    d = {"cls": s.split(" ", 1)[0], "raw": s}
    for k in ("kind", "span", "stack", "mp", "handlers"):
        m = re.search(rf"\b{k}=(\S+)", s)
        if m:
            d[k] = m.group(1)
    for k in ("msg", "out", "trig"):
        m = re.search(rf"\b{k}=x([0-9a-f]*)", s)
        if m:
            d[k] = bytes.fromhex(m.group(1)).decode("utf-8", "replace")
    if d["cls"] in ("PANIC", "UNSUPPORTED", "CRASH", "HANG", "DECODE-ERROR"):
        m = re.match(r"\S+ x([0-9a-f]*)", s)
        if m:
            d["what"] = bytes.fromhex(m.group(1)).decode("utf-8", "replace")
    return d


def run_all(sources, fuel=200000, call_limit=100, with_spec=True, with_model_vm=False, **kw):
    """sources: list of main texts, (main, mods) pairs or (main, mods, singletons) triples
    (singletons: {"$Name": value sexp} = what the host provides; `singletons=` in kw applies to every
    source that does not bring its own). Returns list of dicts with keys A, VM, TREE, SPEC (parsed
    outcomes), raw fields."""
    lines, hosts = [], []
    default_host = kw.pop("singletons", None)
    for s in sources:
        if isinstance(s, tuple):
            host = s[2] if len(s) > 2 and s[2] is not None else default_host
            lines.append(run_line(s[0], s[1], singletons=host, **kw))
        else:
            host = default_host
            lines.append(run_line(s, singletons=host, **kw))
        hosts.append(host)
    go = core.go_lines("run", lines, timeout=900)
    res = []
    spec_in, spec_idx = [], []
    lim = kw.get("limits") or (100, 500, 10000)
    for i, g in enumerate(go):
        f = split_fields(g)
        r = {"A": f.get("A", f.get("RAW", g[:200])), "raw": f}
        if g.startswith(("CRASH", "HANG")):
            r["A"] = g[:300]
            r["crashed"] = True
        for k in ("VM", "TREE"):
            if k in f:
                r[k] = parse_outcome(f[k])
        if "ASM" in f:
            r["ASM"] = f["ASM"]
        # the model sides get the same host: `(hosted (singletons …) <modules>)`
        prog = f"(hosted {singletons_sexp(hosts[i])} {f['AST']})" if hosts[i] is not None and "AST" in f else f.get("AST")
        if with_spec and "AST" in f:
            spec_in.append(f"spec {fuel} {call_limit} {prog}")
            spec_idx.append((i, "SPEC"))
        if with_model_vm and "AST" in f:
            spec_in.append(f"vmrun {lim[0]} {lim[1]} {lim[2]} {prog}")
            spec_idx.append((i, "MVM"))
            spec_in.append(f"compile {f['AST']}")
            spec_idx.append((i, "MASM"))
        res.append(r)
    if spec_in:
        spec = core.lean_lines(spec_in, timeout=1800)
        for (i, key), s in zip(spec_idx, spec):
            res[i][key] = s if key == "MASM" else parse_outcome(s)
    return res


def same_outcome(a, b, spans=False, residue=False):
    """Observable agreement of two outcomes: class, output, trigger trace, fatal kind + message."""
    if a["cls"] != b["cls"]:
        return False
    if a.get("out") != b.get("out"):
        return False
    if a["cls"] == "FATAL":
        if a.get("kind") != b.get("kind") or a.get("msg") != b.get("msg"):
            return False
        if spans and a.get("span") != b.get("span"):
            return False
    return True
