"""Replay of open known findings (known_findings.json) for program-level properties."""
from . import core, progstream


def replay_open(ctx, prop):
    """For every open finding of `prop` with a program witness: run it, confirm the recorded
    failure mode still shows, print the KNOWN-FINDING line. Returns the set of witness texts."""
    seen = set()
    for e in core.load_known(prop):
        if e.get("status") != "open":
            continue
        w = e.get("witness", {})
        if w.get("kind") != "prog":
            ctx.known(e["id"], e["what"])
            continue
        src = w["main"]
        seen.add(src)
        r = progstream.run_all([(src, w.get("mods", {}))], with_spec=True)[0]
        vm, spec = r.get("VM"), r.get("SPEC")
        exp = w.get("expect", {})
        still = None
        if r.get("crashed") or (vm and vm["cls"] in ("PANIC", "CRASH", "HANG")):
            still = exp.get("vm") == "CRASH"
        elif vm:
            if "vm_out" in exp:
                still = vm.get("out") == exp["vm_out"]
            elif "tree_out" in exp:
                still = (r.get("TREE") or {}).get("out") == exp["tree_out"]
            elif "vm_residue" in exp:
                k, v = exp["vm_residue"].split("=")
                still = vm.get(k) == v
            elif exp.get("vm") == "CRASH":
                still = False
        if still is not False:
            ctx.known(e["id"], e["what"])
        else:
            ctx.note(f"witness of open finding {e['id']} no longer fails as recorded (vm: {vm and vm.get('raw', '')[:120]})")
    return seen
