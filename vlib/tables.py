"""Readers for the regenerated Lean tables (lean/HmsGen/*.lean)."""
import os
import re

from . import core


def _read(name):
    return open(os.path.join(core.LEAN, "HmsGen", name + ".lean")).read()


def kind_names():
    src = _read("Tokens")
    body = src.split("def goKindNames", 1)[1].split("]", 1)[0]
    return re.findall(r'"(\w+)"', body)


def kind_codes():
    return {n: i for i, n in enumerate(kind_names())}


def list_of_tuples(module, defname):
    """Parse `def <defname> : … := [ (…), … ]` of simple literals into Python tuples."""
    src = _read(module)
    body = src.split("def " + defname, 1)[1].split(":=", 1)[1]
    end = body.index("\n]")
    body = body[:end]
    rows = []
    for line in body.splitlines():
        line = line.strip().rstrip(",")
        if not line.startswith("("):
            continue
        py = line.replace("none", "None")
        py = re.sub(r"\(some (\"(?:[^\"\\]|\\.)*\")\)", r"\1", py)
        rows.append(eval(py))
    return rows
