"""Shared machinery of the /verif checks (see DESIGN.md §3, §5, §6).

Every check = prepare (rebuild harness from /repo's working tree, regenerate the
HmsGen tables, rebuild the Lean model, driver and the property's proof module)
-> audit (axioms, hygiene) -> property-specific correspondence + oracle ->
evidence + verdict.
"""
import fcntl
import hashlib
import json
import os
import random
import re
import subprocess
import sys
import time

ROOT = os.path.dirname(os.path.dirname(os.path.abspath(__file__)))
BUILD = os.path.join(ROOT, ".build")
LEAN = os.path.join(ROOT, "lean")
HARNESS = os.path.join(ROOT, "harness")
REPO = os.environ.get("VERIF_REPO", "/repo")
# development mode: VERIF_REPO points at a scratch worktree; a separate harness binary is
# built against it, the table dump and the proof steps are skipped (they belong to /repo)
DEV = REPO != "/repo"
TAG = "-" + hashlib.sha1(REPO.encode()).hexdigest()[:8] if DEV else ""
HV = os.path.join(BUILD, "hv" + TAG)
DRV = os.path.join(LEAN, ".lake", "build", "bin", "hmsdrv")
ALLOWED_AXIOMS = {"propext", "Classical.choice", "Quot.sound"}
FORBIDDEN = re.compile(
    r"\bsorry\b|\badmit\b|^axiom |native_decide|bv_decide|implemented_by|\bunsafe |maxHeartbeats 0"
)

GOENV = dict(os.environ)
GOENV.update(
    GOFLAGS="-mod=mod", GOPROXY="off", GOSUMDB="off", GOTOOLCHAIN="local",
    CGO_ENABLED=os.environ.get("CGO_ENABLED", "0"),
)


def sh(cmd, cwd=None, env=None, timeout=None, input=None):
    p = subprocess.run(cmd, cwd=cwd, env=env, timeout=timeout, input=input,
                       stdout=subprocess.PIPE, stderr=subprocess.STDOUT, text=True)
    return p.returncode, p.stdout


class Lock:
    def __enter__(self):
        os.makedirs(BUILD, exist_ok=True)
        self.f = open(os.path.join(BUILD, "lock"), "w")
        fcntl.flock(self.f, fcntl.LOCK_EX)
        return self

    def __exit__(self, *a):
        fcntl.flock(self.f, fcntl.LOCK_UN)
        self.f.close()


class Ctx:
    def __init__(self, prop, tier, seed):
        self.prop = prop
        self.tier = tier
        self.seed = seed
        self.rng = random.Random(seed * 1000003 + int(prop[1:]))
        self.t0 = time.time()
        self.violations = []
        self.known_printed = []
        self.coverage = {}
        self.assumptions = []
        self.samples = []
        self.notes = []
        self.broken = []        # names of theorems / correspondences that no longer check
        self.obligations = 0
        self.discharged = 0
        self.axioms = {}
        self.evaluations = 0
        self.nontrivial = set()
        self.checker_cmd = ""
        self.replay_n = 0

    # ---- counting -------------------------------------------------------
    def count(self, case_key=None, nontrivial=False):
        self.evaluations += 1
        if nontrivial and case_key is not None:
            self.nontrivial.add(hashlib.sha1(repr(case_key).encode()).hexdigest()[:16])

    def sample(self, s, limit=6):
        if len(self.samples) < limit:
            self.samples.append(s)

    def note(self, s):
        self.notes.append(s)
        print("note:", s)

    # ---- verdicts -------------------------------------------------------
    def violation(self, replay, what, no_input=False):
        """Record a violation; `replay` is a JSON-serialisable description that
        check.py --replay can re-run."""
        os.makedirs(os.path.join(ROOT, "replays"), exist_ok=True)
        self.replay_n += 1
        path = os.path.join(ROOT, "replays", f"{self.prop}-{self.tier}-{self.seed}-{self.replay_n}.json")
        with open(path, "w") as f:
            json.dump({"property": self.prop, "what": what, "replay": replay}, f, indent=1)
        self.violations.append({"what": what, "replay": path})
        if len(self.violations) <= 5:
            tail = " no-failing-input-found" if no_input else ""
            print(f"VIOLATION property={self.prop} replay={path}{tail}", flush=True)
            print(f"  ({what})", flush=True)

    def known(self, fid, what):
        line = f"KNOWN-FINDING: property={self.prop} {fid} {what}"
        if line not in self.known_printed:
            self.known_printed.append(line)
            print(line, flush=True)

    # ---- finish ---------------------------------------------------------
    def finish(self, level="proof", extra=None):
        cov = dict(self.coverage)
        cov.update({
            "obligations": self.obligations,
            "discharged": self.discharged,
            "checker_cmd": self.checker_cmd or "lake build + #print axioms audit",
            "trusted_base": [
                "Lean 4.33.0 kernel",
                "axioms allowed: propext, Classical.choice, Quot.sound (audited per theorem)",
                "hv dump (regenerated tables) and the go/ast inventories",
                "the Go<->Lean line protocol and the generators of this check",
            ],
            "evaluations": self.evaluations,
            "distinct_nontrivial": len(self.nontrivial),
            "samples": self.samples if self.samples else ["(no samples recorded)"],
            "axioms_per_theorem": self.axioms,
            "broken": self.broken,
            "notes": self.notes,
            "known_findings_printed": self.known_printed,
        })
        if STALLED:
            cov["driver_stalls"] = [x[:1500] for x in STALLED[:5]]
            cov["driver_stall_count"] = len(STALLED)
        if extra:
            cov.update(extra)
        # keys whose type the evidence schema fixes
        if not isinstance(cov.get("exhaustive", False), bool):
            cov["exhaustive_parts"] = cov.pop("exhaustive")
        for key in ("states", "transitions", "traces_validated_against_impl"):
            if key in cov and not (isinstance(cov[key], int) and not isinstance(cov[key], bool) and cov[key] >= 0):
                cov[key + "_detail"] = cov.pop(key)
        if self.discharged < 1 or self.obligations < 1:
            # nothing discharged on this run (the proof build broke): keep the record under
            # another key so that the file stays valid through the generic exploration keys
            cov["proof_status"] = {"obligations": cov.pop("obligations"), "discharged": cov.pop("discharged")}
        ev = {
            "property_id": self.prop,
            "tier": self.tier,
            "seed": self.seed,
            "level": level,
            "coverage": cov,
            "assumptions": self.assumptions,
            "wall_s": round(time.time() - self.t0, 2),
            "violations": len(self.violations),
        }
        # development mode never touches the evidence of the real tree
        evdir = os.path.join(ROOT, ".build", "evidence" + TAG) if DEV else os.path.join(ROOT, "evidence")
        os.makedirs(evdir, exist_ok=True)
        with open(os.path.join(evdir, f"{self.prop}.json"), "w") as f:
            json.dump(ev, f, indent=1, ensure_ascii=True)
        ok = not self.violations
        print(f"{self.prop} {self.tier}: {'OK' if ok else 'VIOLATIONS=' + str(len(self.violations))} "
              f"evaluations={self.evaluations} nontrivial={len(self.nontrivial)} "
              f"obligations={self.discharged}/{self.obligations} wall={ev['wall_s']}s")
        return 0 if ok else 1


# ---------------------------------------------------------------------------
# build steps
# ---------------------------------------------------------------------------

def write_gomod():
    """go.mod / go.sum for the harness. For /repo the committed harness/go.mod is used as is;
    in development mode a copy with the replace directive pointing at REPO is written to .build."""
    gosum = os.path.join(REPO, "go.sum")
    if not DEV:
        if os.path.exists(gosum):
            have = os.path.join(HARNESS, "go.sum")
            base = open(have).read() if os.path.exists(have) else ""
            add = [l for l in open(gosum).read().splitlines() if l and l not in base]
            if add:
                open(have, "a").write("\n".join(add) + "\n")
        return None
    os.makedirs(BUILD, exist_ok=True)
    mod = open(os.path.join(HARNESS, "go.mod")).read()
    mod = re.sub(r"replace github.com/smarthome-go/homescript/v3 => .*",
                 f"replace github.com/smarthome-go/homescript/v3 => {REPO}", mod)
    modfile = os.path.join(BUILD, f"go{TAG}.mod")
    open(modfile, "w").write(mod)
    sums = open(os.path.join(HARNESS, "go.sum")).read() if os.path.exists(os.path.join(HARNESS, "go.sum")) else ""
    if os.path.exists(gosum):
        sums += "\n" + open(gosum).read()
    open(os.path.join(BUILD, f"go{TAG}.sum"), "w").write(sums)
    return modfile


def build_harness(race=False):
    modfile = write_gomod()
    out = HV + ("-race" if race else "")
    cmd = ["go", "build", "-tags", "verif", "-o", out]
    if modfile:
        cmd += ["-modfile", modfile]
    env = dict(GOENV)
    if race:
        cmd.insert(2, "-race")
        env["CGO_ENABLED"] = "1"
    cmd.append(".")
    rc, log = sh(cmd, cwd=HARNESS, env=env, timeout=600)
    return rc == 0, log


def regenerate():
    rc, log = sh([HV, "dump", os.path.join(LEAN, "HmsGen")], env=dict(os.environ, VERIF_REPO=REPO), timeout=300)
    return rc == 0, log


def lake_build(targets, timeout=1800):
    rc, log = sh(["lake", "build"] + targets, cwd=LEAN, timeout=timeout)
    return rc == 0, log


def theorem_names(module):
    path = os.path.join(LEAN, *module.split(".")) + ".lean"
    src = open(path).read()
    # strip block comments
    src = re.sub(r"/-.*?-/", "", src, flags=re.S)
    ns = re.findall(r"^namespace\s+(\S+)", src, flags=re.M)
    prefix = ns[0] + "." if ns else ""
    return [prefix + n for n in re.findall(r"^theorem\s+([A-Za-z_][\w'.]*)", src, flags=re.M)]


def failing_theorems(module, log):
    """Map lake error lines of a module back to the enclosing theorem names."""
    path = os.path.join(LEAN, *module.split(".")) + ".lean"
    rel = "/".join(module.split(".")) + ".lean"
    lines = open(path).read().splitlines()
    names = set()
    for m in re.finditer(re.escape(rel) + r":(\d+):\d+", log):
        ln = int(m.group(1))
        for i in range(min(ln, len(lines)) - 1, -1, -1):
            mm = re.match(r"^(theorem|example|def|instance)\s+([A-Za-z_][\w'.]*)?", lines[i])
            if mm:
                names.add(mm.group(2) or f"example@{i+1}")
                break
    return sorted(names)


def import_closure(modules):
    """Project-local modules reachable from `modules` through `import` lines."""
    seen = set()
    todo = list(modules)
    while todo:
        m = todo.pop()
        if m in seen:
            continue
        path = os.path.join(LEAN, *m.split(".")) + ".lean"
        if not os.path.exists(path):
            continue
        seen.add(m)
        for imp in re.findall(r"^import\s+(\S+)", open(path).read(), flags=re.M):
            todo.append(imp)
    return seen


def hygiene(modules):
    """grep the Lean sources the property depends on for forbidden constructs outside comments."""
    hits = []
    for m in sorted(import_closure(modules)):
        p = os.path.join(LEAN, *m.split(".")) + ".lean"
        src = open(p).read()
        src = re.sub(r"/-.*?-/", lambda mm: "\n" * mm.group(0).count("\n"), src, flags=re.S)
        for i, line in enumerate(src.splitlines(), 1):
            code = line.split("--")[0]
            if FORBIDDEN.search(code):
                hits.append(f"{os.path.relpath(p, ROOT)}:{i}: {line.strip()}")
    return hits


def audit(ctx, modules):
    """#print axioms for every theorem of the property modules."""
    names = []
    for m in modules:
        names += theorem_names(m)
    os.makedirs(BUILD, exist_ok=True)
    path = os.path.join(BUILD, f"Audit_{ctx.prop}.lean")
    with open(path, "w") as f:
        for m in modules:
            f.write(f"import {m}\n")
        for n in names:
            f.write(f"#print axioms {n}\n")
    rc, log = sh(["lake", "env", "lean", path], cwd=LEAN, timeout=900)
    ctx.obligations = len(names)
    ok = 0
    cur = None
    axioms = {}
    # output: "'X' depends on axioms: [a, b]" or "'X' does not depend on any axioms"
    for m in re.finditer(r"'([^']+)' (does not depend on any axioms|depends on axioms: \[([^\]]*)\])", log, flags=re.S):
        name = m.group(1)
        ax = [a.strip() for a in (m.group(3) or "").replace("\n", " ").split(",") if a.strip()]
        axioms[name] = ax
    for n in names:
        if n in axioms and set(axioms[n]) <= ALLOWED_AXIOMS:
            ok += 1
        else:
            ctx.broken.append(f"audit:{n}:{axioms.get(n, 'missing')}")
    ctx.discharged = ok
    ctx.axioms = axioms
    ctx.checker_cmd = f"cd lean && lake build {' '.join(modules)} && lake env lean .build/Audit_{ctx.prop}.lean"
    return rc == 0 and ok == len(names)


def prepare(ctx, proof_modules, need_driver=True, race=False):
    """Rebuild everything from REPO's working tree. Returns a dict of flags."""
    st = {"harness": False, "dump": False, "model": False, "proofs": False, "audit": False}
    with Lock():
        ok, log = build_harness()
        st["harness"] = ok
        if not ok:
            ctx.broken.append("harness-build")
            st["log"] = log
            return st
        if race:
            ok, log = build_harness(race=True)
            if not ok:
                ctx.note("race build of the harness failed: " + log[-300:])
        if DEV:
            ctx.note(f"development mode (VERIF_REPO={REPO}): table dump, proof build and audit skipped")
            st.update(dump=True, model=os.path.exists(DRV), proofs=True, audit=True)
            ctx.obligations = ctx.discharged = 0
            return st
        ok, log = regenerate()
        st["dump"] = ok
        if not ok:
            ctx.broken.append("table-dump")
            st["log"] = log
            return st
        st["changed_tables"] = log.strip()
        targets = ["Hms", "HmsGen"] + (["hmsdrv"] if need_driver else [])
        ok, log = lake_build(targets)
        st["model"] = ok
        if not ok:
            ctx.broken.append("model-build")
            st["log"] = log
            return st
        ok, log = lake_build(proof_modules)
        st["proofs"] = ok
        if not ok:
            st["log"] = log
            ctx.obligations = sum(len(theorem_names(m)) for m in proof_modules)
            for m in proof_modules:
                for n in failing_theorems(m, log):
                    ctx.broken.append(f"theorem:{m}.{n}")
            if not ctx.broken:
                ctx.broken.append("proof-build:" + ",".join(proof_modules))
        else:
            st["audit"] = audit(ctx, proof_modules)
        hits = hygiene(list(proof_modules) + ["Driver.Main"])
        if hits:
            st["hygiene"] = hits
            for h in hits[:5]:
                ctx.broken.append("hygiene:" + h)
    return st


# ---------------------------------------------------------------------------
# running the two sides
# ---------------------------------------------------------------------------

def run_lines(cmd, lines, timeout=600, env=None, cwd=None):
    """Feed lines to a line-protocol process; returns output lines (may be
    shorter than the input if the process died) and the return code."""
    data = "\n".join(lines) + "\n"
    try:
        p = subprocess.run(cmd, input=data, stdout=subprocess.PIPE, stderr=subprocess.PIPE,
                           text=True, timeout=timeout, env=env, cwd=cwd)
        return p.stdout.splitlines(), p.returncode, p.stderr
    except subprocess.TimeoutExpired as e:
        out = e.stdout.decode() if isinstance(e.stdout, bytes) else (e.stdout or "")
        return out.splitlines(), -9, "timeout"


def go_lines(subcmd, lines, args=(), timeout=600, memlimit="3GiB", race=False):
    """Run `hv <subcmd>` over the lines; a crash is attributed to the first
    unanswered line, which is answered CRASH, and the run resumes after it."""
    env = dict(os.environ, GOMEMLIMIT=memlimit, VERIF_REPO=REPO)
    exe = HV + ("-race" if race else "")
    out = []
    i = 0
    while i < len(lines):
        res, rc, err = run_lines([exe, subcmd] + list(args), lines[i:], timeout=timeout, env=env)
        out += res
        i += len(res)
        if i < len(lines):
            # the process died on line i
            kind = "HANG" if rc == -9 else "CRASH"
            tail = (err or "").strip().splitlines()
            first = next((l for l in tail if l.startswith(("panic:", "fatal error:", "runtime:"))), tail[0] if tail else "")
            out.append(f"{kind} {xhex(first[:200])}")
            i += 1
    return out


def lean_lines(lines, timeout=900):
    """Answers of the Lean driver, one per line. A line on which the driver does not answer in time (the models are
    fuel-bounded, but fuel bounds depth, not work) or dies is answered `TIMEOUT x<hex>` / `DECODE-ERROR x<hex>` and the
    rest of the batch is run by a fresh driver: the callers treat both like UNSUPPORTED (no verdict from the model)."""
    out = []
    i = 0
    budget = min(timeout, max(60, len(lines) // 4))
    stalls = 0
    while i < len(lines):
        res, rc, err = run_lines([DRV], lines[i:], timeout=budget)
        out += res
        i += len(res)
        if i < len(lines):
            stalls += 1
            if stalls > 20:
                raise RuntimeError(f"lean driver keeps failing ({stalls} lines without an answer): {err[-300:]}")
            kind = "TIMEOUT" if "timeout" in (err or "") or rc == -9 else "DECODE-ERROR"
            out.append(f"{kind} " + xhex(f"driver gave no answer within {budget}s: {(err or '')[-120:]}"))
            STALLED.append(lines[i][:4000])
            i += 1
    return out


STALLED = []


def xhex(s):
    return "x" + s.encode("utf-8", "replace").hex()


def unhex(a):
    assert a.startswith("x"), a
    return bytes.fromhex(a[1:]).decode("utf-8", "replace")


def load_known(prop):
    path = os.path.join(ROOT, "known_findings.json")
    if not os.path.exists(path):
        return []
    return [e for e in json.load(open(path)) if e.get("property") == prop]
