#!/usr/bin/env python3
"""Assembles /verif/DESIGN.md from docs/design_head.md, docs/design_tail.md, the claims of
tools/mkmanifest.py, the theorem names of lean/HmsProofs, known_findings.json and seeded/*/meta.json."""
import glob
import importlib.util
import json
import os
import re
import subprocess

ROOT = os.path.dirname(os.path.dirname(os.path.abspath(__file__)))


def load_claims():
    spec = importlib.util.spec_from_file_location("mkmanifest", os.path.join(ROOT, "tools", "mkmanifest.py"))
    m = importlib.util.module_from_spec(spec)
    spec.loader.exec_module(m)
    return m.CLAIMS, m.COMMON_NOTE


def theorems(path):
    """[(name, first doc line or '')] of a Lean file."""
    if not os.path.exists(path):
        return []
    src = open(path).read()
    out = []
    for m in re.finditer(r"(?:/--(.*?)-/\s*)?^theorem\s+([A-Za-z_][\w'.]*)", src, flags=re.S | re.M):
        doc = (m.group(1) or "").strip().split("\n")[0].strip()
        # a doc comment far above belongs to something else
        if m.group(1) and len(m.group(1)) > 1500:
            doc = ""
        out.append((m.group(2), doc))
    return out


def proof_modules(pid):
    p = os.path.join(ROOT, "props", pid + ".py")
    if not os.path.exists(p):
        return []
    m = re.search(r"^MODULES\s*=\s*\[(.*?)\]", open(p).read(), flags=re.M)
    return re.findall(r'"([\w.]+)"', m.group(1)) if m else []


def repo_commit(c):
    try:
        return subprocess.check_output(["git", "-C", "/repo", "log", "--format=%h %s", "-1", c], text=True).strip()
    except Exception:  # noqa
        return c


def main():
    claims, common = load_claims()
    props = [json.loads(l) for l in open(os.path.join(ROOT, "properties.jsonl"))]
    known = json.load(open(os.path.join(ROOT, "known_findings.json")))
    seeds = {}
    for f in sorted(glob.glob(os.path.join(ROOT, "seeded", "*", "meta.json"))):
        seeds[os.path.basename(os.path.dirname(f))] = json.load(open(f))
    out = [open(os.path.join(ROOT, "docs", "design_head.md")).read().rstrip(), "", ""]

    # ---- §7 ---------------------------------------------------------------------------------
    out += ["## 7. Per-property sections", "",
            "Every section: what is claimed (the text of MANIFEST.json), the theorems that are audited on every run "
            "(`#print axioms`), how the model is tied to the code, what the implementation-side oracle judges, the open "
            "findings whose zones the generators avoid, and the seeded changes that were run against the check.", ""]
    for p in props:
        pid = p["id"]
        out += [f"### {pid} — {p['title']}", ""]
        c = claims.get(pid)
        if not c:
            out += ["Not claimed (see MANIFEST.json not_applicable).", ""]
            continue
        out += [f"*Technique.* {c['technique']}", "", f"*Claim.* {c['text']}", "", f"*Limits.* {c['note']}", ""]
        mods = proof_modules(pid)
        for mod in mods:
            ths = theorems(os.path.join(ROOT, "lean", *mod.split(".")) + ".lean")
            if not ths:
                continue
            out.append(f"*Theorems audited in `{mod}`* ({len(ths)}): " + ", ".join(f"`{n}`" for n, _ in ths) + ".")
            out.append("")
        ko = [e for e in known if e["property"] == pid and e["status"] == "open"]
        kf = sorted({e["id"] for e in known if e["property"] == pid and e["status"] == "fixed"})
        if ko:
            out.append("*Open findings replayed as KNOWN-FINDING (zones excluded from the generators):* " +
                       "; ".join(f"{e['id']} — {e['what'][:160]}" for e in ko) + ".")
            out.append("")
        if kf:
            out.append("*Repaired findings whose witnesses run as regressions:* " + ", ".join(kf) + ".")
            out.append("")
        ss = [(i, m) for i, m in seeds.items() if m.get("property") == pid or pid in m.get("also", [])]
        if ss:
            out.append("*Seeded changes run against this check:* " + "; ".join(
                f"{i} ({m['summary'][:110]}): {m.get('caught_by', {}).get(pid, 'not run against this check')}" for i, m in ss) + ".")
            out.append("")
    # ---- §8, §10-12 -----------------------------------------------------------------------------
    tail = open(os.path.join(ROOT, "docs", "design_tail.md")).read()
    sec8, rest = tail.split("## 10. Hooks in /repo", 1)
    out += [sec8.rstrip(), "", ""]
    # ---- §9 findings ----------------------------------------------------------------------------
    out += ["## 9. Findings (genuine defects of /repo)", "",
            "Each entry was shown on the real code with the witness recorded in `known_findings.json` (the failing input, "
            "history, graph or schedule). *fixed*: repaired by the named unguarded `fix:` commit in /repo (test suite "
            "unedited, passing); the witness runs as a regression in the listed properties' checks. *open*: recorded, "
            "replayed as KNOWN-FINDING, zone excluded from the generators; the repair would be a redesign or is not safe to "
            "make blind.", "",
            "| id | status | properties | what fails | commit |", "|---|---|---|---|---|"]
    byid = {}
    for e in known:
        d = byid.setdefault((e["id"], e["status"]), {"props": [], "what": e["what"], "commit": e.get("commit", "")})
        if e["property"] not in d["props"]:
            d["props"].append(e["property"])

    def keyf(k):
        m = re.match(r"([A-Z]+)(\d+)(.*)", k[0])
        return (k[1] != "open", m.group(1), int(m.group(2)), m.group(3)) if m else (k[1] != "open", k[0], 0, "")
    for (i, st), d in sorted(byid.items(), key=lambda kv: keyf(kv[0])):
        what = re.sub(r"^fixed: property=\S+ \S+ ", "", d["what"]).replace("|", "\\|")
        out.append(f"| {i} | {st} | {' '.join(sorted(d['props']))} | {what[:260]} | {d['commit']} |")
    n_fix = subprocess.check_output(["git", "-C", "/repo", "log", "--format=%s"], text=True).count("\nfix:") + 1
    out += ["", f"/repo carries {n_fix} `fix:` commits on top of the pinned commit (`git -C /repo log --oneline | grep ' fix:'`); "
            "lexer repairs L1–L8, compiler/VM/interpreter repairs V…, value-library and member repairs X…, analyzer repairs A…, "
            "host-layer repairs H…, parser/totality repairs P…/T…, printer repairs R…", "", ""]
    out += ["## 10. Hooks in /repo" + rest.rstrip(), "", ""]
    # ---- §13 seeds ------------------------------------------------------------------------------
    out += ["## 13. Seeded changes and which checks catch them", "",
            "Each change was written by a fresh sub-agent that saw only the text of one property and a scratch worktree of "
            "/repo (nothing of /verif). It compiles, passes the 34 existing tests, needs something specific to manifest and "
            "comes with a demonstration that fails with it and passes without it; all of that was re-confirmed by "
            "`tools/seedtest.sh` (which applies `seeded/<id>/patch.diff` to /repo, runs the quick checks and restores /repo). "
            "Where a check missed a change at first, the check was strengthened (new family, wider generator, extra oracle) — "
            "never loosened — and re-run; the 'caught by' column records both.", "",
            "| seed | property | change | needs | caught by |", "|---|---|---|---|---|"]
    for i, m in seeds.items():
        cb = "; ".join(f"**{k}**: {v}" for k, v in m.get("caught_by", {}).items()).replace("|", "\\|")
        out.append(f"| {i} | {m['property']} | {m['summary'].replace('|', '/')} | {m.get('needs', '').replace('|', '/')} | {cb} |")
    out += ["", "One-line mutations applied with `tools/mutate.sh` during construction (operand swap in `Sub`, `<` for `<=` in a "
            "bounds check, dropped `PopTryLabel`, quantum 50→60 without regeneration, removed globals mutex, reversed argument "
            "binding, …) are not kept as seeds; each was detected by the check of its property.", ""]
    open(os.path.join(ROOT, "DESIGN.md"), "w").write("\n".join(out) + "\n")
    print("DESIGN.md:", sum(1 for _ in open(os.path.join(ROOT, "DESIGN.md"))), "lines;", len(seeds), "seeds;", len(byid), "findings")


if __name__ == "__main__":
    main()
