#!/usr/bin/env python3-vt
"""Validates MANIFEST.json and every evidence file against the task's schemas."""
import glob, json, sys
import jsonschema
bad = 0
def check(path, schema):
    global bad
    try:
        jsonschema.validate(json.load(open(path)), json.load(open(schema)))
    except Exception as e:  # noqa
        bad += 1
        print("INVALID", path, str(e).splitlines()[0])
check("/verif/MANIFEST.json", "/root/.vp/MANIFEST.schema.json")
for f in sorted(glob.glob("/verif/evidence/*.json")):
    check(f, "/root/.vp/EVIDENCE.schema.json")
m = json.load(open("/verif/MANIFEST.json"))
ids = {c["property_id"] for c in m["checks"]} | {n["property_id"] for n in m.get("not_applicable", [])}
props = {json.loads(l)["id"] for l in open("/verif/properties.jsonl")}
if ids != props:
    bad += 1
    print("manifest does not cover", sorted(props ^ ids))
print("valid" if not bad else f"{bad} problems")
sys.exit(1 if bad else 0)
