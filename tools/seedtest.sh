#!/bin/bash
# tools/seedtest.sh <seed-id> <worktree> <prop> <check>...  — verify a seeded change and run checks against it.
# Stores patch.diff + demo in /verif/seeded/<seed-id>/ ; prints per-check verdicts. /repo is restored afterwards.
set -u
id=$1; wt=$2; prop=$3; shift 3
export GOFLAGS=-mod=mod GOPROXY=off GOSUMDB=off GOTOOLCHAIN=local
dir=/verif/seeded/$id
mkdir -p $dir
git -C $wt diff -- homescript > $dir/patch.diff
for f in $(git -C $wt status --short | grep '^??' | awk '{print $2}'); do
  case "$f" in *_test.go|*SEED_NOTES.md|cmd/seeddemo*) mkdir -p $dir/demo/$(dirname $f); cp -r $wt/$f $dir/demo/$f;; esac
done
cd /repo || exit 2
git diff --quiet || { echo "/repo has uncommitted changes"; exit 2; }
if ! git apply --check $dir/patch.diff 2>/dev/null; then echo "PATCH DOES NOT APPLY to current /repo HEAD"; exit 3; fi
git apply $dir/patch.diff
build=ok; go build ./... 2>/dev/null || build=FAIL
tests=$(go test -vet=off -count=1 ./... 2>&1 | grep -c "^FAIL\|^---FAIL\|^--- FAIL")
# demonstration: copy demo test files in, run, remove
demo="n/a"
demofiles=$(cd $dir/demo 2>/dev/null && find . -name '*_test.go' | sed 's|^\./||')
if [ -n "$demofiles" ]; then
  pkgs=$(for f in $demofiles; do echo "./$(dirname $f)/"; done | sort -u)
  putdemo() { for f in $demofiles; do mkdir -p /repo/$(dirname $f); cp $dir/demo/$f /repo/$f; done; }
  rmdemo() { for f in $demofiles; do rm -f /repo/$f; done; }
  putdemo
  if go test -vet=off -count=1 -run 'Seed' $pkgs >/tmp/scratch/demo.out 2>&1; then demo="PASSES-with-change(!)"; else demo="fails-with-change"; fi
  rmdemo
  git checkout -- .
  putdemo
  if go test -vet=off -count=1 -run 'Seed' $pkgs >/tmp/scratch/demo2.out 2>&1; then demo="$demo, passes-without"; else demo="$demo, FAILS-without(!)"; fi
  rmdemo
  git checkout -- .
  git apply $dir/patch.diff
fi
echo "seed $id: build=$build failing_tests=$tests demo: $demo"
cd /verif
for chk in "$@"; do
  out=$(./check.py $chk --tier quick 2>&1); rc=$?
  echo "  $chk: rc=$rc violations=$(echo "$out" | grep -c '^VIOLATION') | $(echo "$out" | grep -A1 '^VIOLATION' | sed -n 2p | cut -c1-220)"
done
git -C /repo checkout -- .
for f in ${demofiles:-}; do rm -f /repo/$f; done
git -C /repo status --short | head -3
# leave no harness binary behind that was built from the patched tree
(cd /verif && python3 -c "
import sys; sys.path.insert(0, '/verif')
from vlib import core
core.build_harness()" >/dev/null 2>&1)
