#!/bin/bash
# tools/mutate.sh <check> <file> <sed-expr>  — apply a one-line mutation to /repo, run the quick check, revert.
set -u
chk=$1; file=$2; expr=$3
cd /repo || exit 2
git diff --quiet || { echo "/repo has uncommitted changes"; exit 2; }
sed -i "$expr" "$file"
if git diff --quiet; then echo "MUTATION DID NOT APPLY"; exit 2; fi
export GOFLAGS=-mod=mod GOPROXY=off GOSUMDB=off GOTOOLCHAIN=local
if ! go build ./... 2>/dev/null; then echo "mutant does not compile"; git checkout -- .; exit 2; fi
tests=$(go test -vet=off -count=1 ./... 2>&1 | grep -c "^FAIL")
cd /verif
out=$(./check.py $chk --tier quick 2>&1)
rc=$?
git -C /repo checkout -- .
echo "tests_failing=$tests rc=$rc $(echo "$out" | grep -c '^VIOLATION') violation lines; last: $(echo "$out" | tail -1)"
echo "$out" | grep -A1 "^VIOLATION" | head -4
