#!/bin/bash
# tools/seedtest_wt.sh <seed-id> <worktree> <prop> <check>...  — like seedtest.sh, but everything happens in the
# seed's own scratch worktree (never in /repo): the change is verified there (build, existing tests, demonstration with
# and without the change) and the checks run against that tree (VERIF_REPO=<worktree>: the harness is built against it;
# the table dump and the proof steps, which belong to /repo, are skipped). Can run in parallel with other work.
set -u
id=$1; wt=$2; prop=$3; shift 3
export GOFLAGS=-mod=mod GOPROXY=off GOSUMDB=off GOTOOLCHAIN=local
dir=/verif/seeded/$id
mkdir -p $dir
git -C $wt diff -- homescript > $dir/patch.diff
demofiles=""
for f in $(git -C $wt status --short | grep '^??' | awk '{print $2}'); do
  case "$f" in *_test.go|*SEED_NOTES.md|cmd/seeddemo*) mkdir -p $dir/demo/$(dirname $f); cp -r $wt/$f $dir/demo/$f;; esac
  case "$f" in *_test.go) demofiles="$demofiles $f";; esac
done
cd $wt || exit 2
hold=$(mktemp -d)
for f in $demofiles; do mkdir -p $hold/$(dirname $f); mv $f $hold/$f; done
build=ok; go build ./... 2>/dev/null || build=FAIL
tests=$(go test -vet=off -count=1 ./... 2>&1 | grep -c "^FAIL\|^--- FAIL")
for f in $demofiles; do mv $hold/$f $f; done
demo="n/a"
if [ -n "$demofiles" ]; then
  pkgs=$(for f in $demofiles; do echo "./$(dirname $f)/"; done | sort -u)
  if go test -vet=off -count=1 -run 'Seed' $pkgs >$hold/demo.out 2>&1; then demo="PASSES-with-change(!)"; else demo="fails-with-change"; fi
  git apply -R $dir/patch.diff
  if go test -vet=off -count=1 -run 'Seed' $pkgs >$hold/demo2.out 2>&1; then demo="$demo, passes-without"; else demo="$demo, FAILS-without(!)"; fi
  git apply $dir/patch.diff
fi
rm -rf $hold
echo "seed $id: build=$build failing_tests=$tests demo: $demo"
cd /verif
for chk in "$@"; do
  out=$(VERIF_REPO=$wt ./check.py $chk --tier quick 2>&1); rc=$?
  echo "  $chk: rc=$rc violations=$(echo "$out" | grep -c '^VIOLATION') | $(echo "$out" | grep -A1 '^VIOLATION' | sed -n 2p | cut -c1-220)"
done
