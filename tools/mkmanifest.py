#!/usr/bin/env python3
"""Regenerates /verif/MANIFEST.json from the per-property claims below."""
import json
import os

ROOT = os.path.dirname(os.path.dirname(os.path.abspath(__file__)))
COMMON_NOTE = ("Trusted base: Lean 4.33.0 kernel; axioms propext / Classical.choice / Quot.sound only (audited per theorem on "
               "every run; no native_decide, bv_decide, sorry, own axioms); the table dump `hv dump` and the Go<->Lean line "
               "protocol; the generators bound what the correspondence sees. The Go code is modelled, not verified: theorems are "
               "about the Lean model, the tie to /repo is re-checked on every run (regenerated tables completely, behaviour sampled). ")

CLAIMS = {
 "C01": dict(ref="§7 C01",
  text="Lean 4: a specification semantics of the analysed core language (Hms.Core.Sem: 64-bit two's-complement ints, short-circuit, lexical scoping, reference semantics for lists/objects, snapshot `for`, try/throw, fatal errors) with proved arithmetic/shift/division conventions, short-circuit and snapshot theorems (HmsProofs.C01), a compiler model whose instruction stream is compared VERBATIM with the real compiler's on every generated program, a VM model compared with the real VM's outcome and residue, and (HmsProofs.C01VM, as far as proved) relocation/renaming correctness and forward simulation for the straight-line fragment. Oracle: real compiler+VM outcome (output, triggers, completion / fatal kind + message) == specification outcome on typed random programs; clean core (stack=0 mp=0 handlers=0) after completion.",
  note="The semantic simulation theorem covers a fragment (see HmsProofs/C01VM.lean); outside it faithfulness rests on the sampled three-way correspondence. Programs are generated inside the fragment named in DESIGN.md §7a (open findings V8, V12, V13, V28, V29 are not generated; their witnesses are replayed as KNOWN-FINDINGs). Floats only in the dyadic-safe class.",
  technique="Lean 4 proof (spec semantics + compiler/VM models, induction) + verbatim instruction-stream tie + Go/Lean differential execution"),
 "C04": dict(ref="§7 C04",
  text="Lean 4: both backends are tied to ONE specification semantics (Hms.Core.runProgram): the interpreter here, the VM in C01; the fatal-error vocabularies of the two value packages are proved to be in bijection over tables regenerated from their String() methods on every run (HmsProofs.C04). Oracle: real interpreter outcome == real VM outcome (output, completion / fatal kind + message) on typed random programs of the shared language.",
  note="Agreement of the backends is a theorem only through the shared specification on the modelled fragment; open findings V12, V13 (argument order), V23, V24, X13 are not generated.",
  technique="Lean 4 proof (shared specification semantics, regenerated kind tables by decide) + differential execution of both backends"),
 "C06": dict(ref="§7 C06",
  text="Lean 4 theorems (HmsProofs.C06): the lexer model meets a lexical specification written from grammar.ebnf on EVERY source text (partition into tokens and trivia, token classes, decoded values, maximal munch, exact inclusive spans, totality, error spans); keyword and operator tables of the specification are proved equal to tables regenerated from the Go lexer on every run. The model is tied to the Go lexer by a behavioural correspondence (identical token streams incl. values, spans and error classes) on exhaustive lexeme pairs and random texts, and the Go stream itself is judged against the specification.",
  note="Go's rune/string conversions trusted. The tie is exhaustive over ordered pairs of representative lexemes and sampled beyond.",
  technique="Lean 4 proof over a hand-written lexer model + regenerated tables (decide) + Go/Lean differential correspondence"),
 "C07": dict(ref="§7 C07",
  text="Lean 4 theorems (HmsProofs.C07): the binding-power table regenerated from TokenKind.Prec() on every run satisfies the operator chain of the property (decide over the complete table); for every binding-power table and every token sequence the precedence-climbing loop model returns exactly the unique normal tree (completeness, soundness up to trailing commas, uniqueness, fuel totality) — unbounded depth and mixture; trailing commas never change the tree. Tie: Go parser tree == Lean model tree on the Go token kinds; oracle: Go tree == the tree an independent rank-based renderer intended, under random layout and redundant parentheses, plus all ordered operator pairs/triples.",
  note="Opaque operands (blocks, if/match/try, fn, new, spawn, $x) are outside the model; cast types are single identifiers in the model.",
  technique="Lean 4 proof (Pratt loop model, induction) + regenerated Prec() table (decide +kernel) + Go/Lean tree correspondence"),
 "C11": dict(ref="§7 C11",
  text="Lean 4 theorems about the specification semantics, unconditional (HmsProofs.C11): break/continue act on the innermost loop (loop/while/for), every other exit passes through loops, code after an exit is skipped while earlier effects persist, return leaves the function with its value and the caller's scopes restored, a throw leaves functions at any call depth and reaches the nearest dynamically enclosing catch with message and position in the state the body left, fatal errors are not catchable, an uncaught throw is the fatal UncaughtThrow. Tie + oracle: ALL legal nestings (depth <= 2 quick, <= 3 thorough) of {loop, while, for, block, if, match arm, try, catch, call} around {break, continue, return, throw, fatal error}, each followed by code that prints locals and re-enters the construct, on both real backends == the specification, with an intact core (stack/mp/handlers) afterwards.",
  note="The VM side is tied by exhaustive bounded enumeration, not yet by a simulation theorem for control flow. Open finding V8 (exit while operands of an enclosing expression are pending) is outside the generated nestings (exits are statements).",
  technique="Lean 4 proof (specification-level unwinding lemmas) + exhaustive bounded nesting enumeration on both backends vs the Lean semantics"),
 "C02": dict(ref="§7 C02",
  text="Lean 4 theorems on the VM model (HmsProofs.C02, HmsProofs.C09): a bytecode height checker `hcheck` (stack heights, handler depths, frame slots, call arities per program point, in the style of JVM verification restricted to heights) is proved sound: from every state satisfying its invariant, for ALL operand values and ALL limits, a step never ends in stack underflow, handler-stack underflow, an out-of-frame memory access or a run-time label, the invariant is preserved by steps and re-established by exception dispatch into any activation, whole runs never end in one of these panics (hcheck_sound_partial, hcheck_run_sound_partial; unconditional for code without dynamic calls: run_sound_static), loops are balanced; a limit overshoot is always one of the two fatal interrupts, never a panic. `hcheck` is evaluated on the model-compiled code of every generated program (the model's instruction stream is compared verbatim with the real compiler's in C01: translation validation). Oracle: the full (type x infix/assign/prefix operator x boundary operand pair) product and typed random programs with a raised rate of faulting operands, under three limit triples, on BOTH backends: always completion or an interrupt — never a Go panic, fatal runtime error or hang.",
  note="hcheck soundness for dynamic calls (function values, builtins) carries the hypothesis DynOK (callee arity/result count match the site) — with a kernel-checked counterexample showing heights cannot replace arity typing, which the analyzer provides (C03). Operand KIND safety (failed type assertions) is covered by the analyzer model's soundness (C03) plus the sampled operator matrix, not by a VM-level typing theorem. 'Never deadlocks' is shown for the single-core VM model and the Wait protocol model (C10/C16/C17), not for the Go scheduler. Open findings V8, V12, V28, V29 are rejected by hcheck / not generated.",
  technique="Lean 4 proof (bytecode verifier soundness on the VM model, all values and limits) + translation validation of generated programs + crash/hang oracle on both backends"),
 "C03": dict(ref="§7 C03",
  text="Lean 4 theorems (HmsProofs.C03) over a model of the analyzer's core language (all expression and statement forms, function literals, globals, main): the algorithmic checker `check` — a per-construct mirror of expression.go/statement.go/topLevel.go/typing.go including error recovery, never/unknown/any propagation and the state Scopes/CurrentFunction/LoopDepth/CurrentLoopIsTerminated — is proved sound and complete w.r.t. a declarative typing relation (check_sound, check_complete, rejects_iff_ill_typed: an error-level diagnostic iff not well-typed) and the recorded types are exactly the ones the rules assign (check_types, check_types_unique), for EVERY program of the modelled core, no fragment hypothesis; TypeCheck is proved to decide an independently stated compatibility relation; one rule lemma per fault class of the statement; impl/template and trigger rules are proved as decision tables. Tie: Go analyzer verdict (sorted multiset of message classes through a total class table) and recorded types == model's, on well-typed programs, single- and multi-fault mutants and a snippet soup (about 23k programs quick, 340k thorough), and the decision tables against the testing host. Oracle: generated well-typed program => no error diagnostic and recorded types == generator's; single-fault mutant (rule x position) => >= 1 error; never a panic.",
  note="Imports, singletons, annotations, spawn and type definitions are outside the model (answered UNSUPPORTED, <0.01 % of generated cases); warnings and hints are not compared. The model is the analyzer AFTER repairs A1-A7, A9, A10.",
  technique="Lean 4 proof (mutual structural recursion over the syntax: checker <=> typing relation) + Go/Lean differential correspondence on typed programs and single-fault mutants + implementation-side oracle"),
 "C09": dict(ref="§7 C09",
  text="Lean 4 theorems on the VM model (HmsProofs.C09), for ALL code, ALL limit triples, ALL fuel: in every reachable state the operand stack is at most max(initial, limit) + quantum and the call stack at most limit + quantum (the bound is attained: kernel-checked example), every instruction pushes at most one entry; after every AddMempointer either mp < MaxMemorySize or the OutOfMemory interrupt, variable access touches exactly the cell mp - k inside [0, limit); exceeding a limit is always the fatal StackOverFlow / OutOfMemoryError interrupt, never a panic; no false stop (a fatal StackOverFlow of the poll only when a limit is really exceeded at that poll); fuel monotonicity; and for hcheck-ed code loops are balanced (same height and mp whenever an activation is back at the same ip), so loops and repeated calls of bounded depth run indefinitely. `quantum` is the constant regenerated from the Go code. Tie: programs parameterised by recursion depth, expression nesting, locals per frame and iteration count (below / at / above each limit) x limit triples on the real VM == the VM model (kind, message with the overshoot, final stack/mp); interpreter vs the specification's call-depth rule. Oracle: far above a limit -> the corresponding fatal interrupt, never a crash; far below -> completion; 200k..1M-iteration soaks end with stack=0 mp=0 handlers=0.",
  note="The bound is in instructions between polls (quantum = 50), not wall-clock time. The interpreter has only a call-depth limit. Open finding V8 (exits under pending operands leak stack entries) is not generated.",
  technique="Lean 4 proof (invariants over all reachable states of the VM model) + parameterised limit programs on the real backends vs the model"),
 "C12": dict(ref="§7 C12",
  text="Lean 4 theorems (HmsProofs.C12) about a model of DeepCast for both value libraries, for all values, types, flags and paths: an admitted value conforms (cast_sound); a conforming value is admitted unchanged (cast_identity); admission <=> the permitted conversions, written independently from the property text (cast_admits_iff); every error any map order can report addresses a non-convertible offending sub-value (cast_error_path, deepCast_error_path); well-formedness preservation and idempotence. Tie: runtime/value and interpreter/value DeepCast on generated (value, type) pairs (conforming, non-conforming at every depth, near misses) == model; in-program routes (`as`, annotated let of parse_json results, where the admitted value is then USED at its static type) on both backends; SpawnSync argument validation. Oracle: admitted => `conforms` evaluated by the Lean driver on the Go result; non-conforming => catchable cast error with an offending path (programs) or refused call (host).",
  note="Object values and types are finite maps (well-formedness checked per case); functions are excluded (always refused); floats in the dyadic class. A refused host argument is a Go panic in SpawnSync ('refused' = the callee never runs). The JSON text layer (encoding/json) is trusted.",
  technique="Lean 4 proof over a mutually inductive value/type model + Go/Lean differential correspondence (both libraries, direct and in-language) + conformance oracle"),
 "C13": dict(ref="§7 C13",
  text="Lean 4 theorems (HmsProofs.C13): `==` is reflexive and symmetric on well-formed data values, transitive without hypothesis, and holds iff the structural content (objects as finite maps) is the same (eq_iff_content); a clone denotes the same value and lives in fresh cells, and for ALL mutation sequences through the clone the original is unchanged and conversely (clone_isolated, orig_isolated, with a shallow-copy counterexample); both renderers agree (display_agree); the typed JSON round trip holds for both marshallers under a decidable JsonRepr. Tie: IsEqual / Clone / Display / Marshal / Unmarshal of BOTH Go value packages through the real constructors, and mutation sequences on clones, == model; the same laws through programs. Oracle: the laws evaluated on the Go results (symmetry on every pair, transitivity on mutated triples, clone-then-mutate, marshal -> unmarshal-under-type equal, identical Display strings of the two packages).",
  note="The program-route JSON round trip is proved under the extra hypothesis noIntegralFloat (open finding X5, counterexample theorem included); X26 open (typed unmarshaller panics on an any-object type). JSON text layer and NFC normalisation trusted; slice sharing after `a = b` is not modelled in the cell heap (mutation arguments are freshly built).",
  technique="Lean 4 proof (equality/content, cell-heap clone isolation over all mutation sequences, JSON tree round trip) + Go/Lean differential correspondence on both value libraries + law oracle"),
 "C18": dict(ref="§7 C18",
  text="Lean 4 theorems (HmsProofs.C18): over the three member tables regenerated on every run from ast.<Type>.Fields() and from Fields() of a representative value of both value packages (18 representatives), every member the analyzer offers exists in the VM and the interpreter with the same shape and no Fields() call panics (decide +kernel), and for every modelled row the advertised signature is the one the model is proved against; for a transcription of IndexValue and of the list/string/range/option/any-object members over BitVec 64, for EVERY list or string and EVERY 64-bit index, indexing, insert and remove yield exactly the element / list the wrap rule names or the IndexOutOfBounds interrupt, never a panic (index_total, str_index_total, insert_total, remove_total, pop/last/push/substring/repeat_total), and every modelled member called with arguments of the advertised types returns a value of the advertised type or an interrupt (member_typed_partial, index_typed). Tie: hv membercall (real constructors, real Fields(), real callbacks, both packages) == model on the exhaustive (representative x member x boundary receivers x boundary arguments) product and on random member sequences; the same cases as one-line programs through analyzer, compiler, VM and interpreter. Oracle: member present; result conforms to the regenerated advertised type; no panic/crash; wrap rule recomputed independently in Python.",
  note="Go int is 64-bit; slices shorter than 2^63 (explicit hypothesis). member_typed is partial: 92 of 156 table rows are modelled, the rest (split, replace, to_json, sort, parse_*, contains, join, float members, get_type) are judged by the oracle on boundary inputs only. The product is taken over representatives. Open: X16 (huge repeat).",
  technique="Lean 4 proof (BitVec 64 index model, regenerated member tables by decide +kernel) + Go/Lean differential correspondence (direct + in-language) + implementation-side type/wrap-rule oracle"),
}

PENDING_REASON = "check under construction in this session (model/harness being built); not claimed until its quick command passes on the unchanged tree"


def main():
    props = [json.loads(l) for l in open(os.path.join(ROOT, "properties.jsonl"))]
    checks = []
    for pid in sorted(CLAIMS):
        c = CLAIMS[pid]
        checks.append({
            "property_id": pid,
            "quick_cmd": f"./check.py {pid} --tier quick",
            "thorough_cmd": f"./check.py {pid} --tier thorough",
            "evidence_file": f"evidence/{pid}.json",
            "replay_cmd_template": f"./check.py {pid} --replay {{path}}",
            "engine": "lean4+hv",
            "level_claimed": {"category": "proof", "text": c["text"], "design_ref": c["ref"]},
            "level_note": COMMON_NOTE + c["note"],
            "technique": c["technique"],
        })
    na = [{"property_id": p["id"], "reason": PENDING_REASON} for p in props if p["id"] not in CLAIMS]
    m = {
        "version": 1,
        "setup_cmd": "./setup.sh",
        "hooks": {"guard": "verif",
                  "enable": "go build -tags verif (the harness is always built with the tag; no hook code exists in /repo: every observation point the checks need is exported)",
                  "baseline_off_cmd": "cd /repo && GOFLAGS=-mod=mod GOPROXY=off go test -vet=off -count=1 ./...",
                  "source_commits": [], "add_only": True},
        "engines": [{"name": "lean4+hv", "path": "check.py", "serves_properties": sorted(CLAIMS),
                     "kind_free_text": "Lean 4 models + theorems (lean/), Go harness hv (harness/) calling the real code, Python orchestration (check.py, vlib/, props/, gen/)"}],
        "checks": checks,
        "notes": "Every check rebuilds the harness from /repo's working tree, regenerates lean/HmsGen from the Go code, rebuilds the proofs against the regenerated tables, audits axioms and hygiene, then runs the Go<->Lean correspondence and the implementation-side oracle. Genuine defects found are repaired by 'fix:' commits in /repo or listed in known_findings.json.",
        "not_applicable": na,
    }
    json.dump(m, open(os.path.join(ROOT, "MANIFEST.json"), "w"), indent=1)
    print("claimed:", sorted(CLAIMS), "pending:", [x["property_id"] for x in na])


if __name__ == "__main__":
    main()
