package main

// hv cancel — run a program on the VM and on the tree-walking interpreter under a context whose
// Done() counts polls and is closed from the k-th poll on (C10).
//
// Input line:  (cancel (ks all|<k>…) (backends vm tree) (limits c s m) (asm true) (main x<src>) (mod x<name> x<src>)…)
//   k counts the polls *after* VM construction (NewVM runs @init through SpawnSync; DESIGN §9 V29).
// Output line: fields separated by " | ":
//   A=ACCEPT
//   VM=<full run> then one "VMk=<run>" per requested k; TREE= / TREEk= likewise
//   ASM=((x<fn> <opcode>…)…)   the compiled listing (function names sorted)
// A run is:  <outcome> k=<k> p0=<polls during construction> polls=<polls after construction>
//            after=<polls after the first closed poll> out=<hex> opp=(<output bytes before poll j>…)
//            tpp=(<prints before poll j>…) maxgap=<max prints between two polls> gor=ok|leak<n>
// outcomes: OK | TERM | FATAL:<kind> | EXIT | HANG (Wait did not return within the watchdog) | PANIC:x<hex>

import (
	"context"
	"errors"
	"fmt"
	goruntime "runtime"
	"sort"
	"strings"
	"sync"
	"sync/atomic"
	"time"

	hms "github.com/smarthome-go/homescript/v3/homescript"
	aast "github.com/smarthome-go/homescript/v3/homescript/analyzer/ast"
	"github.com/smarthome-go/homescript/v3/homescript/compiler"
	herrors "github.com/smarthome-go/homescript/v3/homescript/errors"
	ivalue "github.com/smarthome-go/homescript/v3/homescript/interpreter/value"
	"github.com/smarthome-go/homescript/v3/homescript/runtime"
	"github.com/smarthome-go/homescript/v3/homescript/runtime/value"
)

func init() { register("cancel", func(args []string) int { return lineLoop(cancelLine) }) }

const cancelWatchdog = 5 * time.Second

// pollCtx: Done() is closed from the k-th call on (k = 0: never).
type pollCtx struct {
	k      atomic.Int64
	polls  atomic.Int64
	closed chan struct{}
	open   chan struct{}
	mu     sync.Mutex
	onPoll func(n int64)
}

func newPollCtx() *pollCtx {
	c := &pollCtx{closed: make(chan struct{}), open: make(chan struct{})}
	close(c.closed)
	return c
}

func (c *pollCtx) Deadline() (time.Time, bool) { return time.Time{}, false }
func (c *pollCtx) Done() <-chan struct{} {
	c.mu.Lock()
	n := c.polls.Add(1)
	if c.onPoll != nil {
		c.onPoll(n)
	}
	c.mu.Unlock()
	k := c.k.Load()
	if k > 0 && n >= k {
		return c.closed
	}
	return c.open
}
func (c *pollCtx) Err() error {
	k := c.k.Load()
	if k > 0 && c.polls.Load() >= k {
		return errors.New("cancelled-by-harness")
	}
	return nil
}
func (c *pollCtx) Value(any) any { return nil }

// recorder: output + what had been printed at every poll
type cancelRec struct {
	mu     sync.Mutex
	out    strings.Builder
	prints int
	opp    []int // output bytes before poll j (polls after construction only)
	tpp    []int // prints before poll j
	maxgap int
	last   int
}

type cancelVMExec struct {
	hms.TestingVmExecutor
	rec *cancelRec
}

func (e cancelVMExec) WriteStringTo(s string) error {
	e.rec.mu.Lock()
	e.rec.out.WriteString(s)
	e.rec.prints++
	e.rec.mu.Unlock()
	return nil
}
func (e cancelVMExec) RegisterTrigger(string, string, herrors.Span, []value.Value) error { return nil }

type cancelTreeExec struct {
	hms.TestingTreeExecutor
	rec *cancelRec
}

func (e cancelTreeExec) WriteStringTo(s string) error {
	e.rec.mu.Lock()
	e.rec.out.WriteString(s)
	e.rec.prints++
	e.rec.mu.Unlock()
	return nil
}

func (r *cancelRec) poll() {
	r.mu.Lock()
	if len(r.opp) < 100000 {
		r.opp = append(r.opp, r.out.Len())
		r.tpp = append(r.tpp, r.prints)
	}
	if g := r.prints - r.last; g > r.maxgap {
		r.maxgap = g
	}
	r.last = r.prints
	r.mu.Unlock()
}

func intList(xs []int, max int) string {
	parts := []string{}
	for i, x := range xs {
		if i >= max {
			parts = append(parts, "...")
			break
		}
		parts = append(parts, fmt.Sprint(x))
	}
	return "(" + strings.Join(parts, " ") + ")"
}

func settleGoroutines(base int) string {
	deadline := time.Now().Add(2 * time.Second)
	for {
		n := goruntime.NumGoroutine()
		if n <= base {
			return "ok"
		}
		if time.Now().After(deadline) {
			return fmt.Sprintf("leak%d", n-base)
		}
		time.Sleep(time.Millisecond)
	}
}

func cancelRunVM(prog compiler.CompileOutput, limits runtime.CoreLimits, k int64, trace int, abs bool) (res string) {
	rec := &cancelRec{}
	pc := newPollCtx()
	var ctx context.Context = pc
	cancel := context.CancelFunc(func() {})
	base := goruntime.NumGoroutine()
	outcome := ""
	var p0 int64
	if abs && k > 0 {
		pc.k.Store(k) // counted from the very first poll, VM construction included (V29)
	}
	func() {
		defer func() {
			if r := recover(); r != nil {
				outcome = "PANIC:" + hexs(firstLine(fmt.Sprint(r)))
			}
		}()
		vm := runtime.NewVM(prog, cancelVMExec{rec: rec}, &ctx, &cancel, hms.TestingVmScopeAdditions(), limits)
		p0 = pc.polls.Load()
		pc.mu.Lock()
		pc.onPoll = func(int64) { rec.poll() }
		pc.mu.Unlock()
		if k > 0 && !abs {
			pc.k.Store(p0 + k)
		}
		vm.SpawnAsync(runtime.MainFn(), nil, nil, nil)
		type ans struct{ i *value.VmInterrupt }
		done := make(chan ans, 1)
		go func() {
			_, i := vm.Wait()
			done <- ans{i}
		}()
		select {
		case a := <-done:
			if a.i == nil {
				outcome = "OK"
			} else {
				class, kind := hostInterruptClass(*a.i)
				switch class {
				case "terminate":
					outcome = "TERM"
				case "fatal":
					outcome = "FATAL:" + kind
				case "exit":
					outcome = "EXIT"
				default:
					outcome = "INTR:" + class
				}
			}
		case <-time.After(cancelWatchdog):
			outcome = "HANG"
			pc.k.Store(1) // release whatever is still running
		}
		// the VM stays usable: a second Wait on the now idle VM returns at once (nothing is left locked behind
		// the run, however it ended)
		if outcome != "HANG" {
			again := make(chan struct{}, 1)
			go func() {
				vm.Wait()
				again <- struct{}{}
			}()
			select {
			case <-again:
			case <-time.After(cancelWatchdog):
				outcome = "HANG"
			}
		}
	}()
	gor := settleGoroutines(base)
	polls := pc.polls.Load() - p0
	after := int64(0)
	if k > 0 && polls > k {
		after = polls - k
	}
	rec.mu.Lock()
	defer rec.mu.Unlock()
	// what was printed after the last poll (or without any poll at all) is a gap as well
	if g := rec.prints - rec.last; g > rec.maxgap {
		rec.maxgap = g
	}
	return fmt.Sprintf("%s k=%d p0=%d polls=%d after=%d out=%s opp=%s tpp=%s maxgap=%d gor=%s", outcome, k, p0, polls, after,
		hexs(rec.out.String()), intList(rec.opp, trace), intList(rec.tpp, trace), rec.maxgap, gor)
}

func cancelRunTree(analyzed map[string]aast.AnalyzedProgram, callLimit uint, k int64, trace int) (res string) {
	rec := &cancelRec{}
	pc := newPollCtx()
	var ctx context.Context = pc
	pc.onPoll = func(int64) { rec.poll() }
	if k > 0 {
		pc.k.Store(k)
	}
	base := goruntime.NumGoroutine()
	outcome := ""
	done := make(chan string, 1)
	go func() {
		o := ""
		defer func() {
			if r := recover(); r != nil {
				o = "PANIC:" + hexs(firstLine(fmt.Sprint(r)))
			}
			done <- o
		}()
		i := hms.Run(callLimit, analyzed, "main", cancelTreeExec{rec: rec}, hms.TestingInterpreterScopeAdditions(), &ctx)
		if i == nil {
			o = "OK"
			return
		}
		switch it := (*i).(type) {
		case ivalue.RuntimeErr:
			o = "FATAL:" + it.ErrKind.String()
		case ivalue.TerminationInterrupt:
			o = "TERM"
		default:
			o = "INTR:" + (*i).Kind().String()
		}
	}()
	select {
	case outcome = <-done:
	case <-time.After(cancelWatchdog):
		outcome = "HANG"
		pc.k.Store(1)
	}
	gor := settleGoroutines(base)
	polls := pc.polls.Load()
	after := int64(0)
	if k > 0 && polls > k {
		after = polls - k
	}
	rec.mu.Lock()
	defer rec.mu.Unlock()
	return fmt.Sprintf("%s k=%d p0=0 polls=%d after=%d out=%s opp=%s tpp=%s maxgap=%d gor=%s", outcome, k, polls, after,
		hexs(rec.out.String()), intList(rec.opp, trace), intList(rec.tpp, trace), rec.maxgap, gor)
}

func pollsOf(run string) int64 {
	var n int64
	for _, f := range strings.Fields(run) {
		if strings.HasPrefix(f, "polls=") {
			fmt.Sscanf(f, "polls=%d", &n)
		}
	}
	return n
}

// allKs: 1, 1+stride, … up to min(P, maxk), then P (the last poll) and P+1 (after completion).
func allKs(p, maxk, stride int64) []int64 {
	if stride < 1 {
		stride = 1
	}
	list := []int64{}
	for k := int64(1); k <= p && k <= maxk; k += stride {
		list = append(list, k)
	}
	if p > 0 && (len(list) == 0 || list[len(list)-1] != p) {
		list = append(list, p)
	}
	return append(list, p+1)
}

func asmSx(prog compiler.CompileOutput) *Sx {
	names := []string{}
	for n := range prog.Functions {
		names = append(names, n)
	}
	sort.Strings(names)
	items := []*Sx{}
	for _, n := range names {
		ops := []*Sx{S(n)}
		for _, ins := range prog.Functions[n] {
			if ins.Opcode() == compiler.Opcode_Call_Imm {
				if os, ok := ins.(compiler.OneStringInstruction); ok {
					ops = append(ops, A("Call_Imm:"+hexs(os.Value)))
					continue
				}
			}
			ops = append(ops, A(ins.Opcode().String()))
		}
		items = append(items, L(ops...))
	}
	return L(items...)
}

func cancelLine(line string) string {
	sx, err := parseSx(line)
	if err != nil || sx.Tag() != "cancel" {
		return "BAD-INPUT"
	}
	mods := map[string]string{}
	limits := runtime.CoreLimits{CallStackMaxSize: 100, StackMaxSize: 500, MaxMemorySize: 10000}
	backends := []string{"vm", "tree"}
	all := false
	ks := []int64{}
	asm := false
	fullRun := true
	abs := false
	stride := int64(1)
	trace := 100000
	maxk := int64(1 << 30)
	for _, it := range sx.List[1:] {
		switch it.Tag() {
		case "main":
			mods["main"] = it.Arg(0).Str()
		case "mod":
			mods[it.Arg(0).Str()] = it.Arg(1).Str()
		case "limits":
			limits = runtime.CoreLimits{CallStackMaxSize: uint(it.Arg(0).Int()), StackMaxSize: uint(it.Arg(1).Int()), MaxMemorySize: uint(it.Arg(2).Int())}
		case "backends":
			backends = nil
			for _, b := range it.List[1:] {
				backends = append(backends, b.Atom)
			}
		case "ks":
			for _, a := range it.List[1:] {
				if a.Atom == "all" {
					all = true
				} else {
					ks = append(ks, a.Int())
				}
			}
		case "maxk":
			maxk = it.Arg(0).Int()
		case "asm":
			asm = it.Arg(0).Bool()
		case "full":
			fullRun = it.Arg(0).Bool()
		case "abs":
			abs = it.Arg(0).Bool()
		case "stride":
			stride = it.Arg(0).Int()
		case "trace":
			trace = int(it.Arg(0).Int())
		}
	}
	var analyzed map[string]aast.AnalyzedProgram
	verdict := ""
	ok := false
	func() {
		defer func() {
			if r := recover(); r != nil {
				verdict = "A=PANIC " + hexs(firstLine(fmt.Sprint(r)))
			}
		}()
		analyzed, verdict, ok = analyzeMods(mods)
	}()
	parts := []string{verdict}
	if !ok {
		return verdict
	}
	for _, b := range backends {
		switch b {
		case "vm":
			c := compiler.NewCompiler(analyzed, "main")
			prog, err := c.Compile()
			if err != nil {
				parts = append(parts, "VM=COMPILE-ERROR")
				continue
			}
			full := "SKIPPED polls=0"
			if fullRun {
				full = cancelRunVM(prog, limits, 0, trace, false)
			}
			parts = append(parts, "VM="+full)
			list := ks
			if all {
				list = allKs(pollsOf(full), maxk, stride)
			}
			for _, k := range list {
				parts = append(parts, "VMk="+cancelRunVM(prog, limits, k, 0, abs))
			}
			if asm {
				parts = append(parts, "ASM="+asmSx(prog).String())
			}
		case "tree":
			full := "SKIPPED polls=0"
			if fullRun {
				full = cancelRunTree(analyzed, limits.CallStackMaxSize, 0, trace)
			}
			parts = append(parts, "TREE="+full)
			list := ks
			if all {
				list = allKs(pollsOf(full), maxk, stride)
			}
			for _, k := range list {
				parts = append(parts, "TREEk="+cancelRunTree(analyzed, limits.CallStackMaxSize, k, 0))
			}
		}
	}
	return strings.Join(parts, " | ")
}
