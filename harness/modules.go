package main

// hv modgraph — analyse a multi-module program served from memory, report the error-level
// diagnostics as sorted classes together with the import statement they point at, then both
// backends' outcome lines exactly as `hv run` prints them (C15).
//
// Input line:  (modgraph (opt k v)… (main x<src>) (mod x<name> x<src>)…)     options as in `hv run`
// Output line: D=<class>@<module>#<import index or ->,… | SYN=<n> | VM=<outcome> | TREE=<outcome> | ASM=… | AST=…
//   (VM/TREE/ASM/AST only when there is no error-level diagnostic and no syntax error)
//
// hv repeat — analyse + compile + run the same sources N times in this process (every repetition
// builds fresh Go maps, hence fresh iteration orders) and report whether all N diagnostic
// multisets / outputs / outcomes are identical (C14).
//
// Input line:  (repeat (n 20) (opt k v)… (main x<src>) (mod x<name> x<src>)…)
// Output line: N=<n> | SAME=true|false | DIFF=<what differs first, hex> | DIAG=<sha1 of the sorted diagnostic list>:<count>
//              | A=… | VM=<outcome of the first repetition> | TREE=… | ASMVARIANTS=<n distinct instruction streams>

import (
	"crypto/sha1"
	"encoding/hex"
	"fmt"
	"runtime/debug"
	"sort"
	"strings"

	hms "github.com/smarthome-go/homescript/v3/homescript"
	aast "github.com/smarthome-go/homescript/v3/homescript/analyzer/ast"
	"github.com/smarthome-go/homescript/v3/homescript/diagnostic"
	"github.com/smarthome-go/homescript/v3/homescript/errors"
	"github.com/smarthome-go/homescript/v3/homescript/lexer"
	"github.com/smarthome-go/homescript/v3/homescript/parser"
)

func init() {
	// unbounded recursion (finding A8) should end the worker quickly, not after growing a 1 GB stack
	register("modgraph", func(args []string) int { debug.SetMaxStack(64 << 20); return lineLoop(modgraphLine) })
	register("repeat", func(args []string) int { debug.SetMaxStack(64 << 20); return lineLoop(repeatLine) })
}

// diagClassTable: class of an analyzer message by prefix (and, where the prefix is not enough,
// by a fragment that must also occur). Unknown messages are reported as other:<hex>.
var diagClassTable = []struct{ prefix, contains, class string }{
	{"Illegal cyclic import", "", "cyclic"},
	{"Module '", "' not found", "nomodule"},
	{"Host error: could not resolve module", "", "hosterr"},
	{"No type named '", "", "notype"},
	{"No variable or function named '", "", "noitem"},
	{"No template named '", "", "notemplate"},
	{"No trigger named '", "", "notrigger"},
	{"Cannot import private type", "", "privtype"},
	{"Cannot import private function", "", "privfn"},
	{"Cannot import private variable", "", "privvar"},
	{"Name '", "' already exists in current scope", "dupname"},
	{"Type '", "' already exists in current scope", "duptype"},
	{"Missing 'main' function", "", "nomain"},
	{"Duplicate function definition of '", "", "dupfn"},
	{"Duplicate definition of global '", "", "dupglobal"},
	{"Duplicate definition of '", "': the name is already used by ", "nameclash"},
	{"Type '", "' is already declared as ", "duptypedef"},
}

func diagClass(msg string) string {
	for _, e := range diagClassTable {
		if strings.HasPrefix(msg, e.prefix) && (e.contains == "" || strings.Contains(msg, e.contains)) {
			return e.class
		}
	}
	return "other:" + hex.EncodeToString([]byte(firstLine(msg)))
}

// importRanges parses one module on its own and returns the source ranges of its import statements.
func importRanges(name, src string) (res []errors.Span) {
	defer func() {
		if r := recover(); r != nil {
			res = nil
		}
	}()
	p := parser.NewParser(lexer.NewLexer(src, name), name)
	parsed, _, _ := p.Parse()
	for _, im := range parsed.Imports {
		res = append(res, im.Range)
	}
	return res
}

func spanInside(s, outer errors.Span) bool {
	return s.Start.Index >= outer.Start.Index && s.Start.Index <= outer.End.Index
}

// analyzeFull runs the analyzer once; everything that comes out of it is returned in a canonical form.
type analysis struct {
	analyzed map[string]aast.AnalyzedProgram
	errs     []string // class@module#idx, sorted
	all      []string // level|message|file:span of every diagnostic and syntax error, sorted
	nsyn     int
	panicked string
}

func analyzeFull(mods map[string]string) (a analysis) {
	defer func() {
		if r := recover(); r != nil {
			a.panicked = firstLine(fmt.Sprint(r))
		}
	}()
	analyzed, diags, syn := hms.Analyze(hms.InputProgram{ProgramText: mods["main"], Filename: "main"},
		hms.TestingAnalyzerScopeAdditions(), memHost{mods}, true)
	ranges := map[string][]errors.Span{}
	for n, src := range mods {
		ranges[n] = importRanges(n, src)
	}
	a.analyzed = analyzed
	a.nsyn = len(syn)
	for _, s := range syn {
		a.errs = append(a.errs, "syntax@"+s.Span.Filename+"#-")
		a.all = append(a.all, fmt.Sprintf("S|%s|%s:%s", s.Message, s.Span.Filename, spanStr(s.Span)))
	}
	for _, d := range diags {
		a.all = append(a.all, fmt.Sprintf("%d|%s|%s|%s:%s", d.Level, d.Message, strings.Join(d.Notes, "\\"), d.Span.Filename, spanStr(d.Span)))
		if d.Level != diagnostic.DiagnosticLevelError {
			continue
		}
		idx := "-"
		for i, r := range ranges[d.Span.Filename] {
			if spanInside(d.Span, r) {
				idx = fmt.Sprint(i)
				break
			}
		}
		a.errs = append(a.errs, fmt.Sprintf("%s@%s#%s", diagClass(d.Message), d.Span.Filename, idx))
	}
	sort.Strings(a.errs)
	sort.Strings(a.all)
	return a
}

func modgraphLine(line string) string {
	mods, o, err := parseRun(line)
	if err != nil {
		return "BAD-INPUT"
	}
	a := analyzeFull(mods)
	if a.panicked != "" {
		return "A=PANIC " + hexs(a.panicked)
	}
	parts := []string{"D=" + strings.Join(a.errs, ","), fmt.Sprintf("SYN=%d", a.nsyn)}
	if len(a.errs) == 0 {
		for _, b := range o.backends {
			switch b {
			case "vm":
				parts = append(parts, "VM="+runVM(a.analyzed, o))
			case "tree":
				parts = append(parts, "TREE="+runTree(a.analyzed, o))
			}
		}
		if o.asm {
			parts = append(parts, "ASM="+asmDump(a.analyzed))
		}
		if o.ast {
			parts = append(parts, "AST="+sxModules(a.analyzed).String())
		}
	}
	return strings.Join(parts, " | ")
}

// ---- hv repeat --------------------------------------------------------------------------------

type repetition struct {
	verdict string
	diag    string
	vm      string
	tree    string
	asm     string
}

func oneRepetition(mods map[string]string, o runOpts) (r repetition) {
	a := analyzeFull(mods)
	if a.panicked != "" {
		r.verdict = "A=PANIC " + hexs(a.panicked)
		return r
	}
	h := sha1.Sum([]byte(strings.Join(a.all, "\n")))
	r.diag = fmt.Sprintf("%s:%d", hex.EncodeToString(h[:8]), len(a.all))
	if len(a.errs) > 0 {
		r.verdict = "A=REJECT " + strings.Join(a.errs, ",")
		return r
	}
	r.verdict = "A=ACCEPT"
	for _, b := range o.backends {
		switch b {
		case "vm":
			r.vm = runVM(a.analyzed, o)
		case "tree":
			r.tree = runTree(a.analyzed, o)
		}
	}
	r.asm = asmDump(a.analyzed)
	return r
}

func repeatLine(line string) string {
	mods, o, err := parseRun(line)
	if err != nil {
		return "BAD-INPUT"
	}
	n := 10
	if sx, err := parseSx(line); err == nil {
		for _, it := range sx.List[1:] {
			if it.Tag() == "n" {
				n = int(it.Arg(0).Int())
			}
		}
	}
	var first repetition
	diff := ""
	asms := map[string]bool{}
	for i := 0; i < n; i++ {
		r := oneRepetition(mods, o)
		asms[r.asm] = true
		if i == 0 {
			first = r
			continue
		}
		if diff != "" {
			continue
		}
		switch {
		case r.verdict != first.verdict:
			diff = fmt.Sprintf("verdict rep %d: %s <> %s", i, r.verdict, first.verdict)
		case r.diag != first.diag:
			diff = fmt.Sprintf("diagnostics rep %d: %s <> %s", i, r.diag, first.diag)
		case r.vm != first.vm:
			diff = fmt.Sprintf("vm rep %d: %s <> %s", i, r.vm, first.vm)
		case r.tree != first.tree:
			diff = fmt.Sprintf("tree rep %d: %s <> %s", i, r.tree, first.tree)
		}
	}
	parts := []string{fmt.Sprintf("N=%d", n), fmt.Sprintf("SAME=%t", diff == ""), "DIFF=" + hexs(diff), "DIAG=" + first.diag, first.verdict}
	if first.vm != "" {
		parts = append(parts, "VM="+first.vm)
	}
	if first.tree != "" {
		parts = append(parts, "TREE="+first.tree)
	}
	parts = append(parts, fmt.Sprintf("ASMVARIANTS=%d", len(asms)))
	return strings.Join(parts, " | ")
}
