package main

// hv parse — expression-level parse correspondence (C07).
// Input line:  x<hex of expression text>
// Output line: OK toks=<space-separated kind codes> tree=<render> print=<hex of String()>
//              ERR soft=<n> hard=<hex message or ->

import (
	"fmt"
	"strings"

	hms "github.com/smarthome-go/homescript/v3/homescript"
	"github.com/smarthome-go/homescript/v3/homescript/lexer"
	past "github.com/smarthome-go/homescript/v3/homescript/parser/ast"
)

func init() { register("parse", func(args []string) int { return lineLoop(parseLine) }) }

var opCodeByText = func() map[string]int {
	m := map[string]int{}
	for k := 0; k < 256; k++ {
		if s := tryString(func() string { return lexer.TokenKind(k).String() }); s != nil {
			if _, dup := m[*s]; !dup {
				m[*s] = k
			}
		}
	}
	return m
}()

func opCode(text string) int {
	if c, ok := opCodeByText[text]; ok {
		return c
	}
	return -1
}

func renderExpr(e past.Expression) string {
	switch e := e.(type) {
	case past.IntLiteralExpression:
		return fmt.Sprint(int(lexer.Int))
	case past.FloatLiteralExpression:
		return fmt.Sprint(int(lexer.Float))
	case past.BoolLiteralExpression:
		if e.Value {
			return fmt.Sprint(int(lexer.True))
		}
		return fmt.Sprint(int(lexer.False))
	case past.StringLiteralExpression:
		return fmt.Sprint(int(lexer.String))
	case past.IdentExpression:
		if e.IsSingleton {
			return "(singleton)"
		}
		return fmt.Sprint(int(lexer.Identifier))
	case past.NullLiteralExpression:
		return fmt.Sprint(int(lexer.Null))
	case past.NoneLiteralExpression:
		return fmt.Sprint(int(lexer.None))
	case past.GroupedExpression:
		return "(grp " + renderExpr(e.Inner) + ")"
	case past.PrefixExpression:
		return fmt.Sprintf("(pre %d %s)", opCode(e.Operator.String()), renderExpr(e.Base))
	case past.InfixExpression:
		return fmt.Sprintf("(bin %d %s %s)", opCode(e.Operator.String()), renderExpr(e.Lhs), renderExpr(e.Rhs))
	case past.AssignExpression:
		return fmt.Sprintf("(asg %d %s %s)", opCode(e.AssignOperator.String()), renderExpr(e.Lhs), renderExpr(e.Rhs))
	case past.CallExpression:
		var b strings.Builder
		b.WriteString("(call " + renderExpr(e.Base))
		for _, a := range e.Arguments.List {
			b.WriteString(" " + renderExpr(a))
		}
		b.WriteString(")")
		return b.String()
	case past.IndexExpression:
		return fmt.Sprintf("(index %s %s)", renderExpr(e.Base), renderExpr(e.Index))
	case past.MemberExpression:
		return fmt.Sprintf("(member %d %s)", opCode(e.Operator.String()), renderExpr(e.Base))
	case past.CastExpression:
		return fmt.Sprintf("(cast %s)", renderExpr(e.Base))
	case past.RangeLiteralExpression:
		return fmt.Sprintf("(range %v %s %s)", e.EndIsInclusive, renderExpr(e.Start), renderExpr(e.End))
	case past.ListLiteralExpression:
		var b strings.Builder
		b.WriteString("(list")
		for _, a := range e.Values {
			b.WriteString(" " + renderExpr(a))
		}
		b.WriteString(")")
		return b.String()
	default:
		return fmt.Sprintf("(other %T)", e)
	}
}

func exprTokens(src string) (string, bool) {
	toks, err := lexAll(src)
	if err != nil {
		return "", false
	}
	codes := []string{}
	for _, t := range toks {
		if t.Kind == lexer.EOF {
			break
		}
		codes = append(codes, fmt.Sprint(int(t.Kind)))
	}
	return strings.Join(codes, " "), true
}

func parseExprText(src string) (past.Expression, int, string) {
	prog, soft, hard := hms.Parse("fn main() { let v = "+src+"\n; }", "main")
	if hard != nil {
		return nil, len(soft), hard.Message
	}
	if len(soft) > 0 {
		return nil, len(soft), soft[0].Message
	}
	if len(prog.Functions) != 1 || len(prog.Functions[0].Body.Statements) != 1 {
		return nil, 0, "harness: unexpected program shape"
	}
	let, ok := prog.Functions[0].Body.Statements[0].(past.LetStatement)
	if !ok {
		return nil, 0, "harness: not a let statement"
	}
	return let.Expression, 0, ""
}

func parseLine(line string) string {
	src := A(strings.TrimSpace(line)).Str()
	e, nsoft, msg := parseExprText(src)
	if e == nil {
		return fmt.Sprintf("ERR soft=%d hard=%s", nsoft, hexs(msg))
	}
	toks, ok := exprTokens(src)
	if !ok {
		return "ERR soft=0 hard=" + hexs("harness: expression does not lex on its own")
	}
	return fmt.Sprintf("OK toks=%s tree=%s print=%s", toks, renderExpr(e), hexs(e.String()))
}
