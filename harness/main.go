// hv — harness that calls the real homescript code for the /verif checks.
//
// Usage: hv <subcommand> [args]; most subcommands read one case per line on
// stdin and answer with one line on stdout (flushed per line).
package main

import (
	"bufio"
	"fmt"
	"os"
	"sort"
)

type subcmd func(args []string) int

var subcmds = map[string]subcmd{}

func register(name string, f subcmd) { subcmds[name] = f }

func main() {
	if len(os.Args) < 2 {
		usage()
		os.Exit(2)
	}
	f, ok := subcmds[os.Args[1]]
	if !ok {
		usage()
		os.Exit(2)
	}
	os.Exit(f(os.Args[2:]))
}

func usage() {
	names := []string{}
	for n := range subcmds {
		names = append(names, n)
	}
	sort.Strings(names)
	fmt.Fprintln(os.Stderr, "usage: hv <subcommand>; subcommands:", names)
}

// lineLoop feeds every stdin line to f and prints its answer, flushing per line.
func lineLoop(f func(line string) string) int {
	in := bufio.NewReaderSize(os.Stdin, 1<<20)
	// The code under test prints debugging text to os.Stdout (e.g. the compiler's trigger
	// statement case): keep the protocol stream for ourselves and send its prints to /dev/null.
	protocol := os.Stdout
	if devnull, err := os.OpenFile(os.DevNull, os.O_WRONLY, 0); err == nil {
		os.Stdout = devnull
	}
	out := bufio.NewWriterSize(protocol, 1<<16)
	defer out.Flush()
	for {
		line, err := in.ReadString('\n')
		if len(line) > 0 {
			if line[len(line)-1] == '\n' {
				line = line[:len(line)-1]
			}
			res := safeCall(f, line)
			out.WriteString(res)
			out.WriteByte('\n')
			out.Flush()
		}
		if err != nil {
			return 0
		}
	}
}

// safeCall turns a Go panic of the code under test into a PANIC line.
func safeCall(f func(string) string, line string) (res string) {
	defer func() {
		if r := recover(); r != nil {
			res = "PANIC " + hexs(fmt.Sprint(r))
		}
	}()
	return f(line)
}
