package main

// hv dump <outdir> — regenerates lean/HmsGen/*.lean by calling the real code over
// the whole finite domain of each table (DESIGN.md §5.1). Files are rewritten
// only when their content changes.

import (
	"fmt"
	"go/ast"
	"go/parser"
	"go/token"
	"os"
	"path/filepath"
	"sort"
	"strings"

	"github.com/smarthome-go/homescript/v3/homescript/compiler"
	"github.com/smarthome-go/homescript/v3/homescript/errors"
	ivalue "github.com/smarthome-go/homescript/v3/homescript/interpreter/value"
	"github.com/smarthome-go/homescript/v3/homescript/lexer"
	"github.com/smarthome-go/homescript/v3/homescript/runtime"
	"github.com/smarthome-go/homescript/v3/homescript/runtime/value"
)

func init() { register("dump", cmdDump) }

func leanStr(s string) string {
	var b strings.Builder
	b.WriteByte('"')
	for _, r := range s {
		switch {
		case r == '"':
			b.WriteString("\\\"")
		case r == '\\':
			b.WriteString("\\\\")
		case r == '\n':
			b.WriteString("\\n")
		case r == '\t':
			b.WriteString("\\t")
		case r < 32 || r == 127:
			b.WriteString(fmt.Sprintf("\\x%02x", r))
		default:
			b.WriteRune(r)
		}
	}
	b.WriteByte('"')
	return b.String()
}

func leanOptStr(s *string) string {
	if s == nil {
		return "none"
	}
	return "(some " + leanStr(*s) + ")"
}

func writeIfChanged(path string, content string) bool {
	old, err := os.ReadFile(path)
	if err == nil && string(old) == content {
		return false
	}
	if err := os.WriteFile(path, []byte(content), 0o644); err != nil {
		panic(err)
	}
	return true
}

// tryString calls f under recover; nil = the call panicked.
func tryString(f func() string) (res *string) {
	defer func() {
		if r := recover(); r != nil {
			res = nil
		}
	}()
	s := f()
	return &s
}

func repoRoot() string {
	if r := os.Getenv("VERIF_REPO"); r != "" {
		return r
	}
	return "/repo"
}

// constNames lists the identifiers of the const block whose first entry has the
// given type name, in declaration order (the iota order).
func constNames(file string, typeName string) []string {
	fset := token.NewFileSet()
	f, err := parser.ParseFile(fset, file, nil, 0)
	if err != nil {
		panic(err)
	}
	for _, d := range f.Decls {
		gd, ok := d.(*ast.GenDecl)
		if !ok || gd.Tok != token.CONST || len(gd.Specs) == 0 {
			continue
		}
		first := gd.Specs[0].(*ast.ValueSpec)
		id, ok := first.Type.(*ast.Ident)
		if !ok || id.Name != typeName {
			continue
		}
		names := []string{}
		for _, s := range gd.Specs {
			for _, n := range s.(*ast.ValueSpec).Names {
				names = append(names, n.Name)
			}
		}
		return names
	}
	panic("const block for " + typeName + " not found in " + file)
}

func lexAll(src string) (toks []lexer.Token, err *errors.Error) {
	lx := lexer.NewLexer(src, "t")
	for i := 0; i < len(src)+3; i++ {
		t, e := lx.NextToken()
		if e != nil {
			return toks, e
		}
		toks = append(toks, t)
		if t.Kind == lexer.EOF {
			return toks, nil
		}
	}
	return toks, nil
}

func dumpTokens(b *strings.Builder) {
	names := constNames(filepath.Join(repoRoot(), "homescript/lexer/token.go"), "TokenKind")
	b.WriteString("/-- Go constant names of `lexer.TokenKind` in iota order (go/ast extraction). -/\n")
	b.WriteString("def goKindNames : List String := [\n")
	for i, n := range names {
		sep := ","
		if i == len(names)-1 {
			sep = ""
		}
		fmt.Fprintf(b, "  %s%s\n", leanStr(n), sep)
	}
	b.WriteString("]\n\n")

	b.WriteString("/-- `TokenKind(code).Prec()` for every code 0..255 with a non-zero answer. -/\n")
	b.WriteString("def precTable : List (Nat × Nat × Nat) := [\n")
	first := true
	for k := 0; k < 256; k++ {
		l, r := lexer.TokenKind(k).Prec()
		if l == 0 && r == 0 {
			continue
		}
		if !first {
			b.WriteString(",\n")
		}
		first = false
		fmt.Fprintf(b, "  (%d, %d, %d)", k, l, r)
	}
	b.WriteString("\n]\n\n")

	b.WriteString("/-- `TokenKind(code).String()` for every named code; `none` = the call panics. -/\n")
	b.WriteString("def tokStrings : List (Nat × Option String) := [\n")
	for k := 0; k < len(names); k++ {
		s := tryString(func() string { return lexer.TokenKind(k).String() })
		sep := ","
		if k == len(names)-1 {
			sep = ""
		}
		fmt.Fprintf(b, "  (%d, %s)%s\n", k, leanOptStr(s), sep)
	}
	b.WriteString("]\n\n")

	// how many codes beyond the named ones answer String() without panicking
	extra := 0
	for k := len(names); k < 256; k++ {
		if tryString(func() string { return lexer.TokenKind(k).String() }) != nil {
			extra++
		}
	}
	fmt.Fprintf(b, "def tokStringsBeyondNamed : Nat := %d\n\n", extra)

	// keyword table: every identifier-shaped candidate that does not lex as Identifier
	cands := map[string]bool{"on": true, "off": true, "at": true, "_": true, "any": true, "int": true, "str": true}
	for k := 0; k < len(names); k++ {
		if s := tryString(func() string { return lexer.TokenKind(k).String() }); s != nil {
			cands[*s] = true
		}
		cands[strings.ToLower(names[k])] = true
	}
	words := []string{}
	for w := range cands {
		ok := w != ""
		for i, r := range w {
			isL := (r >= 'a' && r <= 'z') || (r >= 'A' && r <= 'Z') || r == '_'
			isD := r >= '0' && r <= '9'
			if !(isL || (isD && i > 0)) {
				ok = false
			}
		}
		if ok {
			words = append(words, w)
		}
	}
	sort.Strings(words)
	b.WriteString("/-- Identifier-shaped words whose lexing yields one non-Identifier token: (word, kind code). -/\n")
	b.WriteString("def keywordTable : List (String × Nat) := [\n")
	first = true
	for _, w := range words {
		toks, err := lexAll(w)
		if err != nil || len(toks) != 2 || toks[0].Kind == lexer.Identifier {
			continue
		}
		if !first {
			b.WriteString(",\n")
		}
		first = false
		fmt.Fprintf(b, "  (%s, %d)", leanStr(w), toks[0].Kind)
	}
	b.WriteString("\n]\n\n")

	// operator table: all strings of length 1..3 over the punctuation alphabet that
	// lex to exactly one token covering the whole string
	alphabet := []rune("#?@$;,:.~=(){}[]|&^!<>+-*/%")
	var gen func(prefix string, n int, f func(string))
	gen = func(prefix string, n int, f func(string)) {
		if n == 0 {
			f(prefix)
			return
		}
		for _, r := range alphabet {
			gen(prefix+string(r), n-1, f)
		}
	}
	b.WriteString("/-- Punctuation strings (length ≤ 3) that lex to exactly one token spanning the whole string: (lexeme, kind code, value). -/\n")
	b.WriteString("def operatorTable : List (String × Nat × String) := [\n")
	first = true
	for n := 1; n <= 3; n++ {
		gen("", n, func(s string) {
			if strings.HasPrefix(s, "//") || strings.HasPrefix(s, "/*") {
				return
			}
			toks, err := lexAll(s)
			if err != nil || len(toks) != 2 {
				return
			}
			t := toks[0]
			if int(t.Span.Start.Index) != 0 || int(t.Span.End.Index) != n-1 {
				return
			}
			if !first {
				b.WriteString(",\n")
			}
			first = false
			fmt.Fprintf(b, "  (%s, %d, %s)", leanStr(s), t.Kind, leanStr(t.Value))
		})
	}
	b.WriteString("\n]\n")
}

func dumpEnum(b *strings.Builder, name string, doc string, n int, f func(int) string) {
	fmt.Fprintf(b, "/-- %s -/\ndef %s : List (Nat × Option String) := [\n", doc, name)
	for k := 0; k < n; k++ {
		s := tryString(func() string { return f(k) })
		sep := ","
		if k == n-1 {
			sep = ""
		}
		fmt.Fprintf(b, "  (%d, %s)%s\n", k, leanOptStr(s), sep)
	}
	b.WriteString("]\n\n")
}

func dumpEnums(b *strings.Builder) {
	root := repoRoot()
	opNames := constNames(filepath.Join(root, "homescript/compiler/instruction.go"), "Opcode")
	dumpEnum(b, "opcodeStrings", "`compiler.Opcode(k).String()` for every named opcode", len(opNames),
		func(k int) string { return compiler.Opcode(k).String() })
	fmt.Fprintf(b, "def opcodeNames : List String := [%s]\n\n", joinLeanStrs(opNames))

	vmFatal := constNames(filepath.Join(root, "homescript/runtime/value/interrupt.go"), "VMFatalExceptionKind")
	dumpEnum(b, "vmFatalKindStrings", "`runtime/value.VMFatalExceptionKind(k).String()`", len(vmFatal),
		func(k int) string { return value.VMFatalExceptionKind(k).String() })
	fmt.Fprintf(b, "def vmFatalKindNames : List String := [%s]\n\n", joinLeanStrs(vmFatal))

	treeFatal := constNames(filepath.Join(root, "homescript/interpreter/value/interrupt.go"), "RuntimeErrorKind")
	dumpEnum(b, "treeFatalKindStrings", "`interpreter/value.RuntimeErrorKind(k).String()`", len(treeFatal),
		func(k int) string { return ivalue.RuntimeErrorKind(k).String() })
	fmt.Fprintf(b, "def treeFatalKindNames : List String := [%s]\n\n", joinLeanStrs(treeFatal))

	vmInt := constNames(filepath.Join(root, "homescript/runtime/value/interrupt.go"), "VmInterruptKind")
	dumpEnum(b, "vmInterruptKindStrings", "`runtime/value.VmInterruptKind(k).String()`", len(vmInt),
		func(k int) string { return value.VmInterruptKind(k).String() })

	treeInt := constNames(filepath.Join(root, "homescript/interpreter/value/interrupt.go"), "InterruptKind")
	dumpEnum(b, "treeInterruptKindStrings", "`interpreter/value.InterruptKind(k).String()`", len(treeInt),
		func(k int) string { return ivalue.InterruptKind(k).String() })

	vk := constNames(filepath.Join(root, "homescript/runtime/value/value.go"), "ValueKind")
	dumpEnum(b, "vmValueKindStrings", "`runtime/value.ValueKind(k).String()`", len(vk),
		func(k int) string { return value.ValueKind(k).String() })
	ivk := constNames(filepath.Join(root, "homescript/interpreter/value/value.go"), "ValueKind")
	dumpEnum(b, "treeValueKindStrings", "`interpreter/value.ValueKind(k).String()`", len(ivk),
		func(k int) string { return ivalue.ValueKind(k).String() })

	ek := constNames(filepath.Join(root, "homescript/errors/error.go"), "ErrorKind")
	dumpEnum(b, "errorKindStrings", "`errors.ErrorKind(k).String()`", len(ek),
		func(k int) string { return errors.ErrorKind(k).String() })

	fmt.Fprintf(b, "/-- Instructions executed between two polls of the cancellation context / limit checks. -/\n")
	fmt.Fprintf(b, "def vmQuantum : Nat := %d\n", runtime.NUM_INSTRUCTIONS_EXECUTE_PER_VCYCLE)
}

func joinLeanStrs(xs []string) string {
	parts := []string{}
	for _, x := range xs {
		parts = append(parts, leanStr(x))
	}
	return strings.Join(parts, ", ")
}

// dumpInventory: the `for`-loop inventory of lexer and parser with progress classes (harness/loops.go).
func dumpInventory(b *strings.Builder) { writeParserLoops(b, repoRoot()) }

func cmdDump(args []string) int {
	if len(args) < 1 {
		fmt.Fprintln(os.Stderr, "usage: hv dump <outdir>")
		return 2
	}
	out := args[0]
	os.MkdirAll(out, 0o755)
	changed := []string{}
	emit := func(name string, body func(b *strings.Builder)) {
		var b strings.Builder
		b.WriteString("-- GENERATED by `hv dump` from the Go code; do not edit.\nnamespace HmsGen\n\n")
		body(&b)
		b.WriteString("\nend HmsGen\n")
		if writeIfChanged(filepath.Join(out, name+".lean"), b.String()) {
			changed = append(changed, name)
		}
	}
	emit("Tokens", dumpTokens)
	emit("Enums", dumpEnums)
	emit("Members", dumpMembers)
	emit("Inventory", dumpInventory)
	emit("MapRanges", dumpMapRanges) // harness/inventory.go (C14)
	fmt.Println("changed:", strings.Join(changed, ","))
	return 0
}
