package main

// Inventory of every `for` statement in homescript/lexer and homescript/parser with a *syntactic*
// classification of how it makes progress (C05: `HmsGen.parserLoops`, theorem `loops_covered`).
//
// The analysis is a small abstract interpretation over go/ast, per package:
//
//   * base consuming calls: lexer `self.advance()` (cannot fail), parser `self.next()` (may fail);
//   * a method with receiver `self` is *advancing* when on every path to a successful return (for a
//     method whose last result is `*errors.Error`: a return whose error is not the propagation of a
//     failure) a consuming call was made — least fixpoint starting from the base calls;
//   * a call of a fallible advancing method only counts when its error is checked:
//       `if err := self.m(); err != nil { …return/break }`, `x, err := self.m()` directly followed by
//       `if err != nil { …return }` or by `return …, err`, or `return self.m()`;
//     a bare `self.next()` whose error is dropped does not count and is reported as `ignored-error`;
//   * a loop is `advances` when no path through its body reaches the next iteration (fall-through or
//     `continue`) without such a call; `bounded-counter` / `bounded-range` are the counting forms.
//   * `eof` says why the loop cannot spin at end of input, where the consuming call does not consume:
//       cond-excludes-eof       the condition requires `Kind == K` / `Kind != EOF` / `currentChar != nil`
//       guard-exits-on-eof      the body leaves through `if … Kind == lexer.EOF … { break }`
//       prec-of-eof-zero        the condition is `left > prec` over `Kind.Prec()` (EOF has power 0: table theorem)
//       switch-default-exits    the body is one switch over the token kind without an EOF case whose default leaves
//       first-call-rejects-eof  the body starts with a checked call of a method that is one switch over the
//                               token kind without an EOF case and whose default returns an error
//       n/a                     counting loops
//
// Anything the analysis does not understand is classified `unclassified` (an undischarged obligation).

import (
	"fmt"
	"go/ast"
	"go/parser"
	"go/token"
	"path/filepath"
	"sort"
	"strings"
)

type loopInfo struct {
	pkg, file, fn string
	ordinal       int
	line          int
	kind          string // for-cond | for-ever | for-clause | range
	progress      string
	eof           string
	detail        string
}

type pstate struct{ np, p bool } // reachable without / with progress

func (s pstate) or(t pstate) pstate { return pstate{s.np || t.np, s.p || t.p} }
func (s pstate) progressed() pstate {
	if s.np || s.p {
		return pstate{false, true}
	}
	return s
}
func (s pstate) dead() bool { return !s.np && !s.p }

type methodInfo struct {
	decl     *ast.FuncDecl
	fallible bool
}

type loopAnalysis struct {
	pkg      string
	base     map[string]bool // base consuming calls
	baseFall map[string]bool // … that may fail
	methods  map[string]*methodInfo
	adv      map[string]bool
	fset     *token.FileSet
}

func isSelfCall(c *ast.CallExpr) (string, bool) {
	sel, ok := c.Fun.(*ast.SelectorExpr)
	if !ok {
		return "", false
	}
	id, ok := sel.X.(*ast.Ident)
	if !ok || id.Name != "self" {
		return "", false
	}
	return sel.Sel.Name, true
}

func isErrCtor(e ast.Expr) bool {
	c, ok := e.(*ast.CallExpr)
	if !ok {
		return false
	}
	if sel, ok := c.Fun.(*ast.SelectorExpr); ok {
		if id, ok := sel.X.(*ast.Ident); ok {
			if id.Name == "errors" && (sel.Sel.Name == "NewSyntaxError" || sel.Sel.Name == "NewError") {
				return true
			}
			if id.Name == "self" && sel.Sel.Name == "expectedOneOfErr" {
				return true
			}
		}
	}
	return false
}

// unconditional calls of an expression (not inside function literals, not right of && / ||)
func uncondCalls(e ast.Node, out *[]*ast.CallExpr) {
	switch x := e.(type) {
	case nil:
	case *ast.FuncLit:
	case *ast.BinaryExpr:
		uncondCalls(x.X, out)
		if x.Op != token.LAND && x.Op != token.LOR {
			uncondCalls(x.Y, out)
		}
	case *ast.CallExpr:
		uncondCalls(x.Fun, out)
		for _, a := range x.Args {
			uncondCalls(a, out)
		}
		*out = append(*out, x)
	case *ast.ParenExpr:
		uncondCalls(x.X, out)
	case *ast.UnaryExpr:
		uncondCalls(x.X, out)
	case *ast.StarExpr:
		uncondCalls(x.X, out)
	case *ast.SelectorExpr:
		uncondCalls(x.X, out)
	case *ast.IndexExpr:
		uncondCalls(x.X, out)
		uncondCalls(x.Index, out)
	case *ast.CompositeLit:
		for _, el := range x.Elts {
			uncondCalls(el, out)
		}
	case *ast.KeyValueExpr:
		uncondCalls(x.Value, out)
	case *ast.TypeAssertExpr:
		uncondCalls(x.X, out)
	case *ast.SliceExpr:
		uncondCalls(x.X, out)
	}
}

func (a *loopAnalysis) isFallible(m string) bool {
	if a.base[m] {
		return a.baseFall[m]
	}
	if mi, ok := a.methods[m]; ok {
		return mi.fallible
	}
	return false
}

func (a *loopAnalysis) advancing(m string) bool { return a.base[m] || a.adv[m] }

// progress made by evaluating the expressions of a statement where errors are NOT checked:
// only infallible advancing calls count; unchecked fallible ones are recorded.
func (a *loopAnalysis) exprProgress(nodes []ast.Node, ignored *[]string) bool {
	prog := false
	for _, n := range nodes {
		calls := []*ast.CallExpr{}
		uncondCalls(n, &calls)
		for _, c := range calls {
			if m, ok := isSelfCall(c); ok && a.advancing(m) {
				if a.isFallible(m) {
					if ignored != nil {
						*ignored = append(*ignored, m)
					}
				} else {
					prog = true
				}
			}
		}
	}
	return prog
}

// the single call `self.m(...)` on the right of an assignment / init, if m is a fallible advancing method
func (a *loopAnalysis) checkedCallee(rhs []ast.Expr) (string, bool) {
	if len(rhs) != 1 {
		return "", false
	}
	c, ok := rhs[0].(*ast.CallExpr)
	if !ok {
		return "", false
	}
	m, ok := isSelfCall(c)
	if !ok || !a.advancing(m) || !a.isFallible(m) {
		return "", false
	}
	return m, true
}

func lastIdent(lhs []ast.Expr) string {
	if len(lhs) == 0 {
		return ""
	}
	if id, ok := lhs[len(lhs)-1].(*ast.Ident); ok {
		return id.Name
	}
	return ""
}

// cond is `<name> != nil`
func isNotNilCheck(cond ast.Expr, name string) bool {
	b, ok := cond.(*ast.BinaryExpr)
	if !ok || b.Op != token.NEQ {
		return false
	}
	x, ok1 := b.X.(*ast.Ident)
	y, ok2 := b.Y.(*ast.Ident)
	return ok1 && ok2 && x.Name == name && y.Name == "nil"
}

func isPanicCall(s ast.Stmt) bool {
	es, ok := s.(*ast.ExprStmt)
	if !ok {
		return false
	}
	c, ok := es.X.(*ast.CallExpr)
	if !ok {
		return false
	}
	id, ok := c.Fun.(*ast.Ident)
	return ok && id.Name == "panic"
}

func terminates(b *ast.BlockStmt) bool {
	if b == nil || len(b.List) == 0 {
		return false
	}
	switch s := b.List[len(b.List)-1].(type) {
	case *ast.ReturnStmt:
		return true
	case *ast.BranchStmt:
		return s.Tok == token.BREAK || s.Tok == token.CONTINUE
	default:
		return isPanicCall(s)
	}
}

// flow context of one loop body / method body
type flowCtx struct {
	a          *loopAnalysis
	loopLabel  string
	inLoop     bool     // analysing a loop body (as opposed to a method body)
	cont       pstate   // states reaching `continue` of the analysed loop
	rets       pstate   // states at successful returns (method analysis)
	ignored    []string // fallible advancing calls whose error is dropped
	unknown    []string // constructs the analysis does not understand
	failDepth  int      // inside the then-branch of an error check
	breakDepth int      // nesting of switch / inner loops (for unlabeled break)

	pendingBreak pstate // states leaving the innermost switch / inner loop through `break`
	pendingFall  pstate // states leaving a case clause through `fallthrough`
	innerLoops   int
}

func (f *flowCtx) stmts(list []ast.Stmt, in pstate) pstate {
	st := in
	for i := 0; i < len(list); i++ {
		if st.dead() {
			return st
		}
		s := list[i]
		// pattern: `…, err := self.m(…)` followed by `if err != nil { …terminating }` or `return …, err`
		if as, ok := s.(*ast.AssignStmt); ok {
			if m, ok := f.a.checkedCallee(as.Rhs); ok && i+1 < len(list) {
				errName := lastIdent(as.Lhs)
				_ = m
				if ifs, ok := list[i+1].(*ast.IfStmt); ok && ifs.Init == nil && isNotNilCheck(ifs.Cond, errName) && terminates(ifs.Body) && ifs.Else == nil {
					f.failDepth++
					f.stmts(ifs.Body.List, st)
					f.failDepth--
					st = st.progressed()
					i++
					continue
				}
				if rs, ok := list[i+1].(*ast.ReturnStmt); ok && len(rs.Results) > 0 {
					if id, ok := rs.Results[len(rs.Results)-1].(*ast.Ident); ok && id.Name == errName {
						if f.failDepth == 0 {
							f.rets = f.rets.or(st.progressed())
						}
						return pstate{}
					}
				}
			}
		}
		st = f.stmt(s, st)
	}
	return st
}

func (f *flowCtx) stmt(s ast.Stmt, in pstate) pstate {
	switch x := s.(type) {
	case *ast.BlockStmt:
		return f.stmts(x.List, in)
	case *ast.LabeledStmt:
		return f.stmt(x.Stmt, in)
	case *ast.EmptyStmt, *ast.DeclStmt:
		return in
	case *ast.ExprStmt:
		if isPanicCall(x) {
			return pstate{}
		}
		if f.a.exprProgress([]ast.Node{x.X}, &f.ignored) {
			return in.progressed()
		}
		return in
	case *ast.IncDecStmt:
		return in
	case *ast.AssignStmt:
		nodes := []ast.Node{}
		for _, r := range x.Rhs {
			nodes = append(nodes, r)
		}
		// an assignment of a fallible call that is not followed by a check gives no credit, but it is
		// not an ignored error either when the error variable is kept (it may be checked later)
		var ign *[]string
		if lastIdent(x.Lhs) == "_" || len(x.Lhs) == 0 {
			ign = &f.ignored
		}
		if f.a.exprProgress(nodes, ign) {
			return in.progressed()
		}
		return in
	case *ast.ReturnStmt:
		if f.failDepth > 0 {
			return pstate{}
		}
		st := in
		nodes := []ast.Node{}
		for _, r := range x.Results {
			nodes = append(nodes, r)
		}
		if len(x.Results) > 0 && isErrCtor(x.Results[len(x.Results)-1]) {
			return pstate{} // failure return
		}
		// `return self.m(…)`: the callee's success is ours
		if len(x.Results) == 1 {
			if c, ok := x.Results[0].(*ast.CallExpr); ok {
				if m, ok := isSelfCall(c); ok && f.a.advancing(m) {
					st = st.progressed()
				}
			}
		}
		if f.a.exprProgress(nodes, nil) {
			st = st.progressed()
		}
		f.rets = f.rets.or(st)
		return pstate{}
	case *ast.BranchStmt:
		switch x.Tok {
		case token.BREAK:
			if x.Label != nil {
				if x.Label.Name == f.loopLabel || !f.inLoop {
					return pstate{} // leaves the analysed loop (or an enclosing construct of the method)
				}
				f.unknown = append(f.unknown, "break "+x.Label.Name)
				return pstate{}
			}
			if f.breakDepth > 0 {
				// leaves an inner switch / loop: handled by the caller through breakOut
				f.pendingBreak = f.pendingBreak.or(in)
				return pstate{}
			}
			return pstate{} // leaves the analysed loop
		case token.CONTINUE:
			if x.Label != nil && x.Label.Name != f.loopLabel {
				f.unknown = append(f.unknown, "continue "+x.Label.Name)
				return pstate{}
			}
			if f.innerLoops > 0 && x.Label == nil {
				return pstate{} // continues an inner loop (judged on its own)
			}
			f.cont = f.cont.or(in)
			return pstate{}
		case token.FALLTHROUGH:
			f.pendingFall = f.pendingFall.or(in)
			return pstate{}
		default:
			f.unknown = append(f.unknown, "goto")
			return pstate{}
		}
	case *ast.IfStmt:
		st := in
		// checked call in the init: `if err := self.m(); err != nil { terminating }`
		if as, ok := x.Init.(*ast.AssignStmt); ok {
			if _, ok := f.a.checkedCallee(as.Rhs); ok && isNotNilCheck(x.Cond, lastIdent(as.Lhs)) {
				if terminates(x.Body) {
					f.failDepth++
					f.stmts(x.Body.List, st)
					f.failDepth--
					after := st.progressed()
					if x.Else != nil {
						return f.stmt(x.Else, after)
					}
					return after
				}
				// the error is looked at but the flow continues: no credit on the failure branch
				thenOut := f.stmts(x.Body.List, st)
				after := st.progressed()
				if x.Else != nil {
					after = f.stmt(x.Else, after)
				}
				return thenOut.or(after)
			}
			st = f.stmt(x.Init, st)
		} else if x.Init != nil {
			st = f.stmt(x.Init, st)
		}
		if f.a.exprProgress([]ast.Node{x.Cond}, &f.ignored) {
			st = st.progressed()
		}
		thenOut := f.stmts(x.Body.List, st)
		if x.Else != nil {
			return thenOut.or(f.stmt(x.Else, st))
		}
		return thenOut.or(st)
	case *ast.SwitchStmt:
		st := in
		if x.Init != nil {
			st = f.stmt(x.Init, st)
		}
		if x.Tag != nil && f.a.exprProgress([]ast.Node{x.Tag}, &f.ignored) {
			st = st.progressed()
		}
		return f.switchBody(x.Body, st)
	case *ast.TypeSwitchStmt:
		return f.switchBody(x.Body, in)
	case *ast.ForStmt:
		st := in
		if x.Init != nil {
			st = f.stmt(x.Init, st)
		}
		savedBreak, savedDepth := f.pendingBreak, f.breakDepth
		f.pendingBreak = pstate{}
		f.breakDepth++
		f.innerLoops++
		body := f.stmts(x.Body.List, st)
		f.innerLoops--
		f.breakDepth = savedDepth
		out := st.or(body).or(f.pendingBreak)
		if x.Cond == nil {
			out = f.pendingBreak // `for {}` is only left through break
		}
		f.pendingBreak = savedBreak
		return out
	case *ast.RangeStmt:
		savedBreak, savedDepth := f.pendingBreak, f.breakDepth
		f.pendingBreak = pstate{}
		f.breakDepth++
		f.innerLoops++
		body := f.stmts(x.Body.List, in)
		f.innerLoops--
		f.breakDepth = savedDepth
		out := in.or(body).or(f.pendingBreak)
		f.pendingBreak = savedBreak
		return out
	default:
		f.unknown = append(f.unknown, fmt.Sprintf("%T", s))
		return in
	}
}

func (f *flowCtx) switchBody(body *ast.BlockStmt, in pstate) pstate {
	savedBreak, savedDepth, savedFall := f.pendingBreak, f.breakDepth, f.pendingFall
	f.pendingBreak = pstate{}
	f.breakDepth++
	out := pstate{}
	hasDefault := false
	fall := pstate{}
	for _, cl := range body.List {
		cc, ok := cl.(*ast.CaseClause)
		if !ok {
			f.unknown = append(f.unknown, "switch-clause")
			continue
		}
		if cc.List == nil {
			hasDefault = true
		}
		f.pendingFall = pstate{}
		res := f.stmts(cc.Body, in.or(fall))
		fall = f.pendingFall
		out = out.or(res)
	}
	if !hasDefault {
		out = out.or(in)
	}
	out = out.or(f.pendingBreak)
	f.pendingBreak, f.breakDepth, f.pendingFall = savedBreak, savedDepth, savedFall
	return out
}

func (a *loopAnalysis) methodAdvances(mi *methodInfo) bool {
	if mi.decl.Body == nil {
		return false
	}
	f := &flowCtx{a: a}
	end := f.stmts(mi.decl.Body.List, pstate{np: true})
	total := f.rets.or(end)
	return !total.np && len(f.unknown) == 0
}

func (a *loopAnalysis) fixpoint() {
	for changed := true; changed; {
		changed = false
		for name, mi := range a.methods {
			if a.adv[name] || a.base[name] {
				continue
			}
			if a.methodAdvances(mi) {
				a.adv[name] = true
				changed = true
			}
		}
	}
}

// ---- EOF classification -----------------------------------------------------------------------

func exprString(fset *token.FileSet, e ast.Expr) string {
	if e == nil {
		return ""
	}
	switch x := e.(type) {
	case *ast.Ident:
		return x.Name
	case *ast.SelectorExpr:
		return exprString(fset, x.X) + "." + x.Sel.Name
	case *ast.StarExpr:
		return "*" + exprString(fset, x.X)
	case *ast.ParenExpr:
		return "(" + exprString(fset, x.X) + ")"
	case *ast.BasicLit:
		return x.Value
	case *ast.BinaryExpr:
		return exprString(fset, x.X) + " " + x.Op.String() + " " + exprString(fset, x.Y)
	case *ast.CallExpr:
		args := []string{}
		for _, a := range x.Args {
			args = append(args, exprString(fset, a))
		}
		return exprString(fset, x.Fun) + "(" + strings.Join(args, ", ") + ")"
	case *ast.UnaryExpr:
		return x.Op.String() + exprString(fset, x.X)
	}
	return fmt.Sprintf("<%T>", e)
}

const kindExpr = "self.CurrentToken.Kind"

// does the condition hold only when the current token is not EOF (resp. the lexer is not at the end)?
func condExcludesEOF(fset *token.FileSet, e ast.Expr) bool {
	switch x := e.(type) {
	case *ast.ParenExpr:
		return condExcludesEOF(fset, x.X)
	case *ast.BinaryExpr:
		switch x.Op {
		case token.LAND:
			return condExcludesEOF(fset, x.X) || condExcludesEOF(fset, x.Y)
		case token.LOR:
			return condExcludesEOF(fset, x.X) && condExcludesEOF(fset, x.Y)
		case token.EQL:
			l, r := exprString(fset, x.X), exprString(fset, x.Y)
			return l == kindExpr && strings.HasPrefix(r, "lexer.") && r != "lexer.EOF"
		case token.NEQ:
			l, r := exprString(fset, x.X), exprString(fset, x.Y)
			return (l == kindExpr && r == "lexer.EOF") || (l == "self.currentChar" && r == "nil")
		}
	}
	return false
}

func mentionsEOFEq(fset *token.FileSet, e ast.Expr) bool {
	switch x := e.(type) {
	case *ast.ParenExpr:
		return mentionsEOFEq(fset, x.X)
	case *ast.BinaryExpr:
		if x.Op == token.LOR {
			return mentionsEOFEq(fset, x.X) || mentionsEOFEq(fset, x.Y)
		}
		if x.Op == token.EQL {
			return exprString(fset, x.X) == kindExpr && exprString(fset, x.Y) == "lexer.EOF"
		}
	}
	return false
}

// body is one `switch self.CurrentToken.Kind` without an EOF case; returns the default clause
func kindSwitchWithoutEOF(fset *token.FileSet, list []ast.Stmt) (*ast.CaseClause, bool) {
	if len(list) != 1 {
		return nil, false
	}
	sw, ok := list[0].(*ast.SwitchStmt)
	if !ok || sw.Init != nil || exprString(fset, sw.Tag) != kindExpr {
		return nil, false
	}
	var dflt *ast.CaseClause
	for _, cl := range sw.Body.List {
		cc := cl.(*ast.CaseClause)
		if cc.List == nil {
			dflt = cc
		}
		for _, e := range cc.List {
			if exprString(fset, e) == "lexer.EOF" {
				return nil, false
			}
		}
	}
	return dflt, dflt != nil
}

func clauseLeaves(cc *ast.CaseClause, loopLabel string, errorReturn bool) bool {
	if len(cc.Body) == 0 {
		return false
	}
	switch s := cc.Body[len(cc.Body)-1].(type) {
	case *ast.ReturnStmt:
		if errorReturn {
			return len(s.Results) > 0 && isErrCtor(s.Results[len(s.Results)-1])
		}
		return true
	case *ast.BranchStmt:
		return !errorReturn && s.Tok == token.BREAK && s.Label != nil && s.Label.Name == loopLabel
	}
	return false
}

func (a *loopAnalysis) eofClass(fs *ast.ForStmt, label string) string {
	if fs.Cond != nil && condExcludesEOF(a.fset, fs.Cond) {
		return "cond-excludes-eof"
	}
	// Pratt loop: `for left, _ := K.Prec(); left > prec; left, _ = K.Prec()`
	if fs.Cond != nil && fs.Init != nil && fs.Post != nil {
		if as, ok := fs.Init.(*ast.AssignStmt); ok && len(as.Rhs) == 1 &&
			exprString(a.fset, as.Rhs[0]) == kindExpr+".Prec()" {
			if ps, ok := fs.Post.(*ast.AssignStmt); ok && len(ps.Rhs) == 1 && exprString(a.fset, ps.Rhs[0]) == kindExpr+".Prec()" {
				if b, ok := fs.Cond.(*ast.BinaryExpr); ok && b.Op == token.GTR && exprString(a.fset, b.X) == lastIdentOrFirst(as.Lhs) {
					return "prec-of-eof-zero"
				}
			}
		}
	}
	// explicit guard in the body, before anything that could reach the next iteration
	for _, s := range fs.Body.List {
		if ifs, ok := s.(*ast.IfStmt); ok && ifs.Init == nil && mentionsEOFEq(a.fset, ifs.Cond) && terminates(ifs.Body) {
			if br, ok := ifs.Body.List[len(ifs.Body.List)-1].(*ast.BranchStmt); !ok || br.Tok == token.BREAK {
				return "guard-exits-on-eof"
			}
		}
		if _, ok := s.(*ast.IfStmt); !ok {
			break // only leading `if` statements are looked at
		}
	}
	if dflt, ok := kindSwitchWithoutEOF(a.fset, fs.Body.List); ok && clauseLeaves(dflt, label, false) {
		return "switch-default-exits"
	}
	if len(fs.Body.List) >= 2 {
		if as, ok := fs.Body.List[0].(*ast.AssignStmt); ok {
			if m, ok := a.checkedCallee(as.Rhs); ok {
				if ifs, ok := fs.Body.List[1].(*ast.IfStmt); ok && isNotNilCheck(ifs.Cond, lastIdent(as.Lhs)) && terminates(ifs.Body) {
					if mi, ok := a.methods[m]; ok && mi.decl.Body != nil {
						if dflt, ok := kindSwitchWithoutEOF(a.fset, mi.decl.Body.List); ok && clauseLeaves(dflt, "", true) {
							return "first-call-rejects-eof"
						}
					}
				}
			}
		}
	}
	return "unclassified"
}

func lastIdentOrFirst(lhs []ast.Expr) string {
	if len(lhs) > 0 {
		if id, ok := lhs[0].(*ast.Ident); ok {
			return id.Name
		}
	}
	return ""
}

// ---- driver ---------------------------------------------------------------------------------------

func parserLoopInventory(root string) ([]loopInfo, map[string][]string) {
	all := []loopInfo{}
	advSets := map[string][]string{}
	for _, spec := range []struct {
		pkg      string
		base     string
		fallible bool
	}{{"lexer", "advance", false}, {"parser", "next", true}} {
		fset := token.NewFileSet()
		dir := filepath.Join(root, "homescript", spec.pkg)
		files, _ := filepath.Glob(filepath.Join(dir, "*.go"))
		sort.Strings(files)
		a := &loopAnalysis{pkg: spec.pkg, base: map[string]bool{spec.base: true}, baseFall: map[string]bool{spec.base: spec.fallible},
			methods: map[string]*methodInfo{}, adv: map[string]bool{}, fset: fset}
		parsed := []*ast.File{}
		names := []string{}
		for _, p := range files {
			if strings.HasSuffix(p, "_test.go") {
				continue
			}
			f, err := parser.ParseFile(fset, p, nil, 0)
			if err != nil {
				panic(err)
			}
			parsed = append(parsed, f)
			names = append(names, filepath.Base(p))
			for _, d := range f.Decls {
				fd, ok := d.(*ast.FuncDecl)
				if !ok || fd.Recv == nil || len(fd.Recv.List) != 1 || len(fd.Recv.List[0].Names) != 1 || fd.Recv.List[0].Names[0].Name != "self" {
					continue
				}
				fallible := false
				if fd.Type.Results != nil && len(fd.Type.Results.List) > 0 {
					last := fd.Type.Results.List[len(fd.Type.Results.List)-1]
					fallible = exprString(fset, last.Type) == "*errors.Error"
				}
				if fd.Name.Name != spec.base {
					a.methods[fd.Name.Name] = &methodInfo{decl: fd, fallible: fallible}
				}
			}
		}
		a.fixpoint()
		advNames := []string{}
		for n := range a.adv {
			advNames = append(advNames, n)
		}
		sort.Strings(advNames)
		advSets[spec.pkg] = advNames

		for fi, f := range parsed {
			for _, d := range f.Decls {
				fd, ok := d.(*ast.FuncDecl)
				if !ok || fd.Body == nil {
					continue
				}
				ordinal := 0
				// labelled loops need their label: walk manually
				var walk func(n ast.Node, label string)
				walk = func(n ast.Node, label string) {
					switch x := n.(type) {
					case *ast.LabeledStmt:
						walk(x.Stmt, x.Label.Name)
						return
					case *ast.ForStmt:
						ordinal++
						all = append(all, a.classify(names[fi], fd.Name.Name, ordinal, x, label))
					case *ast.RangeStmt:
						ordinal++
						all = append(all, a.classify(names[fi], fd.Name.Name, ordinal, x, label))
					}
					ast.Inspect(n, func(c ast.Node) bool {
						if c == n || c == nil {
							return true
						}
						switch c.(type) {
						case *ast.LabeledStmt, *ast.ForStmt, *ast.RangeStmt:
							walk(c, "")
							return false
						}
						return true
					})
				}
				walk(fd.Body, "")
			}
		}
	}
	return all, advSets
}

func (a *loopAnalysis) classify(file, fn string, ordinal int, n ast.Node, label string) loopInfo {
	li := loopInfo{pkg: a.pkg, file: file, fn: fn, ordinal: ordinal, line: a.fset.Position(n.Pos()).Line, eof: "n/a"}
	switch x := n.(type) {
	case *ast.RangeStmt:
		li.kind = "range"
		ranged := exprString(a.fset, x.X)
		assigned := false
		ast.Inspect(x.Body, func(c ast.Node) bool {
			if as, ok := c.(*ast.AssignStmt); ok {
				for _, l := range as.Lhs {
					if exprString(a.fset, l) == ranged {
						assigned = true
					}
				}
			}
			return true
		})
		if assigned {
			li.progress = "unclassified"
			li.detail = "the ranged value is assigned in the body"
		} else {
			li.progress = "bounded-range"
		}
		return li
	case *ast.ForStmt:
		switch {
		case x.Cond == nil:
			li.kind = "for-ever"
		case x.Init == nil && x.Post == nil:
			li.kind = "for-cond"
		default:
			li.kind = "for-clause"
		}
		// counting loop: `for i := a; i < b; i++` with i not assigned in the body
		if inc, ok := x.Post.(*ast.IncDecStmt); ok && x.Cond != nil && inc.Tok == token.INC {
			v := exprString(a.fset, inc.X)
			if b, ok := x.Cond.(*ast.BinaryExpr); ok && (b.Op == token.LSS || b.Op == token.LEQ) && exprString(a.fset, b.X) == v {
				assigned := false
				ast.Inspect(x.Body, func(c ast.Node) bool {
					switch s := c.(type) {
					case *ast.AssignStmt:
						for _, l := range s.Lhs {
							if exprString(a.fset, l) == v {
								assigned = true
							}
						}
					case *ast.IncDecStmt:
						if exprString(a.fset, s.X) == v {
							assigned = true
						}
					}
					return true
				})
				if !assigned {
					li.progress = "bounded-counter"
					return li
				}
			}
		}
		f := &flowCtx{a: a, loopLabel: label, inLoop: true}
		end := f.stmts(x.Body.List, pstate{np: true})
		back := end.or(f.cont)
		switch {
		case len(f.unknown) > 0:
			li.progress = "unclassified"
			li.detail = "not understood: " + strings.Join(f.unknown, ",")
		case back.np && len(f.ignored) > 0:
			li.progress = "ignored-error"
			li.detail = "error of " + strings.Join(f.ignored, ",") + " dropped"
		case back.np:
			li.progress = "unclassified"
			li.detail = "a path reaches the next iteration without a checked consuming call"
		default:
			li.progress = "advances"
			if len(f.ignored) > 0 {
				li.detail = "note: error of " + strings.Join(f.ignored, ",") + " dropped on a path that also advances"
			}
		}
		li.eof = a.eofClass(x, label)
		return li
	}
	li.progress = "unclassified"
	return li
}

// writeParserLoops emits the Lean table (called from dump.go).
func writeParserLoops(b *strings.Builder, root string) {
	loops, adv := parserLoopInventory(root)
	b.WriteString("/-- One `for` statement of homescript/lexer or homescript/parser (go/ast extraction, see harness/loops.go). -/\n")
	b.WriteString("structure LoopInfo where\n  pkg : String\n  file : String\n  func : String\n  ordinal : Nat\n  kind : String\n  progress : String\n  eof : String\n  detail : String\n  deriving DecidableEq, Repr\n\n")
	b.WriteString("/-- Every `for` statement of the lexer and the parser with its syntactic progress classification. -/\n")
	b.WriteString("def parserLoops : List LoopInfo := [\n")
	for i, l := range loops {
		sep := ","
		if i == len(loops)-1 {
			sep = ""
		}
		fmt.Fprintf(b, "  ⟨%s, %s, %s, %d, %s, %s, %s, %s⟩%s\n", leanStr(l.pkg), leanStr(l.file), leanStr(l.fn), l.ordinal,
			leanStr(l.kind), leanStr(l.progress), leanStr(l.eof), leanStr(l.detail), sep)
	}
	b.WriteString("]\n\n")
	for _, pkg := range []string{"lexer", "parser"} {
		fmt.Fprintf(b, "/-- Methods of the %s that consume input on every successful return (least fixpoint from the base call). -/\n", pkg)
		fmt.Fprintf(b, "def %sAdvancing : List String := [%s]\n\n", pkg, joinLeanStrs(adv[pkg]))
	}
}
