package main

// hv panalyze — static analysis of one program text (C03).
//
// Input line:  x<hex of program text>            (optionally "nomain x<hex>": host does not require main)
// Output line: fields separated by " | ":
//   V=<error-level rule classes, sorted, comma separated, or ->  W=<warnings> I=<hints+infos> SYN=<soft syntax errors>
//   P=<parser AST as S-expression (what the analyzer consumed)>
//   T=(<recorded types in pre-order of the analysed AST>)
// or   SYNTAX x<hex of the critical syntax error>
// or   V=PANIC:x<hex> | P=<parser AST>             (the analyzer panicked)
//
// Rule classes are assigned by message shape through `classTable`; a message that no entry
// matches is printed as `other:x<hex>` so that the check can insist on the table being total.

import (
	"fmt"
	"regexp"
	"sort"
	"strings"

	hms "github.com/smarthome-go/homescript/v3/homescript"
	"github.com/smarthome-go/homescript/v3/homescript/analyzer"
	aast "github.com/smarthome-go/homescript/v3/homescript/analyzer/ast"
	"github.com/smarthome-go/homescript/v3/homescript/diagnostic"
	"github.com/smarthome-go/homescript/v3/homescript/lexer"
	"github.com/smarthome-go/homescript/v3/homescript/parser"
	past "github.com/smarthome-go/homescript/v3/homescript/parser/ast"
)

func init() {
	register("panalyze", func(args []string) int { return lineLoop(panalyzeLine) })
	register("panalyze-classes", func(args []string) int {
		for _, c := range classTable {
			fmt.Printf("%s\t%s\n", c.class, c.re.String())
		}
		return 0
	})
}

// ---- message shape -> rule class --------------------------------------------------

type classEntry struct {
	class string
	re    *regexp.Regexp
}

func ce(class, pattern string) classEntry {
	return classEntry{class, regexp.MustCompile(`(?s)^` + pattern)}
}

// Order matters only where one pattern is a prefix of another.
var classTable = []classEntry{
	// typing.go: TypeCheck / checkTypeKindEquality / ConvertType
	ce("missingElse", `Mismatched types: expected '[^']*', got '[^']*': missing .else. branch`),
	ce("typeMismatch", `Mismatched types: expected '`),
	ce("fieldMissing", `Field '.*' is missing`),
	ce("fieldUnexpected", `Found unexpected field '`),
	ce("fnValueCast", `Cannot cast a function value at runtime`),
	ce("fnParamKind", `Expected parameter kind '`),
	ce("fnParamCount", `Expected \d+ parameters? \(.*\), got \d+`),
	ce("fnParamMissing", `Parameter '.*' is missing`),
	ce("unknownType", `Illegal use of undeclared type '`),
	ce("unknownSingletonType", `Illegal use of undeclared singleton type '`),
	ce("duplicateTypeField", `Object type field '.*' is declared twice`),
	ce("duplicateFnTypeParam", `Duplicate parameter name '.*' in type declaration`),
	ce("unknownAnnotation", `Unknown type field annotation `),
	// expression.go
	ce("implicitAny", `Implicit use of 'any' type`),
	ce("unknownSingleton", `Reference of undeclared singleton type '`),
	ce("unknownIdent", `Use of undefined variable or function '`),
	ce("rangeOperand", `Type mismatch: expected 'int', found '`),
	ce("builtinFieldName", `Cannot use '.*' as a field name`),
	ce("duplicateField", `Duplicate definition of field '`),
	ce("duplicateParam", `Duplicate declaration of parameter '`),
	ce("prefixOperand", `Prefix operator '.*' cannot be used on values of type '`),
	ce("infixOperand", `Infix operator '.*' cannot be used on values of type '`),
	ce("assignOperand", `Assign operator '.*' cannot be used on values of type '`),
	ce("arity", `Function requires (at least )?\d+ arguments?.*, however \d+ (was|were) supplied`),
	ce("nullArgument", `Cannot use a value of result type `),
	ce("closureAcrossThreads", `Sending closures across threads`),
	ce("spawnNonFunction", `Cannot spawn '.*': this is a function value`),
	ce("notCallable", `Type '[^']*' cannot be called`),
	ce("indexType", `A value of type '[^']*' cannot be indexed by '`),
	ce("unknownField", `Object does not contain a field with name '`),
	ce("notIndexable", `Cannot index a value of type '`),
	ce("memberOperator", `The '.*' operator cannot be used on values of type '`),
	ce("unknownMember", `Type '.*' has no member named '`),
	ce("impossibleCast", `Impossible cast: cannot cast value of type '`),
	ce("castToFunction", `Impossible cast: cannot cast a function value at runtime`),
	ce("defaultWithLiterals", `Default case ._. used in the same arm as literal values`),
	ce("missingDefault", `Missing default branch`),
	// statement.go
	ce("unknownTrigger", `Use of undefined trigger function '`),
	ce("unknownCallback", `Use of undefined callback function '`),
	ce("triggerSelf", `Cannot trigger function from itself`),
	ce("triggerModifier", `Target function (has wrong modifier|misses the .event. modifier)`),
	ce("duplicateType", `Type '.*' is already declared as '`),
	ce("duplicateSingleton", `Singleton type '.*' is already declared as '`),
	ce("nonConstantGlobal", `Global initializer must be constant`),
	ce("duplicateGlobal", `Duplicate definition of global '`),
	ce("returnOutsideFunction", `Illegal use of return statement outside of function body`),
	ce("breakOutsideLoop", `Illegal use of 'break' outside of a loop`),
	ce("continueOutsideLoop", `Illegal use of 'continue' statement outside of a loop`),
	ce("notIterable", `A value of type '.*' cannot be used as an iterator`),
	ce("loopBody", `Loop requires a block of type '`),
	// topLevel.go / analyzer.go
	ce("singletonExtractedTwice", `Singleton .* is already being extracted`),
	ce("duplicateFunction", `Duplicate function definition of '`),
	ce("nameClash", `Duplicate definition of '.*': the name is already used by `),
	ce("singletonNoDefault", `Singleton type '.*' contains a function or a value of type 'any', which have no default value`),
	ce("mainParams", `The '.*' function must have 0 parameters`),
	ce("mainReturn", `The return type of the '.*' function must be '`),
	ce("mainMissing", `Missing 'main' function`),
	ce("singletonAfterParam", `Extraction of singleton '.*' follows normal parameter`),
	ce("duplicateSingletonExtraction", `Duplicate extraction of singleton '`),
	ce("hostError", `Host error: `),
	ce("cyclicImport", `Illegal cyclic import`),
	ce("importNotFound", `No (type|template|trigger|variable or function) named '.*' found in module '`),
	ce("importPrivate", `Cannot import private (type|function|variable)`),
	ce("moduleNotFound", `Module '.*' not found`),
	ce("nameExists", `(Name|Type|Template|Trigger|Trigger function) '.*' already exists in current (scope|module)`),
	ce("implUnknownSingleton", `Undeclared singleton `),
	ce("implUnknownTemplate", `Template .* not found`),
	ce("implNoExtraction", `Method does not extract singleton `),
	ce("implParamCount", `Expected \d+ parameters?, got \d+`),
	ce("implParamName", `Expected parameter with name `),
	ce("implModifier", `(Template method has redundant modifier|Template method lacks required modifier|Expected modifier .* but found)`),
	ce("implMissingMethod", `Not all methods implemented`),
	ce("implExtraMethod", `Additional method .* implemented`),
	ce("implUnknownCapability", `Capability .* not found on template`),
	ce("implCapabilityConflict", `Template capability .* conflicts with other capability`),
	ce("illegalAnnotation", `Illegal annotation`),
}

var contextPrefixes = []string{
	"Regarding function's return type: ",
	"Regarding callback function: ",
}

func classOf(msg string) string {
	ctx := ""
	for changed := true; changed; {
		changed = false
		for _, p := range contextPrefixes {
			if strings.HasPrefix(msg, p) {
				msg = msg[len(p):]
				changed = true
			}
		}
		if strings.HasPrefix(msg, "Regarding callback function for trigger `") {
			if i := strings.Index(msg, "`: "); i >= 0 {
				msg = msg[i+3:]
				changed = true
			}
		}
	}
	for _, c := range classTable {
		if c.re.MatchString(msg) {
			return ctx + c.class
		}
	}
	return "other:" + hexs(msg)
}

// ---- parser AST -> S-expression ------------------------------------------------------

func pxType(t past.HmsType) *Sx {
	if t == nil {
		return A("none")
	}
	switch t := t.(type) {
	case past.NameReferenceType:
		return T("name", S(t.Ident.Ident()))
	case past.SingletonReferenceType:
		return T("sing", S(t.Ident.Ident()))
	case past.OptionType:
		return T("opt", pxType(t.Inner))
	case past.ListType:
		return T("list", pxType(t.Inner))
	case past.ObjectType:
		switch f := t.Fields.(type) {
		case past.ObjectTypeFieldTypeAny:
			return A("anyobj")
		case past.ObjectTypeFieldTypeFields:
			items := []*Sx{}
			for _, fld := range f.Fields {
				items = append(items, L(S(fld.FieldName.Ident()), pxType(fld.Type), B(fld.Annotation != nil)))
			}
			return T("obj", items...)
		}
	case past.FunctionType:
		ps := []*Sx{}
		for _, p := range t.Params {
			ps = append(ps, L(S(p.Name.Ident()), pxType(p.Type)))
		}
		return T("fn", L(ps...), pxType(t.ReturnType))
	}
	return T("unsupported", S(fmt.Sprintf("%T", t)))
}

func pxParams(ps []past.FnParam) *Sx {
	items := []*Sx{}
	for _, p := range ps {
		items = append(items, L(S(p.Ident.Ident()), pxType(p.Type)))
	}
	return L(items...)
}

func pxExprOpt(e past.Expression) *Sx {
	if e == nil {
		return A("none")
	}
	return pxExpr(e)
}

func pxExpr(e past.Expression) *Sx {
	switch e := e.(type) {
	case past.IntLiteralExpression:
		return T("int", N(e.Value))
	case past.FloatLiteralExpression:
		return T("float", sxFloat(e.Value))
	case past.BoolLiteralExpression:
		return T("bool", B(e.Value))
	case past.StringLiteralExpression:
		return T("str", S(e.Value))
	case past.IdentExpression:
		return T("ident", S(e.Ident.Ident()), B(e.IsSingleton))
	case past.NullLiteralExpression:
		return T("null")
	case past.NoneLiteralExpression:
		return T("none")
	case past.RangeLiteralExpression:
		return T("range", pxExpr(e.Start), pxExpr(e.End), B(e.EndIsInclusive))
	case past.ListLiteralExpression:
		items := []*Sx{}
		for _, v := range e.Values {
			items = append(items, pxExpr(v))
		}
		return T("list", items...)
	case past.AnyObjectLiteralExpression:
		return T("anyobj")
	case past.ObjectLiteralExpression:
		items := []*Sx{}
		for _, f := range e.Fields {
			items = append(items, L(S(f.Key.Ident()), pxExpr(f.Expression)))
		}
		return T("obj", items...)
	case past.FunctionLiteralExpression:
		return T("lambda", pxParams(e.Parameters), pxType(e.ReturnType), pxBlock(e.Body))
	case past.GroupedExpression:
		return T("grp", pxExpr(e.Inner))
	case past.PrefixExpression:
		op := "?"
		switch e.Operator {
		case past.MinusPrefixOperator:
			op = "neg"
		case past.NegatePrefixOperator:
			op = "not"
		case past.IntoSomePrefixOperator:
			op = "some"
		}
		return T("pre", A(op), pxExpr(e.Base))
	case past.InfixExpression:
		return T("infix", S(e.Operator.String()), pxExpr(e.Lhs), pxExpr(e.Rhs))
	case past.AssignExpression:
		return T("assign", S(e.AssignOperator.String()), pxExpr(e.Lhs), pxExpr(e.Rhs))
	case past.CallExpression:
		args := []*Sx{}
		for _, a := range e.Arguments.List {
			args = append(args, pxExpr(a))
		}
		return T("call", pxExpr(e.Base), L(args...), B(e.IsSpawn))
	case past.IndexExpression:
		return T("index", pxExpr(e.Base), pxExpr(e.Index))
	case past.MemberExpression:
		return T("member", pxExpr(e.Base), S(e.Member.Ident()), S(e.Operator.String()))
	case past.CastExpression:
		return T("cast", pxExpr(e.Base), pxType(e.AsType))
	case past.BlockExpression:
		return T("blk", pxBlock(e.Block))
	case past.IfExpression:
		els := A("none")
		if e.ElseBlock != nil {
			els = pxBlock(*e.ElseBlock)
		}
		return T("if", pxExpr(e.Condition), pxBlock(e.ThenBlock), els)
	case past.MatchExpression:
		arms := []*Sx{}
		for _, a := range e.Arms {
			lits := []*Sx{}
			for _, l := range a.Literals {
				if l.IsLiteral() {
					lits = append(lits, pxExpr(l.Literal))
				} else {
					lits = append(lits, A("default"))
				}
			}
			arms = append(arms, L(L(lits...), pxExpr(a.Action)))
		}
		return T("match", pxExpr(e.ControlExpression), L(arms...))
	case past.TryExpression:
		return T("try", pxBlock(e.TryBlock), S(e.CatchIdent.Ident()), pxBlock(e.CatchBlock))
	}
	return T("unsupported", S(fmt.Sprintf("%T", e)))
}

func pxBlock(b past.Block) *Sx {
	stmts := []*Sx{}
	for _, s := range b.Statements {
		stmts = append(stmts, pxStmt(s))
	}
	return T("block", L(stmts...), pxExprOpt(b.Expression))
}

func pxLet(s past.LetStatement) *Sx {
	return T("let", S(s.Ident.Ident()), pxType(s.OptType), pxExpr(s.Expression), B(s.IsPub))
}

func pxTypeDef(s past.TypeDefinition) *Sx {
	return T("typedef", S(s.LhsIdent.Ident()), pxType(s.RhsType), B(s.IsPub))
}

func pxStmt(s past.Statement) *Sx {
	switch s := s.(type) {
	case past.TriggerStatement:
		args := []*Sx{}
		for _, a := range s.EventArguments.List {
			args = append(args, pxExpr(a))
		}
		return T("trigger", S(s.CallbackFnIdent.Ident()), S(s.DispatchKeyword.String()), S(s.TriggerIdent.Ident()), L(args...))
	case past.TypeDefinition:
		return pxTypeDef(s)
	case past.LetStatement:
		return pxLet(s)
	case past.ReturnStatement:
		return T("return", pxExprOpt(s.Expression))
	case past.BreakStatement:
		return T("break")
	case past.ContinueStatement:
		return T("continue")
	case past.LoopStatement:
		return T("loop", pxBlock(s.Body))
	case past.WhileStatement:
		return T("while", pxExpr(s.Condition), pxBlock(s.Body))
	case past.ForStatement:
		return T("for", S(s.Identifier.Ident()), pxExpr(s.IterExpression), pxBlock(s.Body))
	case past.ExpressionStatement:
		return T("expr", pxExpr(s.Expression))
	}
	return T("unsupported", S(fmt.Sprintf("%T", s)))
}

func pxFn(f past.FunctionDefinition) *Sx {
	return T("fn", S(f.Ident.Ident()), pxParams(f.Parameters), pxType(f.ReturnType), N(int64(f.Modifier)),
		B(f.Annotation != nil), pxBlock(f.Body))
}

func pxProgram(p past.Program) *Sx {
	imports := []*Sx{}
	for _, im := range p.Imports {
		items := []*Sx{}
		for _, c := range im.ToImport {
			items = append(items, L(S(c.Ident), N(int64(c.Kind))))
		}
		imports = append(imports, L(S(im.FromModule.Ident()), L(items...)))
	}
	types := []*Sx{}
	for _, t := range p.Types {
		types = append(types, pxTypeDef(t))
	}
	singletons := []*Sx{}
	for _, s := range p.Singletons {
		singletons = append(singletons, L(S(s.Ident.Ident()), pxType(s.Type)))
	}
	impls := []*Sx{}
	for _, im := range p.ImplBlocks {
		caps := []*Sx{}
		for _, c := range im.UsingTemplate.UserDefinedCapabilities.List {
			caps = append(caps, S(c.Ident()))
		}
		ms := []*Sx{}
		for _, m := range im.Methods {
			ms = append(ms, pxFn(m))
		}
		impls = append(impls, L(S(im.SingletonIdent.Ident()), S(im.UsingTemplate.Template.Ident()),
			B(im.UsingTemplate.UserDefinedCapabilities.Defined), L(caps...), L(ms...)))
	}
	globals := []*Sx{}
	for _, g := range p.Globals {
		globals = append(globals, pxLet(g))
	}
	fns := []*Sx{}
	for _, f := range p.Functions {
		fns = append(fns, pxFn(f))
	}
	return T("prog", L(imports...), L(types...), L(singletons...), L(impls...), L(globals...), L(fns...))
}

// ---- recorded types of the analysed AST, in pre-order ---------------------------------
//
// Order (mirrored by Hms.Check.Check `TT.flatten`): a node's own type, then its children
// from left to right. Nodes: every expression, every block (result type), `let` (variable
// type), `for` (iteration variable type), every function (return type) and lambda.

type typeWalk struct{ out []*Sx }

func (w *typeWalk) ty(t aast.Type) { w.out = append(w.out, sxType(t)) }

func (w *typeWalk) expr(e aast.AnalyzedExpression) {
	if e == nil {
		return
	}
	if _, isBlock := e.(aast.AnalyzedBlockExpression); !isBlock {
		w.ty(e.Type())
	}
	switch e := e.(type) {
	case aast.AnalyzedRangeLiteralExpression:
		w.expr(e.Start)
		w.expr(e.End)
	case aast.AnalyzedListLiteralExpression:
		for _, v := range e.Values {
			w.expr(v)
		}
	case aast.AnalyzedObjectLiteralExpression:
		for _, f := range e.Fields {
			w.expr(f.Expression)
		}
	case aast.AnalyzedFunctionLiteralExpression:
		w.block(e.Body)
	case aast.AnalyzedGroupedExpression:
		w.expr(e.Inner)
	case aast.AnalyzedPrefixExpression:
		w.expr(e.Base)
	case aast.AnalyzedInfixExpression:
		w.expr(e.Lhs)
		w.expr(e.Rhs)
	case aast.AnalyzedAssignExpression:
		w.expr(e.Lhs)
		w.expr(e.Rhs)
	case aast.AnalyzedCallExpression:
		w.expr(e.Base)
		for _, a := range e.Arguments.List {
			w.expr(a.Expression)
		}
	case aast.AnalyzedIndexExpression:
		w.expr(e.Base)
		w.expr(e.Index)
	case aast.AnalyzedMemberExpression:
		w.expr(e.Base)
	case aast.AnalyzedCastExpression:
		w.expr(e.Base)
	case aast.AnalyzedBlockExpression:
		w.block(e.Block)
	case aast.AnalyzedIfExpression:
		w.expr(e.Condition)
		w.block(e.ThenBlock)
		if e.ElseBlock != nil {
			w.block(*e.ElseBlock)
		}
	case aast.AnalyzedMatchExpression:
		w.expr(e.ControlExpression)
		for _, a := range e.Arms {
			for _, l := range a.Literals {
				w.expr(l)
			}
			w.expr(a.Action)
		}
		if e.DefaultArmAction != nil {
			w.expr(*e.DefaultArmAction)
		}
	case aast.AnalyzedTryExpression:
		w.block(e.TryBlock)
		w.block(e.CatchBlock)
	}
}

func (w *typeWalk) block(b aast.AnalyzedBlock) {
	w.ty(b.ResultType)
	for _, s := range b.Statements {
		w.stmt(s)
	}
	w.expr(b.Expression)
}

func (w *typeWalk) stmt(s aast.AnalyzedStatement) {
	switch s := s.(type) {
	case aast.AnalyzedTriggerStatement:
		for _, a := range s.TriggerArguments.List {
			w.expr(a.Expression)
		}
	case aast.AnalyzedLetStatement:
		w.ty(s.VarType)
		w.expr(s.Expression)
	case aast.AnalyzedReturnStatement:
		w.expr(s.ReturnValue)
	case aast.AnalyzedLoopStatement:
		w.block(s.Body)
	case aast.AnalyzedWhileStatement:
		w.expr(s.Condition)
		w.block(s.Body)
	case aast.AnalyzedForStatement:
		w.ty(s.IterVarType)
		w.expr(s.IterExpression)
		w.block(s.Body)
	case aast.AnalyzedExpressionStatement:
		w.expr(s.Expression)
	}
}

func recordedTypes(p aast.AnalyzedProgram) *Sx {
	w := &typeWalk{}
	for _, g := range p.Globals {
		w.stmt(g)
	}
	for _, f := range p.Functions {
		w.ty(f.ReturnType)
		w.block(f.Body)
	}
	for _, im := range p.ImplBlocks {
		for _, f := range im.Methods {
			w.ty(f.ReturnType)
			w.block(f.Body)
		}
	}
	return L(w.out...)
}

// ---- one case ----------------------------------------------------------------------------

func panalyzeLine(line string) string {
	line = strings.TrimSpace(line)
	mainShallExist := true
	if strings.HasPrefix(line, "nomain ") {
		mainShallExist = false
		line = strings.TrimSpace(line[len("nomain "):])
	}
	src := A(line).Str()
	const fname = "main"
	lx := lexer.NewLexer(src, fname)
	ps := parser.NewParser(lx, fname)
	tree, soft, hard := ps.Parse()
	if hard != nil {
		return "SYNTAX " + hexs(hard.Message)
	}
	ptree := pxProgram(tree).String()

	var mods map[string]aast.AnalyzedProgram
	var diags []diagnostic.Diagnostic
	panicked := ""
	func() {
		defer func() {
			if r := recover(); r != nil {
				panicked = firstLine(fmt.Sprint(r))
			}
		}()
		an := analyzer.NewAnalyzer(memHost{map[string]string{"main": src}}, hms.TestingAnalyzerScopeAdditions())
		mods, diags, _ = an.Analyze(tree, mainShallExist)
	}()
	if panicked != "" {
		return fmt.Sprintf("V=PANIC:%s | P=%s", hexs(panicked), ptree)
	}
	classes := []string{}
	nwarn, ninfo := 0, 0
	for _, d := range diags {
		switch d.Level {
		case diagnostic.DiagnosticLevelError:
			classes = append(classes, classOf(d.Message))
		case diagnostic.DiagnosticLevelWarning:
			nwarn++
		default:
			ninfo++
		}
	}
	sort.Strings(classes)
	v := "-"
	if len(classes) > 0 {
		v = strings.Join(classes, ",")
	}
	types := "()"
	func() {
		defer func() {
			if r := recover(); r != nil {
				types = "WALK-PANIC:" + hexs(firstLine(fmt.Sprint(r)))
			}
		}()
		if m, ok := mods[fname]; ok {
			types = recordedTypes(m).String()
		}
	}()
	return fmt.Sprintf("V=%s W=%d I=%d SYN=%d | P=%s | T=%s", v, nwarn, ninfo, len(soft), ptree, types)
}
