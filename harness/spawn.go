package main

// hv spawn — run a program that spawns cores several times on the real VM, with varying
// GOMAXPROCS and injected scheduler yields (C17). Built with -race as `hv-race` the Go race
// detector watches the run: a data race prints "WARNING: DATA RACE" on stderr and (with
// GORACE=halt_on_error=1) ends the process with exit code 66.
//
// Input line:  (spawn (runs n) (procs p…) (yield true|false) (peek true|false) (limits c s m) (main x<src>))
//   peek: in every second run a second host goroutine repeatedly holds the cores read lock for 0.2 ms
// Output line: A=ACCEPT | R=<run> | R=<run> …
//   run = <outcome> procs=<p> lines=<hex of the output lines at the moment Wait returned, sorted, joined by \n>
//         late=<output bytes that arrived after Wait returned> cores=<len(vm.Cores.Cores)> lock=free|held
//         gor=ok|leak<n> globals=((x<name> <val>)…)
//   outcomes as in `hv cancel`.

import (
	"context"
	"fmt"
	goruntime "runtime"
	"sort"
	"strings"
	"sync"
	"sync/atomic"
	"time"

	hms "github.com/smarthome-go/homescript/v3/homescript"
	aast "github.com/smarthome-go/homescript/v3/homescript/analyzer/ast"
	"github.com/smarthome-go/homescript/v3/homescript/compiler"
	herrors "github.com/smarthome-go/homescript/v3/homescript/errors"
	"github.com/smarthome-go/homescript/v3/homescript/runtime"
	"github.com/smarthome-go/homescript/v3/homescript/runtime/value"
)

func init() { register("spawn", func(args []string) int { return lineLoop(spawnLine) }) }

type spawnExec struct {
	hms.TestingVmExecutor
	mu    *sync.Mutex
	out   *strings.Builder
	yield bool
	n     *atomic.Int64
}

func (e spawnExec) WriteStringTo(s string) error {
	if e.yield && e.n.Add(1)%2 == 0 {
		goruntime.Gosched()
	}
	e.mu.Lock()
	e.out.WriteString(s)
	e.mu.Unlock()
	if e.yield && e.n.Load()%3 == 0 {
		goruntime.Gosched()
	}
	return nil
}
func (e spawnExec) RegisterTrigger(string, string, herrors.Span, []value.Value) error { return nil }

// yieldCtx: a real cancel context whose Done() yields the processor now and then.
type yieldCtx struct {
	context.Context
	yield bool
	n     atomic.Int64
}

func (c *yieldCtx) Done() <-chan struct{} {
	if c.yield && c.n.Add(1)%2 == 1 {
		goruntime.Gosched()
	}
	return c.Context.Done()
}

func sortedLines(s string) string {
	lines := strings.Split(s, "\n")
	if len(lines) > 0 && lines[len(lines)-1] == "" {
		lines = lines[:len(lines)-1]
	}
	sort.Strings(lines)
	return strings.Join(lines, "\n")
}

func spawnRun(prog compiler.CompileOutput, limits runtime.CoreLimits, procs int, yield bool, peek bool) (res string) {
	old := goruntime.GOMAXPROCS(procs)
	defer goruntime.GOMAXPROCS(old)
	mu := &sync.Mutex{}
	out := &strings.Builder{}
	base, cancel := context.WithCancel(context.Background())
	defer cancel()
	var ctx context.Context = &yieldCtx{Context: base, yield: yield}
	cancelFn := context.CancelFunc(cancel)
	baseG := goruntime.NumGoroutine()
	outcome := ""
	atReturn := ""
	var vmp *runtime.VM
	func() {
		defer func() {
			if r := recover(); r != nil {
				outcome = "PANIC:" + hexs(firstLine(fmt.Sprint(r)))
			}
		}()
		vm := runtime.NewVM(prog, spawnExec{mu: mu, out: out, yield: yield, n: &atomic.Int64{}}, &ctx, &cancelFn,
			hms.TestingVmScopeAdditions(), limits)
		vmp = &vm
		stopPeek := make(chan struct{})
		if peek {
			// a second host thread that inspects the core list under its read lock while the program runs
			go func() {
				for {
					select {
					case <-stopPeek:
						return
					default:
					}
					vm.Cores.Lock.RLock()
					_ = len(vm.Cores.Cores)
					time.Sleep(200 * time.Microsecond)
					vm.Cores.Lock.RUnlock()
					time.Sleep(20 * time.Microsecond)
				}
			}()
		}
		defer close(stopPeek)
		vm.SpawnAsync(runtime.MainFn(), nil, nil, nil)
		type ans struct{ i *value.VmInterrupt }
		done := make(chan ans, 1)
		go func() {
			_, i := vm.Wait()
			mu.Lock()
			atReturn = out.String()
			mu.Unlock()
			done <- ans{i}
		}()
		select {
		case a := <-done:
			if a.i == nil {
				outcome = "OK"
			} else {
				class, kind := hostInterruptClass(*a.i)
				switch class {
				case "terminate":
					outcome = "TERM"
				case "fatal":
					outcome = "FATAL:" + kind
				default:
					outcome = "INTR:" + class
				}
			}
		case <-time.After(10 * time.Second):
			outcome = "HANG"
			cancel()
		}
	}()
	gor := settleGoroutines(baseG)
	mu.Lock()
	final := out.String()
	mu.Unlock()
	late := len(final) - len(atReturn)
	cores, lock, globals := "-", "-", "()"
	if vmp != nil && outcome != "HANG" {
		vmp.Cores.Lock.RLock()
		cores = fmt.Sprint(len(vmp.Cores.Cores))
		vmp.Cores.Lock.RUnlock()
		lock = "held"
		if vmp.Cores.Lock.TryLock() {
			vmp.Cores.Lock.Unlock()
			lock = "free"
		}
		if gor == "ok" && outcome == "OK" {
			// only then every core's writes happen-before this read (Wait received every signal)
			h := &hostVM{vm: vmp}
			globals = h.globalsSx().String()
		}
	}
	return fmt.Sprintf("%s procs=%d lines=%s late=%d cores=%s lock=%s gor=%s globals=%s", outcome, procs,
		hexs(sortedLines(atReturn)), late, cores, lock, gor, globals)
}

func spawnLine(line string) string {
	sx, err := parseSx(line)
	if err != nil || sx.Tag() != "spawn" {
		return "BAD-INPUT"
	}
	limits := runtime.CoreLimits{CallStackMaxSize: 100, StackMaxSize: 500, MaxMemorySize: 10000}
	src := ""
	runs := 1
	procs := []int{4}
	yield := false
	peek := false
	for _, it := range sx.List[1:] {
		switch it.Tag() {
		case "main":
			src = it.Arg(0).Str()
		case "runs":
			runs = int(it.Arg(0).Int())
		case "procs":
			procs = nil
			for _, p := range it.List[1:] {
				procs = append(procs, int(p.Int()))
			}
		case "yield":
			yield = it.Arg(0).Bool()
		case "peek":
			peek = it.Arg(0).Bool()
		case "limits":
			limits = runtime.CoreLimits{CallStackMaxSize: uint(it.Arg(0).Int()), StackMaxSize: uint(it.Arg(1).Int()), MaxMemorySize: uint(it.Arg(2).Int())}
		}
	}
	var analyzed map[string]aast.AnalyzedProgram
	verdict := ""
	ok := false
	func() {
		defer func() {
			if r := recover(); r != nil {
				verdict = "A=PANIC " + hexs(firstLine(fmt.Sprint(r)))
			}
		}()
		analyzed, verdict, ok = analyzeMods(map[string]string{"main": src})
	}()
	if !ok {
		return verdict
	}
	c := compiler.NewCompiler(analyzed, "main")
	prog, cerr := c.Compile()
	if cerr != nil {
		return "A=COMPILE-ERROR"
	}
	parts := []string{verdict}
	for r := 0; r < runs; r++ {
		parts = append(parts, "R="+spawnRun(prog, limits, procs[r%len(procs)], yield, peek && r%2 == 1))
	}
	return strings.Join(parts, " | ")
}
