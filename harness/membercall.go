package main

// hv membercall — C18: builds a receiver in BOTH value packages through the real
// constructors, fetches a member through the real `Fields()` and calls it (or
// calls `IndexValue`), under recover, and prints a canonical result.
//
// Input line (S-expression):
//   (call <recv> x<member> <arg>…)      method call
//   (field <recv> x<member>)            field access
//   (index <recv> <index>)              IndexValue
//   (seq <recv> (x<member> <arg>…)…)    method calls one after the other on the same receiver; answers
//                                       with the first non-OK step or the last step, plus step=<n>
// Values:  null | none | (int n) | (float <bits as decimal>) | (bool true|false) | (str x<hex>)
//          | (range a b true|false) | (list v…) | (some v) | (anyobj (x<key> v)…) | (obj (x<key> v)…)
// Output:  VM=<res> | TREE=<res>   with <res> one of
//   MISSING                                           the member is not in Fields()
//   NOTFN kind=<k>                                    `call` on a member that is not a builtin function
//   OK kind=<k> ret=<v> recv=<v> disp=<hex> rdisp=<hex>
//                                                     result value (kind, structural dump, Display), receiver afterwards
//   INT class=throw|fatal|term|exit|other kind=<ErrKind|-> msg=<hex first line> recv=<v>
//   PANIC <hex>
// Dumped values use the input syntax plus (fn) for function values and (other x<kind>).

import (
	"context"
	"fmt"
	"math"
	"sort"
	"strings"

	"github.com/smarthome-go/homescript/v3/homescript/errors"
	ivalue "github.com/smarthome-go/homescript/v3/homescript/interpreter/value"
	"github.com/smarthome-go/homescript/v3/homescript/runtime/value"
)

func init() { register("membercall", func(args []string) int { return lineLoop(memberCallLine) }) }

var fatalKindNames = []string{"StackOverFlow", "OutOfMemoryError", "ValueError", "ImportError", "HostError",
	"JsonError", "CastError", "IndexOutOfBounds", "UncaughtThrow"}

// safeKindName: ErrKind.String() of the real code, or (when that panics, finding V16) the name by position.
func safeKindName(n int, f func() string) string {
	if s := tryString(f); s != nil {
		return *s
	}
	if n >= 0 && n < len(fatalKindNames) {
		return fatalKindNames[n]
	}
	return fmt.Sprintf("#%d", n)
}

// ---- building values ---------------------------------------------------------

func buildVM(s *Sx) *value.Value {
	if !s.IsL {
		switch s.Atom {
		case "null":
			return value.NewValueNull()
		case "none":
			return value.NewNoneOption()
		}
		panic("harness: bad value atom " + s.Atom)
	}
	switch s.Tag() {
	case "int":
		return value.NewValueInt(s.Arg(0).Int())
	case "float":
		return value.NewValueFloat(math.Float64frombits(sxUint(s.Arg(0))))
	case "bool":
		return value.NewValueBool(s.Arg(0).Bool())
	case "str":
		return value.NewValueString(s.Arg(0).Str())
	case "range":
		return value.NewValueRange(*value.NewValueInt(s.Arg(0).Int()), *value.NewValueInt(s.Arg(1).Int()), s.Arg(2).Bool())
	case "list":
		vals := make([]*value.Value, 0)
		for _, it := range s.List[1:] {
			vals = append(vals, buildVM(it))
		}
		return value.NewValueList(vals)
	case "some":
		return value.NewValueOption(buildVM(s.Arg(0)))
	case "anyobj", "obj":
		fields := map[string]*value.Value{}
		for _, it := range s.List[1:] {
			fields[it.List[0].Str()] = buildVM(it.List[1])
		}
		if s.Tag() == "obj" {
			return value.NewValueObject(fields)
		}
		return value.NewValueAnyObject(fields)
	}
	panic("harness: bad value tag " + s.Tag())
}

func buildTree(s *Sx) *ivalue.Value {
	if !s.IsL {
		switch s.Atom {
		case "null":
			return ivalue.NewValueNull()
		case "none":
			return ivalue.NewNoneOption()
		}
		panic("harness: bad value atom " + s.Atom)
	}
	switch s.Tag() {
	case "int":
		return ivalue.NewValueInt(s.Arg(0).Int())
	case "float":
		return ivalue.NewValueFloat(math.Float64frombits(sxUint(s.Arg(0))))
	case "bool":
		return ivalue.NewValueBool(s.Arg(0).Bool())
	case "str":
		return ivalue.NewValueString(s.Arg(0).Str())
	case "range":
		return ivalue.NewValueRange(*ivalue.NewValueInt(s.Arg(0).Int()), *ivalue.NewValueInt(s.Arg(1).Int()), s.Arg(2).Bool())
	case "list":
		vals := make([]*ivalue.Value, 0)
		for _, it := range s.List[1:] {
			vals = append(vals, buildTree(it))
		}
		return ivalue.NewValueList(vals)
	case "some":
		return ivalue.NewValueOption(buildTree(s.Arg(0)))
	case "anyobj", "obj":
		fields := map[string]*ivalue.Value{}
		for _, it := range s.List[1:] {
			fields[it.List[0].Str()] = buildTree(it.List[1])
		}
		if s.Tag() == "obj" {
			return ivalue.NewValueObject(fields)
		}
		return ivalue.NewValueAnyObject(fields)
	}
	panic("harness: bad value tag " + s.Tag())
}

func sxUint(s *Sx) uint64 {
	var v uint64
	if _, err := fmt.Sscanf(s.Atom, "%d", &v); err != nil {
		panic("harness: bad uint atom " + s.Atom)
	}
	return v
}

// ---- dumping values ----------------------------------------------------------

func dumpVM(v *value.Value, depth int) *Sx {
	if v == nil || *v == nil {
		return A("nil")
	}
	if depth > 40 {
		return T("other", S("too-deep"))
	}
	switch x := (*v).(type) {
	case value.ValueNull:
		return A("null")
	case value.ValueInt:
		return T("int", N(x.Inner))
	case value.ValueFloat:
		return T("float", A(fmt.Sprint(math.Float64bits(x.Inner))))
	case value.ValueBool:
		return T("bool", B(x.Inner))
	case value.ValueString:
		return T("str", S(x.Inner))
	case value.ValueRange:
		return T("range", dumpVM(x.Start, depth+1).rangeEnd(), dumpVM(x.End, depth+1).rangeEnd(), B(x.EndIsInclusive))
	case value.ValueList:
		items := []*Sx{}
		for _, it := range *x.Values {
			items = append(items, dumpVM(it, depth+1))
		}
		return T("list", items...)
	case value.ValueOption:
		if x.Inner == nil {
			return A("none")
		}
		return T("some", dumpVM(x.Inner, depth+1))
	case value.ValueAnyObject:
		return T("anyobj", dumpVMFields(x.FieldsInternal, depth)...)
	case value.ValueObject:
		return T("obj", dumpVMFields(x.FieldsInternal, depth)...)
	}
	k := (*v).Kind()
	if k == value.BuiltinFunctionValueKind || k == value.VmFunctionValueKind || k == value.FunctionValueKind || k == value.ClosureValueKind {
		return T("fn")
	}
	return T("other", S(k.String()))
}

// rangeEnd: range bounds are dumped as plain integers.
func (s *Sx) rangeEnd() *Sx {
	if s.IsL && s.Tag() == "int" {
		return s.Arg(0)
	}
	return s
}

func dumpVMFields(m map[string]*value.Value, depth int) []*Sx {
	keys := []string{}
	for k := range m {
		keys = append(keys, k)
	}
	sort.Strings(keys)
	items := []*Sx{}
	for _, k := range keys {
		items = append(items, L(S(k), dumpVM(m[k], depth+1)))
	}
	return items
}

func dumpTree(v *ivalue.Value, depth int) *Sx {
	if v == nil || *v == nil {
		return A("nil")
	}
	if depth > 40 {
		return T("other", S("too-deep"))
	}
	switch x := (*v).(type) {
	case ivalue.ValueNull:
		return A("null")
	case ivalue.ValueInt:
		return T("int", N(x.Inner))
	case ivalue.ValueFloat:
		return T("float", A(fmt.Sprint(math.Float64bits(x.Inner))))
	case ivalue.ValueBool:
		return T("bool", B(x.Inner))
	case ivalue.ValueString:
		return T("str", S(x.Inner))
	case ivalue.ValueRange:
		return T("range", dumpTree(x.Start, depth+1).rangeEnd(), dumpTree(x.End, depth+1).rangeEnd(), B(x.EndIsInclusive))
	case ivalue.ValueList:
		items := []*Sx{}
		for _, it := range *x.Values {
			items = append(items, dumpTree(it, depth+1))
		}
		return T("list", items...)
	case ivalue.ValueOption:
		if x.Inner == nil {
			return A("none")
		}
		return T("some", dumpTree(x.Inner, depth+1))
	case ivalue.ValueAnyObject:
		return T("anyobj", dumpTreeFields(x.FieldsInternal, depth)...)
	case ivalue.ValueObject:
		return T("obj", dumpTreeFields(x.FieldsInternal, depth)...)
	}
	k := (*v).Kind()
	if k == ivalue.BuiltinFunctionValueKind || k == ivalue.VmFunctionValueKind || k == ivalue.FunctionValueKind || k == ivalue.ClosureValueKind {
		return T("fn")
	}
	return T("other", S(k.String()))
}

func dumpTreeFields(m map[string]*ivalue.Value, depth int) []*Sx {
	keys := []string{}
	for k := range m {
		keys = append(keys, k)
	}
	sort.Strings(keys)
	items := []*Sx{}
	for _, k := range keys {
		items = append(items, L(S(k), dumpTree(m[k], depth+1)))
	}
	return items
}

// ---- the two sides -------------------------------------------------------------

var mcSpan = errors.Span{Start: errors.Location{Line: 1, Column: 1}, End: errors.Location{Line: 1, Column: 1}, Filename: "membercall"}

func vmDisplay(v *value.Value) string {
	if v == nil || *v == nil {
		return "<nil>"
	}
	d, i := (*v).Display()
	if i != nil {
		return "<display-error>"
	}
	return d
}

func treeDisplay(v *ivalue.Value) string {
	if v == nil || *v == nil {
		return "<nil>"
	}
	d, i := (*v).Display()
	if i != nil {
		return "<display-error>"
	}
	return d
}

func vmInterrupt(i *value.VmInterrupt, recv *value.Value) string {
	class, kind := "other", "-"
	switch it := (*i).(type) {
	case value.Vm_NormalException:
		class = "throw"
	case value.VmFatalException:
		class = "fatal"
		kind = safeKindName(int(it.ErrKind), func() string { return it.ErrKind.String() })
	case value.VmTerminationInterrupt:
		class = "term"
	case value.Vm_ExitInterrupt:
		class = "exit"
	}
	return fmt.Sprintf("INT class=%s kind=%s msg=%s recv=%s", class, kind, hexs(firstLine((*i).Message())), dumpVM(recv, 0))
}

func treeInterrupt(i *ivalue.Interrupt, recv *ivalue.Value) string {
	class, kind := "other", "-"
	switch it := (*i).(type) {
	case ivalue.ThrowInterrupt:
		class = "throw"
	case ivalue.RuntimeErr:
		class = "fatal"
		kind = safeKindName(int(it.ErrKind), func() string { return it.ErrKind.String() })
	case ivalue.TerminationInterrupt:
		class = "term"
	case ivalue.ExitInterrupt:
		class = "exit"
	}
	return fmt.Sprintf("INT class=%s kind=%s msg=%s recv=%s", class, kind, hexs(firstLine((*i).Message())), dumpTree(recv, 0))
}

func vmSide(sx *Sx) (res string) {
	defer func() {
		if r := recover(); r != nil {
			res = "PANIC " + hexs(firstLine(fmt.Sprint(r)))
		}
	}()
	recv := buildVM(sx.Arg(0))
	ctx := context.Background()
	okLine := func(ret *value.Value) string {
		kind := "nil"
		if ret != nil && *ret != nil {
			kind = strings.ReplaceAll((*ret).Kind().String(), " ", "-")
		}
		return fmt.Sprintf("OK kind=%s ret=%s recv=%s disp=%s rdisp=%s", kind, dumpVM(ret, 0), dumpVM(recv, 0),
			hexs(vmDisplay(ret)), hexs(vmDisplay(recv)))
	}
	switch sx.Tag() {
	case "index":
		idx := buildVM(sx.Arg(1))
		ret, i := value.IndexValue(recv, idx, func() errors.Span { return mcSpan })
		if i != nil {
			return vmInterrupt(i, recv)
		}
		return okLine(ret)
	case "seq":
		last := "OK kind=nil ret=nil recv=" + dumpVM(recv, 0).String() + " disp=x rdisp=x"
		for n, step := range sx.List[2:] {
			fields, i := (*recv).Fields()
			if i != nil {
				return vmInterrupt(i, recv) + fmt.Sprintf(" step=%d", n)
			}
			member, found := fields[step.List[0].Str()]
			if !found {
				return fmt.Sprintf("MISSING step=%d", n)
			}
			fn, isFn := (*member).(value.ValueBuiltinFunction)
			if !isFn {
				return fmt.Sprintf("NOTFN kind=%s step=%d", (*member).Kind().String(), n)
			}
			args := []value.Value{}
			for _, a := range step.List[1:] {
				args = append(args, *buildVM(a))
			}
			ret, i := fn.Callback(nil, &ctx, mcSpan, args...)
			if i != nil {
				return vmInterrupt(i, recv) + fmt.Sprintf(" step=%d", n)
			}
			last = okLine(ret) + fmt.Sprintf(" step=%d", n)
		}
		return last
	case "field", "call":
		fields, i := (*recv).Fields()
		if i != nil {
			return vmInterrupt(i, recv)
		}
		member, found := fields[sx.Arg(1).Str()]
		if !found {
			return "MISSING"
		}
		if sx.Tag() == "field" {
			return okLine(member)
		}
		fn, isFn := (*member).(value.ValueBuiltinFunction)
		if !isFn {
			return "NOTFN kind=" + (*member).Kind().String()
		}
		args := []value.Value{}
		for _, a := range sx.List[3:] {
			args = append(args, *buildVM(a))
		}
		ret, i := fn.Callback(nil, &ctx, mcSpan, args...)
		if i != nil {
			return vmInterrupt(i, recv)
		}
		return okLine(ret)
	}
	return "BAD-INPUT"
}

func treeSide(sx *Sx) (res string) {
	defer func() {
		if r := recover(); r != nil {
			res = "PANIC " + hexs(firstLine(fmt.Sprint(r)))
		}
	}()
	recv := buildTree(sx.Arg(0))
	ctx := context.Background()
	okLine := func(ret *ivalue.Value) string {
		kind := "nil"
		if ret != nil && *ret != nil {
			kind = strings.ReplaceAll((*ret).Kind().String(), " ", "-")
		}
		return fmt.Sprintf("OK kind=%s ret=%s recv=%s disp=%s rdisp=%s", kind, dumpTree(ret, 0), dumpTree(recv, 0),
			hexs(treeDisplay(ret)), hexs(treeDisplay(recv)))
	}
	switch sx.Tag() {
	case "index":
		idx := buildTree(sx.Arg(1))
		ret, i := ivalue.IndexValue(recv, idx, func() errors.Span { return mcSpan })
		if i != nil {
			return treeInterrupt(i, recv)
		}
		return okLine(ret)
	case "seq":
		last := "OK kind=nil ret=nil recv=" + dumpTree(recv, 0).String() + " disp=x rdisp=x"
		for n, step := range sx.List[2:] {
			fields, i := (*recv).Fields()
			if i != nil {
				return treeInterrupt(i, recv) + fmt.Sprintf(" step=%d", n)
			}
			member, found := fields[step.List[0].Str()]
			if !found {
				return fmt.Sprintf("MISSING step=%d", n)
			}
			fn, isFn := (*member).(ivalue.ValueBuiltinFunction)
			if !isFn {
				return fmt.Sprintf("NOTFN kind=%s step=%d", (*member).Kind().String(), n)
			}
			args := []ivalue.Value{}
			for _, a := range step.List[1:] {
				args = append(args, *buildTree(a))
			}
			ret, i := fn.Callback(nil, &ctx, mcSpan, args...)
			if i != nil {
				return treeInterrupt(i, recv) + fmt.Sprintf(" step=%d", n)
			}
			last = okLine(ret) + fmt.Sprintf(" step=%d", n)
		}
		return last
	case "field", "call":
		fields, i := (*recv).Fields()
		if i != nil {
			return treeInterrupt(i, recv)
		}
		member, found := fields[sx.Arg(1).Str()]
		if !found {
			return "MISSING"
		}
		if sx.Tag() == "field" {
			return okLine(member)
		}
		fn, isFn := (*member).(ivalue.ValueBuiltinFunction)
		if !isFn {
			return "NOTFN kind=" + (*member).Kind().String()
		}
		args := []ivalue.Value{}
		for _, a := range sx.List[3:] {
			args = append(args, *buildTree(a))
		}
		ret, i := fn.Callback(nil, &ctx, mcSpan, args...)
		if i != nil {
			return treeInterrupt(i, recv)
		}
		return okLine(ret)
	}
	return "BAD-INPUT"
}

func memberCallLine(line string) string {
	sx, err := parseSx(line)
	if err != nil || !sx.IsL || sx.NArgs() < 2 {
		return "BAD-INPUT"
	}
	return "VM=" + vmSide(sx) + " | TREE=" + treeSide(sx)
}
