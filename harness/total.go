package main

// hv total — totality of Parse/Analyze and well-formedness + renderability of every reported
// position (C05, C08).
//
// Input line:  (total (main SRC) (mod x<name> SRC)… [(file x<name>)] [(nomain)])
//   SRC = x<hex of the bytes> | (c1 c2 …) code points. `file` = file name given to the entry module
//   (default "main"). Modules are served by an in-memory host (`ResolveCodeModule`).
// Output line: fields separated by " | ":
//   <class> psoft=<n> phard=<0|1> syn=<n> diag=<hints>/<infos>/<warnings>/<errors> items=<n> bad=<n> mods=<analysed modules>
//   then up to maxItems items (every item with a problem is printed first):
//   <P|A><S|H|D> k=<kind/level> sp=<sl.sc.si-el.ec.ei> f=x<file> pos=<in|whole|bad:reason> ord=<0|1>
//        disp=<ok|panic:x..> edisp=<ok|panic:x..> ddisp=<ok|panic:x..> m=x<message prefix>
//   class: ok (no syntax error, no error-level diagnostic) | errors | PANIC:<where>:x<msg>
//   P = from homescript.Parse, A = from homescript.Analyze; S soft syntax error, H hard syntax error,
//   D diagnostic. `disp` is the renderer of the item's own type; `edisp`/`ddisp` are BOTH renderers
//   applied to the item's span (tie data for the Lean transcription `renderErrOK`/`renderDiagOK`).
//   pos: `in` = both ends are real positions of the named file's text (index ≤ rune count, line and
//   column as recomputed from the text) ; `whole` = the all-zero span naming a known file;
//   `whole-nofile` = the all-zero span without a file name (what builtin definitions carry).
// A hang or a fatal stack overflow kills the process: a watchdog exits with "fatal error: watchdog"
// after -limit seconds per line (core.go_lines attributes the dead worker to the line).
//
// hv disp — both renderers on an arbitrary span (tie for `render_safe`).
//   Input:  (disp SRC sl sc si el ec ei level)      Output: err=<ok|panic:x..> diag=<ok|panic:x..>
//
// hv spans — runtime positions: analyse, run on both backends, print every interrupt's span, the
//   program output (catch blocks print e.line/e.column/e.filename themselves) and the source ranges of
//   candidate culprit constructs taken from the analysed AST.
//   Input:  (run … ) exactly as `hv run`
//   Output: A=… | VM=<outcome with span=<sl.sc.si-el.ec.ei>@x<file>> | TREE=… | C=<kind>:<detail>@x<module>:<sl.sc-el.ec> …

import (
	"context"
	"flag"
	"fmt"
	"os"
	"runtime/debug"
	"sort"
	"strings"
	"sync"
	"time"

	hms "github.com/smarthome-go/homescript/v3/homescript"
	"github.com/smarthome-go/homescript/v3/homescript/analyzer"
	aast "github.com/smarthome-go/homescript/v3/homescript/analyzer/ast"
	"github.com/smarthome-go/homescript/v3/homescript/compiler"
	"github.com/smarthome-go/homescript/v3/homescript/diagnostic"
	"github.com/smarthome-go/homescript/v3/homescript/errors"
	ivalue "github.com/smarthome-go/homescript/v3/homescript/interpreter/value"
	past "github.com/smarthome-go/homescript/v3/homescript/parser/ast"
	"github.com/smarthome-go/homescript/v3/homescript/runtime"
	"github.com/smarthome-go/homescript/v3/homescript/runtime/value"
)

func init() {
	register("total", func(args []string) int { return watched(args, totalLine) })
	register("disp", func(args []string) int { return watched(args, dispLine) })
	register("spans", func(args []string) int { return watched(args, spansLine) })
}

// watched: lineLoop with a per-line watchdog and a bounded goroutine stack.
func watched(args []string, f func(string) string) int {
	fs := flag.NewFlagSet("total", flag.ContinueOnError)
	limit := fs.Float64("limit", 20, "seconds per line before the watchdog kills the process")
	maxStack := fs.Int("maxstack", 512, "goroutine stack limit in MiB")
	if err := fs.Parse(args); err != nil {
		return 2
	}
	debug.SetMaxStack(*maxStack << 20)
	return lineLoop(func(line string) string {
		t := time.AfterFunc(time.Duration(*limit*float64(time.Second)), func() {
			fmt.Fprintf(os.Stderr, "fatal error: watchdog: line not answered within %gs\n", *limit)
			os.Exit(3)
		})
		defer t.Stop()
		return f(line)
	})
}

// ---- host -----------------------------------------------------------------------------------

type totalHost struct{ mods map[string]string }

func (h totalHost) GetBuiltinImport(m, v string, s errors.Span, k past.IMPORT_KIND) (analyzer.BuiltinImport, bool, bool) {
	return hostBuiltinImport(m, v, s, k)
}
func (h totalHost) ResolveCodeModule(m string) (string, bool, error) {
	c, ok := h.mods[m]
	return c, ok, nil
}
func (h totalHost) PostValidationHook(map[string]aast.AnalyzedProgram, string, *analyzer.Analyzer, bool) []diagnostic.Diagnostic {
	return nil
}
func (h totalHost) GetKnownObjectTypeFieldAnnotations() []string { return nil }

// ---- positions --------------------------------------------------------------------------------

// textIndex: independent recomputation of (line, column) for every rune index of a text
// (line = 1 + newlines before it, column = 1 + runes since the last newline).
type textIndex struct {
	n    int
	line []uint32
	col  []uint32
}

func indexText(text string) *textIndex {
	rs := []rune(text)
	ti := &textIndex{n: len(rs), line: make([]uint32, len(rs)+1), col: make([]uint32, len(rs)+1)}
	l, c := uint32(1), uint32(1)
	for i, r := range rs {
		ti.line[i], ti.col[i] = l, c
		if r == '\n' {
			l++
			c = 1
		} else {
			c++
		}
	}
	ti.line[len(rs)], ti.col[len(rs)] = l, c
	return ti
}

func (ti *textIndex) real(l errors.Location) string {
	if int(l.Index) > ti.n || l.Index > 1<<31 {
		return "index-past-end"
	}
	if uint(ti.line[l.Index]) != l.Line {
		return "line"
	}
	if uint(ti.col[l.Index]) != l.Column {
		return "column"
	}
	return ""
}

func fullLoc(l errors.Location) string { return fmt.Sprintf("%d.%d.%d", l.Line, l.Column, l.Index) }
func fullSpan(s errors.Span) string    { return fullLoc(s.Start) + "-" + fullLoc(s.End) }

func isZeroSpan(s errors.Span) bool {
	z := errors.Location{}
	return s.Start == z && s.End == z
}

func tryDisplay(f func() string) (res string) {
	defer func() {
		if r := recover(); r != nil {
			res = "panic:" + hexs(firstLine(fmt.Sprint(r)))
		}
	}()
	_ = f()
	return "ok"
}

type totalCase struct {
	mods   map[string]string
	file   string
	nomain bool
	index  map[string]*textIndex
}

func (c *totalCase) idx(file string) *textIndex {
	if ti, ok := c.index[file]; ok {
		return ti
	}
	text, ok := c.mods[file]
	if !ok {
		c.index[file] = nil
		return nil
	}
	ti := indexText(text)
	c.index[file] = ti
	return ti
}

type item struct {
	line string
	bad  bool
}

// judge one reported span: position class, order, both renderers.
func (c *totalCase) judge(tag string, kind int, sp errors.Span, msg string, own string) item {
	pos := ""
	ti := c.idx(sp.Filename)
	switch {
	case isZeroSpan(sp) && sp.Filename == "":
		pos = "whole-nofile" // the position of builtins: no file, no location
	case ti == nil:
		pos = "bad:unknown-file"
	case isZeroSpan(sp):
		pos = "whole"
	default:
		if r := ti.real(sp.Start); r != "" {
			pos = "bad:start-" + r
		} else if r := ti.real(sp.End); r != "" {
			pos = "bad:end-" + r
		} else {
			pos = "in"
		}
	}
	ord := 0
	if sp.Start.Index <= sp.End.Index {
		ord = 1
	}
	text := c.mods[sp.Filename] // "" for an unknown file: what a host without the text would pass
	edisp := tryDisplay(func() string { return errors.Error{Kind: errors.SyntaxError, Message: "m", Span: sp}.Display(text) })
	lvl := diagnostic.DiagnosticLevelError
	if own == "d" {
		lvl = diagnostic.DiagnosticLevel(kind)
	}
	ddisp := tryDisplay(func() string {
		return diagnostic.Diagnostic{Level: lvl, Message: "m", Notes: []string{"n"}, Span: sp}.Display(text)
	})
	disp := edisp
	if own == "d" {
		disp = ddisp
	}
	if len(msg) > 48 {
		msg = msg[:48]
	}
	bad := strings.HasPrefix(pos, "bad") || ord == 0 || disp != "ok"
	return item{
		line: fmt.Sprintf("%s k=%d sp=%s f=%s pos=%s ord=%d disp=%s edisp=%s ddisp=%s m=%s", tag, kind, fullSpan(sp),
			hexs(sp.Filename), pos, ord, disp, edisp, ddisp, hexs(msg)),
		bad: bad,
	}
}

const maxItems = 48

func srcOf(s *Sx) string {
	if s.IsL {
		return s.Runes()
	}
	return s.Str()
}

func parseTotal(line string) (*totalCase, error) {
	sx, err := parseSx(line)
	if err != nil {
		return nil, err
	}
	c := &totalCase{mods: map[string]string{}, file: "main", index: map[string]*textIndex{}}
	main := ""
	for _, it := range sx.List[1:] {
		switch it.Tag() {
		case "main":
			main = srcOf(it.Arg(0))
		case "mod":
			c.mods[it.Arg(0).Str()] = srcOf(it.Arg(1))
		case "file":
			c.file = it.Arg(0).Str()
		case "nomain":
			c.nomain = true
		}
	}
	c.mods[c.file] = main
	return c, nil
}

func totalLine(line string) string {
	c, err := parseTotal(line)
	if err != nil {
		return "BAD-INPUT"
	}
	text := c.mods[c.file]
	class := ""
	items := []item{}

	// 1. Parse alone
	psoft, phard := 0, 0
	func() {
		defer func() {
			if r := recover(); r != nil {
				class = "PANIC:parse:" + hexs(firstLine(fmt.Sprint(r)))
				if os.Getenv("VERIF_TRACE") != "" {
					os.Stderr.Write(debug.Stack())
				}
			}
		}()
		_, soft, hard := hms.Parse(text, c.file)
		psoft = len(soft)
		for _, e := range soft {
			items = append(items, c.judge("PS", int(e.Kind), e.Span, e.Message, "e"))
		}
		if hard != nil {
			phard = 1
			items = append(items, c.judge("PH", int(hard.Kind), hard.Span, hard.Message, "e"))
		}
	}()

	// 2. Analyze (parses again, resolves imports through the host)
	nsyn := 0
	lv := [4]int{}
	modNames := []string{}
	if class == "" {
		func() {
			defer func() {
				if r := recover(); r != nil {
					class = "PANIC:analyze:" + hexs(firstLine(fmt.Sprint(r)))
					if os.Getenv("VERIF_TRACE") != "" {
						os.Stderr.Write(debug.Stack())
					}
				}
			}()
			analysed, diags, syn := hms.Analyze(hms.InputProgram{ProgramText: text, Filename: c.file},
				hms.TestingAnalyzerScopeAdditions(), totalHost{c.mods}, !c.nomain)
			for n := range analysed {
				modNames = append(modNames, n)
			}
			sort.Strings(modNames)
			nsyn = len(syn)
			for _, e := range syn {
				items = append(items, c.judge("AS", int(e.Kind), e.Span, e.Message, "e"))
			}
			for _, d := range diags {
				if int(d.Level) < 4 {
					lv[d.Level]++
				}
				items = append(items, c.judge("AD", int(d.Level), d.Span, d.Message, "d"))
			}
			if psoft+phard > 0 && nsyn < psoft+phard {
				class = "PANIC:analyze:" + hexs("syntax errors of Parse are missing from Analyze's result")
			}
		}()
	}
	if class == "" {
		if nsyn > 0 || psoft+phard > 0 || lv[3] > 0 {
			class = "errors"
		} else {
			class = "ok"
		}
	}
	nbad := 0
	for _, it := range items {
		if it.bad {
			nbad++
		}
	}
	parts := []string{fmt.Sprintf("%s psoft=%d phard=%d syn=%d diag=%d/%d/%d/%d items=%d bad=%d mods=%s", class, psoft, phard, nsyn,
		lv[0], lv[1], lv[2], lv[3], len(items), nbad, strings.Join(modNames, ","))}
	shown := 0
	for _, it := range items {
		if it.bad && shown < maxItems {
			parts = append(parts, it.line)
			shown++
		}
	}
	for _, it := range items {
		if !it.bad && shown < maxItems {
			parts = append(parts, it.line)
			shown++
		}
	}
	return strings.Join(parts, " | ")
}

// ---- hv disp ------------------------------------------------------------------------------------

func dispLine(line string) string {
	sx, err := parseSx(line)
	if err != nil || sx.NArgs() < 8 {
		return "BAD-INPUT"
	}
	text := srcOf(sx.Arg(0))
	u := func(i int) uint { return uint(sx.Arg(i).Int()) }
	sp := errors.Span{
		Start:    errors.Location{Line: u(1), Column: u(2), Index: u(3)},
		End:      errors.Location{Line: u(4), Column: u(5), Index: u(6)},
		Filename: "f",
	}
	lvl := diagnostic.DiagnosticLevel(u(7))
	e := tryDisplay(func() string { return errors.Error{Kind: errors.SyntaxError, Message: "m", Span: sp}.Display(text) })
	d := tryDisplay(func() string {
		return diagnostic.Diagnostic{Level: lvl, Message: "m", Notes: []string{"n"}, Span: sp}.Display(text)
	})
	return fmt.Sprintf("err=%s diag=%s", e, d)
}

// ---- hv spans -------------------------------------------------------------------------------------

func spanAt(s errors.Span) string { return fullSpan(s) + "@" + hexs(s.Filename) }

type spansVmExec struct {
	hms.TestingVmExecutor
	mu  *sync.Mutex
	out *strings.Builder
}

func (e spansVmExec) WriteStringTo(s string) error {
	e.mu.Lock()
	e.out.WriteString(s)
	e.mu.Unlock()
	return nil
}

func spansVM(analyzed map[string]aast.AnalyzedProgram, o runOpts) (res string) {
	var out strings.Builder
	mu := &sync.Mutex{}
	defer func() {
		if r := recover(); r != nil {
			res = fmt.Sprintf("PANIC %s out=%s", hexs(firstLine(fmt.Sprint(r))), hexs(out.String()))
		}
	}()
	c := compiler.NewCompiler(analyzed, "main")
	prog, err := c.Compile()
	if err != nil {
		return "COMPILE-ERROR " + hexs(err.Error())
	}
	ctx, cancel := context.WithTimeout(context.Background(), o.timeout)
	defer cancel()
	vm := runtime.NewVM(prog, spansVmExec{mu: mu, out: &out}, &ctx, &cancel, hms.TestingVmScopeAdditions(), o.limits)
	vm.SpawnAsync(runtime.MainFn(), nil, nil, nil)
	_, i := vm.Wait()
	mu.Lock()
	defer mu.Unlock()
	if i != nil {
		switch it := (*i).(type) {
		case value.VmFatalException:
			return fmt.Sprintf("FATAL kind=%s msg=%s span=%s out=%s", it.ErrKind.String(), hexs(firstLine(it.Message())), spanAt(it.Span), hexs(out.String()))
		case value.VmTerminationInterrupt:
			return fmt.Sprintf("TERM span=%s out=%s", spanAt((*i).GetSpan()), hexs(out.String()))
		default:
			return fmt.Sprintf("INTERRUPT kind=%s msg=%s span=%s out=%s", (*i).KindString(), hexs(firstLine((*i).Message())), spanAt((*i).GetSpan()), hexs(out.String()))
		}
	}
	return fmt.Sprintf("OK out=%s", hexs(out.String()))
}

func spansTree(analyzed map[string]aast.AnalyzedProgram, o runOpts) (res string) {
	var out strings.Builder
	defer func() {
		if r := recover(); r != nil {
			res = fmt.Sprintf("PANIC %s out=%s", hexs(firstLine(fmt.Sprint(r))), hexs(out.String()))
		}
	}()
	ctx, cancel := context.WithTimeout(context.Background(), o.timeout)
	defer cancel()
	i := hms.Run(o.treeCall, analyzed, "main", treeExec{out: &out}, hms.TestingInterpreterScopeAdditions(), &ctx)
	if i != nil {
		switch it := (*i).(type) {
		case ivalue.RuntimeErr:
			return fmt.Sprintf("FATAL kind=%s msg=%s span=%s out=%s", it.ErrKind.String(), hexs(firstLine(it.Message())), spanAt(it.Span), hexs(out.String()))
		case ivalue.TerminationInterrupt:
			return fmt.Sprintf("TERM out=%s", hexs(out.String()))
		default:
			return fmt.Sprintf("INTERRUPT kind=%s msg=%s span=%s out=%s", (*i).Kind().String(), hexs(firstLine((*i).Message())), spanAt((*i).GetSpan()), hexs(out.String()))
		}
	}
	return fmt.Sprintf("OK out=%s", hexs(out.String()))
}

// culprit candidates: every function definition and every call / infix / index / member / cast / prefix node of the analysed AST
// with its source range, from the S-expression form of harness/ast.go.
func collectCands(mod string, s *Sx, out *[]string) {
	if s == nil || !s.IsL {
		return
	}
	if tag := s.Tag(); tag != "" && s.NArgs() >= 1 && s.Arg(0).IsL && len(s.Arg(0).List) == 4 {
		sp := s.Arg(0).List
		detail := ""
		switch tag {
		case "call":
			if s.NArgs() >= 3 && s.Arg(2).Tag() == "ident" && s.Arg(2).NArgs() >= 3 {
				detail = s.Arg(2).Arg(2).Atom
			}
		case "infix", "assign":
			if s.NArgs() >= 3 {
				detail = s.Arg(2).Atom
			}
		case "member":
			if s.NArgs() >= 4 {
				detail = s.Arg(3).Atom
			}
		case "fn":
			if s.NArgs() >= 2 {
				detail = s.Arg(1).Atom
			}
		}
		switch tag {
		case "call", "infix", "assign", "index", "member", "cast", "prefix", "let", "fn":
			*out = append(*out, fmt.Sprintf("%s:%s@%s:%s.%s-%s.%s", tag, detail, hexs(mod), sp[0].Atom, sp[1].Atom, sp[2].Atom, sp[3].Atom))
		}
	}
	for _, it := range s.List {
		collectCands(mod, it, out)
	}
}

func spansLine(line string) string {
	mods, o, err := parseRun(line)
	if err != nil {
		return "BAD-INPUT"
	}
	var analyzed map[string]aast.AnalyzedProgram
	verdict := ""
	ok := false
	func() {
		defer func() {
			if r := recover(); r != nil {
				verdict = "A=PANIC " + hexs(firstLine(fmt.Sprint(r)))
			}
		}()
		analyzed, verdict, ok = analyzeMods(mods)
	}()
	parts := []string{verdict}
	if !ok {
		return verdict
	}
	for _, b := range o.backends {
		switch b {
		case "vm":
			parts = append(parts, "VM="+spansVM(analyzed, o))
		case "tree":
			parts = append(parts, "TREE="+spansTree(analyzed, o))
		}
	}
	cands := []string{}
	names := []string{}
	for n := range analyzed {
		names = append(names, n)
	}
	sort.Strings(names)
	for _, n := range names {
		collectCands(n, sxProgram(n, analyzed[n]), &cands)
	}
	parts = append(parts, "C="+strings.Join(cands, " "))
	return strings.Join(parts, " | ")
}
