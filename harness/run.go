package main

// hv run — analyse, then execute a multi-module program on the VM and/or the
// tree-walking interpreter (C01, C02, C04, C09, C11, C12, C15, C19, C20 …).
//
// Input line:  (run (opt k v)… (main x<hex>) (mod x<name> x<hex>)…)
//   options: (backends vm tree) (limits calls stack mem) (ast true) (entry x<fn>) (timeout ms)
//            (singletons (x<name> V)…)   values the host provides for singletons (V as in values.go);
//                                        every other singleton is "not found" (zero value of its type)
// Output line: fields separated by " | ":
//   A=ACCEPT | A=REJECT syn=<n> diag=<n> first=<hex>
//   VM=<outcome>    TREE=<outcome>    AST=<sexp>
// Outcomes:  OK out=<hex> trig=<hex> stack=<n> mp=<n> handlers=<n>
//            FATAL kind=<k> msg=<hex first line> span=<l.c-l.c> out=<hex> trig=<hex>
//            TERM out=<hex>          PANIC <hex> out=<hex>

import (
	"context"
	"fmt"
	"sort"
	"strings"
	"sync"
	"time"

	hms "github.com/smarthome-go/homescript/v3/homescript"
	"github.com/smarthome-go/homescript/v3/homescript/analyzer"
	aast "github.com/smarthome-go/homescript/v3/homescript/analyzer/ast"
	"github.com/smarthome-go/homescript/v3/homescript/compiler"
	"github.com/smarthome-go/homescript/v3/homescript/diagnostic"
	"github.com/smarthome-go/homescript/v3/homescript/errors"
	ivalue "github.com/smarthome-go/homescript/v3/homescript/interpreter/value"
	past "github.com/smarthome-go/homescript/v3/homescript/parser/ast"
	"github.com/smarthome-go/homescript/v3/homescript/runtime"
	"github.com/smarthome-go/homescript/v3/homescript/runtime/value"
)

func init() { register("run", func(args []string) int { return lineLoop(runLine) }) }

// ---- analyzer host serving modules from memory ----------------------------

type memHost struct{ mods map[string]string }

func (h memHost) GetBuiltinImport(m, v string, s errors.Span, k past.IMPORT_KIND) (analyzer.BuiltinImport, bool, bool) {
	return hostBuiltinImport(m, v, s, k)
}
func (h memHost) ResolveCodeModule(m string) (string, bool, error) { c, ok := h.mods[m]; return c, ok, nil }
func (h memHost) PostValidationHook(map[string]aast.AnalyzedProgram, string, *analyzer.Analyzer, bool) []diagnostic.Diagnostic {
	return nil
}
func (h memHost) GetKnownObjectTypeFieldAnnotations() []string { return nil }

// ---- executors ---------------------------------------------------------------

type vmExec struct {
	hms.TestingVmExecutor
	mu    *sync.Mutex
	out   *strings.Builder
	trig  *strings.Builder
	sings map[string]*Sx
}

// LoadSingleton: the host-provided value (built afresh on every request) for the listed names.
func (e vmExec) LoadSingleton(singletonIdent, moduleName string) (value.Value, bool, error) {
	if sx, ok := e.sings[singletonIdent]; ok {
		return *rvBuild(sx), true, nil
	}
	return nil, false, nil
}

func (e vmExec) WriteStringTo(s string) error {
	e.mu.Lock()
	e.out.WriteString(s)
	e.mu.Unlock()
	return nil
}

func (e vmExec) RegisterTrigger(cb string, trigger string, span errors.Span, args []value.Value) error {
	parts := []string{}
	for _, a := range args {
		d, i := a.Display()
		if i != nil {
			d = "<display-error>"
		}
		parts = append(parts, d)
	}
	e.mu.Lock()
	fmt.Fprintf(e.trig, "%s<-%s(%s);", cb, trigger, strings.Join(parts, ","))
	e.mu.Unlock()
	return nil
}

type treeExec struct {
	hms.TestingTreeExecutor
	out   *strings.Builder
	sings map[string]*Sx
}

func (e treeExec) LoadSingleton(ident string, typ aast.Type) (*ivalue.Value, bool, *ivalue.Interrupt) {
	if sx, ok := e.sings[ident]; ok {
		return ivBuild(sx), true, nil
	}
	return nil, false, nil
}

func (e treeExec) WriteStringTo(s string) error { e.out.WriteString(s); return nil }

// ---- running --------------------------------------------------------------------

type runOpts struct {
	backends []string
	limits   runtime.CoreLimits
	treeCall uint
	ast      bool
	asm      bool
	entry    string
	timeout  time.Duration
	sings    map[string]*Sx
}

func firstLine(s string) string { return strings.SplitN(s, "\n", 2)[0] }

func spanStr(s errors.Span) string {
	return fmt.Sprintf("%d.%d-%d.%d", s.Start.Line, s.Start.Column, s.End.Line, s.End.Column)
}

func analyzeMods(mods map[string]string) (map[string]aast.AnalyzedProgram, string, bool) {
	analyzed, diags, syn := hms.Analyze(hms.InputProgram{ProgramText: mods["main"], Filename: "main"},
		hms.TestingAnalyzerScopeAdditions(), memHost{mods}, true)
	nerr := 0
	first := ""
	for _, s := range syn {
		if first == "" {
			first = "syntax: " + s.Message
		}
	}
	for _, d := range diags {
		if d.Level == diagnostic.DiagnosticLevelError {
			nerr++
			if first == "" {
				first = d.Message
			}
		}
	}
	if len(syn) > 0 || nerr > 0 {
		return nil, fmt.Sprintf("A=REJECT syn=%d diag=%d first=%s", len(syn), nerr, hexs(first)), false
	}
	return analyzed, "A=ACCEPT", true
}

func runVM(analyzed map[string]aast.AnalyzedProgram, o runOpts) (res string) {
	var out, trig strings.Builder
	mu := &sync.Mutex{}
	defer func() {
		if r := recover(); r != nil {
			res = fmt.Sprintf("PANIC %s out=%s", hexs(firstLine(fmt.Sprint(r))), hexs(out.String()))
		}
	}()
	c := compiler.NewCompiler(analyzed, "main")
	prog, err := c.Compile()
	if err != nil {
		return "COMPILE-ERROR " + hexs(err.Error())
	}
	ctx, cancel := context.WithTimeout(context.Background(), o.timeout)
	defer cancel()
	ex := vmExec{mu: mu, out: &out, trig: &trig, sings: o.sings}
	vm := runtime.NewVM(prog, ex, &ctx, &cancel, hms.TestingVmScopeAdditions(), o.limits)
	inv := runtime.MainFn()
	if o.entry != "" {
		inv.Function = o.entry
	}
	core := vm.SpawnAsync(inv, nil, nil, nil)
	_, i := vm.Wait()
	mu.Lock()
	defer mu.Unlock()
	if i != nil {
		switch it := (*i).(type) {
		case value.VmFatalException:
			// calls: the rest of the message (the stack trace with the mangled names of the active functions)
			return fmt.Sprintf("FATAL kind=%s msg=%s span=%s out=%s trig=%s calls=%s", it.ErrKind.String(), hexs(firstLine(it.Message())),
				spanStr(it.Span), hexs(out.String()), hexs(trig.String()), hexs(strings.TrimPrefix(it.Message(), firstLine(it.Message()))))
		case value.VmTerminationInterrupt:
			return fmt.Sprintf("TERM out=%s", hexs(out.String()))
		default:
			return fmt.Sprintf("INTERRUPT kind=%s msg=%s span=%s out=%s", (*i).KindString(), hexs(firstLine((*i).Message())),
				spanStr((*i).GetSpan()), hexs(out.String()))
		}
	}
	return fmt.Sprintf("OK out=%s trig=%s stack=%d mp=%d handlers=%d", hexs(out.String()), hexs(trig.String()),
		len(core.Stack), core.MemoryPointer, len(core.ExceptionCatchLabels))
}

func runTree(analyzed map[string]aast.AnalyzedProgram, o runOpts) (res string) {
	var out strings.Builder
	defer func() {
		if r := recover(); r != nil {
			res = fmt.Sprintf("PANIC %s out=%s", hexs(firstLine(fmt.Sprint(r))), hexs(out.String()))
		}
	}()
	ctx, cancel := context.WithTimeout(context.Background(), o.timeout)
	defer cancel()
	ex := treeExec{out: &out, sings: o.sings}
	i := hms.Run(o.treeCall, analyzed, "main", ex, hms.TestingInterpreterScopeAdditions(), &ctx)
	if i != nil {
		switch it := (*i).(type) {
		case ivalue.RuntimeErr:
			return fmt.Sprintf("FATAL kind=%s msg=%s span=%s out=%s trig=x", it.ErrKind.String(), hexs(firstLine(it.Message())),
				spanStr(it.Span), hexs(out.String()))
		case ivalue.TerminationInterrupt:
			return fmt.Sprintf("TERM out=%s", hexs(out.String()))
		default:
			return fmt.Sprintf("INTERRUPT kind=%s msg=%s out=%s", (*i).Kind().String(), hexs(firstLine((*i).Message())), hexs(out.String()))
		}
	}
	return fmt.Sprintf("OK out=%s trig=x", hexs(out.String()))
}

func parseRun(line string) (map[string]string, runOpts, error) {
	sx, err := parseSx(line)
	if err != nil {
		return nil, runOpts{}, err
	}
	mods := map[string]string{}
	o := runOpts{
		backends: []string{"vm", "tree"},
		limits:   runtime.CoreLimits{CallStackMaxSize: 100, StackMaxSize: 500, MaxMemorySize: 10000},
		treeCall: 100,
		timeout:  3 * time.Second,
	}
	for _, it := range sx.List[1:] {
		switch it.Tag() {
		case "main":
			mods["main"] = it.Arg(0).Str()
		case "mod":
			mods[it.Arg(0).Str()] = it.Arg(1).Str()
		case "backends":
			o.backends = nil
			for _, b := range it.List[1:] {
				o.backends = append(o.backends, b.Atom)
			}
		case "limits":
			o.limits = runtime.CoreLimits{CallStackMaxSize: uint(it.Arg(0).Int()), StackMaxSize: uint(it.Arg(1).Int()), MaxMemorySize: uint(it.Arg(2).Int())}
			o.treeCall = uint(it.Arg(0).Int())
		case "ast":
			o.ast = it.Arg(0).Bool()
		case "asm":
			o.asm = it.Arg(0).Bool()
		case "entry":
			o.entry = it.Arg(0).Str()
		case "timeout":
			o.timeout = time.Duration(it.Arg(0).Int()) * time.Millisecond
		case "singletons":
			o.sings = map[string]*Sx{}
			for _, kv := range it.List[1:] {
				o.sings[kv.List[0].Str()] = kv.List[1]
			}
		}
	}
	return mods, o, nil
}

func runLine(line string) string {
	mods, o, err := parseRun(line)
	if err != nil {
		return "BAD-INPUT"
	}
	var analyzed map[string]aast.AnalyzedProgram
	verdict := ""
	ok := false
	func() {
		defer func() {
			if r := recover(); r != nil {
				verdict = "A=PANIC " + hexs(firstLine(fmt.Sprint(r)))
			}
		}()
		analyzed, verdict, ok = analyzeMods(mods)
	}()
	parts := []string{verdict}
	if ok {
		for _, b := range o.backends {
			switch b {
			case "vm":
				parts = append(parts, "VM="+runVM(analyzed, o))
			case "tree":
				parts = append(parts, "TREE="+runTree(analyzed, o))
			}
		}
		if o.asm {
			parts = append(parts, "ASM="+asmDump(analyzed))
		}
		if o.ast {
			parts = append(parts, "AST="+sxModules(analyzed).String())
		}
	}
	return strings.Join(parts, " | ")
}

// asmDump: the instruction stream of the real compiler, one function per block, in the
// textual form of Instruction.String() (cast instructions without their type).
func asmDump(analyzed map[string]aast.AnalyzedProgram) (res string) {
	defer func() {
		if r := recover(); r != nil {
			res = "PANIC " + hexs(firstLine(fmt.Sprint(r)))
		}
	}()
	c := compiler.NewCompiler(analyzed, "main")
	prog, err := c.Compile()
	if err != nil {
		return "COMPILE-ERROR " + hexs(err.Error())
	}
	names := []string{}
	for n := range prog.Functions {
		names = append(names, n)
	}
	sort.Strings(names)
	var b strings.Builder
	for _, n := range names {
		fmt.Fprintf(&b, "FN %s\n", n)
		for _, ins := range prog.Functions[n] {
			if ci, ok := ins.(compiler.CastInstruction); ok {
				fmt.Fprintf(&b, "Cast(perform_cast=%t)\n", ci.AllowCast)
			} else {
				b.WriteString(ins.String() + "\n")
			}
		}
	}
	return hexs(b.String())
}
