package main

import (
	"fmt"
	"sort"
	"strings"

	aast "github.com/smarthome-go/homescript/v3/homescript/analyzer/ast"
	"github.com/smarthome-go/homescript/v3/homescript/errors"
	ivalue "github.com/smarthome-go/homescript/v3/homescript/interpreter/value"
	past "github.com/smarthome-go/homescript/v3/homescript/parser/ast"
	"github.com/smarthome-go/homescript/v3/homescript/runtime/value"
)

// Representative types per kind; list/option are dumped for several element
// types so that element-dependent members are seen.
type typeRep struct {
	name string
	typ  aast.Type
}

func typeReps() []typeRep {
	sp := errors.Span{}
	obj := aast.NewObjectType([]aast.ObjectTypeField{
		aast.NewObjectTypeField(past.NewSpannedIdent("a", sp), aast.NewIntType(sp), sp),
	}, sp)
	return []typeRep{
		{"null", aast.NewNullType(sp)},
		{"int", aast.NewIntType(sp)},
		{"float", aast.NewFloatType(sp)},
		{"bool", aast.NewBoolType(sp)},
		{"str", aast.NewStringType(sp)},
		{"range", aast.NewRangeType(sp)},
		{"list_int", aast.NewListType(aast.NewIntType(sp), sp)},
		{"list_str", aast.NewListType(aast.NewStringType(sp), sp)},
		{"list_float", aast.NewListType(aast.NewFloatType(sp), sp)},
		{"list_bool", aast.NewListType(aast.NewBoolType(sp), sp)},
		{"list_list_int", aast.NewListType(aast.NewListType(aast.NewIntType(sp), sp), sp)},
		{"list_range", aast.NewListType(aast.NewRangeType(sp), sp)},
		{"list_option_int", aast.NewListType(aast.NewOptionType(aast.NewIntType(sp), sp), sp)},
		{"anyobj", aast.NewAnyObjectType(sp)},
		{"obj", obj},
		{"option_int", aast.NewOptionType(aast.NewIntType(sp), sp)},
		{"option_str", aast.NewOptionType(aast.NewStringType(sp), sp)},
		{"option_list_int", aast.NewOptionType(aast.NewListType(aast.NewIntType(sp), sp), sp)},
	}
}

func vmRep(name string) value.Value {
	i := func(n int64) *value.Value { return value.NewValueInt(n) }
	switch name {
	case "null":
		return *value.NewValueNull()
	case "int":
		return *i(3)
	case "float":
		return *value.NewValueFloat(1.5)
	case "bool":
		return *value.NewValueBool(true)
	case "str":
		return *value.NewValueString("ab")
	case "range":
		return *value.NewValueRange(*i(1), *i(3), false)
	case "list_int":
		return *value.NewValueList([]*value.Value{i(1), i(2)})
	case "list_str":
		return *value.NewValueList([]*value.Value{value.NewValueString("a")})
	case "list_float":
		return *value.NewValueList([]*value.Value{value.NewValueFloat(1.5)})
	case "list_bool":
		return *value.NewValueList([]*value.Value{value.NewValueBool(true)})
	case "list_list_int":
		return *value.NewValueList([]*value.Value{value.NewValueList([]*value.Value{i(1)})})
	case "list_range":
		return *value.NewValueList([]*value.Value{value.NewValueRange(*i(1), *i(3), false)})
	case "list_option_int":
		return *value.NewValueList([]*value.Value{value.NewValueOption(i(1)), value.NewNoneOption()})
	case "option_list_int":
		return *value.NewValueOption(value.NewValueList([]*value.Value{i(1)}))
	case "anyobj":
		return *value.NewValueAnyObject(map[string]*value.Value{"k": i(1)})
	case "obj":
		return *value.NewValueObject(map[string]*value.Value{"a": i(1)})
	case "option_int":
		return *value.NewValueOption(i(1))
	case "option_str":
		return *value.NewValueOption(value.NewValueString("a"))
	}
	panic("no vm representative for " + name)
}

func treeRep(name string) ivalue.Value {
	i := func(n int64) *ivalue.Value { return ivalue.NewValueInt(n) }
	switch name {
	case "null":
		return *ivalue.NewValueNull()
	case "int":
		return *i(3)
	case "float":
		return *ivalue.NewValueFloat(1.5)
	case "bool":
		return *ivalue.NewValueBool(true)
	case "str":
		return *ivalue.NewValueString("ab")
	case "range":
		return *ivalue.NewValueRange(*i(1), *i(3), false)
	case "list_int":
		return *ivalue.NewValueList([]*ivalue.Value{i(1), i(2)})
	case "list_str":
		return *ivalue.NewValueList([]*ivalue.Value{ivalue.NewValueString("a")})
	case "list_float":
		return *ivalue.NewValueList([]*ivalue.Value{ivalue.NewValueFloat(1.5)})
	case "list_bool":
		return *ivalue.NewValueList([]*ivalue.Value{ivalue.NewValueBool(true)})
	case "list_list_int":
		return *ivalue.NewValueList([]*ivalue.Value{ivalue.NewValueList([]*ivalue.Value{i(1)})})
	case "list_range":
		return *ivalue.NewValueList([]*ivalue.Value{ivalue.NewValueRange(*i(1), *i(3), false)})
	case "list_option_int":
		return *ivalue.NewValueList([]*ivalue.Value{ivalue.NewValueOption(i(1)), ivalue.NewNoneOption()})
	case "option_list_int":
		return *ivalue.NewValueOption(ivalue.NewValueList([]*ivalue.Value{i(1)}))
	case "anyobj":
		return *ivalue.NewValueAnyObject(map[string]*ivalue.Value{"k": i(1)})
	case "obj":
		return *ivalue.NewValueObject(map[string]*ivalue.Value{"a": i(1)})
	case "option_int":
		return *ivalue.NewValueOption(i(1))
	case "option_str":
		return *ivalue.NewValueOption(ivalue.NewValueString("a"))
	}
	panic("no tree representative for " + name)
}

type memberRow struct {
	rep, member, shape string
	arity                int
	typ                  string
}

func analyzerMembers() []memberRow {
	rows := []memberRow{}
	for _, rep := range typeReps() {
		fields := rep.typ.Fields(errors.Span{})
		names := []string{}
		for n := range fields {
			names = append(names, n)
		}
		sort.Strings(names)
		for _, n := range names {
			t := fields[n]
			row := memberRow{rep: rep.name, member: n, shape: "field", arity: 0, typ: t.String()}
			if t.Kind() == aast.FnTypeKind {
				row.shape = "method"
				ft := t.(aast.FunctionType)
				switch p := ft.Params.(type) {
				case aast.NormalFunctionTypeParamKindIdentifier:
					row.arity = len(p.Params)
				default:
					row.arity = -1
				}
			}
			rows = append(rows, row)
		}
	}
	return rows
}

func runtimeMembers(vm bool) []memberRow {
	rows := []memberRow{}
	for _, rep := range typeReps() {
		names := []string{}
		shapes := map[string]string{}
		func() {
			defer func() {
				if r := recover(); r != nil {
					names = []string{"<PANIC>"}
					shapes["<PANIC>"] = fmt.Sprint(r)
				}
			}()
			if vm {
				fields, i := vmRep(rep.name).Fields()
				if i != nil {
					return
				}
				for n, v := range fields {
					names = append(names, n)
					if (*v).Kind() == value.BuiltinFunctionValueKind {
						shapes[n] = "method"
					} else {
						shapes[n] = "field"
					}
				}
			} else {
				fields, i := treeRep(rep.name).Fields()
				if i != nil {
					return
				}
				for n, v := range fields {
					names = append(names, n)
					if (*v).Kind() == ivalue.BuiltinFunctionValueKind {
						shapes[n] = "method"
					} else {
						shapes[n] = "field"
					}
				}
			}
		}()
		sort.Strings(names)
		for _, n := range names {
			rows = append(rows, memberRow{rep: rep.name, member: n, shape: shapes[n]})
		}
	}
	return rows
}

// gty renders an analyzer type as a term of the generated inductive `HmsGen.GTy` by walking
// the type structurally (not through String()). Function and object types are opaque here:
// the signature of a method is dumped as parameter list + result by typedRows.
func gty(t aast.Type) string {
	if t == nil {
		return "(.other \"<nil>\")"
	}
	switch t.Kind() {
	case aast.UnknownTypeKind:
		return ".unknown"
	case aast.NeverTypeKind:
		return ".never"
	case aast.AnyTypeKind:
		return ".any"
	case aast.NullTypeKind:
		return ".null"
	case aast.IntTypeKind:
		return ".int"
	case aast.FloatTypeKind:
		return ".float"
	case aast.BoolTypeKind:
		return ".bool"
	case aast.StringTypeKind:
		return ".str"
	case aast.RangeTypeKind:
		return ".range"
	case aast.AnyObjectTypeKind:
		return ".anyobj"
	case aast.ObjectTypeKind:
		return ".obj"
	case aast.FnTypeKind:
		return ".fn"
	case aast.ListTypeKind:
		return "(.list " + gty(t.(aast.ListType).Inner) + ")"
	case aast.OptionTypeKind:
		return "(.opt " + gty(t.(aast.OptionType).Inner) + ")"
	}
	s := tryString(func() string { return t.String() })
	if s == nil {
		return "(.other \"<unprintable>\")"
	}
	return "(.other " + leanStr(*s) + ")"
}

type typedRow struct {
	rep, member string
	method      bool
	params      []string
	result      string
}

func typedRows() []typedRow {
	rows := []typedRow{}
	for _, rep := range typeReps() {
		fields := rep.typ.Fields(errors.Span{})
		names := []string{}
		for n := range fields {
			names = append(names, n)
		}
		sort.Strings(names)
		for _, n := range names {
			t := fields[n]
			row := typedRow{rep: rep.name, member: n, params: []string{}, result: gty(t)}
			if t.Kind() == aast.FnTypeKind {
				ft := t.(aast.FunctionType)
				row.method = true
				row.result = gty(ft.ReturnType)
				switch p := ft.Params.(type) {
				case aast.NormalFunctionTypeParamKindIdentifier:
					for _, prm := range p.Params {
						row.params = append(row.params, gty(prm.Type))
					}
				default:
					row.params = []string{"(.other \"<varargs>\")"}
				}
			}
			rows = append(rows, row)
		}
	}
	return rows
}

func dumpMembersTyped(b *strings.Builder) {
	b.WriteString("/-- Analyzer types as far as member signatures need them (structural walk of `ast.Type`). -/\n")
	b.WriteString("inductive GTy where\n  | unknown | never | any | null | int | float | bool | str | range | anyobj | obj | fn\n")
	b.WriteString("  | list (inner : GTy) | opt (inner : GTy) | other (printed : String)\n  deriving DecidableEq, Repr, Inhabited\n\n")
	b.WriteString("/-- The type of each representative. -/\ndef repTypes : List (String × GTy) := [\n")
	reps := typeReps()
	for i, r := range reps {
		sep := ","
		if i == len(reps)-1 {
			sep = ""
		}
		fmt.Fprintf(b, "  (%s, %s)%s\n", leanStr(r.name), strings.TrimSuffix(strings.TrimPrefix(gty(r.typ), "("), ")"), sep)
	}
	b.WriteString("]\n\n")
	b.WriteString("/-- Members the analyzer offers, structurally: (type representative, member, is a method, parameter types, result type (of the call, or of the field)). -/\n")
	b.WriteString("def membersAnalyzerTyped : List (String × String × Bool × List GTy × GTy) := [\n")
	rows := typedRows()
	for i, r := range rows {
		sep := ","
		if i == len(rows)-1 {
			sep = ""
		}
		fmt.Fprintf(b, "  (%s, %s, %v, [%s], %s)%s\n", leanStr(r.rep), leanStr(r.member), r.method, strings.Join(r.params, ", "), r.result, sep)
	}
	b.WriteString("]\n\n")
}

func dumpMembers(b *strings.Builder) {
	b.WriteString("/-- Members the analyzer offers: (type representative, member, shape, arity (-1 = varargs), type as printed). -/\n")
	b.WriteString("def membersAnalyzer : List (String × String × String × Int × String) := [\n")
	rows := analyzerMembers()
	for i, r := range rows {
		sep := ","
		if i == len(rows)-1 {
			sep = ""
		}
		fmt.Fprintf(b, "  (%s, %s, %s, %d, %s)%s\n", leanStr(r.rep), leanStr(r.member), leanStr(r.shape), r.arity, leanStr(r.typ), sep)
	}
	b.WriteString("]\n\n")
	for _, vm := range []bool{true, false} {
		name := "membersTree"
		doc := "`Fields()` of a representative interpreter value"
		if vm {
			name = "membersVM"
			doc = "`Fields()` of a representative VM value"
		}
		fmt.Fprintf(b, "/-- %s: (type representative, member, shape). -/\ndef %s : List (String × String × String) := [\n", doc, name)
		rows := runtimeMembers(vm)
		for i, r := range rows {
			sep := ","
			if i == len(rows)-1 {
				sep = ""
			}
			fmt.Fprintf(b, "  (%s, %s, %s)%s\n", leanStr(r.rep), leanStr(r.member), leanStr(r.shape), sep)
		}
		b.WriteString("]\n\n")
	}
	dumpMembersTyped(b)
}
