package main

import (
	"fmt"
	"sort"
	"strings"

	aast "github.com/smarthome-go/homescript/v3/homescript/analyzer/ast"
	"github.com/smarthome-go/homescript/v3/homescript/errors"
	ivalue "github.com/smarthome-go/homescript/v3/homescript/interpreter/value"
	past "github.com/smarthome-go/homescript/v3/homescript/parser/ast"
	"github.com/smarthome-go/homescript/v3/homescript/runtime/value"
)

// Representative types per kind; list/option are dumped for several element
// types so that element-dependent members are seen.
type typeRep struct {
	name string
	typ  aast.Type
}

func typeReps() []typeRep {
	sp := errors.Span{}
	obj := aast.NewObjectType([]aast.ObjectTypeField{
		aast.NewObjectTypeField(past.NewSpannedIdent("a", sp), aast.NewIntType(sp), sp),
	}, sp)
	return []typeRep{
		{"null", aast.NewNullType(sp)},
		{"int", aast.NewIntType(sp)},
		{"float", aast.NewFloatType(sp)},
		{"bool", aast.NewBoolType(sp)},
		{"str", aast.NewStringType(sp)},
		{"range", aast.NewRangeType(sp)},
		{"list_int", aast.NewListType(aast.NewIntType(sp), sp)},
		{"list_str", aast.NewListType(aast.NewStringType(sp), sp)},
		{"list_float", aast.NewListType(aast.NewFloatType(sp), sp)},
		{"list_bool", aast.NewListType(aast.NewBoolType(sp), sp)},
		{"list_list_int", aast.NewListType(aast.NewListType(aast.NewIntType(sp), sp), sp)},
		{"anyobj", aast.NewAnyObjectType(sp)},
		{"obj", obj},
		{"option_int", aast.NewOptionType(aast.NewIntType(sp), sp)},
		{"option_str", aast.NewOptionType(aast.NewStringType(sp), sp)},
	}
}

func vmRep(name string) value.Value {
	i := func(n int64) *value.Value { return value.NewValueInt(n) }
	switch name {
	case "null":
		return *value.NewValueNull()
	case "int":
		return *i(3)
	case "float":
		return *value.NewValueFloat(1.5)
	case "bool":
		return *value.NewValueBool(true)
	case "str":
		return *value.NewValueString("ab")
	case "range":
		return *value.NewValueRange(*i(1), *i(3), false)
	case "list_int":
		return *value.NewValueList([]*value.Value{i(1), i(2)})
	case "list_str":
		return *value.NewValueList([]*value.Value{value.NewValueString("a")})
	case "list_float":
		return *value.NewValueList([]*value.Value{value.NewValueFloat(1.5)})
	case "list_bool":
		return *value.NewValueList([]*value.Value{value.NewValueBool(true)})
	case "list_list_int":
		return *value.NewValueList([]*value.Value{value.NewValueList([]*value.Value{i(1)})})
	case "anyobj":
		return *value.NewValueAnyObject(map[string]*value.Value{"k": i(1)})
	case "obj":
		return *value.NewValueObject(map[string]*value.Value{"a": i(1)})
	case "option_int":
		return *value.NewValueOption(i(1))
	case "option_str":
		return *value.NewValueOption(value.NewValueString("a"))
	}
	panic("no vm representative for " + name)
}

func treeRep(name string) ivalue.Value {
	i := func(n int64) *ivalue.Value { return ivalue.NewValueInt(n) }
	switch name {
	case "null":
		return *ivalue.NewValueNull()
	case "int":
		return *i(3)
	case "float":
		return *ivalue.NewValueFloat(1.5)
	case "bool":
		return *ivalue.NewValueBool(true)
	case "str":
		return *ivalue.NewValueString("ab")
	case "range":
		return *ivalue.NewValueRange(*i(1), *i(3), false)
	case "list_int":
		return *ivalue.NewValueList([]*ivalue.Value{i(1), i(2)})
	case "list_str":
		return *ivalue.NewValueList([]*ivalue.Value{ivalue.NewValueString("a")})
	case "list_float":
		return *ivalue.NewValueList([]*ivalue.Value{ivalue.NewValueFloat(1.5)})
	case "list_bool":
		return *ivalue.NewValueList([]*ivalue.Value{ivalue.NewValueBool(true)})
	case "list_list_int":
		return *ivalue.NewValueList([]*ivalue.Value{ivalue.NewValueList([]*ivalue.Value{i(1)})})
	case "anyobj":
		return *ivalue.NewValueAnyObject(map[string]*ivalue.Value{"k": i(1)})
	case "obj":
		return *ivalue.NewValueObject(map[string]*ivalue.Value{"a": i(1)})
	case "option_int":
		return *ivalue.NewValueOption(i(1))
	case "option_str":
		return *ivalue.NewValueOption(ivalue.NewValueString("a"))
	}
	panic("no tree representative for " + name)
}

type memberRow struct {
	rep, member, shape string
	arity                int
	typ                  string
}

func analyzerMembers() []memberRow {
	rows := []memberRow{}
	for _, rep := range typeReps() {
		fields := rep.typ.Fields(errors.Span{})
		names := []string{}
		for n := range fields {
			names = append(names, n)
		}
		sort.Strings(names)
		for _, n := range names {
			t := fields[n]
			row := memberRow{rep: rep.name, member: n, shape: "field", arity: 0, typ: t.String()}
			if t.Kind() == aast.FnTypeKind {
				row.shape = "method"
				ft := t.(aast.FunctionType)
				switch p := ft.Params.(type) {
				case aast.NormalFunctionTypeParamKindIdentifier:
					row.arity = len(p.Params)
				default:
					row.arity = -1
				}
			}
			rows = append(rows, row)
		}
	}
	return rows
}

func runtimeMembers(vm bool) []memberRow {
	rows := []memberRow{}
	for _, rep := range typeReps() {
		names := []string{}
		shapes := map[string]string{}
		func() {
			defer func() {
				if r := recover(); r != nil {
					names = []string{"<PANIC>"}
					shapes["<PANIC>"] = fmt.Sprint(r)
				}
			}()
			if vm {
				fields, i := vmRep(rep.name).Fields()
				if i != nil {
					return
				}
				for n, v := range fields {
					names = append(names, n)
					if (*v).Kind() == value.BuiltinFunctionValueKind {
						shapes[n] = "method"
					} else {
						shapes[n] = "field"
					}
				}
			} else {
				fields, i := treeRep(rep.name).Fields()
				if i != nil {
					return
				}
				for n, v := range fields {
					names = append(names, n)
					if (*v).Kind() == ivalue.BuiltinFunctionValueKind {
						shapes[n] = "method"
					} else {
						shapes[n] = "field"
					}
				}
			}
		}()
		sort.Strings(names)
		for _, n := range names {
			rows = append(rows, memberRow{rep: rep.name, member: n, shape: shapes[n]})
		}
	}
	return rows
}

func dumpMembers(b *strings.Builder) {
	b.WriteString("/-- Members the analyzer offers: (type representative, member, shape, arity (-1 = varargs), type as printed). -/\n")
	b.WriteString("def membersAnalyzer : List (String × String × String × Int × String) := [\n")
	rows := analyzerMembers()
	for i, r := range rows {
		sep := ","
		if i == len(rows)-1 {
			sep = ""
		}
		fmt.Fprintf(b, "  (%s, %s, %s, %d, %s)%s\n", leanStr(r.rep), leanStr(r.member), leanStr(r.shape), r.arity, leanStr(r.typ), sep)
	}
	b.WriteString("]\n\n")
	for _, vm := range []bool{true, false} {
		name := "membersTree"
		doc := "`Fields()` of a representative interpreter value"
		if vm {
			name = "membersVM"
			doc = "`Fields()` of a representative VM value"
		}
		fmt.Fprintf(b, "/-- %s: (type representative, member, shape). -/\ndef %s : List (String × String × String) := [\n", doc, name)
		rows := runtimeMembers(vm)
		for i, r := range rows {
			sep := ","
			if i == len(rows)-1 {
				sep = ""
			}
			fmt.Fprintf(b, "  (%s, %s, %s)%s\n", leanStr(r.rep), leanStr(r.member), leanStr(r.shape), sep)
		}
		b.WriteString("]\n\n")
	}
}
