package main

// hv val … tree — the same commands as values.go on interpreter/value (the tree-walking
// interpreter's value library). That package has no Clone and no typed unmarshal: `unjson` and
// `rt` go the way a program goes (parse_json, then the annotated-let cast DeepCast(…, false)).

import (
	"context"
	"fmt"

	aast "github.com/smarthome-go/homescript/v3/homescript/analyzer/ast"
	"github.com/smarthome-go/homescript/v3/homescript/errors"
	ivalue "github.com/smarthome-go/homescript/v3/homescript/interpreter/value"
)

func ivBuild(s *Sx) *ivalue.Value {
	if !s.IsL {
		switch s.Atom {
		case "null":
			return ivalue.NewValueNull()
		case "none":
			return ivalue.NewNoneOption()
		case "fn":
			return ivalue.NewValueBuiltinFunction(func(ivalue.Executor, *context.Context, errors.Span, ...ivalue.Value) (*ivalue.Value, *ivalue.Interrupt) {
				return ivalue.NewValueNull(), nil
			})
		}
		panic("harness: bad value atom " + s.Atom)
	}
	switch s.Tag() {
	case "some":
		return ivalue.NewValueOption(ivBuild(s.Arg(0)))
	case "i":
		return ivalue.NewValueInt(s.Arg(0).Int())
	case "f":
		return ivalue.NewValueFloat(valFloat(s))
	case "b":
		return ivalue.NewValueBool(s.Arg(0).Bool())
	case "s":
		return ivalue.NewValueString(s.Arg(0).Str())
	case "l":
		items := make([]*ivalue.Value, 0)
		for _, it := range s.List[1:] {
			items = append(items, ivBuild(it))
		}
		return ivalue.NewValueList(items)
	case "o", "a":
		fields := make(map[string]*ivalue.Value)
		for _, f := range s.List[1:] {
			fields[f.List[0].Str()] = ivBuild(f.List[1])
		}
		if s.Tag() == "o" {
			return ivalue.NewValueObject(fields)
		}
		return ivalue.NewValueAnyObject(fields)
	case "r":
		return ivalue.NewValueRange(*ivalue.NewValueInt(s.Arg(0).Int()), *ivalue.NewValueInt(s.Arg(1).Int()), s.Arg(2).Bool())
	}
	panic("harness: bad value " + s.String())
}

func ivSx(v ivalue.Value) *Sx {
	switch v := v.(type) {
	case nil:
		return A("nil")
	case ivalue.ValueNull:
		return A("null")
	case ivalue.ValueInt:
		return T("i", N(v.Inner))
	case ivalue.ValueFloat:
		return valFloatSx(v.Inner)
	case ivalue.ValueBool:
		return T("b", B(v.Inner))
	case ivalue.ValueString:
		return T("s", S(v.Inner))
	case ivalue.ValueList:
		items := []*Sx{}
		for _, it := range *v.Values {
			if it == nil {
				items = append(items, A("nil"))
			} else {
				items = append(items, ivSx(*it))
			}
		}
		return T("l", items...)
	case ivalue.ValueObject:
		items := []*Sx{}
		for _, k := range valSortedKeys(v.FieldsInternal) {
			f := v.FieldsInternal[k]
			if f == nil {
				items = append(items, L(S(k), A("nil")))
			} else {
				items = append(items, L(S(k), ivSx(*f)))
			}
		}
		return T("o", items...)
	case ivalue.ValueAnyObject:
		items := []*Sx{}
		for _, k := range valSortedKeys(v.FieldsInternal) {
			f := v.FieldsInternal[k]
			if f == nil {
				items = append(items, L(S(k), A("nil")))
			} else {
				items = append(items, L(S(k), ivSx(*f)))
			}
		}
		return T("a", items...)
	case ivalue.ValueOption:
		if v.Inner == nil {
			return A("none")
		}
		return T("some", ivSx(*v.Inner))
	case ivalue.ValueRange:
		return T("r", N((*v.Start).(ivalue.ValueInt).Inner), N((*v.End).(ivalue.ValueInt).Inner), B(v.EndIsInclusive))
	case ivalue.ValueBuiltinFunction:
		return A("fn")
	}
	return T("other", S(v.Kind().String()))
}

func ivInterrupt(i *ivalue.Interrupt) string {
	return fmt.Sprintf("INTERRUPT kind=%s msg=%s", hexs((*i).Kind().String()), hexs(firstLine((*i).Message())))
}

func ivCall(fn *ivalue.Value, args ...ivalue.Value) (*ivalue.Value, *ivalue.Interrupt) {
	ctx := context.Background()
	return (*fn).(ivalue.ValueBuiltinFunction).Callback(nil, &ctx, valNoSpan, args...)
}

func ivMember(v ivalue.Value, name string) *ivalue.Value {
	fields, i := v.Fields()
	if i != nil {
		panic("harness: Fields() interrupt")
	}
	return fields[name]
}

func ivMarshal(v ivalue.Value) (string, string) {
	f := ivMember(v, "to_json")
	if f == nil {
		// scalars offer no to_json member and the package exports no marshal function:
		// marshal the one-element list and strip the brackets
		l := ivalue.NewValueList([]*ivalue.Value{&v})
		res, i := ivCall(ivMember(*l, "to_json"))
		if i != nil {
			return "", (*i).Message()
		}
		s := (*res).(ivalue.ValueString).Inner
		return s[1 : len(s)-1], ""
	}
	res, i := ivCall(f)
	if i != nil {
		return "", (*i).Message()
	}
	return (*res).(ivalue.ValueString).Inner, ""
}

func ivParse(text string) (*ivalue.Value, *ivalue.Interrupt) {
	return ivCall(ivMember(*ivalue.NewValueString(text), "parse_json"))
}

// ivCastResult renders a DeepCast outcome; catchable says whether a failure is a throw.
func ivCastErr(i *ivalue.Interrupt) string {
	msg := (*i).Message()
	kind := "fatal"
	if (*i).Kind() == ivalue.NormalExceptionInterruptKind {
		kind = "throw"
	}
	return fmt.Sprintf("ERR %s path=%s msg=%s kind=%s", castClass(msg), hexs(castPath(msg)), hexs(msg), kind)
}

func ivUnjson(text string, typ aast.Type) (*ivalue.Value, string) {
	raw, i := ivParse(text)
	if i != nil {
		return nil, "syntax " + hexs(firstLine((*i).Message()))
	}
	res, i := ivalue.DeepCast(*raw, typ, valNoSpan, false)
	if i != nil {
		return nil, "cast " + hexs((*i).Message())
	}
	return res, ""
}

func ivLine(cmd string, a []*Sx) string {
	switch cmd {
	case "cast":
		v := ivBuild(a[1])
		res, i := ivalue.DeepCast(*v, valType(a[2]), valNoSpan, a[0].Bool())
		if i != nil {
			return ivCastErr(i)
		}
		return "OK " + ivSx(*res).String()
	case "eq":
		eq, i := (*ivBuild(a[0])).IsEqual(*ivBuild(a[1]))
		if i != nil {
			return ivInterrupt(i)
		}
		return valBoolS(eq)
	case "disp":
		d, i := (*ivBuild(a[0])).Display()
		if i != nil {
			return ivInterrupt(i)
		}
		return hexs(d)
	case "json":
		out, e := ivMarshal(*ivBuild(a[0]))
		if e != "" {
			return "ERR " + hexs(e)
		}
		return "OK " + hexs(out)
	case "parse":
		v, i := ivParse(a[0].Str())
		if i != nil {
			return "ERR " + hexs(firstLine((*i).Message()))
		}
		return "OK " + ivSx(*v).String()
	case "unjson":
		v, e := ivUnjson(a[0].Str(), valType(a[1]))
		if e != "" {
			return "ERR " + e
		}
		return "OK " + ivSx(*v).String()
	case "rt":
		v := ivBuild(a[0])
		text, e := ivMarshal(*v)
		if e != "" {
			return "ERR marshal " + hexs(e)
		}
		back, e := ivUnjson(text, valType(a[1]))
		if e != "" {
			return "ERR unmarshal " + e
		}
		eq, i := (*v).IsEqual(*back)
		if i != nil {
			return ivInterrupt(i)
		}
		return fmt.Sprintf("json=%s back=%s eq=%s", hexs(text), ivSx(*back), valBoolS(eq))
	}
	return "BAD-COMMAND"
}
