module hv

go 1.22.0

toolchain go1.23.5

require (
	github.com/smarthome-go/homescript/v3 v3.0.0
	golang.org/x/tools v0.29.0
)

require (
	github.com/agnivade/levenshtein v1.1.1 // indirect
	github.com/davecgh/go-spew v1.1.1 // indirect
	golang.org/x/mod v0.22.0 // indirect
	golang.org/x/sync v0.10.0 // indirect
	golang.org/x/text v0.9.0 // indirect
)

replace github.com/smarthome-go/homescript/v3 => /repo
