package main

// hv transform — the semantic fuzzer's transformer (C20).
//
// Input line:  (transform (seed n) (passes k) (opt k v)… (main x<hex>) (mod x<name> x<hex>)…)
//   options: (optimize false)  do not run the optimizer before transforming (cmd/main.go does)
//            (run false)       do not analyse / execute the variants
//            (ast true)        also dump the analysed AST of the transformer's input (AST=: the entry
//                              module after the optimizer) and of every variant *as built by the
//                              transformer* (X<i>=), before printing
//            (timeout ms)
// Output line: fields separated by " | ":
//   A=ACCEPT|REJECT…                                   the input program
//   VM0=<outcome> | TREE0=<outcome>                      its behaviour (before anything is transformed)
//   N=<number of variants>                               = passes unless the transformer panicked
//   T<i>=<hex>                                           printed text of the variant of pass i (1-based)
//   A<i>=ACCEPT|REJECT… | VM<i>= | TREE<i>=              the variant re-analysed and run
//   TRANSFORM=PANIC x<hex>                               the transformer (or a printer) panicked
//
// The transformer is driven the way cmd/main.go (`fuzz gen`) drives it: the entry module of the
// analysed and optimised program, one `fuzzer.NewTransformer(seed)`, `Transform` applied
// `passes` times in a row, every intermediate tree printed with `String()`.

import (
	"fmt"
	"strings"

	aast "github.com/smarthome-go/homescript/v3/homescript/analyzer/ast"
	"github.com/smarthome-go/homescript/v3/homescript/fuzzer"
	"github.com/smarthome-go/homescript/v3/homescript/optimizer"
)

func init() { register("transform", func(args []string) int { return lineLoop(transformLine) }) }

func transformLine(line string) string {
	o, okIn := parsePrintOpts(line)
	if !okIn {
		return "BAD-INPUT"
	}
	seed, passes, doOpt := int64(0), 1, true
	if sx, err := parseSx(line); err == nil && sx.IsL {
		for _, it := range sx.List[1:] {
			switch it.Tag() {
			case "seed":
				seed = it.Arg(0).Int()
			case "passes":
				passes = int(it.Arg(0).Int())
			case "optimize":
				doOpt = it.Arg(0).Bool()
			}
		}
	}
	parts := []string{}
	add := func(k, v string) { parts = append(parts, k+"="+v) }

	var analyzed map[string]aast.AnalyzedProgram
	ok := false
	verdict := guarded(func() string {
		var v string
		analyzed, v, ok = rpAnalyzeMods(o.mods)
		return strings.TrimPrefix(v, "A=")
	})
	add("A", verdict)
	if !ok {
		return strings.Join(parts, " | ")
	}
	ro := o.runOpts()
	if o.run {
		add("VM0", runVM(analyzed, ro))
		add("TREE0", runTree(analyzed, ro))
	}

	// transform (the transformer shuffles the slices of its input in place: nothing of
	// `analyzed` is used afterwards)
	texts := []string{}
	dumps := []string{}
	astIn := ""
	st := guarded(func() string {
		tree := analyzed["main"]
		if doOpt {
			opt := optimizer.NewOptimizer()
			out, _ := opt.Optimize(analyzed)
			tree = out["main"]
		}
		if o.ast {
			// the transformer's input (the entry module after the optimizer), dumped before it is shuffled
			astIn = T("modules", sxProgram("main", tree)).String()
		}
		trans := fuzzer.NewTransformer(seed)
		for i := 0; i < passes; i++ {
			tree = trans.Transform(tree)
			texts = append(texts, tree.String())
			if o.ast {
				dumps = append(dumps, sxProgram("main", tree).String())
			}
		}
		return "OK"
	})
	if astIn != "" {
		add("AST", astIn)
	}
	add("N", fmt.Sprint(len(texts)))
	if st != "OK" {
		add("TRANSFORM", st)
	}
	for i, t := range texts {
		n := i + 1
		add(fmt.Sprintf("T%d", n), hexs(t))
		if o.ast && i < len(dumps) {
			add(fmt.Sprintf("X%d", n), dumps[i])
		}
		if o.run {
			a, vm, tree, an := analyzeAndRun(o.mods, t, o)
			add(fmt.Sprintf("A%d", n), a)
			if an != nil {
				add(fmt.Sprintf("VM%d", n), vm)
				add(fmt.Sprintf("TREE%d", n), tree)
			}
		}
	}
	return strings.Join(parts, " | ")
}
