package main

// hv lex — token stream of a rune list (C05, C06, C08).
// Input line:  (c1 c2 c3 …)   code points
// Output line: tokens separated by spaces, then EOF or ERR:
//   T<kind>:<v1.v2…>:<sl>.<sc>.<si>-<el>.<ec>.<ei> … E:<sl>.<sc>.<si>  file=ok
//   … X<class>:<sl>.<sc>.<si>-<el>.<ec>.<ei> file=ok

import (
	"fmt"
	"strings"

	"github.com/smarthome-go/homescript/v3/homescript/errors"
	"github.com/smarthome-go/homescript/v3/homescript/lexer"
)

func init() { register("lex", func(args []string) int { return lineLoop(lexLine) }) }

func locStr(l errors.Location) string { return fmt.Sprintf("%d.%d.%d", l.Line, l.Column, l.Index) }

func lexErrClass(msg string) string {
	switch {
	case strings.HasPrefix(msg, "illegal character"):
		return "illegalChar"
	case strings.HasPrefix(msg, "String literal never closed"):
		return "stringNeverClosed"
	case strings.HasPrefix(msg, "Unfinished escape sequence"):
		return "unfinishedEscape"
	case strings.HasPrefix(msg, "Invalid escape sequence"):
		return "invalidEscape"
	case strings.HasPrefix(msg, "Expected '>'"):
		return "expectedGt"
	}
	return "other:" + hexs(msg)
}

func lexLine(line string) string {
	sx, err := parseSx(line)
	if err != nil {
		return "BAD-INPUT"
	}
	src := sx.Runes()
	const fname = "file.hms"
	lx := lexer.NewLexer(src, fname)
	var b strings.Builder
	fileOK := true
	n := len([]rune(src))
	for i := 0; i <= n+2; i++ {
		t, e := lx.NextToken()
		if e != nil {
			if e.Span.Filename != fname {
				fileOK = false
			}
			fmt.Fprintf(&b, "X%s:%s-%s", lexErrClass(e.Message), locStr(e.Span.Start), locStr(e.Span.End))
			break
		}
		if t.Span.Filename != fname {
			fileOK = false
		}
		if t.Kind == lexer.EOF {
			fmt.Fprintf(&b, "E:%s", locStr(t.Span.Start))
			if t.Span.Start != t.Span.End || t.Value != "EOF" {
				b.WriteString("!badeof")
			}
			break
		}
		vals := []string{}
		for _, r := range []rune(t.Value) {
			vals = append(vals, fmt.Sprint(int(r)))
		}
		fmt.Fprintf(&b, "T%d:%s:%s-%s ", int(t.Kind), strings.Join(vals, "."), locStr(t.Span.Start), locStr(t.Span.End))
		if i == n+2 {
			b.WriteString("!nonterminating")
		}
	}
	if fileOK {
		b.WriteString(" file=ok")
	} else {
		b.WriteString(" file=bad")
	}
	return b.String()
}
