package main

import (
	"encoding/hex"
	"fmt"
	"strconv"
	"strings"
	"unicode/utf8"
)

// Minimal S-expression support shared with the Lean driver (Hms/Sexp.lean).
// Atoms are runs of non-space, non-paren characters; strings travel either as
// hex atoms (hexs) or as lists of code points (runes).

type Sx struct {
	Atom string
	List []*Sx
	IsL  bool
}

func A(s string) *Sx          { return &Sx{Atom: s} }
func N(i int64) *Sx           { return &Sx{Atom: strconv.FormatInt(i, 10)} }
func L(items ...*Sx) *Sx      { return &Sx{List: items, IsL: true} }
func T(tag string, items ...*Sx) *Sx {
	return &Sx{List: append([]*Sx{A(tag)}, items...), IsL: true}
}
func B(b bool) *Sx {
	if b {
		return A("true")
	}
	return A("false")
}

// S encodes a string as an atom: x<hex of the UTF-8 bytes> ("x" alone = empty).
func S(s string) *Sx { return A("x" + hex.EncodeToString([]byte(s))) }

// R encodes a string as a list of code points.
func R(s string) *Sx {
	items := []*Sx{}
	for _, r := range []rune(s) {
		items = append(items, N(int64(r)))
	}
	return L(items...)
}

func (s *Sx) String() string {
	var b strings.Builder
	s.write(&b)
	return b.String()
}

func (s *Sx) write(b *strings.Builder) {
	if !s.IsL {
		b.WriteString(s.Atom)
		return
	}
	b.WriteByte('(')
	for i, it := range s.List {
		if i > 0 {
			b.WriteByte(' ')
		}
		it.write(b)
	}
	b.WriteByte(')')
}

func parseSx(src string) (*Sx, error) {
	pos := 0
	var parse func() (*Sx, error)
	skip := func() {
		for pos < len(src) && (src[pos] == ' ' || src[pos] == '\t') {
			pos++
		}
	}
	parse = func() (*Sx, error) {
		skip()
		if pos >= len(src) {
			return nil, fmt.Errorf("unexpected end")
		}
		if src[pos] == '(' {
			pos++
			items := []*Sx{}
			for {
				skip()
				if pos >= len(src) {
					return nil, fmt.Errorf("unclosed list")
				}
				if src[pos] == ')' {
					pos++
					return &Sx{List: items, IsL: true}, nil
				}
				it, err := parse()
				if err != nil {
					return nil, err
				}
				items = append(items, it)
			}
		}
		if src[pos] == ')' {
			return nil, fmt.Errorf("unexpected )")
		}
		start := pos
		for pos < len(src) && src[pos] != ' ' && src[pos] != '(' && src[pos] != ')' && src[pos] != '\t' {
			pos++
		}
		return A(src[start:pos]), nil
	}
	return parse()
}

func (s *Sx) Tag() string {
	if s.IsL && len(s.List) > 0 && !s.List[0].IsL {
		return s.List[0].Atom
	}
	return ""
}
func (s *Sx) Arg(i int) *Sx { return s.List[i+1] }
func (s *Sx) NArgs() int    { return len(s.List) - 1 }
func (s *Sx) Int() int64 {
	v, err := strconv.ParseInt(s.Atom, 10, 64)
	if err != nil {
		panic("harness: bad int atom " + s.Atom)
	}
	return v
}
func (s *Sx) Bool() bool { return s.Atom == "true" }

// Str decodes an x<hex> atom.
func (s *Sx) Str() string {
	if !strings.HasPrefix(s.Atom, "x") {
		panic("harness: bad string atom " + s.Atom)
	}
	b, err := hex.DecodeString(s.Atom[1:])
	if err != nil {
		panic("harness: bad hex " + s.Atom)
	}
	return string(b)
}

// Runes decodes a list of code points into a Go string.
func (s *Sx) Runes() string {
	var b strings.Builder
	for _, it := range s.List {
		r := rune(it.Int())
		if !utf8.ValidRune(r) {
			b.WriteRune(utf8.RuneError)
		} else {
			b.WriteRune(r)
		}
	}
	return b.String()
}

func hexs(s string) string { return "x" + hex.EncodeToString([]byte(s)) }
