package main

// Serialisation of the analysed AST (what the compiler and the interpreter consume)
// into S-expressions for the Lean model (Hms/Core/Decode.lean).
//
//   type  := unknown | never | any | null | int | float | bool | str | range | anyobj | ident
//          | (list T) | (opt T) | (obj (name T)…) | (fn (T…) R) | (fnvar (T…) Rest R)
//   expr  := (<kind> (sl sc el ec) <type> fields…)
//   block := (block (sl sc el ec) <type> (stmt…) exprOrNone)

import (
	"fmt"
	"math"
	"sort"

	aast "github.com/smarthome-go/homescript/v3/homescript/analyzer/ast"
	"github.com/smarthome-go/homescript/v3/homescript/errors"
)

func sxSpan(s errors.Span) *Sx {
	return L(N(int64(s.Start.Line)), N(int64(s.Start.Column)), N(int64(s.End.Line)), N(int64(s.End.Column)))
}

func sxType(t aast.Type) *Sx {
	if t == nil {
		return A("nil")
	}
	switch t.Kind() {
	case aast.UnknownTypeKind:
		return A("unknown")
	case aast.NeverTypeKind:
		return A("never")
	case aast.AnyTypeKind:
		return A("any")
	case aast.NullTypeKind:
		return A("null")
	case aast.IntTypeKind:
		return A("int")
	case aast.FloatTypeKind:
		return A("float")
	case aast.BoolTypeKind:
		return A("bool")
	case aast.StringTypeKind:
		return A("str")
	case aast.IdentTypeKind:
		return A("ident")
	case aast.RangeTypeKind:
		return A("range")
	case aast.AnyObjectTypeKind:
		return A("anyobj")
	case aast.ListTypeKind:
		return T("list", sxType(t.(aast.ListType).Inner))
	case aast.OptionTypeKind:
		return T("opt", sxType(t.(aast.OptionType).Inner))
	case aast.ObjectTypeKind:
		ot := t.(aast.ObjectType)
		items := []*Sx{}
		for _, f := range ot.ObjFields {
			items = append(items, L(S(f.FieldName.Ident()), sxType(f.Type)))
		}
		return T("obj", items...)
	case aast.FnTypeKind:
		ft := t.(aast.FunctionType)
		switch p := ft.Params.(type) {
		case aast.NormalFunctionTypeParamKindIdentifier:
			ps := []*Sx{}
			for _, x := range p.Params {
				ps = append(ps, sxType(x.Type))
			}
			return T("fn", L(ps...), sxType(ft.ReturnType))
		case aast.VarArgsFunctionTypeParamKindIdentifier:
			ps := []*Sx{}
			for _, x := range p.ParamTypes {
				ps = append(ps, sxType(x))
			}
			return T("fnvar", L(ps...), sxType(p.RemainingType), sxType(ft.ReturnType))
		}
	}
	return A("unknown")
}

func sxFloat(f float64) *Sx {
	// IEEE bits as an unsigned decimal: exact on both sides
	return A(fmt.Sprint(math.Float64bits(f)))
}

func sxExprOpt(e aast.AnalyzedExpression) *Sx {
	if e == nil {
		return A("none")
	}
	return sxExpr(e)
}

func sxExpr(e aast.AnalyzedExpression) *Sx {
	hd := func(kind string, rest ...*Sx) *Sx {
		return T(kind, append([]*Sx{sxSpan(e.Span()), sxType(e.Type())}, rest...)...)
	}
	switch e := e.(type) {
	case aast.AnalyzedIntLiteralExpression:
		return hd("int", N(e.Value))
	case aast.AnalyzedFloatLiteralExpression:
		return hd("float", sxFloat(e.Value))
	case aast.AnalyzedBoolLiteralExpression:
		return hd("bool", B(e.Value))
	case aast.AnalyzedStringLiteralExpression:
		return hd("str", S(e.Value))
	case aast.AnalyzedIdentExpression:
		return hd("ident", S(e.Ident.Ident()), B(e.IsGlobal), B(e.IsFunction), B(e.IsSingleton))
	case aast.AnalyzedNullLiteralExpression:
		return hd("null")
	case aast.AnalyzedNoneLiteralExpression:
		return hd("none")
	case aast.AnalyzedRangeLiteralExpression:
		return hd("range", sxExpr(e.Start), sxExpr(e.End), B(e.EndIsInclusive))
	case aast.AnalyzedListLiteralExpression:
		items := []*Sx{}
		for _, v := range e.Values {
			items = append(items, sxExpr(v))
		}
		return hd("list", L(items...))
	case aast.AnalyzedAnyObjectExpression:
		return hd("anyobj")
	case aast.AnalyzedObjectLiteralExpression:
		items := []*Sx{}
		for _, f := range e.Fields {
			items = append(items, L(S(f.Key.Ident()), sxExpr(f.Expression)))
		}
		return hd("obj", L(items...))
	case aast.AnalyzedFunctionLiteralExpression:
		return hd("lambda", sxParams(e.Parameters), sxType(e.ReturnType), sxBlock(e.Body))
	case aast.AnalyzedGroupedExpression:
		return hd("grouped", sxExpr(e.Inner))
	case aast.AnalyzedPrefixExpression:
		return hd("prefix", A(prefixOpName(e.Operator)), sxExpr(e.Base))
	case aast.AnalyzedInfixExpression:
		return hd("infix", S(e.Operator.String()), sxExpr(e.Lhs), sxExpr(e.Rhs))
	case aast.AnalyzedAssignExpression:
		return hd("assign", S(e.Operator.String()), sxExpr(e.Lhs), sxExpr(e.Rhs))
	case aast.AnalyzedCallExpression:
		return hd("call", sxExpr(e.Base), sxArgs(e.Arguments), B(e.IsSpawn), B(e.IsNormalFunction))
	case aast.AnalyzedIndexExpression:
		return hd("index", sxExpr(e.Base), sxExpr(e.Index))
	case aast.AnalyzedMemberExpression:
		return hd("member", sxExpr(e.Base), S(e.Member.Ident()), S(e.Operator.String()))
	case aast.AnalyzedCastExpression:
		return hd("cast", sxExpr(e.Base))
	case aast.AnalyzedBlockExpression:
		return hd("blockexpr", sxBlock(e.Block))
	case aast.AnalyzedIfExpression:
		els := A("none")
		if e.ElseBlock != nil {
			els = sxBlock(*e.ElseBlock)
		}
		return hd("if", sxExpr(e.Condition), sxBlock(e.ThenBlock), els)
	case aast.AnalyzedMatchExpression:
		arms := []*Sx{}
		for _, a := range e.Arms {
			lits := []*Sx{}
			for _, l := range a.Literals {
				lits = append(lits, sxExpr(l))
			}
			arms = append(arms, L(L(lits...), sxExpr(a.Action)))
		}
		dflt := A("none")
		if e.DefaultArmAction != nil {
			dflt = sxExpr(*e.DefaultArmAction)
		}
		return hd("match", sxExpr(e.ControlExpression), L(arms...), dflt)
	case aast.AnalyzedTryExpression:
		return hd("try", sxBlock(e.TryBlock), S(e.CatchIdent.Ident()), sxBlock(e.CatchBlock))
	case aast.UnknownExpression:
		return hd("unknown")
	}
	return T("unsupported", S(fmt.Sprintf("%T", e)))
}

func prefixOpName(op aast.PrefixOperator) string {
	switch op {
	case aast.MinusPrefixOperator:
		return "neg"
	case aast.NegatePrefixOperator:
		return "not"
	case aast.IntoSomePrefixOperator:
		return "some"
	}
	return "?"
}

func sxArgs(a aast.AnalyzedCallArgs) *Sx {
	items := []*Sx{}
	for _, x := range a.List {
		items = append(items, L(S(x.Name), sxExpr(x.Expression)))
	}
	return L(items...)
}

func sxParams(ps []aast.AnalyzedFnParam) *Sx {
	items := []*Sx{}
	for _, p := range ps {
		items = append(items, L(S(p.Ident.Ident()), sxType(p.Type), B(p.IsSingletonExtractor), S(p.SingletonIdent)))
	}
	return L(items...)
}

func sxBlock(b aast.AnalyzedBlock) *Sx {
	stmts := []*Sx{}
	for _, s := range b.Statements {
		stmts = append(stmts, sxStmt(s))
	}
	return T("block", sxSpan(b.Range), sxType(b.ResultType), L(stmts...), sxExprOpt(b.Expression))
}

func sxStmt(s aast.AnalyzedStatement) *Sx {
	hd := func(kind string, rest ...*Sx) *Sx {
		return T(kind, append([]*Sx{sxSpan(s.Span())}, rest...)...)
	}
	switch s := s.(type) {
	case aast.AnalyzedTypeDefinition:
		return hd("typedef")
	case aast.AnalyzedTriggerStatement:
		return hd("trigger", S(s.CallbackIdent.Ident()), S(s.ConnectiveKeyword.String()), S(s.TriggerIdent.Ident()), sxArgs(s.TriggerArguments))
	case aast.AnalyzedLetStatement:
		return hd("let", S(s.Ident.Ident()), sxType(s.VarType), B(s.NeedsRuntimeTypeValidation), sxType(s.OptType), sxExpr(s.Expression))
	case aast.AnalyzedReturnStatement:
		return hd("return", sxExprOpt(s.ReturnValue))
	case aast.AnalyzedBreakStatement:
		return hd("break")
	case aast.AnalyzedContinueStatement:
		return hd("continue")
	case aast.AnalyzedLoopStatement:
		return hd("loop", sxBlock(s.Body))
	case aast.AnalyzedWhileStatement:
		return hd("while", sxExpr(s.Condition), sxBlock(s.Body))
	case aast.AnalyzedForStatement:
		return hd("for", S(s.Identifier.Ident()), sxType(s.IterVarType), sxExpr(s.IterExpression), sxBlock(s.Body))
	case aast.AnalyzedExpressionStatement:
		return hd("expr", sxExpr(s.Expression))
	}
	return T("unsupported", S(fmt.Sprintf("%T", s)))
}

func sxFn(f aast.AnalyzedFunctionDefinition) *Sx {
	return T("fn", sxSpan(f.Range), S(f.Ident.Ident()), sxParams(f.Parameters.List), sxType(f.ReturnType),
		N(int64(f.Modifier)), B(f.Annotation != nil), sxBlock(f.Body))
}

func sxProgram(name string, p aast.AnalyzedProgram) *Sx {
	imports := []*Sx{}
	for _, im := range p.Imports {
		items := []*Sx{}
		for _, v := range im.ToImport {
			items = append(items, L(S(v.Ident.Ident()), N(int64(v.Kind))))
		}
		imports = append(imports, L(S(im.FromModule.Ident()), B(im.TargetIsHMS), L(items...)))
	}
	singletons := []*Sx{}
	for _, s := range p.Singletons {
		singletons = append(singletons, L(S(s.Ident.Ident()), sxType(s.SingletonType)))
	}
	globals := []*Sx{}
	for _, g := range p.Globals {
		globals = append(globals, sxStmt(g))
	}
	fns := []*Sx{}
	for _, f := range p.Functions {
		fns = append(fns, sxFn(f))
	}
	impls := 0
	for range p.ImplBlocks {
		impls++
	}
	return T("module", S(name), L(imports...), L(singletons...), L(globals...), L(fns...), N(int64(impls)))
}

func sxModules(mods map[string]aast.AnalyzedProgram) *Sx {
	names := []string{}
	for n := range mods {
		names = append(names, n)
	}
	sort.Strings(names)
	items := []*Sx{}
	for _, n := range names {
		items = append(items, sxProgram(n, mods[n]))
	}
	return T("modules", items...)
}
