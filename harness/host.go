package main

// hv host — a history of host invocations on ONE real VM (C16).
//
// Input line:  (host (limits calls stack mem) (main x<src>) (call|acall x<fn> <val>…)…)
//   call  = vm.SpawnSync (the finished core is not observable: stack/frames/handlers/mp are "-")
//   acall = vm.SpawnAsync + vm.Wait + vm.HandleTermination (what SpawnSync does, keeping the core handle)
//   values: (null) (int n) (float d) (bool true|false) (str x<hex>) (list v…) (none) (some v)
//           (obj (x<key> v)…) (anyobj (x<key> v)…) (range a b true|false)
// Output line: "A=ACCEPT" or "A=REJECT …", then one field per call, separated by " | ":
//   RET <val> out=<hex> cores=<n> lock=free|held stack=<n> frames=<n> handlers=<n> mp=<n> globals=((x<name> <val>)…)
//   EXC <class> kind=<k> msg=<hex> out=… cores=… lock=… stack=… frames=… handlers=… mp=… globals=…
//        class: fatal | terminate | exit | throw
//   BLOCKED (the call did not return within the watchdog; the rest of the history is SKIPPED)
//   PANIC x<hex>
// Every call runs under a watchdog goroutine. Signatures are taken from the analysed program.

import (
	"context"
	"fmt"
	"sort"
	"strconv"
	"strings"
	"sync"
	"time"

	aast "github.com/smarthome-go/homescript/v3/homescript/analyzer/ast"
	"github.com/smarthome-go/homescript/v3/homescript/compiler"
	"github.com/smarthome-go/homescript/v3/homescript/errors"
	"github.com/smarthome-go/homescript/v3/homescript/runtime"
	"github.com/smarthome-go/homescript/v3/homescript/runtime/value"

	hms "github.com/smarthome-go/homescript/v3/homescript"
)

func init() { register("host", func(args []string) int { return lineLoop(hostLine) }) }

const hostWatchdog = 2 * time.Second

// ---- values <-> S-expressions ----------------------------------------------

func hostSxVal(s *Sx) value.Value {
	switch s.Tag() {
	case "null":
		return *value.NewValueNull()
	case "int":
		return *value.NewValueInt(s.Arg(0).Int())
	case "float":
		f, err := strconv.ParseFloat(s.Arg(0).Atom, 64)
		if err != nil {
			panic("harness: bad float " + s.Arg(0).Atom)
		}
		return *value.NewValueFloat(f)
	case "bool":
		return *value.NewValueBool(s.Arg(0).Bool())
	case "str":
		return *value.NewValueString(s.Arg(0).Str())
	case "list":
		vals := make([]*value.Value, 0)
		for _, it := range s.List[1:] {
			v := hostSxVal(it)
			vals = append(vals, &v)
		}
		return *value.NewValueList(vals)
	case "none":
		return *value.NewNoneOption()
	case "some":
		v := hostSxVal(s.Arg(0))
		return *value.NewValueOption(&v)
	case "obj", "anyobj":
		fields := map[string]*value.Value{}
		for _, it := range s.List[1:] {
			v := hostSxVal(it.List[1])
			fields[it.List[0].Str()] = &v
		}
		if s.Tag() == "obj" {
			return *value.NewValueObject(fields)
		}
		return *value.NewValueAnyObject(fields)
	case "range":
		return *value.NewValueRange(hostSxVal(s.Arg(0)), hostSxVal(s.Arg(1)), s.Arg(2).Bool())
	}
	panic("harness: bad value " + s.String())
}

func hostValSx(v value.Value) *Sx {
	if v == nil {
		return T("nil")
	}
	switch x := v.(type) {
	case value.ValueNull:
		return T("null")
	case value.ValueInt:
		return T("int", N(x.Inner))
	case value.ValueFloat:
		return T("float", A(strconv.FormatFloat(x.Inner, 'g', -1, 64)))
	case value.ValueBool:
		return T("bool", B(x.Inner))
	case value.ValueString:
		return T("str", S(x.Inner))
	case value.ValueList:
		items := []*Sx{}
		for _, e := range *x.Values {
			if e == nil {
				items = append(items, T("nil"))
			} else {
				items = append(items, hostValSx(*e))
			}
		}
		return T("list", items...)
	case value.ValueOption:
		if x.Inner == nil {
			return T("none")
		}
		return T("some", hostValSx(*x.Inner))
	case value.ValueObject:
		return T("obj", hostFieldsSx(x.FieldsInternal)...)
	case value.ValueAnyObject:
		return T("anyobj", hostFieldsSx(x.FieldsInternal)...)
	case value.ValueRange:
		return T("range", hostValSx(*x.Start), hostValSx(*x.End), B(x.EndIsInclusive))
	}
	return T("other", A(v.Kind().String()))
}

func hostFieldsSx(fields map[string]*value.Value) []*Sx {
	keys := make([]string, 0, len(fields))
	for k := range fields {
		keys = append(keys, k)
	}
	sort.Strings(keys)
	items := []*Sx{}
	for _, k := range keys {
		if fields[k] == nil {
			items = append(items, L(S(k), T("nil")))
		} else {
			items = append(items, L(S(k), hostValSx(*fields[k])))
		}
	}
	return items
}

// ---- one VM --------------------------------------------------------------------

type hostVM struct {
	vm     *runtime.VM
	fns    map[string]aast.AnalyzedFunctionDefinition
	mu     *sync.Mutex
	out    *strings.Builder
	cancel context.CancelFunc
}

func hostInterruptClass(i value.VmInterrupt) (class, kind string) {
	switch it := i.(type) {
	case value.VmFatalException:
		k := "?"
		func() {
			defer func() {
				if r := recover(); r != nil {
					k = fmt.Sprintf("kind%d", it.ErrKind)
				}
			}()
			k = it.ErrKind.String()
		}()
		return "fatal", k
	case value.VmTerminationInterrupt:
		return "terminate", "-"
	case value.Vm_ExitInterrupt:
		return "exit", "-"
	case value.Vm_NormalException:
		return "throw", "-"
	}
	return "unknown", "-"
}

func newHostVM(src string, limits runtime.CoreLimits) (*hostVM, string) {
	analyzed, verdict, ok := analyzeMods(map[string]string{"main": src})
	if !ok {
		return nil, verdict
	}
	c := compiler.NewCompiler(analyzed, "main")
	prog, err := c.Compile()
	if err != nil {
		return nil, "A=COMPILE-ERROR " + hexs(err.Error())
	}
	h := &hostVM{fns: map[string]aast.AnalyzedFunctionDefinition{}, mu: &sync.Mutex{}, out: &strings.Builder{}}
	for _, f := range analyzed["main"].Functions {
		h.fns[f.Ident.Ident()] = f
	}
	ctx, cancel := context.WithCancel(context.Background())
	h.cancel = cancel
	ex := vmExec{mu: h.mu, out: h.out, trig: &strings.Builder{}}
	vm := runtime.NewVM(prog, ex, &ctx, &cancel, hms.TestingVmScopeAdditions(), limits)
	h.vm = &vm
	return h, "A=ACCEPT"
}

func (h *hostVM) invocation(fn string, args []value.Value) (runtime.FunctionInvocation, bool) {
	def, found := h.fns[fn]
	if !found {
		return runtime.FunctionInvocation{}, false
	}
	params := []runtime.FunctionInvocationSignatureParam{}
	for _, p := range def.Parameters.List {
		if p.IsSingletonExtractor {
			continue
		}
		params = append(params, runtime.FunctionInvocationSignatureParam{Ident: p.Ident.Ident(), Type: p.Type})
	}
	return runtime.FunctionInvocation{
		Function:          fn,
		Args:              args,
		FunctionSignature: runtime.FunctionInvocationSignature{Params: params, ReturnType: def.ReturnType},
	}, true
}

func (h *hostVM) takeOut() string {
	h.mu.Lock()
	defer h.mu.Unlock()
	s := h.out.String()
	h.out.Reset()
	return s
}

func (h *hostVM) globalsSx() *Sx {
	names := make([]string, 0)
	for n := range h.vm.Program.Mappings.Globals {
		names = append(names, n)
	}
	sort.Strings(names)
	items := []*Sx{}
	glob := h.vm.GetGlobals()
	for _, n := range names {
		v, ok := glob[h.vm.Program.Mappings.Globals[n]]
		if !ok {
			continue
		}
		items = append(items, L(S(n), hostValSx(v)))
	}
	return L(items...)
}

// call performs one invocation under the watchdog. async: keep the core handle.
func (h *hostVM) call(fn string, args []value.Value, async bool) (string, bool) {
	inv, found := h.invocation(fn, args)
	if !found {
		return "NOFUNC", true
	}
	type answer struct {
		res  runtime.FunctionInvocationResult
		core *runtime.Core
		pnc  string
	}
	done := make(chan answer, 1)
	go func() {
		var a answer
		defer func() {
			if r := recover(); r != nil {
				a.pnc = firstLine(fmt.Sprint(r))
			}
			done <- a
		}()
		if async {
			a.core = h.vm.SpawnAsync(inv, nil, nil, nil)
			coreNum, i := h.vm.Wait()
			a.res = h.vm.HandleTermination(a.core, inv, i, coreNum)
		} else {
			a.res = h.vm.SpawnSync(inv, nil, nil)
		}
	}()
	var a answer
	select {
	case a = <-done:
	case <-time.After(hostWatchdog):
		return "BLOCKED", false
	}
	if a.pnc != "" {
		return "PANIC " + hexs(a.pnc), true
	}
	head := ""
	if a.res.Exception != nil {
		class, kind := hostInterruptClass(a.res.Exception.Interrupt)
		head = fmt.Sprintf("EXC %s kind=%s msg=%s", class, kind, hexs(firstLine(a.res.Exception.Interrupt.Message())))
	} else {
		head = "RET " + hostValSx(a.res.ReturnValue).String()
	}
	h.vm.Cores.Lock.RLock()
	ncores := len(h.vm.Cores.Cores)
	h.vm.Cores.Lock.RUnlock()
	lock := "held"
	if h.vm.Cores.Lock.TryLock() {
		h.vm.Cores.Lock.Unlock()
		lock = "free"
	}
	resid := "stack=- frames=- handlers=- mp=-"
	if a.core != nil {
		resid = fmt.Sprintf("stack=%d frames=%d handlers=%d mp=%d", len(a.core.Stack), len(a.core.CallStack),
			len(a.core.ExceptionCatchLabels), a.core.MemoryPointer)
	}
	return fmt.Sprintf("%s out=%s cores=%d lock=%s %s globals=%s", head, hexs(h.takeOut()), ncores, lock, resid,
		h.globalsSx().String()), true
}

func hostLine(line string) string {
	sx, err := parseSx(line)
	if err != nil || sx.Tag() != "host" {
		return "BAD-INPUT"
	}
	limits := runtime.CoreLimits{CallStackMaxSize: 100, StackMaxSize: 500, MaxMemorySize: 10000}
	src := ""
	calls := []*Sx{}
	for _, it := range sx.List[1:] {
		switch it.Tag() {
		case "limits":
			limits = runtime.CoreLimits{CallStackMaxSize: uint(it.Arg(0).Int()), StackMaxSize: uint(it.Arg(1).Int()), MaxMemorySize: uint(it.Arg(2).Int())}
		case "main":
			src = it.Arg(0).Str()
		case "call", "acall":
			calls = append(calls, it)
		}
	}
	var h *hostVM
	verdict := ""
	func() {
		defer func() {
			if r := recover(); r != nil {
				verdict = "A=NEWVM-PANIC " + hexs(firstLine(fmt.Sprint(r)))
				h = nil
			}
		}()
		h, verdict = newHostVM(src, limits)
	}()
	parts := []string{verdict}
	if h == nil {
		return strings.Join(parts, " | ")
	}
	defer h.cancel()
	parts[0] += " init_out=" + hexs(h.takeOut()) + " globals=" + h.globalsSx().String()
	alive := true
	for _, c := range calls {
		if !alive {
			parts = append(parts, "SKIPPED")
			continue
		}
		args := []value.Value{}
		for _, a := range c.List[2:] {
			args = append(args, hostSxVal(a))
		}
		res, ok := h.call(c.Arg(0).Str(), args, c.Tag() == "acall")
		parts = append(parts, res)
		alive = ok
	}
	return strings.Join(parts, " | ")
}

var _ = errors.Span{}
