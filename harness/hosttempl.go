package main

// A second template offered by the harness hosts (builtin module `veriftemplates`): the testing host's only
// template, FooFeature, has two mutually exclusive capabilities and so never requires more than one method.
// `Trio` has three capabilities that do not conflict (c1 -> m1, c2 -> m2, c3 -> m3) and one that requires all
// three methods (all -> m1, m2, m3): an impl block can be required to provide several methods, which is where the
// analyzer iterates its maps of required and implemented methods.

import (
	hms "github.com/smarthome-go/homescript/v3/homescript"
	"github.com/smarthome-go/homescript/v3/homescript/analyzer"
	aast "github.com/smarthome-go/homescript/v3/homescript/analyzer/ast"
	"github.com/smarthome-go/homescript/v3/homescript/errors"
	past "github.com/smarthome-go/homescript/v3/homescript/parser/ast"
)

func trioMethod(span errors.Span, param string, pty aast.Type, ret aast.Type) aast.TemplateMethod {
	return aast.TemplateMethod{
		Signature: aast.FunctionType{
			Params: aast.NewNormalFunctionTypeParamKind([]aast.FunctionTypeParam{{
				Name: past.NewSpannedIdent(param, span),
				Type: pty,
			}}),
			ParamsSpan: span,
			ReturnType: ret,
			Range:      span,
		},
		Modifier: past.FN_MODIFIER_NONE,
	}
}

func hostBuiltinImport(m, v string, s errors.Span, k past.IMPORT_KIND) (analyzer.BuiltinImport, bool, bool) {
	if m != "veriftemplates" {
		return hms.TestingAnalyzerHost{}.GetBuiltinImport(m, v, s, k)
	}
	if k != past.IMPORT_KIND_TEMPLATE || v != "Trio" {
		return analyzer.BuiltinImport{}, true, false
	}
	return analyzer.BuiltinImport{
		Template: &aast.TemplateSpec{
			BaseMethods: map[string]aast.TemplateMethod{
				"m1": trioMethod(s, "a", aast.NewIntType(s), aast.NewBoolType(s)),
				"m2": trioMethod(s, "b", aast.NewBoolType(s), aast.NewNullType(s)),
				"m3": trioMethod(s, "c", aast.NewFloatType(s), aast.NewNullType(s)),
			},
			Capabilities: map[string]aast.TemplateCapability{
				"c1":  {RequiresMethods: []string{"m1"}},
				"c2":  {RequiresMethods: []string{"m2"}},
				"c3":  {RequiresMethods: []string{"m3"}},
				"all": {RequiresMethods: []string{"m1", "m2", "m3"}},
			},
			DefaultCapabilities: []string{},
			Span:                s,
		},
	}, true, true
}
