package main

// hv val — the value libraries (C12, C13): runtime/value (VM) here, interpreter/value in
// values_tree.go. Values and types travel as S-expressions:
//
//   V ::= null | none | (some V) | (i <int64>) | (f <m> <e>)   float m / 2^e
//       | (b true|false) | (s x<hex>) | (l V…) | (o (x<key> V)…) | (a (x<key> V)…)
//       | (r <start> <end> true|false) | fn | (fbad x<text>)      float outside the dyadic class
//   T ::= any | null | int | float | bool | str | range | anyobj | fn | (list T) | (opt T)
//       | (obj (x<name> T)…)
//
// One case per line (first atom after the tag: vm | tree):
//   (cast P <allow> V T)    -> OK <V'>            | ERR <class> path=x<hex> msg=x<hex>
//   (eq P V V)              -> true | false        (PANIC … via lineLoop)
//   (disp P V)              -> x<hex>
//   (json P V)              -> OK x<json>          | ERR x<msg>
//   (unjson P x<json> T)    -> OK <V>              | ERR <class> x<msg>      typed unmarshal
//                              vm: TypeAwareUnmarshalValue; tree: parse_json + DeepCast(false)
//   (parse P x<json>)       -> OK <V>              | ERR x<msg>              parse_json (untyped)
//   (rt P V T)              -> json=x<json> back=<V'> eq=true|false | ERR …  marshal, typed unmarshal, IsEqual
//   (clone V)               -> <V'> eq=<IsEqual(V, V')> qe=<IsEqual(V', V)>  (vm only)
//   (mut <side> V (OP…))    -> applied=<n> orig=<V> clone=<V'>  (vm only) side = clone | orig:
//                              clone V, apply the ops to that side, print both
//   OP ::= (push PATH V) | (push_front PATH V) | (pop PATH) | (pop_front PATH) | (insert PATH <i> V)
//        | (remove PATH <i>) | (concat PATH V) | (sort PATH) | (seti PATH <i> V) | (setf PATH x<key> V)
//        | (assign PATH V) | (iter PATH <n>)
//   PATH ::= ((i <n>) | (k x<key>) | (u))…     list element, field, option payload
//
// Object fields are printed in key order; everything else keeps its order.

import (
	"context"
	"encoding/json"
	"fmt"
	"math"
	"math/big"
	"sort"
	"strings"

	aast "github.com/smarthome-go/homescript/v3/homescript/analyzer/ast"
	"github.com/smarthome-go/homescript/v3/homescript/errors"
	past "github.com/smarthome-go/homescript/v3/homescript/parser/ast"
	"github.com/smarthome-go/homescript/v3/homescript/runtime/value"
)

func init() { register("val", func(args []string) int { return lineLoop(valLine) }) }

var valNoSpan = errors.Span{}

// ---- types -------------------------------------------------------------------

func valType(s *Sx) aast.Type {
	if !s.IsL {
		switch s.Atom {
		case "any":
			return aast.NewAnyType(valNoSpan)
		case "null":
			return aast.NewNullType(valNoSpan)
		case "int":
			return aast.NewIntType(valNoSpan)
		case "float":
			return aast.NewFloatType(valNoSpan)
		case "bool":
			return aast.NewBoolType(valNoSpan)
		case "str":
			return aast.NewStringType(valNoSpan)
		case "range":
			return aast.NewRangeType(valNoSpan)
		case "anyobj":
			return aast.NewAnyObjectType(valNoSpan)
		case "fn":
			return aast.NewFunctionType(aast.NewNormalFunctionTypeParamKind(nil), valNoSpan, aast.NewNullType(valNoSpan), valNoSpan)
		}
		panic("harness: bad type atom " + s.Atom)
	}
	switch s.Tag() {
	case "list":
		return aast.NewListType(valType(s.Arg(0)), valNoSpan)
	case "opt":
		return aast.NewOptionType(valType(s.Arg(0)), valNoSpan)
	case "obj":
		fields := []aast.ObjectTypeField{}
		for _, f := range s.List[1:] {
			fields = append(fields, aast.NewObjectTypeField(past.NewSpannedIdent(f.List[0].Str(), valNoSpan), valType(f.List[1]), valNoSpan))
		}
		return aast.NewObjectType(fields, valNoSpan)
	}
	panic("harness: bad type " + s.String())
}

// ---- floats ------------------------------------------------------------------

// valFloatSx prints a float64 as (f m e) = m / 2^e with e >= 0 and (m odd or e = 0).
func valFloatSx(x float64) *Sx {
	if math.IsNaN(x) || math.IsInf(x, 0) {
		return T("fbad", S(fmt.Sprint(x)))
	}
	if x == 0 {
		return T("f", N(0), N(0))
	}
	fr, exp := math.Frexp(x) // x = fr * 2^exp, 0.5 <= |fr| < 1
	m := int64(fr * (1 << 53))
	e := 53 - exp
	for m%2 == 0 && e > 0 {
		m /= 2
		e--
	}
	if e < 0 {
		if -e > 80 {
			return T("fbad", S(fmt.Sprint(x)))
		}
		big := new(big.Int).Lsh(big.NewInt(m), uint(-e))
		return T("f", A(big.String()), N(0))
	}
	if e > 1000 {
		return T("fbad", S(fmt.Sprint(x)))
	}
	return T("f", N(m), N(int64(e)))
}

func valFloat(s *Sx) float64 { return math.Ldexp(float64(s.Arg(0).Int()), -int(s.Arg(1).Int())) }

// ---- runtime/value <-> S-expressions ----------------------------------------

func rvBuild(s *Sx) *value.Value {
	if !s.IsL {
		switch s.Atom {
		case "null":
			return value.NewValueNull()
		case "none":
			return value.NewNoneOption()
		case "fn":
			return value.NewValueBuiltinFunction(func(value.Executor, *context.Context, errors.Span, ...value.Value) (*value.Value, *value.VmInterrupt) {
				return value.NewValueNull(), nil
			})
		}
		panic("harness: bad value atom " + s.Atom)
	}
	switch s.Tag() {
	case "some":
		return value.NewValueOption(rvBuild(s.Arg(0)))
	case "i":
		return value.NewValueInt(s.Arg(0).Int())
	case "f":
		return value.NewValueFloat(valFloat(s))
	case "b":
		return value.NewValueBool(s.Arg(0).Bool())
	case "s":
		return value.NewValueString(s.Arg(0).Str())
	case "l":
		items := make([]*value.Value, 0)
		for _, it := range s.List[1:] {
			items = append(items, rvBuild(it))
		}
		return value.NewValueList(items)
	case "o", "a":
		fields := make(map[string]*value.Value)
		for _, f := range s.List[1:] {
			fields[f.List[0].Str()] = rvBuild(f.List[1])
		}
		if s.Tag() == "o" {
			return value.NewValueObject(fields)
		}
		return value.NewValueAnyObject(fields)
	case "r":
		return value.NewValueRange(*value.NewValueInt(s.Arg(0).Int()), *value.NewValueInt(s.Arg(1).Int()), s.Arg(2).Bool())
	}
	panic("harness: bad value " + s.String())
}

func valSortedKeys[V any](m map[string]V) []string {
	keys := make([]string, 0, len(m))
	for k := range m {
		keys = append(keys, k)
	}
	sort.Strings(keys)
	return keys
}

func rvSx(v value.Value) *Sx {
	switch v := v.(type) {
	case nil:
		return A("nil")
	case value.ValueNull:
		return A("null")
	case value.ValueInt:
		return T("i", N(v.Inner))
	case value.ValueFloat:
		return valFloatSx(v.Inner)
	case value.ValueBool:
		return T("b", B(v.Inner))
	case value.ValueString:
		return T("s", S(v.Inner))
	case value.ValueList:
		items := []*Sx{}
		for _, it := range *v.Values {
			if it == nil {
				items = append(items, A("nil"))
			} else {
				items = append(items, rvSx(*it))
			}
		}
		return T("l", items...)
	case value.ValueObject:
		items := []*Sx{}
		for _, k := range valSortedKeys(v.FieldsInternal) {
			f := v.FieldsInternal[k]
			if f == nil {
				items = append(items, L(S(k), A("nil")))
			} else {
				items = append(items, L(S(k), rvSx(*f)))
			}
		}
		return T("o", items...)
	case value.ValueAnyObject:
		items := []*Sx{}
		for _, k := range valSortedKeys(v.FieldsInternal) {
			f := v.FieldsInternal[k]
			if f == nil {
				items = append(items, L(S(k), A("nil")))
			} else {
				items = append(items, L(S(k), rvSx(*f)))
			}
		}
		return T("a", items...)
	case value.ValueOption:
		if v.Inner == nil {
			return A("none")
		}
		return T("some", rvSx(*v.Inner))
	case value.ValueRange:
		return T("r", N((*v.Start).(value.ValueInt).Inner), N((*v.End).(value.ValueInt).Inner), B(v.EndIsInclusive))
	case value.ValueBuiltinFunction:
		return A("fn")
	}
	return T("other", S(v.Kind().String()))
}

func castClass(msg string) string {
	switch {
	case strings.Contains(msg, "found unexpected field"):
		return "unexpected-field"
	case strings.Contains(msg, "was expected but not found"):
		return "missing-field"
	case strings.Contains(msg, "is not compatible with"):
		return "incompatible"
	}
	return "other"
}

// castPath extracts the path of "Cast error at `<path>`: …" ("" when the message names none).
func castPath(msg string) string {
	const pre = "Cast error at `"
	if strings.HasPrefix(msg, pre) {
		rest := msg[len(pre):]
		if i := strings.Index(rest, "`: "); i >= 0 {
			return rest[:i]
		}
	}
	return ""
}

func rvInterrupt(i *value.VmInterrupt) string {
	return fmt.Sprintf("INTERRUPT kind=%s msg=%s", (*i).KindString(), hexs(firstLine((*i).Message())))
}

func rvCall(fn *value.Value, args ...value.Value) (*value.Value, *value.VmInterrupt) {
	ctx := context.Background()
	return (*fn).(value.ValueBuiltinFunction).Callback(nil, &ctx, valNoSpan, args...)
}

func rvMember(v value.Value, name string) *value.Value {
	fields, i := v.Fields()
	if i != nil {
		panic("harness: Fields() interrupt")
	}
	return fields[name]
}

func rvMarshal(v value.Value) (string, string) {
	f := rvMember(v, "to_json")
	if f == nil {
		// scalars offer no to_json member: the host-side entry point is MarshalValue + json.Marshal
		out, _ := value.MarshalValue(v, false)
		raw, err := json.Marshal(out)
		if err != nil {
			return "", err.Error()
		}
		return string(raw), ""
	}
	res, i := rvCall(f)
	if i != nil {
		return "", (*i).Message()
	}
	return (*res).(value.ValueString).Inner, ""
}

func rvParse(text string) (*value.Value, *value.VmInterrupt) {
	return rvCall(rvMember(*value.NewValueString(text), "parse_json"))
}

func rvUnjson(text string, typ aast.Type) (*value.Value, string) {
	var raw interface{}
	if err := json.Unmarshal([]byte(text), &raw); err != nil {
		return nil, "syntax " + hexs(err.Error())
	}
	return value.TypeAwareUnmarshalValue(raw, typ), ""
}

// ---- mutation ------------------------------------------------------------------

func rvWalk(root *value.Value, path *Sx) *value.Value {
	cur := root
	for _, step := range path.List {
		if cur == nil || *cur == nil {
			return nil
		}
		switch step.Tag() {
		case "i":
			l, ok := (*cur).(value.ValueList)
			n := int(step.Arg(0).Int())
			if !ok || n < 0 || n >= len(*l.Values) {
				return nil
			}
			cur = (*l.Values)[n]
		case "k":
			key := step.Arg(0).Str()
			switch o := (*cur).(type) {
			case value.ValueObject:
				cur = o.FieldsInternal[key]
			case value.ValueAnyObject:
				cur = o.FieldsInternal[key]
			default:
				return nil
			}
		case "u":
			o, ok := (*cur).(value.ValueOption)
			if !ok {
				return nil
			}
			cur = o.Inner
		default:
			panic("harness: bad path step")
		}
	}
	return cur
}

// rvApply performs one mutation through the real builtins / the VM's assignment (`*dest = *src`).
func rvApply(root *value.Value, op *Sx) bool {
	cell := rvWalk(root, op.Arg(0))
	if cell == nil || *cell == nil {
		return false
	}
	listOp := func(name string, args ...value.Value) bool {
		if _, ok := (*cell).(value.ValueList); !ok {
			return false
		}
		_, i := rvCall(rvMember(*cell, name), args...)
		return i == nil
	}
	switch op.Tag() {
	case "push", "push_front", "concat":
		arg := *rvBuild(op.Arg(1))
		if op.Tag() == "concat" {
			if _, ok := arg.(value.ValueList); !ok {
				return false
			}
		}
		return listOp(op.Tag(), arg)
	case "pop", "pop_front":
		return listOp(op.Tag())
	case "insert":
		return listOp("insert", *value.NewValueInt(op.Arg(1).Int()), *rvBuild(op.Arg(2)))
	case "remove":
		return listOp("remove", *value.NewValueInt(op.Arg(1).Int()))
	case "sort":
		l, ok := (*cell).(value.ValueList)
		if !ok || len(*l.Values) == 0 {
			return false
		}
		k := (*(*l.Values)[0]).Kind()
		if k != value.IntValueKind && k != value.StringValueKind {
			return false
		}
		for _, it := range *l.Values {
			if (*it).Kind() != k {
				return false
			}
		}
		return listOp("sort")
	case "seti":
		if _, ok := (*cell).(value.ValueList); !ok {
			return false
		}
		dest, i := value.IndexValue(cell, value.NewValueInt(op.Arg(1).Int()), func() errors.Span { return valNoSpan })
		if i != nil {
			return false
		}
		*dest = *rvBuild(op.Arg(2)) // Opcode_Assign
		return true
	case "setf":
		key := op.Arg(1).Str()
		switch o := (*cell).(type) {
		case value.ValueObject:
			dest, ok := o.FieldsInternal[key]
			if !ok {
				return false
			}
			*dest = *rvBuild(op.Arg(2))
			return true
		case value.ValueAnyObject:
			_, i := rvCall(rvMember(o, "set"), *value.NewValueString(key), *rvBuild(op.Arg(2)))
			return i == nil
		}
		return false
	case "assign":
		*cell = *rvBuild(op.Arg(1))
		return true
	case "iter":
		// advance the value's iterator n steps (lists, strings, ranges carry iterator state)
		switch (*cell).(type) {
		case value.ValueList, value.ValueString, value.ValueRange:
		default:
			return false
		}
		next := (*cell).IntoIter()
		for n := op.Arg(1).Int(); n > 0; n-- {
			next()
		}
		return true
	}
	panic("harness: bad op " + op.Tag())
}

// ---- commands --------------------------------------------------------------------

func valLine(line string) string {
	sx, err := parseSx(line)
	if err != nil || !sx.IsL || len(sx.List) < 2 {
		return "BAD-INPUT"
	}
	cmd := sx.Tag()
	if cmd == "clone" || cmd == "mut" {
		return rvLine(cmd, sx.List[1:])
	}
	switch sx.Arg(0).Atom {
	case "vm":
		return rvLine(cmd, sx.List[2:])
	case "tree":
		return ivLine(cmd, sx.List[2:])
	}
	return "BAD-INPUT"
}

func valBoolS(b bool) string {
	if b {
		return "true"
	}
	return "false"
}

func rvLine(cmd string, a []*Sx) string {
	switch cmd {
	case "cast":
		v := rvBuild(a[1])
		res, cerr := value.DeepCast(*v, valType(a[2]), valNoSpan, a[0].Bool())
		if cerr != nil {
			msg := cerr.Message()
			return fmt.Sprintf("ERR %s path=%s msg=%s", castClass(msg), hexs(castPath(msg)), hexs(msg))
		}
		return "OK " + rvSx(*res).String()
	case "eq":
		eq, i := (*rvBuild(a[0])).IsEqual(*rvBuild(a[1]))
		if i != nil {
			return rvInterrupt(i)
		}
		return valBoolS(eq)
	case "disp":
		d, i := (*rvBuild(a[0])).Display()
		if i != nil {
			return rvInterrupt(i)
		}
		return hexs(d)
	case "json":
		out, e := rvMarshal(*rvBuild(a[0]))
		if e != "" {
			return "ERR " + hexs(e)
		}
		return "OK " + hexs(out)
	case "parse":
		v, i := rvParse(a[0].Str())
		if i != nil {
			return "ERR " + hexs(firstLine((*i).Message()))
		}
		return "OK " + rvSx(*v).String()
	case "unjson":
		v, e := rvUnjson(a[0].Str(), valType(a[1]))
		if e != "" {
			return "ERR " + e
		}
		return "OK " + rvSx(*v).String()
	case "rt":
		v := rvBuild(a[0])
		text, e := rvMarshal(*v)
		if e != "" {
			return "ERR marshal " + hexs(e)
		}
		back, e := rvUnjson(text, valType(a[1]))
		if e != "" {
			return "ERR unmarshal " + e
		}
		eq, i := (*v).IsEqual(*back)
		if i != nil {
			return rvInterrupt(i)
		}
		return fmt.Sprintf("json=%s back=%s eq=%s", hexs(text), rvSx(*back), valBoolS(eq))
	case "clone":
		v := rvBuild(a[0])
		c := (*v).Clone()
		eq, i := (*v).IsEqual(*c)
		if i != nil {
			return rvInterrupt(i)
		}
		qe, i := (*c).IsEqual(*v)
		if i != nil {
			return rvInterrupt(i)
		}
		return fmt.Sprintf("%s eq=%s qe=%s", rvSx(*c), valBoolS(eq), valBoolS(qe))
	case "mut":
		orig := rvBuild(a[1])
		clone := (*orig).Clone()
		target := clone
		if a[0].Atom == "orig" {
			target = orig
		}
		applied := 0
		for _, op := range a[2].List {
			if rvApply(target, op) {
				applied++
			}
		}
		return fmt.Sprintf("applied=%d orig=%s clone=%s", applied, rvSx(*orig), rvSx(*clone))
	}
	return "BAD-COMMAND"
}
