package main

// hv reprint / hv optimize — printers and optimizer (C19).
//
// hv reprint
//   Input line:  (reprint (opt k v)… (main x<hex>) (mod x<name> x<hex>)…)
//     options: (dump true)    always print both tree dumps (default: only when they differ)
//              (run false)    do not analyse / execute (parser layer only)
//              (timeout ms)
//   Output line: fields separated by " | ":
//     P1=OK | P1=ERR soft=<n> hard=<hex>          parse of the original text
//     T1=<hex>                                    String() of the parse tree
//     P2=OK | P2=ERR soft=<n> hard=<hex>          parse of T1
//     T2=<hex>                                    String() of the second parse tree
//     FIX=true|false                              T1 == T2
//     TREE=same|diff  [D1=<sexp> D2=<sexp>]       span-erased dumps of both parse trees
//     A1=ACCEPT|REJECT…  VM1= TREE1=              the original text analysed and run
//     PA=ACCEPT|REJECT…  PVM= PTREE=              T1 (printed parse tree) analysed and run
//     AT1=<hex>                                   String() of the ANALYSED main module
//     A2=ACCEPT|REJECT…  VM2= TREE2=              AT1 analysed and run
//     AT2=<hex>  AFIX=true|false                  String() of the re-analysed module; AT1 == AT2
//     any stage that panics is reported as <field>=PANIC x<hex>
//
// hv optimize
//   Input line:  (optimize (opt k v)… (main x<hex>) (mod x<name> x<hex>)…)
//     options: (ast true) dump the analysed AST before (AST=) and after (OPT=) optimisation
//              (run false) (timeout ms)
//   Output line: A=ACCEPT|REJECT… | DIAG=<errors>,<warnings> | VM0= TREE0= (input) | VM1= TREE1= (optimised)
//                | AST=<sexp> | OPT=<sexp> | NEVER=<sexp: per module and function, the indices of the
//                top-level body statements whose recorded type is `never`>

import (
	"fmt"
	"sort"
	"strings"
	"time"

	hms "github.com/smarthome-go/homescript/v3/homescript"
	aast "github.com/smarthome-go/homescript/v3/homescript/analyzer/ast"
	"github.com/smarthome-go/homescript/v3/homescript/diagnostic"
	"github.com/smarthome-go/homescript/v3/homescript/lexer"
	"github.com/smarthome-go/homescript/v3/homescript/optimizer"
	past "github.com/smarthome-go/homescript/v3/homescript/parser/ast"
	"github.com/smarthome-go/homescript/v3/homescript/runtime"
)

func init() {
	register("reprint", func(args []string) int { return lineLoop(reprintLine) })
	register("optimize", func(args []string) int { return lineLoop(optimizeLine) })
	register("strlit", func(args []string) int { return lineLoop(strlitLine) })
}

// ---- hv strlit: how both printers write one string value, and what the lexer reads back --------
//
// Input line:  (c1 c2 …) code points of the VALUE of a string literal
// Output line: P=(code points of parser/ast StringLiteralExpression.String()) | A=(… analyzer/ast …)
//              | RP=<n tokens before EOF>:<kind of the first>:(code points of its value) | RA=…
//              a lexer error is reported as R?=ERR x<hex>

func rpRelex(text string) string {
	lx := lexer.NewLexer(text, "t")
	n := 0
	kind := -1
	value := ""
	for i := 0; i < len(text)+3; i++ {
		t, e := lx.NextToken()
		if e != nil {
			return "ERR " + hexs(e.Message)
		}
		if t.Kind == lexer.EOF {
			break
		}
		if n == 0 {
			kind = int(t.Kind)
			value = t.Value
		}
		n++
	}
	return fmt.Sprintf("%d:%d:%s", n, kind, R(value).String())
}

func strlitLine(line string) string {
	sx, err := parseSx(line)
	if err != nil || !sx.IsL {
		return "BAD-INPUT"
	}
	v := sx.Runes()
	p := guarded(func() string { return past.StringLiteralExpression{Value: v}.String() })
	a := guarded(func() string { return aast.AnalyzedStringLiteralExpression{Value: v}.String() })
	return fmt.Sprintf("P=%s | A=%s | RP=%s | RA=%s", R(p).String(), R(a).String(), rpRelex(p), rpRelex(a))
}

// ---- span-erased dump of the parser AST ------------------------------------------------

func rpType(t past.HmsType) *Sx {
	if t == nil {
		return A("none")
	}
	switch t := t.(type) {
	case past.NameReferenceType:
		return T("name", S(t.Ident.Ident()))
	case past.SingletonReferenceType:
		return T("sing", S(t.Ident.Ident()))
	case past.OptionType:
		return T("opt", rpType(t.Inner))
	case past.ListType:
		return T("list", rpType(t.Inner))
	case past.ObjectType:
		switch f := t.Fields.(type) {
		case past.ObjectTypeFieldTypeAny:
			return A("anyobj")
		case past.ObjectTypeFieldTypeFields:
			items := []*Sx{}
			for _, fld := range f.Fields {
				ann := A("none")
				if fld.Annotation != nil {
					ann = S(fld.Annotation.Ident())
				}
				items = append(items, L(S(fld.FieldName.Ident()), rpType(fld.Type), ann))
			}
			return T("obj", items...)
		}
	case past.FunctionType:
		ps := []*Sx{}
		for _, p := range t.Params {
			ps = append(ps, L(S(p.Name.Ident()), rpType(p.Type)))
		}
		return T("fn", L(ps...), rpType(t.ReturnType))
	}
	return T("unsupported", S(fmt.Sprintf("%T", t)))
}

func rpParams(ps []past.FnParam) *Sx {
	items := []*Sx{}
	for _, p := range ps {
		items = append(items, L(S(p.Ident.Ident()), rpType(p.Type)))
	}
	return L(items...)
}

func rpExprOpt(e past.Expression) *Sx {
	if e == nil {
		return A("none")
	}
	return rpExpr(e)
}

func rpArgs(a past.CallArgs) *Sx {
	args := []*Sx{}
	for _, x := range a.List {
		args = append(args, rpExpr(x))
	}
	return L(args...)
}

func rpExpr(e past.Expression) *Sx {
	switch e := e.(type) {
	case past.IntLiteralExpression:
		return T("int", N(e.Value))
	case past.FloatLiteralExpression:
		return T("float", sxFloat(e.Value))
	case past.BoolLiteralExpression:
		return T("bool", B(e.Value))
	case past.StringLiteralExpression:
		return T("str", S(e.Value))
	case past.IdentExpression:
		return T("ident", S(e.Ident.Ident()), B(e.IsSingleton))
	case past.NullLiteralExpression:
		return T("null")
	case past.NoneLiteralExpression:
		return T("none")
	case past.RangeLiteralExpression:
		return T("range", rpExpr(e.Start), rpExpr(e.End), B(e.EndIsInclusive))
	case past.ListLiteralExpression:
		items := []*Sx{}
		for _, v := range e.Values {
			items = append(items, rpExpr(v))
		}
		return T("list", items...)
	case past.AnyObjectLiteralExpression:
		return T("anyobj")
	case past.ObjectLiteralExpression:
		items := []*Sx{}
		for _, f := range e.Fields {
			items = append(items, L(S(f.Key.Ident()), rpExpr(f.Expression)))
		}
		return T("obj", items...)
	case past.FunctionLiteralExpression:
		return T("lambda", rpParams(e.Parameters), rpType(e.ReturnType), rpBlock(e.Body))
	case past.GroupedExpression:
		return T("grp", rpExpr(e.Inner))
	case past.PrefixExpression:
		return T("pre", S(e.Operator.String()), rpExpr(e.Base))
	case past.InfixExpression:
		return T("infix", S(e.Operator.String()), rpExpr(e.Lhs), rpExpr(e.Rhs))
	case past.AssignExpression:
		return T("assign", S(e.AssignOperator.String()), rpExpr(e.Lhs), rpExpr(e.Rhs))
	case past.CallExpression:
		return T("call", rpExpr(e.Base), rpArgs(e.Arguments), B(e.IsSpawn))
	case past.IndexExpression:
		return T("index", rpExpr(e.Base), rpExpr(e.Index))
	case past.MemberExpression:
		return T("member", rpExpr(e.Base), S(e.Member.Ident()), S(e.Operator.String()))
	case past.CastExpression:
		return T("cast", rpExpr(e.Base), rpType(e.AsType))
	case past.BlockExpression:
		return T("blockexpr", rpBlock(e.Block))
	case past.IfExpression:
		els := A("none")
		if e.ElseBlock != nil {
			els = rpBlock(*e.ElseBlock)
		}
		return T("if", rpExpr(e.Condition), rpBlock(e.ThenBlock), els)
	case past.MatchExpression:
		arms := []*Sx{}
		for _, a := range e.Arms {
			lits := []*Sx{}
			for _, l := range a.Literals {
				if l.IsLiteral() {
					lits = append(lits, rpExpr(l.Literal))
				} else {
					lits = append(lits, A("default"))
				}
			}
			arms = append(arms, L(L(lits...), rpExpr(a.Action)))
		}
		return T("match", rpExpr(e.ControlExpression), L(arms...))
	case past.TryExpression:
		return T("try", rpBlock(e.TryBlock), S(e.CatchIdent.Ident()), rpBlock(e.CatchBlock))
	}
	return T("unsupported", S(fmt.Sprintf("%T", e)))
}

func rpBlock(b past.Block) *Sx {
	stmts := []*Sx{}
	for _, s := range b.Statements {
		stmts = append(stmts, rpStmt(s))
	}
	return T("block", L(stmts...), rpExprOpt(b.Expression))
}

func rpLet(s past.LetStatement) *Sx {
	return T("let", S(s.Ident.Ident()), rpType(s.OptType), rpExpr(s.Expression), B(s.IsPub))
}

func rpTypeDef(s past.TypeDefinition) *Sx {
	return T("typedef", S(s.LhsIdent.Ident()), rpType(s.RhsType), B(s.IsPub))
}

func rpStmt(s past.Statement) *Sx {
	switch s := s.(type) {
	case past.TriggerStatement:
		return T("trigger", S(s.CallbackFnIdent.Ident()), S(s.DispatchKeyword.String()), S(s.TriggerIdent.Ident()), rpArgs(s.EventArguments))
	case past.TypeDefinition:
		return rpTypeDef(s)
	case past.LetStatement:
		return rpLet(s)
	case past.ReturnStatement:
		return T("return", rpExprOpt(s.Expression))
	case past.BreakStatement:
		return T("break")
	case past.ContinueStatement:
		return T("continue")
	case past.LoopStatement:
		return T("loop", rpBlock(s.Body))
	case past.WhileStatement:
		return T("while", rpExpr(s.Condition), rpBlock(s.Body))
	case past.ForStatement:
		return T("for", S(s.Identifier.Ident()), rpExpr(s.IterExpression), rpBlock(s.Body))
	case past.ExpressionStatement:
		return T("expr", rpExpr(s.Expression))
	}
	return T("unsupported", S(fmt.Sprintf("%T", s)))
}

func rpAnnotation(a *past.FunctionAnnotationInner) *Sx {
	if a == nil {
		return A("none")
	}
	items := []*Sx{}
	for _, it := range a.Items {
		switch it := it.(type) {
		case past.AnnotationItemIdent:
			items = append(items, T("ident", S(it.Ident.Ident())))
		case past.AnnotationItemTrigger:
			items = append(items, T("trigger", S(it.TriggerConnective.String()), S(it.TriggerSource.Ident()), rpArgs(it.TriggerArgs)))
		default:
			items = append(items, T("unsupported", S(fmt.Sprintf("%T", it))))
		}
	}
	return T("annotation", items...)
}

func rpFn(f past.FunctionDefinition) *Sx {
	return T("fn", S(f.Ident.Ident()), rpParams(f.Parameters), rpType(f.ReturnType), N(int64(f.Modifier)),
		rpAnnotation(f.Annotation), rpBlock(f.Body))
}

func rpProgram(p past.Program) *Sx {
	imports := []*Sx{}
	for _, im := range p.Imports {
		items := []*Sx{}
		for _, c := range im.ToImport {
			items = append(items, L(S(c.Ident), N(int64(c.Kind))))
		}
		imports = append(imports, L(S(im.FromModule.Ident()), L(items...)))
	}
	types := []*Sx{}
	for _, t := range p.Types {
		types = append(types, rpTypeDef(t))
	}
	singletons := []*Sx{}
	for _, s := range p.Singletons {
		singletons = append(singletons, L(S(s.Ident.Ident()), rpType(s.Type)))
	}
	impls := []*Sx{}
	for _, im := range p.ImplBlocks {
		caps := []*Sx{}
		for _, c := range im.UsingTemplate.UserDefinedCapabilities.List {
			caps = append(caps, S(c.Ident()))
		}
		ms := []*Sx{}
		for _, m := range im.Methods {
			ms = append(ms, rpFn(m))
		}
		impls = append(impls, L(S(im.SingletonIdent.Ident()), S(im.UsingTemplate.Template.Ident()),
			B(im.UsingTemplate.UserDefinedCapabilities.Defined), L(caps...), L(ms...)))
	}
	globals := []*Sx{}
	for _, g := range p.Globals {
		globals = append(globals, rpLet(g))
	}
	fns := []*Sx{}
	for _, f := range p.Functions {
		fns = append(fns, rpFn(f))
	}
	return T("prog", L(imports...), L(types...), L(singletons...), L(impls...), L(globals...), L(fns...))
}

// ---- shared option parsing ---------------------------------------------------------------

type printOpts struct {
	mods    map[string]string
	dump    bool
	run     bool
	ast     bool
	timeout time.Duration
}

func parsePrintOpts(line string) (printOpts, bool) {
	o := printOpts{mods: map[string]string{}, run: true, timeout: 3 * time.Second}
	line = strings.TrimSpace(line)
	if strings.HasPrefix(line, "x") {
		o.mods["main"] = A(line).Str()
		return o, true
	}
	sx, err := parseSx(line)
	if err != nil || !sx.IsL {
		return o, false
	}
	for _, it := range sx.List[1:] {
		switch it.Tag() {
		case "main":
			o.mods["main"] = it.Arg(0).Str()
		case "mod":
			o.mods[it.Arg(0).Str()] = it.Arg(1).Str()
		case "dump":
			o.dump = it.Arg(0).Bool()
		case "run":
			o.run = it.Arg(0).Bool()
		case "ast":
			o.ast = it.Arg(0).Bool()
		case "timeout":
			o.timeout = time.Duration(it.Arg(0).Int()) * time.Millisecond
		}
	}
	_, ok := o.mods["main"]
	return o, ok
}

func (o printOpts) runOpts() runOpts {
	return runOpts{
		backends: []string{"vm", "tree"},
		limits:   runtime.CoreLimits{CallStackMaxSize: 100, StackMaxSize: 500, MaxMemorySize: 10000},
		treeCall: 100,
		timeout:  o.timeout,
	}
}

// printHost: the module-serving analyzer host of `hv run`, which additionally knows the object
// type field annotation `@setting` (so that annotated singleton types can be accepted).
type printHost struct{ memHost }

func (h printHost) GetKnownObjectTypeFieldAnnotations() []string { return []string{"setting"} }

func rpAnalyzeMods(mods map[string]string) (map[string]aast.AnalyzedProgram, string, bool) {
	analyzed, diags, syn := hms.Analyze(hms.InputProgram{ProgramText: mods["main"], Filename: "main"},
		hms.TestingAnalyzerScopeAdditions(), printHost{memHost{mods}}, true)
	nerr := 0
	first := ""
	for _, s := range syn {
		if first == "" {
			first = "syntax: " + s.Message
		}
	}
	at := "-"
	for _, d := range diags {
		if d.Level == diagnostic.DiagnosticLevelError {
			nerr++
			if first == "" {
				first = d.Message
				at = spanStr(d.Span)
			}
		}
	}
	if len(syn) > 0 || nerr > 0 {
		return nil, fmt.Sprintf("A=REJECT syn=%d diag=%d first=%s at=%s", len(syn), nerr, hexs(first), at), false
	}
	return analyzed, "A=ACCEPT", true
}

// guarded runs f and turns a panic of the code under test into "PANIC x<hex>".
func guarded(f func() string) (res string) {
	defer func() {
		if r := recover(); r != nil {
			res = "PANIC " + hexs(firstLine(fmt.Sprint(r)))
		}
	}()
	return f()
}

// analyzeAndRun: verdict plus VM and interpreter outcome of main (with the given other modules).
func analyzeAndRun(mods map[string]string, main string, o printOpts) (verdict, vm, tree string, analyzed map[string]aast.AnalyzedProgram) {
	m2 := map[string]string{}
	for k, v := range mods {
		m2[k] = v
	}
	m2["main"] = main
	ok := false
	verdict = guarded(func() string {
		var v string
		analyzed, v, ok = rpAnalyzeMods(m2)
		return strings.TrimPrefix(v, "A=")
	})
	if !ok {
		return verdict, "-", "-", nil
	}
	if !o.run {
		return verdict, "-", "-", analyzed
	}
	ro := o.runOpts()
	vm = runVM(analyzed, ro)
	tree = runTree(analyzed, ro)
	return verdict, vm, tree, analyzed
}

// ---- hv reprint -----------------------------------------------------------------------------

func parseStage(src string) (prog past.Program, status string, ok bool) {
	status = guarded(func() string {
		p, soft, hard := hms.Parse(src, "main")
		if hard != nil {
			return fmt.Sprintf("ERR soft=%d hard=%s", len(soft), hexs(hard.Message))
		}
		if len(soft) > 0 {
			return fmt.Sprintf("ERR soft=%d hard=%s", len(soft), hexs(soft[0].Message))
		}
		prog = p
		ok = true
		return "OK"
	})
	return prog, status, ok
}

func reprintLine(line string) string {
	o, okIn := parsePrintOpts(line)
	if !okIn {
		return "BAD-INPUT"
	}
	src := o.mods["main"]
	parts := []string{}
	add := func(k, v string) { parts = append(parts, k+"="+v) }

	// parser layer
	p1, st1, ok1 := parseStage(src)
	add("P1", st1)
	t1 := ""
	if ok1 {
		printed := false
		r := guarded(func() string { t1 = p1.String(); printed = true; return "" })
		if !printed {
			add("T1", r)
			ok1 = false
		} else {
			add("T1", hexs(t1))
		}
	}
	if ok1 {
		p2, st2, ok2 := parseStage(t1)
		add("P2", st2)
		if ok2 {
			t2 := ""
			printed := false
			r := guarded(func() string { t2 = p2.String(); printed = true; return "" })
			if !printed {
				add("T2", r)
			} else {
				add("T2", hexs(t2))
				add("FIX", fmt.Sprint(t1 == t2))
			}
			d1, d2 := rpProgram(p1).String(), rpProgram(p2).String()
			if d1 == d2 {
				add("TREE", "same")
			} else {
				add("TREE", "diff")
			}
			if o.dump || d1 != d2 {
				add("D1", d1)
				add("D2", d2)
			}
		}
	}

	// analysed layer
	a1, vm1, tree1, analyzed := analyzeAndRun(o.mods, src, o)
	add("A1", a1)
	if analyzed != nil {
		add("VM1", vm1)
		add("TREE1", tree1)
	}
	if ok1 {
		// every module that parses is replaced by its printed parse tree
		pm := map[string]string{}
		for name, text := range o.mods {
			pm[name] = text
			if name != "main" {
				if p, _, ok := parseStage(text); ok {
					guarded(func() string { pm[name] = p.String(); return "" })
				}
			}
		}
		po := o
		po.mods = pm
		pa, pvm, ptree, pan := analyzeAndRun(pm, t1, po)
		add("PA", pa)
		if pan != nil {
			add("PVM", pvm)
			add("PTREE", ptree)
		}
	}
	if analyzed != nil {
		at1 := ""
		printed := false
		r := guarded(func() string { at1 = analyzed["main"].String(); printed = true; return "" })
		if !printed {
			add("AT1", r)
		} else {
			add("AT1", hexs(at1))
			// every analysed module is replaced by its printed analysed tree
			am := map[string]string{}
			for name, text := range o.mods {
				am[name] = text
				if m, found := analyzed[name]; found && name != "main" {
					guarded(func() string { am[name] = m.String(); return "" })
				}
			}
			a2, vm2, tree2, an2 := analyzeAndRun(am, at1, o)
			add("A2", a2)
			if an2 != nil {
				add("VM2", vm2)
				add("TREE2", tree2)
				at2 := ""
				printed2 := false
				r2 := guarded(func() string { at2 = an2["main"].String(); printed2 = true; return "" })
				if !printed2 {
					add("AT2", r2)
				} else {
					add("AT2", hexs(at2))
					add("AFIX", fmt.Sprint(at1 == at2))
				}
			}
		}
	}
	return strings.Join(parts, " | ")
}

// ---- hv optimize -----------------------------------------------------------------------------

func rpSortedKeys[V any](m map[string]V) []string {
	keys := make([]string, 0, len(m))
	for k := range m {
		keys = append(keys, k)
	}
	sort.Strings(keys)
	return keys
}

func neverIndices(mods map[string]aast.AnalyzedProgram) *Sx {
	names := rpSortedKeys(mods)
	items := []*Sx{}
	for _, n := range names {
		fns := []*Sx{}
		for _, f := range mods[n].Functions {
			idx := []*Sx{}
			for i, s := range f.Body.Statements {
				if s.Type().Kind() == aast.NeverTypeKind {
					idx = append(idx, N(int64(i)))
				}
			}
			fns = append(fns, L(S(f.Ident.Ident()), L(idx...)))
		}
		items = append(items, L(S(n), L(fns...)))
	}
	return L(items...)
}

func optimizeLine(line string) string {
	o, okIn := parsePrintOpts(line)
	if !okIn {
		return "BAD-INPUT"
	}
	parts := []string{}
	add := func(k, v string) { parts = append(parts, k+"="+v) }
	var analyzed map[string]aast.AnalyzedProgram
	ok := false
	verdict := guarded(func() string {
		var v string
		analyzed, v, ok = rpAnalyzeMods(o.mods)
		return strings.TrimPrefix(v, "A=")
	})
	add("A", verdict)
	if !ok {
		return strings.Join(parts, " | ")
	}
	ro := o.runOpts()
	if o.run {
		add("VM0", runVM(analyzed, ro))
		add("TREE0", runTree(analyzed, ro))
	}
	astBefore := ""
	never := ""
	if o.ast {
		astBefore = sxModules(analyzed).String()
		never = neverIndices(analyzed).String()
	}
	var optimized map[string]aast.AnalyzedProgram
	odiags := ""
	st := guarded(func() string {
		opt := optimizer.NewOptimizer()
		out, diags := opt.Optimize(analyzed)
		optimized = out
		nerr, nwarn := 0, 0
		for _, d := range diags {
			switch d.Level {
			case diagnostic.DiagnosticLevelError:
				nerr++
			case diagnostic.DiagnosticLevelWarning:
				nwarn++
			}
		}
		// every diagnostic of the optimizer with its level, span, file and message (C08)
		items := make([]string, 0, len(diags))
		for _, d := range diags {
			items = append(items, fmt.Sprintf("%d@%d.%d-%d.%d@%s@%s", d.Level, d.Span.Start.Line, d.Span.Start.Column, d.Span.End.Line, d.Span.End.Column,
				hexs(d.Span.Filename), hexs(d.Message)))
		}
		odiags = strings.Join(items, ";")
		return fmt.Sprintf("%d,%d", nerr, nwarn)
	})
	add("DIAG", st)
	add("ODIAGS", odiags)
	if optimized == nil {
		return strings.Join(parts, " | ")
	}
	if o.run {
		add("VM1", runVM(optimized, ro))
		add("TREE1", runTree(optimized, ro))
	}
	if o.ast {
		add("AST", astBefore)
		add("NEVER", never)
		add("OPT", guarded(func() string { return sxModules(optimized).String() }))
	}
	return strings.Join(parts, " | ")
}
