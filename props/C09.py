"""C09 — configured resource limits are enforced as interrupts.

Theorems: HmsProofs.C09 (on the VM model, for all code / limits / fuel: operand-stack and
call-stack bounds with bounded overshoot, memory bound, a limit overshoot is always one of
the two fatal interrupts and never a panic, no false stop, balanced loops for checked code).
Tie: parameterised programs (recursion depth, expression nesting, locals per frame,
iteration count; below / at / above each limit) x limit triples on the real VM == the VM
model (outcome kind, message with the overshoot, final stack/mp); interpreter == spec.
Oracle: far above a limit -> the corresponding fatal interrupt, never a crash; far below ->
completion; long loops and repeated calls end with stack=0 mp=0 handlers=0.
"""
from vlib import core, progstream, known

MODULES = ["HmsProofs.C09"]
QUANTUM = 50


def rec_prog(d):
    return f"fn r(n: int) -> int {{ if n == 0 {{ 0 }} else {{ 1 + r(n - 1) }} }}\nfn main() {{ println(r({d})); }}\n"


LONG_NAME = "walk_the_whole_configuration_tree_and_collect_every_leaf_value_v2"


def rec_long_prog(d):
    """the same recursion in a function with a very long name (the stack trace of the fatal interrupt lists it)"""
    return f"fn {LONG_NAME}(n: int) -> int {{ if n == 0 {{ 0 }} else {{ 1 + {LONG_NAME}(n - 1) }} }}\nfn main() {{ println({LONG_NAME}({d})); }}\n"


def rec_val_prog(d):
    """the same recursion, every call of the cycle through a function VALUE (Call_Val instead of Call_Imm)"""
    return f"fn r(n: int) -> int {{ if n == 0 {{ 0 }} else {{ let f = r; 1 + f(n - 1) }} }}\nfn main() {{ let g = r; println(g({d})); }}\n"


def nest_prog(n):
    return "fn main() { println(" + "(1 + " * n + "1" + ")" * n + "); }\n"


def locals_prog(m, d):
    lets = "".join(f" let v{i} = n + {i};" for i in range(m))
    return (f"fn r(n: int) -> int {{{lets} if n == 0 {{ v0 }} else {{ r(n - 1) + v{m - 1} }} }}\n"
            f"fn main() {{ println(r({d})); }}\n")


def stackpeak_prog(d, iters, extra):
    e = "sq"
    for k in range(d, 0, -1):
        e = f"{k} + ({e})"
    pad = " ".join(f"let p{j} = i + {j};" for j in range(extra))
    return f"fn main() {{ let acc = 0; let i = 0; while i < {iters} {{ i += 1; {pad} let sq = i * i; acc = {e}; }} println(acc); }}\n"


def loop_prog(k, body):
    return (f"fn f(a: int) -> int {{ a + 1 }}\nfn g(a: int) -> int {{ if a < 0 {{ throw(\"neg\"); }}; 1 + f(a) }}\nfn h(n: int) -> int {{ f(if n >= 0 {{ return n; }} else {{ 0 }}) }}\nfn main() {{ let s = 0; let l = [1, 2, 3]; let i = 0;\n"
            f"  while i < {k} {{ i += 1; {body} }}\n  println(s, i); }}\n")


LOOP_BODIES = [
    "s += f(i);",
    "if i % 2 == 0 { continue; }; s += 1;",
    "for x in l { s += x; }",
    "try { if i % 3 == 0 { throw(\"t\"); }; s += 1; } catch e { s += 2; };",
    "let t = match i % 3 { 0 => 1, 1 => 2, _ => 3 }; s += t;",
    "let o = new { a: i, b: \"x\" }; s += o.a;",
    "if i > 1000000 { break; }; s ^= i;",
    # exceptions raised under pending operands, caught in the same activation and in a caller
    "try { s = s + 2 * { throw(\"t\"); 1 }; } catch e { s += 2; };",
    "try { let q = [1]; q.pop(); s = s + f(3 - q.pop().unwrap()); } catch e { s += 1; };",
    "try { s += g(i) + g(0 - i); } catch e { s += 3; };",
    "try { s += f(g(0 - i)); } catch e { s += 4; };",
    "s += h(i);",
    # an interrupt raised while the arguments of a BUILTIN call are evaluated (println, list members) and caught
    "try { println(g(0 - i)); } catch e { s += 5; };",
    "try { l.push(g(0 - i)); } catch e { s += 6; }; if l.len() > 3 { l.pop(); };",
    # constructs whose value or control value is dropped on EVERY way through them: a match without a default arm that
    # matches nothing, an if without else, block values, loops left early, options, function literals
    "match i { 0 => { s += 1; }, 1 => { s += 2; } }; s += 1;",
    "match i % 2 == 0 { true => { s += 1; } }; match \"k\" { \"a\" => { s += 9; } };",
    "if i % 2 == 0 { s += 1; }; let b = { let q = i; q + 1 }; s += b;",
    "for c in \"ab\" { s += c.len(); } let r = 0..3; for x in r { if x == 1 { break; }; s += x; }",
    "s += [i, 2][1]; s += (new { a: i }).a; let op: ?int = ?i; s += op.unwrap_or(0); if op.is_some() { s += 1; };",
    "let w = 0; while w < 3 { w += 1; if w == 2 { continue; }; } s += w; let fl = fn(z: int) -> int { z + 1 }; s += fl(i);",
    # list members called as statements, whatever they answer (push / remove / insert / pop_front in a sliding window)
    "l.push(i); l.remove(0); l.insert(0, i); l.pop_front(); l.pop(); l.push(i); s += l.len();",
]


def cases(ctx):
    out = []
    thorough = ctx.tier == "thorough"
    for calls in ([20, 100] + ([7, 333] if thorough else [])):
        for d in sorted(set([1, calls // 2, calls - 3, calls - 2, calls - 1, calls, calls + 1, calls + 2, calls + QUANTUM + 5, 3 * calls])):
            if d > 0:
                out.append(("rec", (calls, 500, 100000), rec_prog(d), {"calls_used": d, "limit": calls}))
                out.append(("rec", (calls, 500, 100000), rec_val_prog(d), {"calls_used": d, "limit": calls, "via": "function value"}))
                if d in (calls - 1, calls + 2):
                    out.append(("rec", (calls, 500, 100000), rec_long_prog(d), {"calls_used": d, "limit": calls, "via": "long function name"}))
    for stack in ([30, 120] + ([8, 500] if thorough else [])):
        for n in sorted(set([1, stack // 2, stack - 3, stack - 1, stack, stack + 1, stack + 2 * QUANTUM + 5, 3 * stack + 2 * QUANTUM])):
            if n > 0:
                out.append(("nest", (100, stack, 10000), nest_prog(n), {"stack_used": n, "limit": stack}))
    for mem in ([60, 400] + ([25, 5000] if thorough else [])):
        for m, d in [(3, 2), (3, mem // 12), (3, mem // 6 + 2), (3, mem), (10, mem // 40), (10, mem // 10 + 3), (10, mem)]:
            if d > 0:
                out.append(("locals", (1000, 500, mem), locals_prog(m, d), {"locals": m, "depth": d, "limit": mem}))
    # the memory pointer moves in steps of a frame: sweep the limit over more than one frame size so that for some limit
    # the pointer lands EXACTLY on it (and exactly one below / above it)
    for m in ([3, 5] + ([1, 2, 8] if thorough else [])):
        for mem in range(40, 40 + 2 * (m + 3) + 2):
            out.append(("memsweep", (1000, 100000, mem), locals_prog(m, 100000), {"locals": m, "limit": mem, "sweep": 1}))
    # a loop whose operand peak is known by construction (d pending left operands + 1) run with the operand-stack limit set
    # EXACTLY to the peak: within the limit, never stopped (bodies of several lengths so that a poll meets the full stack)
    for d in ([2, 4, 6] + ([3, 8, 12] if thorough else [])):
        for extra in (0, 1, 2):
            for slack in (0, 1):
                out.append(("stackpeak", (100, d + 1 + slack, 10000), stackpeak_prog(d, 3000, extra), {"depth": d, "pad": extra, "limit": d + 1 + slack}))
    for k in ([300, 5000] + ([50000] if thorough else [])):
        for body in LOOP_BODIES:
            out.append(("loop", (100, 500, 10000), loop_prog(k, body), {"iterations": k}))
            out.append(("loop", (12, 40, 64), loop_prog(k, body), {"iterations": k, "tight": 1}))
    # long soak on the real backends only (the Lean models are not run on these)
    for body in LOOP_BODIES:
        out.append(("soak", (100, 500, 10001), loop_prog(1000000 if thorough else 200000, body), {"iterations": 1000000 if thorough else 200000}))
    return out


def run(ctx):
    st = core.prepare(ctx, MODULES)
    ctx.assumptions += [
        "the bound is in instructions (quantum = HmsGen.vmQuantum between two polls); wall-clock time is not part of the claim",
        "exits out of pending operands (V8) and out of try bodies (V10) leak stack entries / handlers: not generated here",
    ]
    if not st["harness"] or not st["dump"] or not st["model"]:
        ctx.violation({"kind": "build", "log": st.get("log", "")[-3000:]}, "harness, table dump or Lean model no longer builds", no_input=True)
        return
    known.replay_open(ctx, "C09")
    cs = cases(ctx)
    by_lim = {}
    for kind, lim, src, info in cs:
        by_lim.setdefault(lim, []).append((kind, src, info))
    for lim, items in by_lim.items():
        srcs = [s for _, s, _ in items]
        soak = lim[2] == 10001
        res = progstream.run_all(srcs, limits=lim, call_limit=lim[0], with_spec=not soak, with_model_vm=not soak, fuel=3000000, timeout_ms=120000)
        for (kind, src, info), r in zip(items, res):
            key = (kind, lim, tuple(sorted(info.items())))
            ctx.count(case_key=key, nontrivial=True)
            rep = {"kind": "limitprog", "family": kind, "limits": list(lim), "info": info, "main": src}
            if r.get("crashed") or not r["A"].startswith("ACCEPT"):
                ctx.violation(dict(rep, go=r["A"][:300]), f"C09 {kind} {info} under {lim}: crashed / not accepted: {r['A'][:100]}")
                continue
            vm, tree, spec, mvm = r.get("VM"), r.get("TREE"), r.get("SPEC"), r.get("MVM")
            ctx.sample({"family": kind, "limits": list(lim), "info": info, "vm": vm["raw"][:140]}, limit=6)
            if vm["cls"] in ("PANIC", "CRASH", "HANG", "TERM", "INTERRUPT"):
                ctx.violation(dict(rep, vm=vm["raw"][:400]), f"C09 {kind} {info} under {lim}: the VM ended with {vm['cls']} {vm.get('what', '')[:80]} instead of completion or a limit interrupt")
                continue
            if tree and tree["cls"] in ("PANIC", "CRASH", "HANG", "TERM", "INTERRUPT"):
                ctx.violation(dict(rep, tree=tree["raw"][:400]), f"C09 {kind} {info} under {lim}: the interpreter ended with {tree['cls']} {tree.get('what', '')[:80]}")
                continue
            # far above / far below
            want = None
            if kind == "rec":
                if info["calls_used"] >= info["limit"] + QUANTUM + 5:
                    want = "StackOverFlow"
                elif info["calls_used"] <= info["limit"] // 2:
                    want = "OK"
            elif kind == "nest":
                if info["stack_used"] >= info["limit"] + 2 * QUANTUM + 5:
                    want = "StackOverFlow"
                elif info["stack_used"] <= info["limit"] // 2:
                    want = "OK"
            elif kind == "locals":
                if info["locals"] * info["depth"] >= 4 * info["limit"]:
                    want = "OutOfMemoryError"
                elif 2 * (info["locals"] + 2) * (info["depth"] + 2) < info["limit"]:
                    want = "OK"
            elif kind in ("loop", "soak"):
                want = "OK"
            elif kind == "memsweep":
                want = "OutOfMemoryError"
            elif kind == "stackpeak":
                want = "OK"
            got = "OK" if vm["cls"] == "OK" else vm.get("kind")
            if want and got != want:
                ctx.violation(dict(rep, vm=vm["raw"][:400]), f"C09 {kind} {info} under {lim}: expected {want}, the VM answered {got}")
                continue
            if kind in ("loop", "soak") and tree and tree["cls"] != "OK":
                ctx.violation(dict(rep, tree=tree["raw"][:400]), f"C09 {kind} {info} under {lim}: a loop of bounded depth is stopped on the interpreter: "
                              f"{tree['cls']} {tree.get('kind', '')} {tree.get('msg', '')[:80]}")
                continue
            if vm["cls"] == "OK" and (vm.get("stack"), vm.get("mp"), vm.get("handlers")) != ("0", "0", "0"):
                ctx.violation(dict(rep, vm=vm["raw"][:400]), f"C09 {kind} {info}: resources not returned: stack={vm.get('stack')} mp={vm.get('mp')} handlers={vm.get('handlers')}")
                continue
            # ties
            if mvm and mvm["cls"] not in ("UNSUPPORTED", "TIMEOUT", "DECODE-ERROR"):
                same = progstream.same_outcome(vm, mvm) and (vm["cls"] != "OK" or (vm.get("stack"), vm.get("mp")) == (mvm.get("stack"), mvm.get("mp")))
                if not same:
                    ctx.broken.append(f"correspondence:vm-model-vs-go-vm:{kind} {info} {lim}: go={vm['raw'][:90]} model={mvm['raw'][:90]}")
            # the interpreter also counts a builtin call whose arguments are being evaluated as a frame: compare with
            # the specification only away from the exact call-depth boundary
            near = kind == "rec" and abs(info["calls_used"] - info["limit"]) <= 3
            if tree and spec and not near and spec["cls"] not in ("UNSUPPORTED", "TIMEOUT", "DECODE-ERROR") and not progstream.same_outcome(tree, spec):
                ctx.broken.append(f"correspondence:interpreter-vs-spec:{kind} {info} {lim}: go={tree['raw'][:90]} spec={spec['raw'][:90]}")
    ctx.coverage["rule"] = ("programs parameterised by recursion depth, expression nesting, locals per frame and iteration count, "
                            "placed below / at / above each limit, x limit triples; non-trivial = every distinct (family, parameters, limits)")
    ctx.coverage["traces_validated_against_impl"] = ctx.evaluations
    if ctx.broken and not ctx.violations:
        ctx.violation({"kind": "broken-tie", "broken": ctx.broken[:10], "log": st.get("log", "")[-3000:]},
                      "proof obligation or model/code correspondence no longer checks: " + "; ".join(ctx.broken[:3]), no_input=True)


def replay(ctx, rep):
    ok, log = core.build_harness()
    if not ok:
        print(log)
        return 1
    if rep.get("kind") != "limitprog":
        print("replay names a broken obligation, not an input:", rep)
        return 1
    lim = tuple(rep["limits"])
    r = progstream.run_all([rep["main"]], limits=lim, with_spec=False, timeout_ms=60000)[0]
    vm = r.get("VM")
    print(rep["family"], rep["info"], lim)
    print("VM:", vm and vm["raw"])
    if vm and vm["cls"] in ("OK", "FATAL") and not r.get("crashed"):
        print("replay: no crash on this input now (compare with the expectation recorded in the replay file)")
        return 0
    print("VIOLATION property=C09 replay=(replayed)")
    return 1
