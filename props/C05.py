"""C05 — lexing, parsing and analysis are total.

Theorems: HmsProofs.C05 (lexer and expression-parser models never run out of fuel; every `for`
statement of the Go lexer/parser in the regenerated go/ast inventory has an accepted progress
classification; the analyzer's module recursion and its cycle check terminate on every finite
module map; String() tables total).
Ties: Go lexer <-> Lean `lexAll` on inputs of the totality run; Go accept/reject of expression
token soup <-> Lean Pratt model; analysed modules and cycle reports of every import graph over
<= 3 modules <-> Lean `Imports.analyze`; regenerated inventories/tables (decide theorems).
Oracle (implementation side): `homescript.Parse` and `homescript.Analyze` return for the text as
entry module and as imported module served by an in-memory host; problems are reported through the
returned syntax errors and diagnostics; no panic, no hang, no fatal stack overflow.
"""
import collections
import re

from vlib import core
from vlib.tables import kind_codes
from gen import totalgen as tg

MODULES = ["HmsProofs.C05"]
MAX_VIOLATIONS = 8


def cps(s):
    return "(" + " ".join(str(ord(c)) for c in s) + ")"


def fails_total(case):
    r = tg.run_total([case], limit=10)[0]
    return r is not None and not r.total_ok


def report(ctx, case, res, stage, seen):
    """One violation per distinct failure signature (shrunk when it is a panic)."""
    sig = res.describe()[:80] + (" @" + stage if "regression of" in stage else "")
    if sig in seen or len(ctx.violations) >= MAX_VIOLATIONS:
        seen[sig] = seen.get(sig, 0) + 1
        return
    seen[sig] = 1
    small = case
    if res.cls.startswith("PANIC:") and len(case["main"]) < 20000:
        key = res.cls

        def same(c):
            r = tg.run_total([c], limit=10)[0]
            return r is not None and r.cls == key
        try:
            small = tg.shrink(case, same)
        except Exception:
            small = case
    ctx.violation(tg.case_replay(small, case.get("stream")),
                  f"{stage}: Parse/Analyze is not total on {small['main'][:80]!r}"
                  + (f" (imported modules: {sorted(small.get('mods', {}))})" if small.get("mods") else "")
                  + f": {res.describe()}")


def lexer_tie(ctx, texts):
    """Go token stream == model token stream on inputs of the totality run."""
    lines = [cps(t) for t in texts]
    go = core.go_lines("lex", lines)
    lean = core.lean_lines(["lex " + l for l in lines])
    bad = 0
    for t, g, l in zip(texts, go, lean):
        body = g.replace(" file=ok", "").replace(" file=bad", "").strip()
        ctx.count(case_key=("lex", t), nontrivial=len(t) > 0)
        if g.startswith(("CRASH", "HANG", "PANIC")):
            ctx.violation({"kind": "total", "main": tg.xhex(t), "mods": {}, "stream": "lexer-tie"},
                          f"C05: the Go lexer does not return on {t[:60]!r}: {g[:100]}")
        elif body != l.strip():
            bad += 1
            if bad <= 3:
                ctx.broken.append(f"correspondence:lex:{t[:60]!r}: go={body[-120:]} lean={l[-120:]}")
    return bad


EXPR_ALPHABET = ["a", "1", "1.5", "true", '"s"', "null", "(", ")", "[", "]", ",", "+", "-", "*", "/", "**", "==", "<", "&&",
                 "||", "!", "?", "=", "+=", ".", "->", "as", "int", "..", "|", "&", "^", "<<", "%"]


def pratt_tie(ctx, n):
    """Accept/reject of expression-level token soup: Go parser vs the Pratt model (fuel never runs out)."""
    rng = ctx.rng
    texts = [" ".join(rng.choice(EXPR_ALPHABET) for _ in range(rng.randrange(1, 12))) for _ in range(n)]
    go = core.go_lines("parse", [core.xhex(t) for t in texts])
    toks = core.go_lines("lex", [cps(t) for t in texts])
    lean_in, idx = [], []
    for i, tl in enumerate(toks):
        codes = re.findall(r"T(\d+):", tl)
        if codes and "X" not in tl.split(" file=")[0].split(" ")[-1]:
            lean_in.append("pratt " + " ".join(codes))
            idx.append(i)
    lean = dict(zip(idx, core.lean_lines(lean_in))) if lean_in else {}
    bad = fuel = 0
    for i, t in enumerate(texts):
        g = go[i]
        ctx.count(case_key=("pratt", t), nontrivial=True)
        if g.startswith(("CRASH", "HANG", "PANIC")):
            ctx.violation({"kind": "total", "main": tg.xhex("fn main() { let v = " + t + "\n; }"), "mods": {}, "stream": "pratt-tie"},
                          f"C05: the Go parser does not return on the expression {t!r}: {g[:100]}")
            continue
        l = lean.get(i)
        if l is None or l.startswith("ERR unsupported"):
            continue
        if l == "ERR fuel":
            fuel += 1
            ctx.broken.append(f"correspondence:pratt-fuel:{t!r}")
            continue
        go_ok, lean_ok = g.startswith("OK "), l.startswith("OK ")
        if go_ok != lean_ok:
            bad += 1
            if bad <= 3:
                ctx.broken.append(f"correspondence:pratt-accept:{t!r}: go={g[:80]} lean={l[:80]}")
    return bad + fuel


def graph_tie(ctx, cases, results):
    """Analysed modules and number of cycle reports: Go vs the module-recursion model."""
    lines, idx = [], []
    for i, (c, r) in enumerate(zip(cases, results)):
        if c.get("stream") != "import-graph" or r is None or not r.total_ok:
            continue
        names = ["main"] + sorted(c["mods"])
        rows = []
        for m in names:
            rows.append("(" + " ".join([m] + [y for (x, y) in c["edges"] if x == m]) + ")")
        lines.append("importcheck (" + " ".join(rows) + ")")
        idx.append(i)
    if not lines:
        return 0
    lean = core.lean_lines(lines)
    bad = 0
    for i, l in zip(idx, lean):
        r = results[i]
        cyc = sum(1 for it in r.items if it.tag == "AD" and it.msg.startswith("Illegal cyclic import"))
        want = f"visited={','.join(sorted(r.mods))} cyclic={cyc}"
        ctx.count(case_key=("graph", tuple(cases[i]["edges"])), nontrivial=len(cases[i]["edges"]) > 0)
        if l != want:
            bad += 1
            if bad <= 3:
                ctx.broken.append(f"correspondence:imports:{cases[i]['edges']}: go={want} lean={l}")
    return bad


def run(ctx):
    st = core.prepare(ctx, MODULES)
    ctx.assumptions += [
        "the host is the in-memory host of the harness (ResolveCodeModule serves the given texts, builtin imports as the "
        "testing host); PostValidationHook returns nothing",
        "hangs are detected by a per-input watchdog of %ds; the slowest legitimate input of the streams takes about 2 s" % tg.LIMIT_S,
        "the Go runtime's goroutine stack limit is capped at 512 MiB in the worker (default 1 GiB): stack exhaustion was "
        "measured to need nesting depths >= 100000 (inputs > 200 KiB), far beyond depth 1000 / 64 KiB",
        "loop progress of the statement-level parser is a syntactic classification (go/ast, harness/loops.go), not a model proof",
    ]
    if not st["harness"] or not st["dump"] or not st["model"]:
        ctx.violation({"kind": "build", "log": st.get("log", "")[-3000:]},
                      "harness, table dump or Lean model no longer builds against /repo", no_input=True)
        return
    seen = {}

    # 1. known findings of this property that are still open: replay their witnesses
    open_ids = set()
    for e in core.load_known("C05"):
        if e.get("status") == "open" and isinstance(e.get("witness"), dict) and "main" in e["witness"]:
            open_ids.add(e["id"])
            c = tg.case_of_replay(e["witness"]) if str(e["witness"]["main"]).startswith("x") else \
                {"main": tg.b(e["witness"]["main"]), "mods": {k: tg.b(v) for k, v in e["witness"].get("mods", {}).items()}}
            r = tg.run_total([c], limit=10)[0]
            if r is not None and not r.total_ok:
                ctx.known(e["id"], e.get("what", "") + ": " + r.describe())
            else:
                ctx.note(f"known finding {e['id']}: witness no longer fails")

    for e in core.load_known("C05"):
        w = e.get("witness")
        if e.get("status") == "open" and isinstance(w, dict) and w.get("kind") == "alias-doubling":
            # analysis time of a chain of n type aliases that each mention their predecessor twice, at two sizes four apart:
            # linear work gives a ratio near 1, the doubling gives about 2^4
            import time as _t

            def chain(n):
                return tg.b("type T0 = int;\n" + "".join(f"type T{i} = {{ a: T{i - 1}, b: T{i - 1} }};\n" for i in range(1, n + 1))
                            + f"fn f(x: T{n}) {{ let y = x; let z = y.a; }}\nfn main() {{ }}\n")
            times = []
            for n in w["n"]:
                t0 = _t.time()
                tg.run_total([{"main": chain(n), "mods": {}}], limit=30)
                times.append(_t.time() - t0)
            # the first size only measures the fixed cost of starting the isolated worker
            ratio = (times[2] - times[0]) / max(times[1] - times[0], 0.03)
            if ratio > 4:
                ctx.known(e["id"], e.get("what", "") + f" [now, above the fixed cost: n={w['n'][1]} {max(times[1] - times[0], 0):.2f}s, n={w['n'][2]} {times[2] - times[0]:.2f}s]")
            else:
                ctx.note(f"known finding {e['id']}: analysis time no longer doubles per alias level (ratio {ratio:.1f})")

    # 2. regression witnesses of the findings fixed for this property
    wit = [dict(c, stream="witness:" + fid) for fid, c, _ in tg.WITNESSES if fid not in open_ids]
    res = tg.run_total(wit, limit=10, stop_after_dead=100, chunk=1)
    for (fid, _, what), c, r in zip([w for w in tg.WITNESSES if w[0] not in open_ids], wit, res):
        ctx.count(case_key=("witness", fid, c["main"]), nontrivial=True)
        if r is not None and not r.total_ok:
            report(ctx, c, r, f"C05 (regression of {fid}: {what})", seen)

    # 3. the streams
    toks = tg.token_texts()
    corp = tg.corpus_files()
    streams = tg.build_streams(ctx, toks, corp)
    per_stream = {}
    classes = collections.Counter()
    lex_sample = []
    graph_cases, graph_results = [], []
    for name, cases in streams:
        if len(ctx.violations) >= MAX_VIOLATIONS:
            break
        results = tg.run_total(cases, chunk=50 if name == "import-graphs" else 2000)
        n_ok = n_err = n_bad = skipped = 0
        for c, r in zip(cases, results):
            if r is None:
                skipped += 1
                continue
            nontrivial = len(c["main"]) > 0
            ctx.count(case_key=(c["main"], tuple(sorted(c.get("mods", {}).items()))), nontrivial=nontrivial)
            if not r.total_ok:
                n_bad += 1
                report(ctx, c, r, "C05 " + c.get("stream", name), seen)
                continue
            classes[r.cls] += 1
            if r.cls == "ok":
                n_ok += 1
            else:
                n_err += 1
            if len(ctx.samples) < 6 and ctx.rng.random() < 0.001:
                ctx.sample({"stream": c.get("stream"), "text": c["main"][:120].decode("utf-8", "replace"), "answer": r.raw[:160]})
        per_stream[name] = {"cases": len(cases), "accepted": n_ok, "with_errors": n_err, "not_total": n_bad, "skipped_after_failures": skipped}
        if name == "import-graphs":
            graph_cases, graph_results = cases, results
        if name in ("prefixes", "soup", "token-edits"):
            pool = [c["main"] for c in cases if len(c["main"]) < 3000]
            for t in ctx.rng.sample(pool, min(len(pool), 700 if ctx.tier == "quick" else 6000)):
                try:
                    lex_sample.append(t.decode("utf-8"))
                except UnicodeDecodeError:
                    pass
    ctx.coverage["streams"] = per_stream
    ctx.coverage["outcome_classes"] = dict(classes)
    ctx.coverage["failure_signatures"] = seen
    ctx.coverage["nesting_depth"] = tg.DEPTH
    ctx.coverage["max_input_bytes"] = tg.MAX_BYTES

    # 4. ties
    if not ctx.violations:
        ctx.coverage["tie_lexer_mismatches"] = lexer_tie(ctx, lex_sample)
        ctx.coverage["tie_lexer_cases"] = len(lex_sample)
        ctx.coverage["tie_pratt_mismatches"] = pratt_tie(ctx, 2500 if ctx.tier == "quick" else 40000)
        ctx.coverage["tie_import_graph_mismatches"] = graph_tie(ctx, graph_cases, graph_results)
    try:
        inv = open(core.LEAN + "/HmsGen/Inventory.lean").read()
        rows = re.findall(r'⟨"(\w+)", "([\w.]+)", "(\w+)", (\d+), "([\w-]+)", "([\w-]+)", "([\w/-]+)", "([^"]*)"⟩', inv)
        ctx.coverage["loop_inventory"] = {"loops": len(rows),
                                          "by_class": dict(collections.Counter(f"{r[5]}/{r[6]}" for r in rows))}
    except OSError:
        pass
    ctx.coverage["rule"] = ("shipped programs (examples/, tests/) and generated programs: every prefix at a rune boundary, byte "
                            "truncations, single-token edits (delete/duplicate/swap/replace by a token of every kind of the "
                            "regenerated TokenKind table); token soup, production-biased soup, arbitrary bytes (invalid UTF-8 "
                            "included); 64 KiB inputs of 21 shapes; nesting towers of depth 1000 for ~60 bracket/prefix/block/"
                            "type forms (closed, unclosed, half closed); every text class also as an imported module; every "
                            "import graph over <= 3 modules (530) and chains/cycles of 2, 10, 200 modules; "
                            "non-trivial = distinct non-empty input")
    ctx.coverage["exhaustive"] = False
    ctx.coverage["exhaustive_parts"] = {"import_graphs_up_to_3_modules": True, "prefixes_of_corpus": True}
    ctx.coverage["traces_validated_against_impl"] = ctx.evaluations
    if ctx.broken and not ctx.violations:
        ctx.violation({"kind": "broken-tie", "broken": ctx.broken[:10], "log": st.get("log", "")[-3000:]},
                      "proof obligation or model/code correspondence no longer checks: " + "; ".join(ctx.broken[:3]),
                      no_input=True)


def replay(ctx, rep):
    ok, log = core.build_harness()
    if not ok:
        print(log)
        return 1
    if rep.get("kind") != "total":
        print("replay names a broken obligation, not an input:", str(rep)[:2000])
        return 1
    case = tg.case_of_replay(rep)
    r = tg.run_total([case], limit=tg.LIMIT_S, stop_after_dead=100)[0]
    print("main:", repr(case["main"][:300]))
    for k, v in case["mods"].items():
        print(f"module {k}:", repr(v[:300]))
    print("answer:", r.raw[:600])
    if r.total_ok:
        print("replay: Parse and Analyze return on this input now")
        return 0
    print("VIOLATION property=C05 replay=(replayed)")
    print(" ", r.describe())
    return 1
