"""C14 — analysis, compilation and execution are deterministic.

Theorems: HmsProofs.C14 — the model is a function, so the content is order-independence wherever
the Go code ranges over a map: `map_ranges_covered` / `fresh_state` (every site of the regenerated
inventories HmsGen.mapRanges / HmsGen.packageVars is classified), one permutation lemma per class
of site, `mangle_injective_partial` + counterexamples (V26, V12, V22).
Tie/search: repetition harness — the same sources are analysed, compiled and run N times in one
process (every repetition builds fresh maps) and in several processes (fresh hash seeds); the
multiset of ALL diagnostics (every level, message, notes, span), the verdict, both backends'
outcome and output must be identical throughout.
"""
from gen import modgraphs as mg, families
from props.C15 import fields, mod_line
from vlib import core, progstream

MODULES = ["HmsProofs.C14"]

ASSUMPTIONS = [
    "no cross-module name clashes (finding V22, open) and no captured variables (finding V12, open): their witnesses are "
    "replayed as known findings, the generators stay outside",
    "single-threaded programs (no spawn): goroutine timing is C17's subject",
    "repetition samples Go's map iteration orders; the universal part is the permutation lemmas over the regenerated inventory",
]

# hand-written programs that used to be (or are) run-dependent; regression cases
CORPUS = [
    ({"main": 'fn main() { let o = new { b: 1, a: "x", c: [1, 2], d: true, e: 2.5, f: 3, g: 4 }; println(o); println(o.to_json()); }'}, "V21"),
    ({"main": 'fn main() { let s = "{\\"a\\": \\"s\\", \\"b\\": \\"t\\", \\"c\\": \\"u\\"}"; try { let x: { a: int, b: int, c: int } = s.parse_json(); println(x.a); } catch e { println(e.message); } }'}, "V35"),
    ({"main": "import b_f from a;\nimport f from a_b;\nfn main() { b_f(); f(); }",
      "a": 'pub fn b_f() { println("a.b_f"); }\nfn main() { }\nlet k = 1;',
      "a_b": 'pub fn f() { println("a_b.f"); }\nfn main() { }\nlet k2 = 1;'}, "V26"),
    ({"main": 'fn main() { let a1 = "keep"; ' + " ".join("{ let a = %d; if a < 0 { println(a); } }" % i for i in range(10)) + ' let a = 99; println(a1); println(a); }'}, "V26"),
    ({"main": "import templ FooFeature from templates;\n$Device = { b: int };\nimpl FooFeature with { light, temperature } for $Device {\n"
              "    fn dim(self: $Device, percent: int) -> bool { true }\n    fn set_temp(self: $Device, celsius: float) { }\n}\nfn main() { }\n"}, "A13"),
    ({"main": "fn main() { let x = 1; let r = match x { 1 => 10, _ => match x { 2 => 20, _ => match x { 3 => 30, _ => zz } } }; println(r); }"}, "A14"),
    ({"main": "fn main() { let u1 = 1; let u2 = 2; let u3 = 3; let u4 = 4; let u5 = 5; let u6 = 6; }\nfn q1() { }\nfn q2() { }\nfn q3() { }"}, "warnings"),
    # unused names next to intentionally unused (`_`-prefixed) ones in the same scope: parameters + body, loop body, block, globals
    ({"main": "let _reserved = 1;\nlet spare_global = 2;\nfn compute(_scale: int, offset: int, n: int) -> int { let _scratch = 1; let leftover = 2; let _tmp = 3; let extra = 4; n }\n"
              "fn main() { println(compute(1, 2, 3)); for _round in 0..2 { let idle = 1; let _quiet = 2; let lazy = 3; } { let _u = 0; let unused_a = 4; let unused_b = 5; } }",
      "lib": "let _hidden = 1;\nlet forgotten = 2;\npub fn noop(_a: int, b: int) { let _c = 1; let d = 2; }\nfn main() { }"}, "unused-next-to-underscore"),
] + [({"main": src}, "match-overlap") for src in families.overlapping_match()] + [
    # copies of empty options (by-value spawn arguments) are written through: the next repetition starts from `none` again
    ({"main": "fn w(id: int, l: [?int]) { println(\"before\", id, l); l[0] = ?id; l[1] = ?(id * 2); println(\"after\", id, l); }\n"
              "fn main() { let a: [?int] = [none, none, none]; spawn w(1, a); time.sleep(0.03); spawn w(2, a); time.sleep(0.03); println(\"m\", a); }"}, "none-cells"),
    # a global range iterated in several functions and twice in a row (iteration state must not live in the shared value)
    ({"main": "let R = 0..4;\nfn a() -> int { let s = 0; for i in R { s += i; if i == 1 { break; } } s }\nfn b() -> int { let s = 0; for i in R { s += i; } s }\n"
              "fn main() { println(a(), b(), a(), b()); for i in R { for j in R { print(i * 10 + j, \"\"); } } println(\"\"); }"}, "global-range"),
    # JSON object keys that are canonically equivalent but encoded differently (precomposed and combining forms, written
    # as JSON escapes), duplicate keys, keys differing in case: which member survives never depends on map iteration
    ({"main": 'fn main() { let s = "{' + ", ".join('\\"%s\\": %d' % (k, n) for n, k in enumerate(
        ["\\\\u00e9", "e\\\\u0301", "a", "A", "\\\\u00c5", "A\\\\u030a", "\\\\u212b", "k1", "k2", "k3", "k1", "\\\\u1e69", "s\\\\u0323\\\\u0307", "s\\\\u0307\\\\u0323"])) +
        '}"; let o = s.parse_json() as { ? }; println(o.keys().len(), o.to_json()); println(o); for k in o.keys() { println(k.len(), o.get_type(k), o.get(k)); } }'}, "json-nfc-keys"),
    # far more than a hundred warnings from one scope and from several modules (unused locals, parameters, imports, functions)
    ({"main": "fn main() { " + " ".join(f"let u{i} = {i};" for i in range(170)) + " println(42); }\n" + "\n".join(f"fn q{i}(p{i}: int) {{ }}" for i in range(40))}, "many-warnings"),
    ({"main": "import { " + ", ".join(f"f{i}" for i in range(60)) + " } from lib;\nfn main() { " + " ".join(f"let w{i} = {i};" for i in range(70)) + " println(f0(1) + f1(2)); }",
      "lib": "\n".join(f"pub fn f{i}(n: int) -> int {{ let z{i} = n; n + {i} }}" for i in range(60)) + "\nfn main() { }"}, "many-warnings-modules"),
    # parse_json of an object with SEVERAL numbers beyond the float range: which one the error names
    ({"main": 'fn main() { try { let o = "{\\"a\\": 1e999, \\"b\\": 3e999, \\"c\\": 5e999, \\"d\\": 7e999, \\"e\\": [9e999]}".parse_json() as { ? }; println("no", o); } catch e { println(e.message); } }'}, "parse-json-several-out-of-range"),
    # to_json of an object with SEVERAL fields that cannot be encoded: which one the error names
    ({"main": 'fn helper() { }\nfn main() { println(new { name: "x", window: 1..5, action: helper, zed: 2..3, yy: helper }.to_json()); }'}, "to-json-several-unencodable"),
    ({"main": 'fn helper() { }\nfn main() { let d = new { ? }; d.set("w", 1..2); d.set("a", helper); d.set("b", 3..4); d.set("c", [helper]); println(d.to_json_indent()); }'}, "to-json-several-unencodable"),
    # a refused cast of an object that lacks SEVERAL expected fields / has several surplus fields: which one the message names
    ({"main": 'type Cfg = { host: str, port: int, retries: int, tls: bool, name: str, zone: ?int };\nfn chk(s: str) { try { let c = s.parse_json() as Cfg; println(c.host); } catch e { println(e.message); } '
              'try { let c: Cfg = s.parse_json(); println(c.port); } catch e { println(e.message); } }\n'
              'fn main() { chk("{}"); chk("{\\"host\\": \\"h\\"}"); chk("{\\"port\\": 1, \\"tls\\": true}"); chk("{\\"a\\": 1, \\"b\\": 2, \\"c\\": 3, \\"d\\": 4}"); '
              'chk("{\\"host\\": 1, \\"port\\": \\"x\\", \\"retries\\": null, \\"tls\\": 0, \\"name\\": [], \\"zone\\": {}}"); }'}, "cast-several-missing"),
    # the order in which the modules are compiled and initialised: the global initializers of two imported modules fail
    # (which failure the host sees), function literals in several modules (their numbers show in the call stack of an
    # uncaught throw)
    ({"main": "import { x } from a;\nimport { y } from b;\nimport { z } from c;\nfn main() { println(x, y, z); }",
      "a": "pub let x = 1 / 0;\nfn main() { }", "b": "pub let y = [1, 2][5];\nfn main() { }", "c": "pub let z = 1 << -1;\nfn main() { }"}, "init-order"),
    ({"main": "import { fa } from a;\nimport { fb } from b;\nfn main() { let l = fn(n: int) -> int { n + 1 }; println(l(1), fa(1), fb(1)); let t = fn() { throw(\"deep\"); }; t(); }",
      "a": "pub fn fa(n: int) -> int { let g = fn(k: int) -> int { k * 2 }; g(n) }\nfn main() { }",
      "b": "pub fn fb(n: int) -> int { let g = fn(k: int) -> int { k * 3 }; let h = fn(k: int) -> int { k + 7 }; h(g(n)) }\nfn main() { }"}, "lambda-numbers"),
]

KNOWN = {
    "V22": mg.V22_GLOBAL_CLASH,
    "V12": {"main": "fn mk() -> fn() -> int { let a = 1; let x = 5; fn() -> int { x } }\nfn other() -> int { let x = 7; x }\n"
                    "fn main() { let f = mk(); println(other()); println(f()); }"},
}


def repeat_all(mods_list, n, procs, workers=8, timeout_ms=20000):
    """-> per program: list of answer lines, one per process (the processes run side by side: a VM run
    mostly sleeps in its wait loop)"""
    from concurrent.futures import ThreadPoolExecutor
    lines = [mod_line("repeat", m, f"(n {n}) (timeout {timeout_ms})") for m in mods_list]
    size = max(1, (len(lines) + 3) // 4)
    chunks = [(i, lines[i:i + size]) for i in range(0, len(lines), size)]
    jobs = [(p, i, ch) for p in range(procs) for i, ch in chunks]
    with ThreadPoolExecutor(max_workers=workers) as ex:
        outs = list(ex.map(lambda j: core.go_lines("repeat", j[2], timeout=900), jobs))
    res = [[None] * procs for _ in lines]
    for (p, i, ch), out in zip(jobs, outs):
        for k, o in enumerate(out):
            res[i + k][p] = o
    return res


def stable_part(line):
    f = fields(line)
    return (f.get("DIAG"), f.get("A"), f.get("VM"), f.get("TREE"))


def judge(ctx, programs, n, procs, label):
    res = repeat_all([p[0] for p in programs], n, procs)
    for (mods, feats), answers in zip(programs, res):
        if any(" TERM " in a or "=TERM " in a or a.startswith("HANG") for a in answers):
            # the harness's own wall-clock guard fired (loaded machine): re-run alone, one process at a time,
            # with a generous limit before judging
            ctx.coverage["rerun_after_timeout"] = ctx.coverage.get("rerun_after_timeout", 0) + 1
            answers = [repeat_all([mods], n, 1, workers=1, timeout_ms=120000)[0][0] for _ in range(procs)]
        rep = {"kind": "repeat", "mods": mods, "n": n, "procs": procs}
        ctx.count(case_key=mods, nontrivial=True)
        for ft in feats:
            ctx.coverage["feat_" + ft] = ctx.coverage.get("feat_" + ft, 0) + 1
        bad = None
        for a in answers:
            if a.startswith(("CRASH", "HANG", "PANIC")):
                bad = f"the toolchain crashed or hung: {a[:100]}"
                break
            f = fields(a)
            if f.get("SAME") != "true":
                d = f.get("DIFF", "x")
                bad = "repetitions in one process differ: " + (bytes.fromhex(d[1:]).decode("utf-8", "replace") if d.startswith("x") else d)[:300]
                break
            try:
                if int(f.get("ASMVARIANTS", "1")) > 1:
                    ctx.coverage["instruction_streams_varied"] = ctx.coverage.get("instruction_streams_varied", 0) + 1
            except ValueError:
                pass
        if not bad and len({stable_part(a) for a in answers}) != 1:
            parts = sorted({stable_part(a) for a in answers})
            bad = f"processes differ: {str(parts[0])[:200]} <> {str(parts[1])[:200]}"
        if not bad:
            f = fields(answers[0])
            for b in ("VM", "TREE"):
                if f.get(b, "").startswith(("PANIC", "COMPILE-ERROR")):
                    ctx.coverage["panicking_programs"] = ctx.coverage.get("panicking_programs", 0) + 1
            ctx.coverage["accepted" if f.get("A") == "A=ACCEPT" or "A=ACCEPT" in answers[0] else "rejected"] = \
                ctx.coverage.get("accepted" if "A=ACCEPT" in answers[0] else "rejected", 0) + 1
            ctx.sample({"mods": {k: v[:300] for k, v in mods.items()}, "answer": answers[0][:300]}, limit=3)
        if bad:
            ctx.violation(rep, f"{label}: {bad}")


def witness_varies(mods, n=40, procs=3):
    answers = repeat_all([mods], n, procs)[0]
    return any(fields(a).get("SAME") != "true" for a in answers) or len({stable_part(a) for a in answers}) != 1


def mangle_tie(ctx):
    """the mangling scheme of the model (`mangleVarFixed`, `mangleFnFixed`) is the scheme of the code: compare on
    the storage and function names the real compiler emits"""
    import re
    mods = {"main": 'import { fma } from ma;\nlet a1 = 1;\nlet a = 2;\nfn h_1() { println(a1, a); }\nfn main() { h_1(); fma(); }',
            "ma": 'let k_2 = "x";\npub fn fma() { println(k_2); }\nfn main() { }'}
    out = core.go_lines("modgraph", [mod_line("modgraph", mods, "(asm true)")], timeout=120)[0]
    asm = fields(out).get("ASM", "")
    txt = bytes.fromhex(asm[1:]).decode("utf-8", "replace") if asm.startswith("x") else ""
    got_globals = set(re.findall(r"SetGlobImm\(([^)]*)\)", txt))
    got_fns = set(re.findall(r"^FN (.*)$", txt, flags=re.M))
    want = core.lean_lines([f"mangle {mg.xhex(m)} {mg.xhex(n)} 0" for m, n in
                            [("main", "a1"), ("main", "a"), ("ma", "k_2"), ("main", "h_1"), ("main", "main"), ("ma", "fma"), ("ma", "@init")]])
    dec = lambda l, k: bytes.fromhex(fields(l)[k][1:]).decode()
    want_globals = {dec(l, "FIXED") for l in want[:3]}
    want_fns = {dec(l, "FNFIXED") for l in want[3:]}
    ctx.count(case_key="mangle-tie", nontrivial=True)
    if got_globals != want_globals or not want_fns <= got_fns:
        ctx.broken.append(f"correspondence:mangling scheme: code emits globals {sorted(got_globals)} functions {sorted(got_fns)}; "
                          f"model {sorted(want_globals)} {sorted(want_fns)}")


def template_programs():
    """impl blocks of the harness host's template `Trio` (capabilities c1, c2, c3 -> one method each, `all` -> three):
    every subset of the three methods implemented under both ways of demanding all three; the analyzer walks its maps of
    required and of implemented methods, the diagnostics must not depend on the order. One extra, unknown method too."""
    import itertools
    meths = {"m1": "fn m1(self: $S, a: int) -> bool { self.n > a }", "m2": "fn m2(self: $S, b: bool) { self.n = 1; }",
             "m3": "fn m3(self: $S, c: float) { self.n = 2; }", "zz": "fn zz(self: $S) { }"}
    out = []
    for caps in ("c1, c2, c3", "all", "c3, c1", "c2"):
        for r in range(0, 5):
            for sub in itertools.combinations(sorted(meths), r):
                src = ("import { templ Trio } from veriftemplates;\n$S = { n: int };\nimpl Trio with { " + caps + " } for $S {\n"
                       + "".join("    " + meths[m] + "\n" for m in sub) + "}\nfn main() { println(\"ran\"); }\n")
                out.append(({"main": src}, ["impl-block"]))
    return out


def run(ctx):
    st = core.prepare(ctx, MODULES)
    ctx.assumptions += ASSUMPTIONS
    if not st["harness"] or not st["dump"] or not st["model"]:
        ctx.violation({"kind": "build", "log": st.get("log", "")[-3000:]}, "harness, table dump or Lean model no longer builds", no_input=True)
        return
    for e in core.load_known("C14"):
        if e.get("status") == "open":
            w = e.get("witness", {}).get("mods")
            varies = witness_varies(w) if w else None
            ctx.known(e["id"], e["what"] + ("" if varies or varies is None else " [witness did not vary in this run]"))
    for fid, mods in KNOWN.items():
        ctx.coverage[f"witness_{fid}_varies"] = witness_varies(mods)
    quick = ctx.tier == "quick"
    n, procs = (20, 3) if quick else (40, 4)
    judge(ctx, [(m, ["corpus:" + fid]) for m, fid in CORPUS], 40 if quick else 100, procs, "C14 corpus")
    judge(ctx, template_programs(), 40 if quick else 100, procs, "C14 impl blocks")
    programs = [mg.c14_program(ctx.rng) for _ in range(300 if quick else 1500)]
    # module graphs of C15's fragment that are accepted (several modules, every visiting order matters)
    graphs = list(mg.family_e())
    edges, nsets, nflags = mg.family_d_space()
    for _ in range(150 if quick else 600):
        eset = 0
        for _ in range(ctx.rng.randint(1, 3)):
            eset |= 1 << ctx.rng.randrange(len(edges))
        graphs.append(mg.family_d_graph(ctx.rng, eset, 15))
    programs += [(g.sources(), ["modgraph:" + g.family]) for g in graphs]
    for i in range(0, len(programs), 200):
        if len(ctx.violations) >= 5:
            ctx.note("stopped early: five violations reported")
            break
        judge(ctx, programs[i:i + 200], n, procs, "C14")
    mangle_tie(ctx)
    ctx.coverage["programs"] = len(programs) + len(CORPUS)
    ctx.coverage["repetitions_per_program"] = n * procs
    ctx.coverage["rule"] = ("generated programs (objects with 2..12 fields: display, equality, JSON round trip, failing casts; "
                            "3..14 shadowed locals with colliding name shapes; helper functions sharing local names; unused "
                            "variables/functions/imports; 1..4 modules; a rejected share with several diagnostics) and accepted "
                            "module graphs, each analysed+compiled+run n times in each of p processes; every diagnostic "
                            "(level, message, notes, span) as a multiset, verdict, outputs and outcomes of both backends compared")
    ctx.coverage["traces_validated_against_impl"] = ctx.evaluations * n * procs
    if ctx.broken and not ctx.violations:
        ctx.violation({"kind": "broken-tie", "broken": ctx.broken[:10], "log": st.get("log", "")[-3000:]},
                      "proof obligation or model/code correspondence no longer checks: " + "; ".join(ctx.broken[:3])[:600],
                      no_input=True)


def replay(ctx, rep):
    ok, log = core.build_harness()
    if not ok:
        print(log)
        return 1
    if rep.get("kind") != "repeat":
        print("replay names a broken obligation, not an input:", rep)
        return 1
    mods = rep["mods"]
    for k, v in mods.items():
        print(f"--- {k}\n{v}")
    answers = repeat_all([mods], max(40, rep.get("n", 40)), max(3, rep.get("procs", 3)))[0]
    for a in answers:
        print(a[:500])
    if any(a.startswith(("CRASH", "HANG", "PANIC")) for a in answers) or any(fields(a).get("SAME") != "true" for a in answers) \
            or len({stable_part(a) for a in answers}) != 1:
        print("VIOLATION property=C14 replay=(replayed)")
        return 1
    print("replay: all repetitions agree now")
    return 0
