"""C18 — every builtin member the analyzer offers exists and behaves as typed.

Theorems: HmsProofs.C18 — table theorems over the regenerated member tables (`members_exist`,
`no_fields_panic`, `typed_table_covers`, `member_sigs_agree`), the index model (`index_total`,
`str_index_total`, `insert_total`, `remove_total`, `pop_total`, `substring_total`, `repeat_total`, …)
and `member_typed_partial` / `index_typed`.

Tie: for every (type representative x member) of the regenerated analyzer table and boundary argument
sets, `hv membercall` (real constructors, real `Fields()`, real callback / `IndexValue`, both value
packages) == `mmodel` (Lean model) for the modelled members; the in-language route (`hv run`: analyzer,
compiler, VM and interpreter) prints what the direct route displays.

Oracle (implementation side, independent of the model): the member is present on the runtime value;
the call returns a value that conforms to the advertised result type (`mconf`: `conforms` against the
regenerated table) or an interrupt; never PANIC / CRASH / HANG; for indexing, `insert` and `remove` the
element / the resulting list is the one the wrap rule names (computed here in Python integers).
"""
import re
from concurrent.futures import ThreadPoolExecutor

from gen import members as G
from vlib import core, progstream

MODULES = ["HmsProofs.C18"]

V16_MSG = "A new ErrorKind was added without updating this code"
# open findings of this property that the generator keeps away from (witness replayed as KNOWN-FINDING
# when known_findings.json lists them with status "open")
OPEN_ZONES = {
    "X16": "str.repeat with a count whose output is huge but does not overflow int: the allocation "
           "fails or exhausts memory and kills the host",
}


# ---------------------------------------------------------------------------
# parsing the two sides
# ---------------------------------------------------------------------------

def split_sides(line):
    """`VM=… | TREE=…` -> {"VM": res, "TREE": res}; CRASH/HANG/PANIC of the whole line -> both sides."""
    if line.startswith(("CRASH", "HANG", "PANIC", "BAD-INPUT")):
        return {"VM": line, "TREE": line}
    out = {}
    for part in line.split(" | "):
        k, _, v = part.partition("=")
        out[k] = v
    return out


def fields_of(res):
    """`OK kind=.. ret=(..) recv=(..) disp=x.. rdisp=x..` -> dict (values may contain spaces)."""
    head, _, rest = res.partition(" ")
    d = {"head": head}
    keys = list(re.finditer(r"(?:^| )(kind|ret|recv|disp|rdisp|class|msg|step)=", rest))
    for i, m in enumerate(keys):
        end = keys[i + 1].start() if i + 1 < len(keys) else len(rest)
        d[m.group(1)] = rest[m.end():end].strip()
    return d


def norm(res):
    """Comparable core of a result line of either side."""
    f = fields_of(res)
    step = f" step={f['step']}" if "step" in f else ""
    if f["head"] == "OK":
        return f"OK ret={f.get('ret')} recv={f.get('recv')}{step}"
    if f["head"] == "INT":
        return f"INT class={f.get('class')} kind={f.get('kind')} msg={f.get('msg')}{step}"
    return f["head"] + step


# ---------------------------------------------------------------------------
# the wrap rule in Python integers (independent of the Lean model)
# ---------------------------------------------------------------------------

def wrap(i, n, insert=False):
    k = i + n if i < 0 else i
    if k < 0 or (k > n if insert else k >= n):
        return None
    return k


def rule_expectation(c):
    """('ok', ret_sx, recv_sx) | ('oob',) | None for the operations the property states a rule for."""
    recv, args = c["recv"], c["args"]
    if c["op"] == "index" and recv[0] == "list":
        k = wrap(args[0][1], len(recv[1]))
        return ("oob",) if k is None else ("ok", G.sx(recv[1][k]), G.sx(recv))
    if c["op"] == "index" and recv[0] == "str":
        k = wrap(args[0][1], len(recv[1]))
        return ("oob",) if k is None else ("ok", G.sx(("str", recv[1][k])), G.sx(recv))
    if c["op"] == "index" and recv[0] in ("obj", "anyobj"):
        held = dict(recv[1]).get(args[0][1])
        return ("oob",) if held is None else ("ok", G.sx(held), G.sx(recv))
    if c["op"] == "call" and recv[0] == "list" and c["member"] == "insert":
        k = wrap(args[0][1], len(recv[1]), insert=True)
        return ("oob",) if k is None else ("ok", "null", G.sx(("list", recv[1][:k] + [args[1]] + recv[1][k:])))
    if c["op"] == "call" and recv[0] == "str" and c["member"] == "substring":
        u = args[0][1]          # an upper bound, not an element index: 0 <= u < len, otherwise the exception
        return ("ok", G.sx(("str", recv[1][:u])), G.sx(recv)) if 0 <= u < len(recv[1]) else ("oob",)
    if c["op"] == "call" and recv[0] == "str" and c["member"] == "repeat":
        n = args[0][1]
        if n < 0 or len(recv[1].encode("utf-8")) * n > G.I64_MAX:
            return ("oob",)
        return ("ok", G.sx(("str", recv[1] * n)), G.sx(recv))
    if c["op"] == "call" and recv[0] == "list" and c["member"] == "remove":
        k = wrap(args[0][1], len(recv[1]))
        return ("oob",) if k is None else ("ok", "null", G.sx(("list", recv[1][:k] + recv[1][k + 1:])))
    return None


# ---------------------------------------------------------------------------

class Judge:
    def __init__(self, ctx):
        self.ctx = ctx
        self.seen = set()
        self.bad_tie = 0
        self.stats = {"direct_cases": 0, "modelled_cases": 0, "inlang_programs": 0, "interrupt_results": 0,
                      "rule_checked": 0, "sequences": 0, "v16_unprintable_kind": 0}

    def violate(self, key, replay, what):
        """One violation per (kind, rep, member, backend): the product repeats a defect many times."""
        if key in self.seen:
            return
        self.seen.add(key)
        self.ctx.violation(replay, what)

    def tie(self, what):
        self.bad_tie += 1
        if self.bad_tie <= 8:
            self.ctx.broken.append("correspondence:" + what)


def direct_oracle(j, c, line, be, res, conf):
    """Implementation-side oracle for one backend's direct result. Returns True when it holds."""
    who = f"{c['rep']}.{c['member']}" if c["op"] != "index" else f"{c['rep']}[]"
    rep = {"kind": "member", "line": line, "rep": c["rep"], "member": c["member"], "op": c["op"], "backend": be,
           "case": {k: c[k] for k in ("op", "rep", "member", "recv", "args", "rep_ty", "params", "result", "modelled")}}
    grp = c["rep_ty"][0] if isinstance(c["rep_ty"], tuple) else c["rep"]     # one report per type kind
    head = res.split(" ", 1)[0]
    if head == "MISSING":
        j.violate(("missing", grp, c["member"], be), rep,
                  f"{who} is offered by the analyzer but missing on the {be} value (Fields() has no such key)")
        return False
    if head in ("PANIC", "CRASH", "HANG"):
        msg = res.split(" ", 1)[1] if " " in res else ""
        try:
            msg = core.unhex(msg.split(" ")[0])
        except Exception:
            pass
        j.violate(("panic", grp, c["member"], be, re.sub(r"\d+", "N", msg)[:40]), rep,
                  f"{who} with {' '.join(G.sx(a) for a in c['args']) or 'no arguments'} on {G.sx(c['recv'])} "
                  f"panics the {be} runtime: {msg[:120]}")
        return False
    if head == "NOTFN":
        j.violate(("shape", grp, c["member"], be), rep, f"{who} is offered as a method but is a field on the {be} value")
        return False
    if head == "INT":
        j.stats["interrupt_results"] += 1
        f = fields_of(res)
        if f.get("recv") != G.sx(c["recv"]):
            j.violate(("int-mutates", grp, c["member"], be), rep,
                      f"{who} answered with an interrupt but changed the receiver to {f.get('recv')}")
            return False
        exp = rule_expectation(c)
        if exp is not None and exp[0] == "ok":
            j.violate(("rule", grp, c["member"], be), rep,
                      f"{who}: index {c['args'][0][1]!r} is in range for {G.sx(c['recv'])} but the {be} runtime answers "
                      f"with an interrupt ({core.unhex(f.get('msg', 'x'))[:80]})")
            return False
        return True
    if head != "OK":
        j.tie(f"membercall:{line}: unexpected answer {res[:80]}")
        return True
    f = fields_of(res)
    if conf is None or not conf.startswith("CONF"):
        j.tie(f"mconf:{who}: {conf}")
    else:
        if "ret=false" in conf:
            j.violate(("type", grp, c["member"], be), rep,
                      f"{who} returns {f.get('ret')} (kind {f.get('kind')}) on the {be} runtime, which is not a value of "
                      f"the advertised result type {c['result']}")
            return False
        if "recv=false" in conf:
            j.violate(("recv-type", grp, c["member"], be), rep,
                      f"{who} leaves the receiver {f.get('recv')}, no longer a value of its type")
            return False
    for hx in re.findall(r"\(str x([0-9a-f]*)\)", f.get("ret", "") + " " + f.get("recv", "")):
        try:
            bytes.fromhex(hx).decode("utf-8")
        except UnicodeDecodeError:
            j.violate(("utf8", grp, c["member"], be), rep,
                      f"{who} with {' '.join(G.sx(a) for a in c['args'])} on {G.sx(c['recv'])}: the {be} runtime produces the "
                      f"string x{hx}, which is not valid UTF-8 (a character cut in half)")
            return False
    exp = rule_expectation(c)
    if exp is not None:
        j.stats["rule_checked"] += 1
        if exp[0] == "oob":
            j.violate(("rule", grp, c["member"], be), rep,
                      f"{who}: index {c['args'][0][1]!r} is out of range for {G.sx(c['recv'])} but the {be} runtime "
                      f"returns {f.get('ret')} / {f.get('recv')} instead of an interrupt")
            return False
        if f.get("ret") != exp[1] or f.get("recv") != exp[2]:
            j.violate(("rule", grp, c["member"], be), rep,
                      f"{who} with {' '.join(G.sx(a) for a in c['args'])} on {G.sx(c['recv'])}: the {be} runtime gives "
                      f"{f.get('ret')} / {f.get('recv')}, the wrap rule gives {exp[1]} / {exp[2]}")
            return False
    return True


def x13_variant(c, be, res, m):
    """Finding X13 (`unwrap` of `none` threw on the VM but was fatal on the interpreter) is repaired and the
    model raises the same exception for both runtimes: no tolerance any more."""
    return False


def run_direct(j, cases):
    ctx = j.ctx
    lines = [G.case_line(c) for c in cases]
    go = core.go_lines("membercall", lines)
    model_in = []
    for ln in lines:
        model_in += ["mmodel vm " + ln, "mmodel tree " + ln]
    model = core.lean_lines(model_in)
    # conformance of OK results against the regenerated table
    conf_in, conf_idx = [], []
    sides = []
    for i, (c, g) in enumerate(zip(cases, go)):
        s = split_sides(g)
        sides.append(s)
        for be in ("VM", "TREE"):
            r = s.get(be, "")
            if r.startswith("OK"):
                f = fields_of(r)
                kind = "index" if c["op"] == "index" else c["op"]
                conf_in.append(f"mconf {kind} {G.xhex(c['rep'])} {G.xhex(c['member'])} {f.get('ret')} {f.get('recv')}")
                conf_idx.append((i, be))
    conf = dict(zip(conf_idx, core.lean_lines(conf_in))) if conf_in else {}
    healthy = []
    for i, c in enumerate(cases):
        j.stats["direct_cases"] += 1
        ctx.count(case_key=lines[i], nontrivial=bool(c["args"]) or G.length_of(c["recv"]) > 0 or c["recv"][0] not in ("list", "str"))
        ok_all = True
        for bi, be in enumerate(("VM", "TREE")):
            res = sides[i].get(be, "")
            ok = direct_oracle(j, c, lines[i], be, res, conf.get((i, be)))
            ok_all = ok_all and ok
            m = model[2 * i + bi]
            if m != "UNMODELLED" and not m.startswith("BAD"):
                j.stats["modelled_cases"] += 1
                if ok and norm(res) != norm(m) and not x13_variant(c, be, res, m):
                    j.tie(f"member:{be}:{lines[i]}: go={norm(res)[:140]} model={norm(m)[:140]}")
            elif m.startswith("BAD"):
                j.tie(f"mmodel:{lines[i]}: {m}")
            elif c["modelled"] and c["op"] != "index":
                j.tie(f"member:{lines[i]}: inside `modelled` but the model answers UNMODELLED")
        # both runtimes implement every member: same result, same receiver afterwards, same interrupt (also where the
        # member is outside the Lean model)
        rv, rt = sides[i].get("VM", ""), sides[i].get("TREE", "")
        def cmpkey(r):
            # fatal errors are compared by kind (their texts are host-facing diagnostics and differ in wording between the
            # libraries); values, receivers and catchable exceptions (whose message a program can read) are compared exactly
            if r.startswith("INT class=fatal"):
                return "fatal " + fields_of(r).get("kind", "")
            return norm(r)
        if ok_all and rv and rt and cmpkey(rv) != cmpkey(rt):
            who = f"{c['rep']}.{c['member']}" if c["op"] != "index" else f"{c['rep']}[]"
            j.violate(("cross-runtime", c["rep"], c["member"]), {"kind": "member", "line": lines[i], "vm": rv[:400], "tree": rt[:400]},
                      f"{who} with {' '.join(G.sx(a) for a in c['args'])} on {G.sx(c['recv'])}: the VM runtime gives {norm(rv)[:120]}, "
                      f"the interpreter runtime {norm(rt)[:120]}")
            ok_all = False
        if ok_all:
            healthy.append((c, sides[i]))
        ctx.sample({"case": lines[i], "go": go[i][:300], "model_vm": model[2 * i][:200]})
    return healthy


def parallel_go(subcmd, lines, workers=8):
    """`core.go_lines` over several worker processes (the VM's `Wait` sleeps between polls, so one
    process is idle most of the time); the answers keep the order of the lines."""
    if len(lines) < 4 * workers:
        return core.go_lines(subcmd, lines, timeout=900)
    step = (len(lines) + workers - 1) // workers
    chunks = [lines[i:i + step] for i in range(0, len(lines), step)]
    with ThreadPoolExecutor(max_workers=workers) as ex:
        parts = list(ex.map(lambda ch: core.go_lines(subcmd, ch, timeout=900, memlimit="1GiB"), chunks))
    return [x for part in parts for x in part]


def expected_out(res, has_result):
    f = fields_of(res)
    out = ""
    if has_result:
        out += core.unhex(f.get("disp", "x")) + "\n"
    return out + core.unhex(f.get("rdisp", "x")) + "\n"


def run_inlang(j, healthy):
    """The same cases as one-line programs through analyzer, compiler, VM and interpreter."""
    ctx = j.ctx
    progs = []
    for c, sides in healthy:
        src = G.program(c["op"], c["rep_ty"], c["member"], c["recv"], c["args"], c["params"], c["result"])
        if src is not None:
            progs.append((c, sides, src))
    if not progs:
        return
    go = parallel_go("run", [f"(run (main {core.xhex(src)}))" for _, _, src in progs])
    for (c, sides, src), g in zip(progs, go):
        j.stats["inlang_programs"] += 1
        ctx.count(case_key=src, nontrivial=True)
        who = f"{c['rep']}.{c['member']}" if c["op"] != "index" else f"{c['rep']}[]"
        rep = {"kind": "prog", "main": src, "rep": c["rep"], "member": c["member"]}
        if g.startswith(("CRASH", "HANG", "PANIC")):
            what = g.split(" ", 1)
            try:
                msg = core.unhex(what[1])
            except Exception:
                msg = g
            j.violate(("prog-crash", c["rep"], c["member"], msg[:40]), rep,
                      f"the accepted program `{src}` ({who}) crashes the host: {msg[:140]}")
            continue
        parts = dict(p.split("=", 1) for p in g.split(" | ") if "=" in p)
        if not parts.get("A", "").startswith("ACCEPT"):
            first = re.search(r"first=(x[0-9a-f]*)", parts.get("A", ""))
            j.tie(f"inlang-rejected:{src}: {core.unhex(first.group(1)) if first else parts.get('A')}")
            continue
        has_result = c["result"] != "null"
        for be in ("VM", "TREE"):
            out = parts.get(be, "")
            direct = sides.get(be, "")
            if out.startswith("PANIC"):
                msg = core.unhex(out.split(" ")[1])
                if V16_MSG in msg and direct.startswith("INT class=fatal"):
                    j.stats["v16_unprintable_kind"] += 1      # the fatal kind has no String() (finding V16, C02/C08)
                    continue
                j.violate(("prog-panic", c["rep"], c["member"], be, msg[:40]), rep,
                          f"the accepted program `{src}` ({who}) panics the {be} backend: {msg[:140]}")
                continue
            if direct.startswith("OK"):
                m = re.match(r"OK out=(x[0-9a-f]*)", out)
                if not m:
                    j.tie(f"inlang:{be}:{src}: direct call returns a value, the program ends with {out[:100]}")
                elif core.unhex(m.group(1)) != expected_out(direct, has_result):
                    j.tie(f"inlang:{be}:{src}: prints {core.unhex(m.group(1))!r}, direct call displays "
                          f"{expected_out(direct, has_result)!r}")
            elif direct.startswith("INT"):
                if not out.startswith(("FATAL", "INTERRUPT")):
                    j.tie(f"inlang:{be}:{src}: direct call raises an interrupt, the program ends with {out[:100]}")
                else:
                    f = fields_of(direct)
                    m = re.search(r"msg=(x[0-9a-f]*)", out)
                    if m and f.get("msg") and core.unhex(f["msg"]) not in core.unhex(m.group(1)):
                        j.tie(f"inlang:{be}:{src}: interrupt message {core.unhex(m.group(1))!r} vs direct "
                              f"{core.unhex(f['msg'])!r}")
        ctx.sample({"prog": src, "go": g[:300]}, limit=10)


def run_sequences(j, n, max_len, n_inlang):
    ctx = j.ctx
    seqs = G.random_sequences(ctx.rng, n, max_len)
    lines = [s["line"] for s in seqs]
    go = core.go_lines("membercall", lines)
    model_in = []
    for ln in lines:
        model_in += ["mmodel vm " + ln, "mmodel tree " + ln]
    model = core.lean_lines(model_in)
    for i, s in enumerate(seqs):
        j.stats["sequences"] += 1
        ctx.count(case_key=lines[i], nontrivial=len(s["steps"]) > 1)
        sides = split_sides(go[i])
        for bi, be in enumerate(("VM", "TREE")):
            res = sides.get(be, "")
            rep = {"kind": "member", "line": lines[i], "rep": "list_int", "member": "seq", "op": "seq", "backend": be}
            if res.split(" ", 1)[0] in ("PANIC", "CRASH", "HANG", "MISSING", "NOTFN"):
                j.violate(("seq", be, res[:30]), rep, f"a sequence of list member calls breaks the {be} runtime: {res[:120]} on {lines[i][:200]}")
                continue
            if norm(res) != norm(model[2 * i + bi]):
                # the model is proved to follow the wrap rule (insert_total, remove_total, pop_total, …):
                # a deviation of the implementation in a sequence is a wrong element / a wrong list
                j.violate(("seq-rule", be), rep,
                          f"after a sequence of list member calls the {be} runtime holds {norm(res)[:160]} where the rule "
                          f"gives {norm(model[2 * i + bi])[:160]}: {lines[i][:300]}")
    # the same sequences as programs (compiler and both backends on the path)
    sel = [(s, split_sides(g)) for s, g in zip(seqs[:n_inlang], go[:n_inlang])
           if not any(x.split(" ", 1)[0] in ("PANIC", "CRASH", "HANG", "MISSING", "NOTFN") for x in split_sides(g).values())]
    progs = [G.seq_program(s) for s, _ in sel]
    outs = parallel_go("run", [f"(run (main {core.xhex(p)}))" for p in progs]) if progs else []
    for (s, sides), src, g in zip(sel, progs, outs):
        j.stats["inlang_programs"] += 1
        ctx.count(case_key=src, nontrivial=True)
        rep = {"kind": "prog", "main": src, "rep": "list_int", "member": "seq"}
        if g.startswith(("CRASH", "HANG", "PANIC")):
            j.violate(("prog-crash", "seq", g[:40]), rep, f"the accepted program `{src}` crashes the host: {g[:140]}")
            continue
        parts = dict(p.split("=", 1) for p in g.split(" | ") if "=" in p)
        if not parts.get("A", "").startswith("ACCEPT"):
            j.tie(f"inlang-rejected:{src}: {parts.get('A')}")
            continue
        for be in ("VM", "TREE"):
            out, direct = parts.get(be, ""), sides.get(be, "")
            if out.startswith("PANIC"):
                j.violate(("prog-panic", "seq", be), rep, f"the accepted program `{src}` panics the {be} backend: {out[:140]}")
            elif direct.startswith("OK"):
                m = re.match(r"OK out=(x[0-9a-f]*)", out)
                want = core.unhex(fields_of(direct).get("rdisp", "x")) + "\n"
                if not m or core.unhex(m.group(1)) != want:
                    j.tie(f"inlang:{be}:{src}: ends with {out[:80]}, the direct calls leave {want!r}")
            elif direct.startswith("INT") and not out.startswith(("FATAL", "INTERRUPT")):
                j.tie(f"inlang:{be}:{src}: the direct calls raise an interrupt, the program ends with {out[:80]}")
    # member values: `let m = v.pop; …; m()` answers what `v.pop()` answers at the time of the call
    shown = [(G.seq_program_shown(s, False), G.seq_program_shown(s, True)) for s, _ in sel]
    outs = parallel_go("run", [f"(run (main {core.xhex(p)}))" for pair in shown for p in pair]) if shown else []
    for k, (direct_src, held_src) in enumerate(shown):
        gd, gh = outs[2 * k], outs[2 * k + 1]
        j.stats["held_member_programs"] = j.stats.get("held_member_programs", 0) + 1
        ctx.count(case_key=held_src, nontrivial=True)
        rep = {"kind": "prog", "main": held_src, "direct": direct_src, "rep": "list_int", "member": "held-seq"}
        if gh.startswith(("CRASH", "HANG", "PANIC")):
            j.violate(("prog-crash", "held", gh[:40]), rep, f"the accepted program `{held_src}` crashes the host: {gh[:140]}")
            continue
        pd = dict(p.split("=", 1) for p in gd.split(" | ") if "=" in p)
        ph = dict(p.split("=", 1) for p in gh.split(" | ") if "=" in p)
        if not pd.get("A", "").startswith("ACCEPT") or not ph.get("A", "").startswith("ACCEPT"):
            j.tie(f"inlang-rejected:{held_src}: {ph.get('A')}")
            continue
        for be in ("VM", "TREE"):
            d, h = progstream.parse_outcome(pd.get(be)), progstream.parse_outcome(ph.get(be))
            if h["cls"] in ("PANIC", "CRASH", "HANG") or not progstream.same_outcome(d, h):
                j.violate(("held", be), rep, f"member values of a list on the {be} backend: `{held_src}` ends {h['cls']} {h.get('kind', '')} "
                                             f"out={h.get('out', '')[-80:]!r}, the direct calls `{direct_src}` end {d['cls']} {d.get('kind', '')} out={d.get('out', '')[-80:]!r}")
                break


def read_tables():
    rows_line, reps_line, conv = core.lean_lines(["mrows", "mreps", "mconverse"])
    rows = []
    for r in rows_line.split(";"):
        rep, member, meth, params, result, modelled = r.split("|")
        ptoks = G.parse_ty(params)
        rows.append((rep, member, meth == "true", list(ptoks) if isinstance(ptoks, tuple) else [], G.parse_ty(result),
                     modelled == "true"))
    reps = {}
    for r in reps_line.split(";"):
        rep, t = r.split("|")
        reps[rep] = G.parse_ty(t)
    return rows, reps, conv


def witness_fails(w):
    """Does a recorded witness still break the implementation (crash, panic, missing member)?"""
    if w.get("kind") == "prog":
        g = core.go_lines("run", [f"(run (main {core.xhex(w['main'])}))"], timeout=60, memlimit="1GiB")[0]
        return g.startswith(("CRASH", "HANG", "PANIC")) or ("=PANIC" in g and V16_MSG.encode().hex() not in g), g
    if w.get("kind") == "member":
        g = core.go_lines("membercall", [w["line"]], timeout=60, memlimit="1GiB")[0]
        return g.startswith(("CRASH", "HANG", "PANIC")) or "=PANIC" in g or "MISSING" in g or "NOTFN" in g, g
    return None, ""


def replay_known(ctx):
    """Open findings: replay the witness, print KNOWN-FINDING. Fixed findings: regression cases."""
    for e in core.load_known("C18"):
        w = e.get("witness", {})
        fails, g = witness_fails(w)
        if e.get("status") == "open":
            ctx.known(e["id"], e.get("what", ""))
            if fails is False:
                ctx.note(f"known finding {e['id']}: the witness no longer fails")
        elif fails:
            ctx.violation(dict(w, go=g[:300]), f"fixed finding {e['id']} fails again: {e.get('what', '')[:160]}")


def run_field_shadow(j, rows):
    """A data field named like a builtin member of objects (the analyzer lets the declared field win and offers it with
    the field's type): `.name` is the field on both runtimes — read, assigned, compound-assigned. The names come from
    the regenerated member table (every member the analyzer offers on an object)."""
    ctx = j.ctx
    names = sorted({r[1] for r in rows if r[0] in ("obj", "object") and isinstance(r[1], str)}) or ["to_string", "keys", "to_json", "to_json_indent"]
    for must in ("to_string", "keys", "to_json", "to_json_indent"):
        if must not in names:
            names.append(must)
    progs = []
    for n in names:
        progs.append((n, f'type T = {{ {n}: int, other: str }};\nfn main() {{ let c = "{{\\"{n}\\": 3, \\"other\\": \\"x\\"}}".parse_json() as T; '
                         f'println(c.{n} + 1); c.{n} = 5; println(c.{n}); c.{n} += 2; println(c.{n}, c.other); let d = c; d.{n} = 1; println(c.{n}); }}'))
    outs = parallel_go("run", [f"(run (main {core.xhex(p)}))" for _, p in progs])
    for (n, src), g in zip(progs, outs):
        j.stats["field_shadow_programs"] = j.stats.get("field_shadow_programs", 0) + 1
        ctx.count(case_key=src, nontrivial=True)
        rep = {"kind": "prog", "main": src, "rep": "obj", "member": n}
        if g.startswith(("CRASH", "HANG", "PANIC")):
            j.violate(("prog-crash", "field-shadow", n), rep, f"the accepted program `{src}` crashes the host: {g[:140]}")
            continue
        parts = dict(p.split("=", 1) for p in g.split(" | ") if "=" in p)
        if not parts.get("A", "").startswith("ACCEPT"):
            ctx.coverage["field_shadow_rejected"] = ctx.coverage.get("field_shadow_rejected", 0) + 1
            continue
        for be in ("VM", "TREE"):
            o = progstream.parse_outcome(parts.get(be))
            if o["cls"] != "OK" or o.get("out") != "4\n5\n7 x\n1\n":
                j.violate(("field-shadow", be), rep, f"a data field named like the builtin member `{n}`: the {be} backend ends {o['cls']} {o.get('kind', '')} "
                                                    f"out={o.get('out', '')[-60:]!r}, the field semantics give '4\\n5\\n7 x\\n1\\n' (`{src}`)")
                break


def run_self_containment(j):
    """`{ ? }.set(key, value)` refuses every value that contains the receiver, wherever it sits in the value (any position of
    a list, nested lists, object fields, options) — on both runtimes; a value without the receiver is stored."""
    ctx = j.ctx
    shapes = [("o", True), ("[o]", True), ("[o, p]", True), ("[p, o]", True), ("[p, q, o]", True), ("[[p], [p, o]]", True), ("new { items: [p, o] }", True),
              ("new { a: p, b: new { c: [[q], [o]] } }", True), ("?[p, o]", True), ("?o", True), ("[p, q]", False), ("new { items: [p, q] }", False), ("?[p]", False)]
    progs = []
    for shape, refused in shapes:
        src = ('fn main() { let o = new { ? }; let p = new { ? }; let q = new { ? }; p.set("n", 1); q.set("p", p); '
               'try { o.set("k", ' + shape + '); println("stored", o.keys()); } catch e { println("refused", e.message); } println(o.keys().len()); }')
        progs.append((shape, refused, src))
    outs = parallel_go("run", [f"(run (main {core.xhex(p)}))" for _, _, p in progs])
    for (shape, refused, src), g in zip(progs, outs):
        j.stats["self_containment_programs"] = j.stats.get("self_containment_programs", 0) + 1
        ctx.count(case_key=src, nontrivial=True)
        rep = {"kind": "prog", "main": src, "rep": "anyobj", "member": "set"}
        if g.startswith(("CRASH", "HANG", "PANIC")):
            j.violate(("prog-crash", "self-containment", shape), rep, f"the accepted program `{src}` crashes the host: {g[:140]}")
            continue
        parts = dict(p.split("=", 1) for p in g.split(" | ") if "=" in p)
        if not parts.get("A", "").startswith("ACCEPT"):
            j.tie(f"inlang-rejected:{src}: {parts.get('A')}")
            continue
        want = "refused an any-object cannot contain itself\n0\n" if refused else "stored [k]\n1\n"
        for be in ("VM", "TREE"):
            o = progstream.parse_outcome(parts.get(be))
            if o["cls"] != "OK" or o.get("out") != want:
                j.violate(("self-containment", be, shape), rep, f"{{ ? }}.set with the value {shape} on the {be} backend: ends {o['cls']} out={o.get('out', '')[-70:]!r}, expected {want!r}")
                break


def run_function_values(j):
    """`{ ? }.get_type` / `get` / `keys` answer for every kind of stored value, function values included (named functions,
    function literals, builtins, functions inside lists / objects / options) — on both runtimes."""
    ctx = j.ctx
    src = ('fn helper(x: int) -> int { x + 1 }\nfn main() { let o = new { ? }; o.set("u", helper); o.set("l", fn(x: int) -> int { x }); '
           'let nn: ?int = none; o.set("non", nn); o.set("lf", [helper]); o.set("of", new { f: helper }); o.set("sf", ?helper); o.set("b", println); '
           'for k in o.keys() { println(k, o.get_type(k)); } println(o.get("u").is_some(), o.keys().len()); }')
    want = "b function\nl function\nlf list\nnon Option\nof object\nsf Option\nu function\ntrue 7\n"
    g = parallel_go("run", [f"(run (main {core.xhex(src)}))"])[0]
    j.stats["function_value_programs"] = 1
    ctx.count(case_key=src, nontrivial=True)
    rep = {"kind": "prog", "main": src, "rep": "anyobj", "member": "get_type"}
    if g.startswith(("CRASH", "HANG", "PANIC")):
        j.violate(("prog-crash", "function-values"), rep, f"the accepted program `{src}` crashes the host: {g[:140]}")
        return
    parts = dict(p.split("=", 1) for p in g.split(" | ") if "=" in p)
    if not parts.get("A", "").startswith("ACCEPT"):
        j.tie(f"inlang-rejected:{src}: {parts.get('A')}")
        return
    for be in ("VM", "TREE"):
        o = progstream.parse_outcome(parts.get(be))
        if o["cls"] != "OK" or o.get("out") != want:
            j.violate(("function-values", be), rep, f"{{ ? }}.get_type over function values on the {be} backend: ends {o['cls']} {o.get('msg', '')[:80]} out={o.get('out', '')[-70:]!r}, expected {want!r}")
            break


def run(ctx):
    st = core.prepare(ctx, MODULES)
    ctx.assumptions += [
        "Go `int` is 64 bits wide (`int(x)` of an int64 is the identity); slices and strings are shorter than 2^63",
        "strings are valid UTF-8 and NFC-stable (the VM normalises string values, finding X11 belongs to C13)",
        "the (type kind x member) product is taken over the representatives `harness/members.go` lists "
        "(scalars, range, lists of int/str/float/bool/[int]/range/?int, any-object, object {a: int}, ?int/?str/?[int])",
        "str.repeat is exercised with counts whose output is small or overflows `int`; a huge but representable output "
        "is an allocation question (open finding X16, resource limits: C09)",
    ]
    if not st["harness"] or not st["dump"]:
        ctx.violation({"kind": "build", "log": st.get("log", "")[-3000:]},
                      "harness or table dump no longer builds against /repo", no_input=True)
        return
    if not st["model"]:
        ctx.violation({"kind": "build", "log": st.get("log", "")[-3000:]}, "Lean model / driver no longer builds", no_input=True)
        return
    replay_known(ctx)
    rows, reps, conv = read_tables()
    ctx.coverage["analyzer_rows"] = len(rows)
    ctx.coverage["representatives"] = len(reps)
    ctx.coverage["modelled_rows"] = sum(1 for r in rows if r[5])
    ctx.coverage["runtime_members_not_offered"] = conv
    j = Judge(ctx)
    cases = G.cases(rows, reps, ctx.tier)
    healthy = []
    for i in range(0, len(cases), 4000):
        healthy += run_direct(j, cases[i:i + 4000])
    run_inlang(j, healthy)
    if ctx.tier == "quick":
        run_sequences(j, 4000, 8, 1500)
    else:
        run_sequences(j, 60000, 14, 12000)
    run_field_shadow(j, rows)
    run_self_containment(j)
    run_function_values(j)
    ctx.coverage.update(j.stats)
    ctx.coverage["exhaustive"] = True
    ctx.coverage["rule"] = ("the regenerated analyzer member table (every representative x every member) x boundary receivers "
                            "(empty/one/many elements, empty and non-ASCII strings, none/some, extreme ranges) x boundary "
                            "arguments (indices -len-1..len+1, 0, +-2^31, +-(2^63-1), -2^63; zero/negative/overflowing "
                            "counts; present/missing/method-named keys), exhaustively on every run, each through the direct "
                            "route (both value packages) and as a one-line program (analyzer, compiler, VM, interpreter); "
                            "plus seeded random sequences of list members on one receiver; non-trivial = distinct case "
                            "with arguments or a non-empty receiver")
    ctx.coverage["traces_validated_against_impl"] = ctx.evaluations
    if j.bad_tie:
        ctx.coverage["correspondence_mismatches"] = j.bad_tie
    if ctx.broken and not ctx.violations:
        ctx.violation({"kind": "broken-tie", "broken": ctx.broken[:10], "log": st.get("log", "")[-3000:]},
                      "proof obligation or model/code correspondence no longer checks: " + "; ".join(ctx.broken[:3]),
                      no_input=True)


def _val(v):
    """JSON lists back to the tuples of gen/members.py."""
    tag = v[0]
    if tag == "list":
        return ("list", [_val(x) for x in v[1]])
    if tag in ("anyobj", "obj"):
        return (tag, [(k, _val(x)) for k, x in v[1]])
    if tag == "some":
        return ("some", _val(v[1]))
    return tuple(v)


def _ty(t):
    return t if isinstance(t, str) else tuple(_ty(x) for x in t)


class ReplayCtx:
    """Collects what the oracle says during a replay instead of writing replay files."""
    def __init__(self):
        self.hits, self.broken = [], []

    def violation(self, replay, what, no_input=False):
        self.hits.append(what)

    def count(self, **kw):
        pass

    def sample(self, *a, **kw):
        pass


def replay(ctx, rep):
    ok, log = core.build_harness()
    if not ok:
        print(log)
        return 1
    kind = rep.get("kind")
    if kind == "member" and "case" in rep:
        c = dict(rep["case"])
        c["recv"] = _val(c["recv"])
        c["args"] = tuple(_val(a) for a in c["args"])
        c["rep_ty"], c["result"] = _ty(c["rep_ty"]), _ty(c["result"])
        c["params"] = [_ty(p) for p in c["params"]]
        j = Judge(ReplayCtx())
        run_direct(j, [c])
        print("case:", G.case_line(c))
        print("go:  ", core.go_lines("membercall", [G.case_line(c)])[0])
        for h in j.ctx.hits:
            print("  ", h)
        if j.ctx.hits:
            print("VIOLATION property=C18 replay=(replayed)")
            return 1
        print("replay: property holds on this input now")
        return 0
    if kind == "member":
        g = core.go_lines("membercall", [rep["line"]])[0]
        print("case:", rep["line"])
        print("go:  ", g)
        if g.startswith(("CRASH", "HANG", "PANIC")) or "=PANIC" in g or "MISSING" in g or "NOTFN" in g:
            print("VIOLATION property=C18 replay=(replayed)")
            return 1
        print("replay: property holds on this input now")
        return 0
    if kind == "prog":
        g = core.go_lines("run", [f"(run (main {core.xhex(rep['main'])}))"])[0]
        print("prog:", rep["main"])
        print("go:  ", g)
        if g.startswith(("CRASH", "HANG", "PANIC")) or ("=PANIC" in g and V16_MSG.encode().hex() not in g):
            print("VIOLATION property=C18 replay=(replayed)")
            return 1
        print("replay: property holds on this input now")
        return 0
    print("replay names a broken obligation, not an input:", rep)
    return 1
