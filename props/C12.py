"""C12 — the dynamic-to-static type boundary is sound.

Theorems: HmsProofs.C12 (cast_sound, cast_identity, cast_admits_iff, cast_refuses,
cast_error_path, deepCast_error_path, cast_preserves_wf, cast_idempotent, conforms_convertible)
about `Hms.Value.castAll`, the model of DeepCast of both value libraries.
Tie: Go `DeepCast` of runtime/value and interpreter/value <-> `castAll` on the same (value, type,
allowCasts) triple: admitted value, or (error class, field, path) within the set of errors some
map order can report; in-program routes (`parse_json` + annotated `let` / `as`) on both backends
<-> `castAll ∘ unmarshalUntyped`, the program then uses the admitted value at its static type.
Oracle (on the Go results, evaluated with the specification side of the model, not `castAll`):
admitted => conforms; conforming => admitted unchanged; not convertible => refused; a refusal
names a path to a sub-value that offends; in programs the refusal is a caught exception on both
backends and nothing panics.
"""
import re

from gen import values as G
from vlib import core

import os
if os.environ.get("VERIF_DRV"):      # development only: a scratch driver while the shared one is being rebuilt
    core.DRV = os.environ["VERIF_DRV"]

MODULES = ["HmsProofs.C12"]

KEY_RE = re.compile(r"(?:found unexpected field|field) '(.*?)'(?: was expected but not found)?$", re.S)


def go_err_fields(line):
    """ERR <class> path=x.. msg=x.. [kind=..] -> (class, key, path, kind)"""
    parts = line.split()
    cls = parts[1]
    kv = dict(p.split("=", 1) for p in parts[2:] if "=" in p)
    msg = core.unhex(kv.get("msg", "x"))
    key = ""
    if cls in ("unexpected-field", "missing-field"):
        m = KEY_RE.search(msg)
        key = m.group(1) if m else "?"
    return cls, key, core.unhex(kv.get("path", "x")), kv.get("kind", "throw")


def model_errs(line):
    """ERR c:xkey:xpath … conf=.. -> set of (class, key, path)"""
    out = set()
    for p in line.split()[1:]:
        if "=" in p:
            break
        c, k, pa = p.split(":")
        out.add((c, core.unhex(k), core.unhex(pa)))
    return out


def flags(line):
    return dict(p.split("=", 1) for p in line.split() if "=" in p and not p.startswith("x"))


# ---------------------------------------------------------------------------
# stream 1: DeepCast of both value libraries
# ---------------------------------------------------------------------------

def gen_pairs(ctx, n):
    rng = ctx.rng
    out = []
    while len(out) < n:
        T = G.gen_type(rng, rng.choice([0, 1, 2, 2, 3, 4]))
        v = G.gen_value(rng, T, depth=3)
        r = rng.random()
        kind = "conforming"
        if r < 0.45:
            v, _ = G.perturb(rng, v)
            kind = "near-miss"
            if rng.random() < 0.25:
                v, _ = G.perturb(rng, v)
        elif r < 0.60:
            v = G.gen_value(rng, G.gen_type(rng, 2), depth=2)
            kind = "unrelated"
        elif r < 0.65:
            v = G.gen_any_value(rng, 2)
            kind = "unrelated"
        allow = rng.random() < 0.4
        out.append((allow, v, T, kind))
    return out


def check_direct(ctx, pairs):
    lines_vm, lines_tree, lines_lean = [], [], []
    for allow, v, T, _ in pairs:
        a = "true" if allow else "false"
        sv, st = G.sx_val(v), G.sx_ty(T)
        lines_vm.append(f"(cast vm {a} {sv} {st})")
        lines_tree.append(f"(cast tree {a} {sv} {st})")
        lines_lean.append(f"vcast {a} {sv} {st}")
    go = core.go_lines("val", lines_vm + lines_tree)
    n = len(pairs)
    go_vm, go_tree = go[:n], go[n:]
    lean = core.lean_lines(lines_lean)

    # second pass: the specification side judges what Go produced
    spec_lines, spec_idx = [], []
    for i, (allow, v, T, _) in enumerate(pairs):
        a = "true" if allow else "false"
        for lib, g in (("vm", go_vm[i]), ("tree", go_tree[i])):
            if g.startswith("OK "):
                spec_lines.append(f"vconf {g[3:]} {G.sx_ty(T)}")
                spec_idx.append((i, lib, "conf"))
            elif g.startswith("ERR "):
                cls, key, path, _k = go_err_fields(g)
                spec_lines.append(f"verr {a} {G.sx_val(v)} {G.sx_ty(T)} {cls} {G.hexs(key)} {G.hexs(path)}")
                spec_idx.append((i, lib, "err"))
    spec = dict(zip(spec_idx, core.lean_lines(spec_lines))) if spec_lines else {}

    kinds = {}
    for i, (allow, v, T, kind) in enumerate(pairs):
        m = lean[i]
        fl = flags(m)
        rep = {"kind": "cast", "allow": allow, "value": G.sx_val(v), "type": G.sx_ty(T)}
        if fl.get("wf") != "true":
            ctx.broken.append(f"generator produced an ill-formed case: {rep}")
            continue
        conf, conv = fl["conf"] == "true", fl["conv"] == "true"
        tag = ("conforming" if conf else "convertible" if conv else "refused")
        kinds[tag] = kinds.get(tag, 0) + 1
        ctx.count(case_key=(allow, rep["value"], rep["type"]), nontrivial=not isinstance(T, str) or not conf)
        canon_in = G.canon(v)
        for lib, g in (("vm", go_vm[i]), ("tree", go_tree[i])):
            what = None
            if g.startswith(("PANIC", "CRASH", "HANG")):
                what = f"DeepCast ({lib}) crashed: {g[:160]}"
            elif g.startswith("OK "):
                out = G.canon(G.val_of_sx(G.parse_sx(g[3:])))
                if spec.get((i, lib, "conf")) != "true":
                    what = f"{lib}: admitted value does not conform to the target type: {g[:200]}"
                elif not conv:
                    what = f"{lib}: a value that is not convertible by the permitted conversions was admitted: {g[:200]}"
                elif conf and fl["data"] == "true" and out != canon_in:
                    what = f"{lib}: a value that already has the type was not admitted unchanged: {g[:200]}"
                elif not m.startswith("OK ") or G.canon(G.val_of_sx(G.parse_sx(m.split(" outconf=")[0][3:]))) != out:
                    ctx.broken.append(f"correspondence:cast:{lib}:{rep}: go={g[:160]} model={m[:160]}")
            elif g.startswith("ERR "):
                cls, key, path, ekind = go_err_fields(g)
                if conf and fl["data"] == "true":
                    what = f"{lib}: a value that already has the type was refused: {g[:200]}"
                elif conv and m.startswith("OK "):
                    # convertible but not conforming: the model admits, Go refuses — the property allows
                    # a refusal here, the correspondence does not
                    ctx.broken.append(f"correspondence:cast:{lib}:{rep}: go refuses what the model admits: {g[:160]}")
                elif spec.get((i, lib, "err")) != "OFFENDS":
                    what = (f"{lib}: the cast error does not name an offending path "
                            f"(class {cls}, field {key!r}, path {path!r}: {spec.get((i, lib, 'err'))})")
                elif lib == "tree" and ekind != "throw":
                    what = f"{lib}: a failed cast is not a catchable exception ({ekind})"
                elif not m.startswith("ERR ") or (cls, key, path) not in model_errs(m):
                    ctx.broken.append(f"correspondence:cast:{lib}:{rep}: go={g[:160]} model={m[:200]}")
            else:
                what = f"{lib}: unexpected harness answer {g[:120]}"
            if what:
                ctx.violation(dict(rep, lib=lib, go=g[:400]), what)
        ctx.sample({"value": rep["value"][:120], "type": rep["type"][:80], "allow": allow, "vm": go_vm[i][:100], "model": m[:100]})
    return kinds


# ---------------------------------------------------------------------------
# stream 2: in-program routes (parse_json + annotated let / as) on both backends
# ---------------------------------------------------------------------------

def use_code(T, var, depth=0):
    """statements that use `var` at static type T with kind-specific operations (each prints one
    line); an unsoundly admitted value makes one of them panic"""
    ind = "        " + "    " * depth
    if isinstance(T, str):
        if T in ("int", "float"):
            return [f"{ind}println({var} - {var});"]
        if T == "bool":
            return [f"{ind}println(!{var} || {var});"]
        if T == "str":
            return [f"{ind}println({var}.len() - {var}.len());"]
        if T == "range":
            return [f"{ind}println({var}.diff() - {var}.diff());"]
        if T == "anyobj":
            return [f"{ind}println({var}.keys().len() - {var}.keys().len());"]
        return []
    if T[0] == "list":
        inner = use_code(T[1], f"e{depth}", depth + 1)
        out = [f"{ind}println({var}.len() - {var}.len());"]
        if inner:
            out += [f"{ind}for e{depth} in {var} {{"] + inner + [f"{ind}}}"]
        return out
    if T[0] == "opt":
        inner = use_code(T[1], f"u{depth}", depth + 1)
        out = [f"{ind}println({var}.is_some() || {var}.is_none());"]
        if inner:
            out += [f"{ind}if {var}.is_some() {{", f"{ind}    let u{depth} = {var}.unwrap();"] + inner + [f"{ind}}}"]
        return out
    if T[0] == "obj":
        out = []
        for k, ft in T[1]:
            out += use_code(ft, f"{var}.{k}", depth)
        return out
    return []


def use_lines(T, v):
    """what use_code prints for the admitted value v"""
    if isinstance(T, str):
        if T in ("int", "float", "str", "range", "anyobj"):
            return ["0"]
        if T == "bool":
            return ["true"]
        return []
    if T[0] == "list":
        out = ["0"]
        if use_code(T[1], "e"):
            for x in v[1]:
                out += use_lines(T[1], x)
        return out
    if T[0] == "opt":
        out = ["true"]
        if v[0] == "some" and use_code(T[1], "u"):
            out += use_lines(T[1], v[1])
        return out
    if T[0] == "obj":
        fv = dict(v[1])
        out = []
        for k, ft in T[1]:
            out += use_lines(ft, fv[k])
        return out
    return []


WRAPPED = set()


def gen_programs(ctx, n):
    rng = ctx.rng
    out = []
    tries = 0
    while len(out) < n and tries < n * 20:
        tries += 1
        # a share of the target types has `any` components (never `any` itself): the rest of such a type is validated all the same
        T = G.gen_type(rng, rng.choice([0, 1, 2, 3]), allow_any=rng.random() < 0.35, allow_null=False)
        if T == "any":
            continue
        ts = G.hms_type(T)
        if ts is None:
            continue
        v = G.gen_value(rng, T, depth=3, json_safe=True)
        if rng.random() < 0.5:
            v, _ = G.perturb(rng, v)
        js = G.json_of(v)
        if js is None:
            continue
        text = js[0]
        tree = G.jtree_of_text(text)
        lit = G.hms_string(text)
        if tree is None or lit is None:
            continue
        allow = rng.random() < 0.5
        bind = f"let x = {lit}.parse_json() as {ts};" if allow else f"let x: {ts} = {lit}.parse_json();"
        if T[0] != "opt" and rng.random() < 0.25:
            # the dynamic value sits in one field of an object literal (type `?any` through `->`), next to statically
            # typed fields before and/or after it: the annotated let validates the whole initializer
            wlit = G.hms_string('{"k": ' + text + '}')
            if wlit is None:
                continue
            fields = [("a0", "int", "7"), ("z9", "bool", "true")]
            fields.insert(rng.choice([0, 0, 1, 2]), ("p", "?" + ts, "s->k"))
            allow = False
            bind = (f"let s = {wlit}.parse_json() as {{ ? }}; "
                    f"let y: {{ {', '.join(f'{k}: {t}' for k, t, _ in fields)} }} = new {{ {', '.join(f'{k}: {e}' for k, _, e in fields)} }}; "
                    "let x = y.p.unwrap();")
            WRAPPED.add(bind)
        body = ["fn main() {", "    try {", "        " + bind, "        println(x);"] + use_code(T, "x") + [
            "    } catch e {", '        println("caught: " + e.message);', "    }", "}"]
        out.append((allow, tree, T, "\n".join(body), text))
    return out


def outcome(part):
    """OK out=x.. -> ('OK', text) ; FATAL … -> ('FATAL', …)"""
    w = part.split()
    kv = dict(p.split("=", 1) for p in w[1:] if "=" in p)
    return w[0], core.unhex(kv["out"]) if "out" in kv else "", kv


def check_programs(ctx, progs):
    run_lines = [f"(run (main {G.hexs(src)}))" for _, _, _, src, _ in progs]
    go = core.go_lines("run", run_lines, timeout=900)
    lean = core.lean_lines([f"vprog {'true' if a else 'false'} {tree} {G.sx_ty(T)}" for a, tree, T, _, _ in progs])
    stats = {"admitted": 0, "refused": 0, "rejected_by_analyzer": 0}
    for i, (allow, tree, T, src, text) in enumerate(progs):
        g, m = go[i], lean[i]
        rep = {"kind": "program", "source": src}
        if g.startswith(("CRASH", "HANG")):
            ctx.violation(dict(rep, go=g[:300]), f"cast program crashed the harness: {g[:120]}")
            continue
        parts = dict(p.split("=", 1) for p in g.split(" | "))
        if not parts.get("A", "").startswith("ACCEPT"):
            stats["rejected_by_analyzer"] += 1
            continue
        ctx.count(case_key=src, nontrivial=True)
        if m.startswith("OK "):
            stats["admitted"] += 1
            vs = m[3:].split(" disp=")[0]
            disp = core.unhex(m.split(" disp=")[1].split()[0])
            v = G.val_of_sx(G.parse_sx(vs))
            expect = disp + "\n" + "".join(l + "\n" for l in use_lines(T, v))
        else:
            stats["refused"] += 1
            expect = None
            errs = model_errs(m)
        for be in ("VM", "TREE"):
            kind, out, kv = outcome(parts[be])
            what = None
            if kind == "PANIC":
                what = f"{be}: a value crossing the type boundary crashed later execution: {core.unhex(parts[be].split()[1])[:160]}"
            elif kind != "OK":
                what = f"{be}: the cast ended the program instead of raising a catchable error: {parts[be][:160]}"
            elif expect is not None:
                if out.startswith("caught: "):
                    ctx.broken.append(f"correspondence:program:{be}: refused what the model admits: {out[:120]} :: {src[:200]}")
                elif out != expect:
                    if out.split("\n")[0:1] != expect.split("\n")[0:1]:
                        ctx.broken.append(f"correspondence:program:{be}: out={out[:120]!r} model={expect[:120]!r} :: {src[:200]}")
                    else:
                        what = f"{be}: the admitted value does not behave as a value of its static type: out={out[:200]!r} expected={expect[:200]!r}"
            else:
                if not out.startswith("caught: Cast error"):
                    what = f"{be}: a non-convertible JSON value was let through: out={out[:200]!r}"
                else:
                    msg = out[len("caught: "):].rstrip("\n")
                    cpath = G_cast_path(msg)
                    if any(b in src for b in WRAPPED) and cpath.startswith(".p<option-inner>"):
                        cpath = cpath[len(".p<option-inner>"):]
                    cls, key, path, _ = go_err_fields("ERR " + G_cast_class(msg) + " path=" + G.hexs(cpath) + " msg=" + G.hexs(msg))
                    if (cls, key, path) not in errs:
                        what = f"{be}: the cast error names a path/class that does not offend: {msg[:200]!r} (model: {sorted(errs)[:3]})"
            if what:
                ctx.violation(dict(rep, backend=be, go=parts[be][:400]), what)
        ctx.sample({"source": src[:300], "vm": parts.get("VM", "")[:120]})
    return stats


def G_cast_class(msg):
    if "found unexpected field" in msg:
        return "unexpected-field"
    if "was expected but not found" in msg:
        return "missing-field"
    return "incompatible"


def G_cast_path(msg):
    pre = "Cast error at `"
    if msg.startswith(pre):
        rest = msg[len(pre):]
        i = rest.find("`: ")
        if i >= 0:
            return rest[:i]
    return ""


# ---------------------------------------------------------------------------
# stream 3: the host boundary (SpawnSync argument and return validation) through `hv host`
# ---------------------------------------------------------------------------

def host_val(v):
    t = v[0]
    if t in ("null", "none"):
        return f"({t})"
    if t == "some":
        return f"(some {host_val(v[1])})"
    if t == "i":
        return f"(int {v[1]})"
    if t == "f":
        return f"(float {G.hms_float(v[1], v[2])})"
    if t == "b":
        return f"(bool {'true' if v[1] else 'false'})"
    if t == "s":
        return f"(str {G.hexs(v[1])})"
    if t == "l":
        return "(list" + "".join(" " + host_val(x) for x in v[1]) + ")"
    if t in ("o", "a"):
        return ("(obj" if t == "o" else "(anyobj") + "".join(f" ({G.hexs(k)} {host_val(x)})" for k, x in v[1]) + ")"
    if t == "r":
        return f"(range {v[1]} {v[2]} {'true' if v[3] else 'false'})"
    raise ValueError(v)


def gen_host(ctx, n):
    rng = ctx.rng
    out = []
    tries = 0
    while len(out) < n and tries < n * 20:
        tries += 1
        # a share of the target types has `any` components (never `any` itself): the rest of such a type is validated all the same
        T = G.gen_type(rng, rng.choice([0, 1, 2, 3]), allow_any=rng.random() < 0.35, allow_null=False)
        if T == "any":
            continue
        ts = G.hms_type(T)
        if ts is None or T == "anyobj":      # a top-level any-object return value is dropped by the VM (V17, C16's finding)
            continue
        v = G.gen_value(rng, T, depth=3)
        if rng.random() < 0.55:
            v, _ = G.perturb(rng, v)
        if "fn" in G.sx_val(v).split():
            continue
        src = "fn f(x: " + ts + ") -> " + ts + " {\n    println(\"ran\");\n" + "\n".join(l[4:] for l in use_code(T, "x")) + "\n    x\n}\nfn main() {}"
        out.append((v, T, src))
    return out


def check_host(ctx, cases):
    # both host entries: SpawnSync (`call`) and SpawnAsync + Wait + HandleTermination (`acall`) validate and convert alike
    kinds = ["acall" if i % 2 else "call" for i in range(len(cases))]
    go = core.go_lines("host", [f"(host (main {G.hexs(src)}) ({k} {G.hexs('f')} {host_val(v)}))" for k, (v, T, src) in zip(kinds, cases)], timeout=900)
    lean = core.lean_lines([f"vcast false {G.sx_val(v)} {G.sx_ty(T)}" for v, T, _ in cases])
    stats = {"admitted": 0, "refused": 0}
    for i, (v, T, src) in enumerate(cases):
        g, m = go[i], lean[i]
        rep = {"kind": "host", "source": src, "arg": host_val(v), "entry": kinds[i]}
        parts = g.split(" | ")
        if g.startswith(("CRASH", "HANG")) or len(parts) < 2:
            if not parts[0].startswith("A=ACCEPT") and not g.startswith(("CRASH", "HANG")):
                continue
            ctx.violation(dict(rep, go=g[:300]),
                          f"host call: an argument that passed validation crashed the callee / the host: {core.unhex(g.split()[1])[:160] if g.startswith('CRASH') else g[:120]}")
            continue
        ctx.count(case_key=(src, rep["arg"]), nontrivial=True)
        res = parts[1]
        ran = "out=" in res and core.unhex(res.split("out=")[1].split()[0]).startswith("ran")
        what = None
        if m.startswith("OK "):
            stats["admitted"] += 1
            vm = G.canon(G.val_of_sx(G.parse_sx(m.split(" outconf=")[0][3:])))
            expect_out = "ran\n" + "".join(l + "\n" for l in use_lines(T, vm))
            if res.startswith("PANIC"):
                if flags(m)["conf"] == "true":
                    what = f"host call: a conforming argument was refused: {res[:160]}"
                else:
                    ctx.broken.append(f"correspondence:host: refused what the model admits: {rep['arg'][:120]} :: {G.sx_ty(T)}")
            elif not res.startswith("RET "):
                what = f"host call: the admitted argument made the call fail: {res[:200]}"
            else:
                out = core.unhex(res.split("out=")[1].split()[0])
                if out != expect_out:
                    what = f"host call: the callee does not see a value of the parameter type: out={out[:160]!r} expected={expect_out[:160]!r}"
        else:
            stats["refused"] += 1
            if not res.startswith("PANIC") or ran:
                what = f"host call: a non-conforming argument was not refused (callee ran={ran}): {res[:200]}"
        if what:
            ctx.violation(dict(rep, go=g[:400]), what)
    return stats


# ---------------------------------------------------------------------------
# fixed witnesses (regressions of fixed findings; open findings are replayed from known_findings.json)
# ---------------------------------------------------------------------------

WITNESSES = [
    # (id, allow, value, type)  — each must be judged correctly by the generic oracle
    ("X1", False, ("s", "5"), ("opt", "int")),
    ("X1", False, ("null",), ("opt", "int")),
    ("X1", False, ("l", [("i", 1), ("s", "q")]), ("opt", ("list", "int"))),
    ("X21", False, ("a", [("a", ("i", 1))]), "anyobj"),
    ("X21", False, ("o", [("a", ("i", 1))]), "anyobj"),
    ("X21", False, ("i", 1), "any"),
    ("X22", False, ("o", [("a", ("l", [("i", 1), ("s", "q")]))]), ("obj", [("a", ("list", "int"))])),
    ("X22", False, ("some", ("s", "q")), ("opt", "int")),
    ("X13a", False, ("l", [("s", "q")]), ("list", "int")),
]

# a cast builds a NEW container at every level (also when it is empty): the typed result and the dynamically typed source
# share no storage, so nothing can enter a list or object through the other view without passing the boundary
ISOLATION_PROGRAMS = [
    ("fn main() { let names: [str] = []; let d: any = names; let nums = d as [int]; nums.push(42); println(names.len(), names, nums); }",
     "0 [] [42]\n"),
    ("fn main() { let xs = [1, 2]; let d: any = xs; let ys = d as [int]; ys.push(3); println(xs, ys); let zs: [int] = d; zs.push(4); println(xs, zs); }",
     "[1, 2] [1, 2, 3]\n[1, 2] [1, 2, 4]\n"),
    ("fn main() { let o = new { tags: [\"a\"], n: 1 }; let d: any = o; let p = d as { tags: [str], n: int }; p.tags.push(\"b\"); p.n = 2; println(o.tags, o.n, p.tags, p.n); }",
     "[a] 1 [a, b] 2\n"),
    ("fn main() { let t: [str] = []; let o = new { tags: t }; let d: any = o; let p = d as { tags: [str] }; p.tags.push(\"b\"); println(o.tags.len(), t.len(), p.tags.len()); }",
     "0 0 1\n"),
    ("fn main() { let inner: [int] = []; let e = [inner, [1]]; let d: any = e; let f = d as [[int]]; f[0].push(9); f[1].push(9); println(e, f); }",
     "[[], [1]] [[9], [1, 9]]\n"),
    ("fn main() { let inner: [int] = []; let q = ?inner; let d: any = q; let r = d as ?[int]; r.unwrap().push(5); println(q, r, inner); }",
     "Some([]) Some([5]) []\n"),
    ("fn main() { let inner: [int] = []; let d: any = inner; let a = d as [int]; let b = d as [int]; a.push(1); b.push(2); println(a, b, inner); }",
     "[1] [2] []\n"),
]


def check_isolation(ctx):
    go = core.go_lines("run", [f"(run (main {G.hexs(src)}))" for src, _ in ISOLATION_PROGRAMS], timeout=300)
    for (src, want), g in zip(ISOLATION_PROGRAMS, go):
        ctx.count(case_key=src, nontrivial=True)
        rep = {"kind": "program", "source": src}
        if g.startswith(("CRASH", "HANG")):
            ctx.violation(dict(rep, go=g[:300]), f"cast-isolation program crashed the harness: {g[:120]}")
            continue
        parts = dict(p.split("=", 1) for p in g.split(" | "))
        if not parts.get("A", "").startswith("ACCEPT"):
            ctx.broken.append(f"cast-isolation program is not accepted by the analyzer: {parts.get('A', '')[:160]}")
            continue
        for be in ("VM", "TREE"):
            w = parts.get(be, "").split()
            kv = dict(p.split("=", 1) for p in w[1:] if "=" in p)
            out = core.unhex(kv["out"]) if "out" in kv else ""
            if not w or w[0] != "OK" or out != want:
                ctx.violation(dict(rep, backend=be, go=parts.get(be, "")[:400]),
                              f"{be}: the result of a cast shares storage with its source (or differs otherwise): prints {out!r}, expected {want!r}")


def run_known(ctx):
    for e in core.load_known("C12"):
        if e.get("status") != "open":
            continue
        w = e.get("witness", {})
        if isinstance(w, dict) and w.get("kind") == "program":
            g = core.go_lines("run", [f"(run (main {G.hexs(w['source'])}))"])[0]
            ctx.known(e["id"], e.get("what", "") + f" [now: {g[:100]}]")
        else:
            ctx.known(e["id"], e.get("what", ""))


GLOBAL_LETS = [
    # (annotated type, constant initializer of type any, use in main, expected output or None when the value does not conform)
    ("int", '"8080"', "println(G + 1);", None),
    ("int", "8081", "println(G + 1);", "8082\n"),
    ("?str", '"srv"', "println(G, G.is_some());", "Some(srv) true\n"),
    ("[?int]", "[1, 2]", "println(G, G[0].unwrap() + 1);", "[Some(1), Some(2)] 2\n"),
    ("{ ? }", "new { a: 1 }", "println(G.keys(), G.get_type(\"a\"));", "[a] int\n"),
    ("[int]", '["x"]', "println(G.len());", None),
    ("{ a: int, b: ?bool }", "new { a: 1, b: true }", "println(G.a + 1, G.b.unwrap());", "2 true\n"),
    ("{ a: int, b: ?bool }", "new { a: 1 }", "println(G.a);", None),
    ("?[str]", '["a"]', "println(G, G.unwrap().len());", "Some([a]) 1\n"),
    ("str", "5", "println(G.len());", None),
]


CONTAINER_CASTS = [
    # (program body inside main's try, expected output): `as` between containers of any and containers of concrete types is
    # validated at run time like a cast from any itself
    ('let l: [any] = "[1, \\"two\\", 3]".parse_json() as [any]; let n = l as [int]; println(n[1] + 1);', None),
    ('let l: [any] = "[1, 2, 3]".parse_json() as [any]; let n = l as [int]; println(n[1] + 1);', "3\n"),
    ('let o: { a: any } = "{\\"a\\": \\"s\\"}".parse_json() as { a: any }; let p = o as { a: int }; println(p.a + 1);', None),
    ('let o: { a: any } = "{\\"a\\": 4}".parse_json() as { a: any }; let p = o as { a: int }; println(p.a + 1);', "5\n"),
    ('let ll: [[any]] = "[[1], [\\"x\\"]]".parse_json() as [[any]]; let nn = ll as [[int]]; println(nn[1][0] + 1);', None),
    ('let q: ?any = "{\\"k\\": \\"s\\"}".parse_json() as ?any; let w = q as ?{ k: int }; println(w.unwrap().k + 1);', None),
]


def run_container_casts(ctx):
    progs = [f'fn main() {{ try {{ {body} }} catch e {{ println("caught", e.message.len() > 0); }} }}\n' for body, _ in CONTAINER_CASTS]
    go = core.go_lines("run", [f"(run (main {G.hexs(src)}))" for src in progs], timeout=300)
    for (body, want), src, g in zip(CONTAINER_CASTS, progs, go):
        rep = {"kind": "program", "source": src}
        ctx.count(case_key=src, nontrivial=True)
        if g.startswith(("CRASH", "HANG")):
            ctx.violation(dict(rep, go=g[:300]), f"container cast: a value crossing the type boundary crashed the host: {g[:120]}")
            continue
        parts = dict(p.split("=", 1) for p in g.split(" | "))
        if not parts.get("A", "").startswith("ACCEPT"):
            ctx.broken.append(f"correspondence:container-cast-rejected: {src[:120]} :: {parts.get('A', '')[:80]}")
            continue
        for be in ("VM", "TREE"):
            kind, out, kv = outcome(parts[be])
            exp = want if want is not None else "caught true\n"
            if kind != "OK" or out != exp:
                ctx.violation(dict(rep, backend=be, go=parts[be][:400]),
                              f"{be}: cast between containers (`{body[:70]}`): {kind} out={out[:100]!r}, expected {exp!r}"
                              + ("" if want is not None else " (a non-conforming element must raise a catchable cast error)"))


def run_global_lets(ctx):
    """An annotated GLOBAL `let` whose initializer has type any (an object literal indexed by a computed key is a constant
    expression) is a dynamic-to-static crossing like a local one: conforming values are admitted (a T into ?T wrapped),
    non-conforming ones end the program before `main` runs — on both backends."""
    progs = []
    for ts, lit, use, want in GLOBAL_LETS:
        progs.append(f'let G: {ts} = new {{ k: {lit} }}["k" + ""];\nfn main() {{ println("main runs"); {use} }}\n')
    go = core.go_lines("run", [f"(run (main {G.hexs(src)}))" for src in progs], timeout=300)
    for (ts, lit, use, want), src, g in zip(GLOBAL_LETS, progs, go):
        rep = {"kind": "program", "source": src}
        ctx.count(case_key=src, nontrivial=True)
        if g.startswith(("CRASH", "HANG")):
            ctx.violation(dict(rep, go=g[:300]), f"global let: the program crashed the harness: {g[:120]}")
            continue
        parts = dict(p.split("=", 1) for p in g.split(" | "))
        if not parts.get("A", "").startswith("ACCEPT"):
            ctx.broken.append(f"correspondence:global-let-rejected: {src[:120]} :: {parts.get('A', '')[:80]}")
            continue
        for be in ("VM", "TREE"):
            kind, out, kv = outcome(parts[be])
            what = None
            if kind in ("PANIC", "CRASH"):
                what = f"{be}: global let `G: {ts} = {lit}`: the host panicked: {parts[be][:160]}"
            elif want is not None and (kind != "OK" or out != "main runs\n" + want):
                what = f"{be}: global let `G: {ts} = {lit}`: a conforming value is not admitted as a value of its type: {kind} out={out[:120]!r}, expected {('main runs' + chr(10) + want)!r}"
            elif want is None and (kind == "OK" or "main runs" in out):
                what = f"{be}: global let `G: {ts} = {lit}`: a non-conforming value was let through: {kind} out={out[:120]!r}"
            if what:
                ctx.violation(dict(rep, backend=be, go=parts[be][:400]), what)


def run(ctx):
    st = core.prepare(ctx, MODULES)
    # field names of object types and values also come from the names of the builtin object members: a declared field
    # called `keys` / `to_string` / `to_json` is a field like any other (present or missing in the value)
    G.KEYS = [k for k in G.KEYS if k not in ("k1", "Z")] + ["keys", "to_string", "to_json"]
    ctx.assumptions += [
        "object values and object types are finite maps (no field twice): Val.wf / Ty.wf, checked per case by the driver",
        "functions never cross the boundary (DeepCast refuses them); the quantifier is over data values",
        "floats are restricted to the dyadic class of Hms/Value/Val.lean (exact conversions, exact printing)",
        "a failed host-side validation is a Go panic in SpawnSync: 'refused' means the callee never runs",
    ]
    if not st["harness"] or not st["dump"]:
        ctx.violation({"kind": "build", "log": st.get("log", "")[-3000:]},
                      "harness or table dump no longer builds against /repo", no_input=True)
        return
    if not st["model"]:
        ctx.violation({"kind": "build", "log": st.get("log", "")[-3000:]}, "Lean model no longer builds", no_input=True)
        return
    run_known(ctx)
    quick = ctx.tier == "quick"
    wit = [(a, v, T, "witness:" + i) for i, a, v, T in WITNESSES]
    kinds = check_direct(ctx, wit + gen_pairs(ctx, 6000 if quick else 120000))
    ctx.coverage["direct_cast_cases_by_verdict"] = kinds
    check_isolation(ctx)
    pstats = check_programs(ctx, gen_programs(ctx, 1200 if quick else 20000))
    run_global_lets(ctx)
    run_container_casts(ctx)
    ctx.coverage["program_cases"] = pstats
    hstats = check_host(ctx, gen_host(ctx, 500 if quick else 8000))
    ctx.coverage["host_cases"] = hstats
    ctx.coverage["rule"] = ("(value, type, allowCasts) triples: type-directed conforming values to depth 4, the same with one or two "
                            "single-place perturbations at a random depth (wrong scalar, missing/extra/renamed field, object<->any-object, "
                            "option layer added/removed, null<->none, list element), unrelated values; both value libraries; "
                            "programs binding parse_json results by annotated let / as on both backends and then using the value "
                            "at its static type; non-trivial = compound type or non-conforming value")
    ctx.coverage["traces_validated_against_impl"] = ctx.evaluations
    if ctx.broken and not ctx.violations:
        ctx.violation({"kind": "broken-tie", "broken": ctx.broken[:10], "log": st.get("log", "")[-3000:]},
                      "proof obligation or model/code correspondence no longer checks: " + "; ".join(ctx.broken[:3]),
                      no_input=True)


def replay(ctx, rep):
    ok, log = core.build_harness()
    if not ok:
        print(log)
        return 1
    before = len(ctx.violations)
    if rep.get("kind") == "cast":
        v = G.val_of_sx(G.parse_sx(rep["value"]))
        T = ty_of_sx(G.parse_sx(rep["type"]))
        check_direct(ctx, [(rep["allow"], v, T, "replay")])
    elif rep.get("kind") == "program":
        g = core.go_lines("run", [f"(run (main {G.hexs(rep['source'])}))"])[0]
        print(rep["source"])
        print(g)
        bad = " PANIC " in " " + g or "FATAL" in g
        if bad:
            print("VIOLATION property=C12 replay=(replayed)")
        return 1 if bad else 0
    elif rep.get("kind") == "host":
        g = core.go_lines("host", [f"(host (main {G.hexs(rep['source'])}) ({rep.get('entry', 'call')} {G.hexs('f')} {rep['arg']}))"])[0]
        print(rep["source"])
        print("arg:", rep["arg"])
        print(g[:600])
        bad = g.startswith(("CRASH", "HANG"))
        if bad:
            print("VIOLATION property=C12 replay=(replayed)")
        else:
            print("(the call no longer crashes; re-run the check for the full verdict)")
        return 1 if bad else 0
    else:
        print("replay names a broken obligation, not an input:", rep)
        return 1
    if len(ctx.violations) > before:
        return 1
    print("replay: property holds on this input now")
    return 0


def ty_of_sx(s):
    if isinstance(s, str):
        return s
    if s[0] in ("list", "opt"):
        return (s[0], ty_of_sx(s[1]))
    return ("obj", [(G.unhex(f[0]), ty_of_sx(f[1])) for f in s[1:]])
