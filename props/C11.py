"""C11 — break, continue, return and throw leave exactly what the source says.

Theorems: HmsProofs.C11 (specification level, unconditional: innermost-loop exits, return
leaves the function, throw reaches the nearest handler at any call depth with effects
persisting, fatal errors not catchable, code after an exit skipped, uncaught throw = fatal).
Tie + oracle: exhaustive nestings (depth <= 2 quick / 3 thorough) of {loop, while, for,
block, if, match arm, try, catch, call} around {break, continue, return, throw, fatal},
followed by further code, on both real backends == the Lean specification semantics, with
clean final core state (stack/mp/handlers). Every level declares the shadowed canary `k`, so a
scope that is popped twice or not at all on some way out shows in the code that runs afterwards.
(The findings V10 and V11 are repaired: every generated nesting is judged against the spec.)
"""
from gen import nesting
from vlib import core, progstream, known

# C01VM §10/§14: the VM follows the specification through loop/while with break/continue and through throw / try / catch
# across activations (proved simulation on the fragment); audited here too
MODULES = ["HmsProofs.C11", "HmsProofs.C01VM"]


def judge(ctx, cases, label):
    srcs = [nesting.program(ws, x) for ws, x, _ in cases]
    res = progstream.run_all(srcs, with_model_vm=True)
    for (ws, x, frag), src, r in zip(cases, srcs, res):
        name = "/".join(ws) + ":" + x
        if not r["A"].startswith("ACCEPT") and not r.get("crashed"):
            ctx.coverage["rejected"] = ctx.coverage.get("rejected", 0) + 1
            continue
        vm, tree, spec, mvm = r.get("VM"), r.get("TREE"), r.get("SPEC"), r.get("MVM")
        ctx.count(case_key=name, nontrivial=True)
        ctx.sample({"nesting": name, "vm": (vm or {}).get("raw", r["A"])[:160]}, limit=5)
        if not frag:
            # zone of the open findings V10 / V11: no verdict against the specification; the VM model
            # reproduces the deterministic part, a deviation from the model would be something new
            ctx.coverage["in_known_finding_zone"] = ctx.coverage.get("in_known_finding_zone", 0) + 1
            if r.get("crashed") or vm is None or vm["cls"] in ("PANIC", "CRASH", "HANG"):
                continue     # V11: host panic (recorded witness class)
            if mvm and mvm["cls"] not in ("PANIC", "UNSUPPORTED", "TIMEOUT") and not progstream.same_outcome(vm, mvm):
                ctx.broken.append(f"correspondence:vm-model-outside-fragment:{name}")
            continue
        if r.get("crashed") or vm is None:
            ctx.violation({"kind": "nesting", "wrappers": list(ws), "exit": x, "main": src, "go": r["A"][:300]},
                          f"{label}: {name}: a backend crashed the host: {r['A'][:100]}")
            continue
        if spec is None or spec["cls"] in ("UNSUPPORTED", "TIMEOUT", "DECODE-ERROR"):
            ctx.broken.append(f"correspondence:spec-does-not-cover:{name}")
            continue
        if "TERM" in ((vm or {}).get("cls"), (tree or {}).get("cls")) and spec["cls"] != "TERM":
            # the harness's own wall-clock guard fired (machine under load): re-run alone with a generous limit before judging
            rr = progstream.run_all([src], with_spec=False, timeout_ms=60000)[0]
            vm, tree = rr.get("VM", vm), rr.get("TREE", tree)
        for bname, o in (("VM", vm), ("interpreter", tree)):
            if o is None:
                continue
            if o["cls"] in ("PANIC", "CRASH", "HANG", "INTERRUPT", "TERM") or not progstream.same_outcome(o, spec):
                ctx.violation({"kind": "nesting", "wrappers": list(ws), "exit": x, "main": src, bname: o.get("raw", "")[:500], "spec": spec["raw"][:500]},
                              f"{label}: {name}: the {bname} does not do what the source says "
                              f"({o['cls']} {o.get('kind', '')} out={o.get('out', '')[-70:]!r} vs spec {spec['cls']} {spec.get('kind', '')} out={spec.get('out', '')[-70:]!r})")
                break
        else:
            if vm["cls"] == "OK" and (vm.get("stack"), vm.get("mp"), vm.get("handlers")) != ("0", "0", "0"):
                ctx.violation({"kind": "nesting", "wrappers": list(ws), "exit": x, "main": src, "VM": vm["raw"][:400]},
                              f"{label}: {name}: later code does not run with an intact core: stack={vm.get('stack')} mp={vm.get('mp')} handlers={vm.get('handlers')}")


def judge_sources(ctx, named, label):
    """hand-written programs judged like the nestings: both backends == the specification, clean core afterwards"""
    res = progstream.run_all([src for _, src in named], with_model_vm=True)
    for (name, src), r in zip(named, res):
        rep = {"kind": "nesting", "wrappers": [name], "exit": "-", "main": src}
        if not r["A"].startswith("ACCEPT") and not r.get("crashed"):
            ctx.broken.append(f"correspondence:program-rejected:{name}: {r['A'][:100]}")
            continue
        vm, tree, spec = r.get("VM"), r.get("TREE"), r.get("SPEC")
        ctx.count(case_key=name, nontrivial=True)
        if r.get("crashed") or vm is None:
            ctx.violation(dict(rep, go=r["A"][:300]), f"{label}: {name}: a backend crashed the host: {r['A'][:100]}")
            continue
        if spec is None or spec["cls"] in ("UNSUPPORTED", "TIMEOUT", "DECODE-ERROR"):
            ctx.broken.append(f"correspondence:spec-does-not-cover:{name}")
            continue
        bad = False
        if "TERM" in ((vm or {}).get("cls"), (tree or {}).get("cls")) and spec["cls"] != "TERM":
            rr = progstream.run_all([src], with_spec=False, timeout_ms=60000)[0]
            vm, tree = rr.get("VM", vm), rr.get("TREE", tree)
        for bname, o in (("VM", vm), ("interpreter", tree)):
            if o is None:
                continue
            if o["cls"] in ("PANIC", "CRASH", "HANG", "INTERRUPT", "TERM") or not progstream.same_outcome(o, spec):
                ctx.violation(dict(rep, **{bname: o.get("raw", "")[:500], "spec": spec["raw"][:500]}),
                              f"{label}: {name}: the {bname} does not do what the source says "
                              f"({o['cls']} {o.get('kind', '')} out={o.get('out', '')[-70:]!r} vs spec {spec['cls']} {spec.get('kind', '')} out={spec.get('out', '')[-70:]!r})")
                bad = True
                break
        if not bad and vm["cls"] == "OK" and (vm.get("stack"), vm.get("mp"), vm.get("handlers")) != ("0", "0", "0"):
            ctx.violation(dict(rep, VM=vm["raw"][:400]),
                          f"{label}: {name}: later code does not run with an intact core: stack={vm.get('stack')} mp={vm.get('mp')} handlers={vm.get('handlers')}")


def run(ctx):
    st = core.prepare(ctx, MODULES)
    ctx.assumptions += [
        "exits are statements (an exit evaluated while operands of an enclosing expression are pending is the open finding V8)",
    ]
    if not st["harness"] or not st["dump"] or not st["model"]:
        ctx.violation({"kind": "build", "log": st.get("log", "")[-3000:]}, "harness, table dump or Lean model no longer builds", no_input=True)
        return
    known.replay_open(ctx, "C11")
    cases = nesting.enumerate_all(2 if ctx.tier == "quick" else 3)
    ctx.coverage["nestings"] = len(cases)
    ctx.coverage["exhaustive"] = True
    for i in range(0, len(cases), 1500):
        judge(ctx, cases[i:i + 1500], "C11")
    judge_sources(ctx, nesting.recursive_programs(), "C11 recursion")
    ctx.coverage["rule"] = ("all legal nestings of depth <= %d of 11 constructs (loop, while, for, block, if, match arm, try, try with a late throw, catch, call, function literal) around 8 exits (break, continue, return, throw, fatal error, return of a throwing operand, throw under a pending operand, throw in expression position), each followed by code that prints "
                            "locals, re-enters loops and calls the function again; non-trivial = every case (each exercises an exit)"
                            % (2 if ctx.tier == "quick" else 3))
    ctx.coverage["traces_validated_against_impl"] = ctx.evaluations
    if ctx.broken and not ctx.violations:
        ctx.violation({"kind": "broken-tie", "broken": ctx.broken[:10], "log": st.get("log", "")[-3000:]},
                      "proof obligation or model/code correspondence no longer checks: " + "; ".join(ctx.broken[:3]), no_input=True)


def replay(ctx, rep):
    ok, log = core.build_harness()
    if not ok:
        print(log)
        return 1
    if rep.get("kind") != "nesting":
        print("replay names a broken obligation, not an input:", rep)
        return 1
    r = progstream.run_all([rep["main"]])[0]
    print(rep["main"])
    vm, tree, spec = r.get("VM"), r.get("TREE"), r.get("SPEC")
    for k, v in (("VM", vm), ("TREE", tree), ("SPEC", spec)):
        print(k + ":", v and v.get("raw"))
    if vm and tree and spec and progstream.same_outcome(vm, spec) and progstream.same_outcome(tree, spec) and \
            (vm["cls"] != "OK" or (vm.get("stack"), vm.get("mp"), vm.get("handlers")) == ("0", "0", "0")):
        print("replay: property holds on this input now")
        return 0
    print("VIOLATION property=C11 replay=(replayed)")
    return 1
