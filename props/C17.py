"""C17 — spawned threads run to completion, are waited for, and do not race (partial: the
locking protocol is proved on the model, the Go runtime is sampled under the race detector).

Theorems: HmsProofs.C17 — invariants over all interleavings of Hms.Conc.Protocol (Wait, core list
and its lock, signal channels, globals mutex) and the argument path of `spawn` (Hms.Conc.Spawn).
Tie: programs spawning 1..8 cores (nested spawns, list arguments, prints, reads/writes of scalar
globals, failing cores) run on the real VM built with `-race`, several times with GOMAXPROCS in
{1,2,4,8} and injected yields (`hv-race spawn`) <-> the executable interleaving model under
several schedules (`spawnmodel`): outcome, multiset of output lines, core list, lock.
Oracle (implementation side): the output lines present at the moment Wait returns are exactly the
expected multiset (each print once and whole, nothing arrives late), every spawned function saw
its argument values, list arguments are passed by value, Wait's interrupt is the failing core's,
no core / goroutine is left, the cores lock is free, globals written by one core have their value,
and the race detector reports nothing.
"""
import json
import os
import re
from collections import Counter
from concurrent.futures import ThreadPoolExecutor

from vlib import core
from gen import host as H

MODULES = ["HmsProofs.C17"]

PROCS = (1, 2, 4, 8)

# regression witnesses of fixed findings
V20_SRC = '''let counter = 0;
fn worker(id: int, l: [int]) { for i in 0..20 { println("w", id, i, l.len()); l.push(i); } }
fn main() { let shared: [int] = [1, 2, 3]; spawn worker(1, shared); spawn worker(2, shared);
  for i in 0..20 { shared.push(i); println("m", i); } }
'''
# witness of the open finding H3: a global list mutated in place from several cores
H3_SRC = '''let items: [int] = [];
fn worker(id: int) { for i in 0..30 { items.push(id); } }
fn main() { spawn worker(1); spawn worker(2); for i in 0..30 { items.push(0); } }
'''


def race_lines(lines, race=True, timeout=900):
    """Run `hv[-race] spawn` over the lines. A data race ends the process (GORACE=halt_on_error=1,
    exit code 66): the unanswered line is answered `RACE x<hex of the report head>` and the run resumes."""
    exe = core.HV + ("-race" if race else "")
    env = dict(os.environ, GOMEMLIMIT="3GiB", VERIF_REPO=core.REPO, GORACE="halt_on_error=1")
    out = []
    i = 0
    while i < len(lines):
        res, rc, err = core.run_lines([exe, "spawn"], lines[i:], timeout=timeout, env=env)
        # a race report may also be printed without killing the process: attribute it to the last answered line
        out += res
        i += len(res)
        if i < len(lines):
            if "DATA RACE" in (err or "") or rc == 66:
                head = [l.strip() for l in (err or "").splitlines() if l.strip() and not l.startswith("=")][:6]
                out.append("RACE " + core.xhex(" / ".join(head)[:600]))
            elif rc == -9:
                out.append("HANG x")
            else:
                tail = (err or "").strip().splitlines()
                first = next((l for l in tail if l.startswith(("panic:", "fatal error:", "runtime:"))), tail[0] if tail else "")
                out.append("CRASH " + core.xhex(first[:200]))
            i += 1
        elif "DATA RACE" in (err or ""):
            out[-1] = "RACE " + core.xhex("(reported at process end) " + " / ".join((err or "").splitlines()[1:5])[:500])
    return out


def parallel(fn, lines, workers=6):
    if len(lines) < 2 * workers:
        return fn(lines)
    step = (len(lines) + workers - 1) // workers
    chunks = [lines[i:i + step] for i in range(0, len(lines), step)]
    with ThreadPoolExecutor(max_workers=workers) as ex:
        outs = list(ex.map(fn, chunks))
    return [l for o in outs for l in o]


RUN = re.compile(r"^R=(\S+) procs=(\d+) lines=(\S+) late=(-?\d+) cores=(\S+) lock=(\S+) gor=(\S+) globals=(.*)$")
MRUN = re.compile(r"^R=(\S+) lines=(\S+) cores=(\d+) lock=(\S+) live=(\d+)$")


def lines_of(hexatom):
    s = bytes.fromhex(hexatom[1:]).decode("utf-8", "replace")
    return s.split("\n") if s else []


def judge(p, go_line):
    """Oracle: returns violation text or None, plus stats."""
    stats = {"lost_updates": 0, "runs": 0}
    if go_line.startswith("RACE"):
        return "the race detector reports a data race: " + core.unhex(go_line.split()[1])[:400], stats
    if go_line.startswith(("CRASH", "HANG", "PANIC")):
        return f"harness process died: {go_line[:200]}", stats
    parts = go_line.split(" | ")
    if not parts[0].startswith("A=ACCEPT"):
        return f"program not accepted: {parts[0][:200]}", stats
    want = Counter(p["lines"])
    for part in parts[1:]:
        m = RUN.match(part)
        if not m:
            return f"garbled answer {part[:120]}", stats
        outcome, procs, lines, late, cores, lock, gor, globs = m.groups()
        stats["runs"] += 1
        where = f"GOMAXPROCS={procs}"
        got = Counter(lines_of(lines))
        if outcome == "HANG":
            return f"{where}: Wait did not return", stats
        if outcome.startswith("PANIC"):
            return f"{where}: {outcome[:160]}", stats
        if gor != "ok":
            return f"{where}: goroutines left behind after Wait returned ({gor})", stats
        # after an interrupt a core that has not yet seen the cancellation may still spawn (the new core is
        # listed and terminates at its first poll): the list is only required to be empty after a normal return
        if lock != "free" or (cores != "0" and not p["fail"]):
            return f"{where}: after Wait: {cores} cores listed, cores lock {lock}", stats
        if not p["fail"]:
            if outcome != "OK":
                return f"{where}: outcome {outcome}, expected normal completion", stats
            if late != "0":
                return f"{where}: {late} bytes of output arrived after Wait had returned (a core was still running)", stats
            if got != want:
                missing = list((want - got).elements())[:3]
                extra = list((got - want).elements())[:3]
                return f"{where}: output lines differ from the expected multiset: missing {missing} unexpected {extra}", stats
            g = dict(re.findall(r"\((x[0-9a-f]*) (\([^()]*\))\)", globs))
            for name, val in p["slots"].items():
                if g.get(H.xhex(name)) != H.sx(val):
                    return f"{where}: global {name} is {g.get(H.xhex(name))}, expected {H.sx(val)}", stats
            if "counter" not in p["src"]:
                continue
            cm = re.match(r"\(int (-?\d+)\)", g.get(H.xhex("counter"), ""))
            if not cm or not (min(1, p["incs"]) <= int(cm.group(1)) <= p["incs"]):
                return f"{where}: counter is {g.get(H.xhex('counter'))} after {p['incs']} increments", stats
            if int(cm.group(1)) < p["incs"]:
                stats["lost_updates"] += 1
        else:
            if outcome not in ("FATAL:UncaughtThrow",):
                return f"{where}: outcome {outcome}, expected the failing core's fatal interrupt", stats
            over = got - want
            if over:
                return f"{where}: unexpected / duplicated output lines {list(over.elements())[:3]}", stats
    return None, stats


def model_check(p, model_line):
    """The executable interleaving model under its schedules must give the expected outcome too."""
    want = Counter(p["lines"])
    for part in model_line.split(" | "):
        m = MRUN.match(part)
        if not m:
            return f"model answered {part[:100]}"
        outcome, lines, cores, lock, live = m.groups()
        got = Counter(lines_of(lines))
        if cores != "0" or lock != "free":
            return f"model: cores={cores} lock={lock} after Wait"
        if not p["fail"]:
            if outcome != "OK" or got != want or live != "0":
                return f"model: outcome {outcome} live={live} lines differ={got != want}"
        else:
            if outcome != "FATAL" or (got - want):
                return f"model: outcome {outcome}, extra lines {list((got - want).elements())[:2]}"
    return None


def run_batch(ctx, progs, stage, have_model, runs, race=True):
    # `peek`: in every second run a second host goroutine keeps taking the cores read lock
    lines = [H.spawn_line(p["src"], runs * (5 if p.get("storm") else 1), PROCS, i % 2 == 0).replace("(main ", "(peek true) (main ", 1)
             for i, p in enumerate(progs)]
    go = parallel(lambda ls: race_lines(ls, race=race), lines)
    model = core.lean_lines([H.spawn_model_line(p["acts"], [1, 2, 3]) for p in progs]) if have_model else [None] * len(progs)
    ties = 0
    for p, g, m in zip(progs, go, model):
        viol, stats = judge(p, g)
        ctx.count(case_key=p["src"], nontrivial=p["ncores"] >= 2)
        ctx.coverage["runs"] = ctx.coverage.get("runs", 0) + stats["runs"]
        ctx.coverage["runs_with_lost_counter_updates"] = ctx.coverage.get("runs_with_lost_counter_updates", 0) + stats["lost_updates"]
        ctx.coverage[f"programs_with_{p['ncores']}_cores"] = ctx.coverage.get(f"programs_with_{p['ncores']}_cores", 0) + 1
        if p["fail"]:
            ctx.coverage["programs_with_failing_core"] = ctx.coverage.get("programs_with_failing_core", 0) + 1
        if viol:
            if len(ctx.violations) >= 3:
                ctx.violations.append({"what": viol, "replay": "(not recorded)"})
            else:
                ctx.violation({"kind": "spawn", "prog": {k: v for k, v in p.items() if k != "acts"}, "runs": runs, "race": race,
                               "go": g[:1500]}, f"{stage}: {viol}")
        elif m is not None:
            t = model_check(p, m)
            if t:
                ties += 1
                if ties <= 3:
                    ctx.broken.append(f"correspondence:spawnmodel:{t} src={p['src'][:200]!r}")
        ctx.sample({"cores": p["ncores"], "fail": p["fail"], "src": p["src"][-200:], "go": g[:200]})


def plain_prog(src, lines, ncores):
    return {"src": src, "acts": [], "lines": sorted(lines), "ncores": ncores, "fail": False, "failing": None,
            "slots": {}, "incs": 0}


def run(ctx):
    st = core.prepare(ctx, MODULES, race=True)
    ctx.assumptions += [
        "freedom from data races in Go's memory model is sampled (race detector, GOMAXPROCS 1/2/4/8, injected yields), "
        "not proved; the theorems cover the locking/signalling protocol of the model under all interleavings",
        "cores share scalar globals only; a global list or object mutated in place from several cores races (open finding H3)",
        "lost updates of `g = g + 1` from several cores are a race condition of the program, not a data race: counted, not judged",
    ]
    if not st["harness"] or not st["dump"]:
        ctx.violation({"kind": "build", "log": st.get("log", "")[-3000:]},
                      "harness or table dump no longer builds against the repository", no_input=True)
        return
    race = os.path.exists(core.HV + "-race")
    if not race:
        ctx.broken.append("race-build")
        ctx.note("the -race build of the harness is missing: running without the race detector")
    have_model = bool(st["model"])
    if not have_model:
        ctx.note("Lean model/driver does not build; running the implementation-side oracle only")
    # 1. open findings
    for e in core.load_known(ctx.prop):
        w = e.get("witness", {})
        if e.get("status") == "open" and w.get("kind") == "spawn-race" and race:
            g = race_lines([H.spawn_line(w["src"], 8, PROCS, True)])[0]
            if g.startswith("RACE"):
                ctx.known(e["id"], e.get("what", "data race"))
            else:
                ctx.note(f"known finding {e['id']}: witness did not race in this run")
    # 2. regression witness V20 (list arguments of spawn by reference)
    v20_lines = [f"w {i} {j} {3 + j}" for i in (1, 2) for j in range(20)] + [f"m {j}" for j in range(20)]
    run_batch(ctx, [plain_prog(V20_SRC, v20_lines, 3)], "C17 regression", False, 8, race=race)
    # 2a. many spawns with arguments from one core: the arguments leave the spawner's operand stack (a loop of 300 spawns
    # stays within the default stack limit of the harness)
    run_batch(ctx, [plain_prog('fn w(id: int, tag: str, l: [int]) { if id == 299 { println("last", tag, l.len()); } }\n'
                               'fn main() { let n = 0; for i in 0..300 { spawn w(i, "t", [i, i]); n += 1; } println("spawned", n); }\n',
                               ["last t 2", "spawned 300"], 301)], "C17 many spawns", False, 8, race=False)
    # 2b. staggered spawns: late cores are spawned after earlier ones were collected while others still run
    rng = ctx.rng
    stag = [plain_prog('fn quick(id: int) { println("quick", id); }\nfn slow(id: int, t: float) { time.sleep(t); println("slow", id); }\n'
                       'fn main() { spawn quick(1); spawn slow(2, 0.06); time.sleep(0.03); spawn slow(3, 0.12); println("main done"); }\n',
                       ["quick 1", "slow 2", "slow 3", "main done"], 4)]
    # every shape of argument is passed BY VALUE (option payloads, nested lists, lists inside objects): the spawner's later
    # mutations are invisible to the worker (which prints after a delay) and the worker's to the spawner
    stag.append(plain_prog(
        'fn w(id: int, o: ?[int], n: [[int]], ob: { l: [int], q: ?[int] }) { time.sleep(0.05); println("w", id, o, n, ob.l, ob.q);\n'
        '  o.unwrap().push(7); n[0].push(7); ob.l.push(7); ob.q.unwrap().push(7); println("w own", id, o, n[0].len(), ob.l.len(), ob.q); }\n'
        'fn main() { let o: ?[int] = ?[1, 2]; let n = [[1], [2]]; let ob = new { l: [5], q: ?[6] };\n'
        '  spawn w(1, o, n, ob); o.unwrap().push(100); n[0].push(100); ob.l.push(100); ob.q.unwrap().push(100);\n'
        '  time.sleep(0.1); println("m", o, n, ob.l, ob.q); }\n',
        ["w 1 Some([1, 2]) [[1], [2]] [5] Some([6])", "w own 1 Some([1, 2, 7]) 2 2 Some([6, 7])",
         "m Some([1, 2, 100]) [[1, 100], [2]] [5, 100] Some([6, 100])"], 2))
    # empty options inside a by-value argument: every copy has its own cells (a write through one copy's `none` cell reaches
    # no other copy, in this spawn or a later one)
    stag.append(plain_prog(
        'fn w(id: int, l: [?int], o: { a: ?str, b: ?str }) { l[0] = ?id; o.a = ?"set"; println("w", id, l, o.a, o.b); }\n'
        'fn main() { let a: [?int] = [none, none, none]; let ob: { a: ?str, b: ?str } = new { a: none, b: none }; spawn w(1, a, ob); time.sleep(0.05); spawn w(2, a, ob); time.sleep(0.05);\n'
        '  let fresh: [?int] = [none]; spawn w(3, fresh, ob); time.sleep(0.05); println("m", a, fresh, ob.a, ob.b); }\n',
        ["w 1 [Some(1), none, none] Some(set) none", "w 2 [Some(2), none, none] Some(set) none", "w 3 [Some(3)] Some(set) none", "m [none, none, none] [none] none none"], 4))
    # a global range and a global string iterated by several cores at the same time (and by the spawner): every loop
    # has its own cursor, whatever the others do
    stag.append(plain_prog(
        'let R = 0..300;\nlet S = "abcdefghijklmnopqrstuvwxyz0123456789";\n'
        'fn count(id: int) { let c = 0; for i in R { c += 1; } let d = 0; for ch in S { d += 1; } println("count", id, c, d); }\n'
        'fn main() { for k in 0..6 { spawn count(k); } let c = 0; for i in R { c += 1; if c == 150 { time.sleep(0.01); } } println("main", c); }\n',
        [f"count {k} 300 36" for k in range(6)] + ["main 300"], 7))
    stag += [H.gen_spawn_staggered(rng) for _ in range(6 if ctx.tier == "quick" else 40)]
    run_batch(ctx, stag, "C17 staggered", False, 2 if ctx.tier == "quick" else 3, race=race)
    ctx.coverage["staggered_programs"] = len(stag)
    # 3. generated programs
    n = 160 if ctx.tier == "quick" else 1500
    progs = []
    for i in range(n):
        if i % 8 == 7:
            progs.append(H.gen_spawn_storm(rng))
        else:
            progs.append(H.gen_spawn_program(rng, max_workers=rng.choice([1, 2, 3, 5, 8]), fail=(i % 4 == 3)))
    if ctx.violations:
        progs = progs[:10]
    runs = 6 if ctx.tier == "quick" else 10
    for i in range(0, len(progs), 60):
        run_batch(ctx, progs[i:i + 60], "C17", have_model, runs, race=race)
        if len(ctx.violations) >= 5:
            break
    ctx.coverage["race_detector"] = race
    ctx.coverage["rule"] = (
        "programs spawning 1..8 cores (nested up to depth 3) with int/str/list arguments; every core prints its arguments, "
        "mutates its own copy of the list, prints in loops, reads/writes shared scalar globals and a global only it writes; "
        "every fourth program has a core that throws while others run long loops; every eighth is a 'spawn storm' (3..8 "
        "short cores each spawning 1..3 more while others finish, 5x the runs); in every second run a second host goroutine "
        "keeps taking the cores read lock; each program runs %d times under the race "
        "detector with GOMAXPROCS cycling through 1,2,4,8, half of the programs with injected Gosched() in print and in the "
        "context poll; the model runs each program under 3 schedules; non-trivial = distinct program with >= 2 cores" % runs)
    ctx.coverage["traces_validated_against_impl"] = ctx.coverage.get("runs", 0)
    if ctx.broken and not ctx.violations:
        ctx.violation({"kind": "broken-tie", "broken": ctx.broken[:10], "log": st.get("log", "")[-3000:]},
                      "proof obligation or model/code correspondence no longer checks: " + "; ".join(ctx.broken[:3]),
                      no_input=True)


def replay(ctx, rep):
    ok, log = core.build_harness()
    ok2, log2 = core.build_harness(race=True)
    if not ok or not ok2:
        print(log, log2)
        return 1
    if rep.get("kind") != "spawn":
        print("replay names a broken obligation, not an input:", json.dumps(rep)[:2000])
        return 1
    p = rep["prog"]
    p["slots"] = {k: tuple(v) for k, v in p["slots"].items()}
    rc = 0
    for attempt in range(5):
        g = race_lines([H.spawn_line(p["src"], rep.get("runs", 8), PROCS, attempt % 2 == 0)])[0]
        v, _ = judge(p, g)
        if v:
            print("program:\n" + p["src"])
            print("  go:", g[:600])
            print("  " + v)
            rc = 1
            break
    if rc == 0:
        print("replay: property held on this input in 5 attempts (schedules are sampled)")
        return 0
    print("VIOLATION property=C17 replay=(replayed)")
    return 1
