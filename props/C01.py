"""C01 — compiled execution is faithful to the source program.

Theorems: HmsProofs.C01 (integer/shift/division conventions of the specification
semantics, short-circuit, snapshot iteration; compile/VM model theorems as they land).
Tie + oracle: the real compiler+VM outcome (output, trigger trace, completion / fatal kind
+ message) equals the outcome of the Lean specification semantics `runProgram` on the
analysed AST the compiler consumed; after normal completion the core is clean
(stack=0 mp=0 handlers=0).
"""
from gen import progs, families
from vlib import core, progstream

MODULES = ["HmsProofs.C01", "HmsProofs.C01VM"]

CORPUS = [
    # fixed findings (regressions) and hand-written boundary programs; always run first
    "fn main() { let x = match 3 { 1 => 10, _ => 20 }; println(x); }",
    "fn main() { let l = [1]; let a = l[0]; l[0] = 5; println(a); let y = 7; let m = [y]; m[0] = 9; println(y); }",
    "fn main() { for c in \"ab\" { println(c); } }",
    "fn main() { let e = 1; try { throw(\"x\"); } catch e { println(e.message); } println(e); }",
    "fn main() { println(9223372036854775807 + 1); println((-9223372036854775807 - 1) / (-1)); println((-7) / 2, (-7) % 2, 7 % (-2)); }",
    "fn main() { println(1 << 63, 1 << 64, (-1) >> 70, 5 >> 64, (-8) >> 1); }",
    "fn main() { let l = [1, 2, 3]; for i in l { l.push(i); } println(l); }",
    "fn main() { let a = [1]; let b = a; b.push(2); println(a, b); let s = 1; let t = s; t += 1; println(s, t); }",
    "fn f(x: int) -> int { if x > 2 { return x; }; x + 10 } fn main() { println(f(1), f(5)); }",
    "fn main() { let x = 1; { let x = 2; println(x); } println(x); }",
    "fn main() { println(true || (1 / 0 == 0), false && (1 / 0 == 0)); }",
    "fn main() { let o = new { a: 1, b: \"s\" }; let p = o; p.a = 5; println(o.a); }",
    "fn main() { let i = 0; while i < 3 { i += 1; if i == 2 { continue; }; println(i); } }",
    "fn main() { println(2 ** 10, (-2) ** 3, 0 ** 0, 7 ** 1); }",
    "fn main() { println(if true { 1 } else { 2 }, { let q = 4; q * 2 }); }",
    "fn main() { let o = new { f: fn() -> int { 1 }, a: 2 }; println(o.a); let g = o.f; println(g()); }",
    "fn main() { let l = [0]; for i in 0..200 { l.push(i); } let s = 0; for x in l { s += x; } println(s, l.len()); }",
    "fn main() { let o = new { a: 1, b: \"s\" }; let d = o as { ? }; d.set(\"a\", \"str\"); println(o.a + 1); println(d); }",
    "$N = int;\nfn main() { $N = 4; println($N); $N += 1; println($N); }",
    "$S = { a: int, l: [int] };\nfn bump(s: $S, k: int) -> int { s.a += k; s.a } fn main() { println(bump(2)); println(bump(3)); $S = new { a: 40, l: [1] }; println(bump(1)); println($S); }",
    "fn main() { let o: ?int = none; try { println(1 + o.unwrap()); } catch e { println(\"caught\"); }; println(2); }",
    # M1, M2 (repaired)
    "fn main() { let r = 1; let o = new { ? }; o.set(\"k\", 5); let q: ?any = o.get(\"k\"); let r: any = q; let s: ?int = r; println(s); }",
    "fn main() { let a = [1]; let b = [2]; a.concat(b); b[0] = 7; println(a, b); let c = [3]; c.concat(c); c[0] = 5; println(c); }",
]


def judge(ctx, srcs, label):
    """srcs: main texts, or (main, mods, singletons) triples (see progstream.run_all)."""
    res = progstream.run_all(srcs, with_model_vm=True, asm=True)
    n_bad_unsupported = 0
    for case, r in zip(srcs, res):
        src, rec = progstream.source_text(case), progstream.source_record(case)
        if r.get("crashed") or not r["A"].startswith("ACCEPT"):
            if r.get("crashed") or r["A"].startswith("PANIC"):
                ctx.count(case_key=src, nontrivial=True)
                ctx.violation({"kind": "prog", **rec, "go": r["A"][:400]},
                              f"{label}: the toolchain crashed on an accepted-looking program: {r['A'][:120]}")
            else:
                ctx.coverage["rejected_by_analyzer"] = ctx.coverage.get("rejected_by_analyzer", 0) + 1
            continue
        vm, spec = r.get("VM"), r.get("SPEC")
        if spec is None or spec["cls"] in ("UNSUPPORTED", "TIMEOUT", "DECODE-ERROR"):
            n_bad_unsupported += 1
            key = "outside_model:" + (spec.get("what", spec["cls"]) if spec else "no-spec")[:60]
            ctx.coverage[key] = ctx.coverage.get(key, 0) + 1
            # outside the specification's fragment: no verdict on the output, but the core must still end clean
            if vm is not None and vm["cls"] == "OK" and (vm.get("stack"), vm.get("mp"), vm.get("handlers")) != ("0", "0", "0"):
                ctx.count(case_key=src, nontrivial=True)
                ctx.violation({"kind": "prog", **rec, "vm": vm["raw"][:600]},
                              f"{label}: the core is not clean after normal completion: stack={vm.get('stack')} mp={vm.get('mp')} handlers={vm.get('handlers')}")
            continue
        ctx.count(case_key=src, nontrivial=len(spec.get("out", "")) > 0 or spec["cls"] != "OK")
        # ties of the compiler model (instruction streams verbatim) and of the VM model (outcome + residue)
        masm, mvm = r.get("MASM"), r.get("MVM")
        if masm is not None and not masm.startswith("UNSUPPORTED"):
            ctx.coverage["asm_compared"] = ctx.coverage.get("asm_compared", 0) + 1
            if masm != r.get("ASM"):
                if sum(1 for b in ctx.broken if b.startswith("correspondence:compile")) < 3:
                    ctx.broken.append(f"correspondence:compile-model-vs-go-compiler:{src[:120]!r}")
        if mvm is not None and vm is not None and mvm["cls"] not in ("UNSUPPORTED", "TIMEOUT", "DECODE-ERROR") and not (mvm["cls"] == "PANIC" and mvm.get("what", "").startswith("unsupported")):
            ctx.coverage["vm_model_compared"] = ctx.coverage.get("vm_model_compared", 0) + 1
            same = progstream.same_outcome(vm, mvm) and (vm["cls"] != "OK" or (vm.get("stack"), vm.get("mp"), vm.get("handlers")) == (mvm.get("stack"), mvm.get("mp"), mvm.get("handlers")))
            if not same and sum(1 for b in ctx.broken if b.startswith("correspondence:vm")) < 3:
                ctx.broken.append(f"correspondence:vm-model-vs-go-vm:{src[:120]!r}: go={vm['raw'][:100]} model={mvm['raw'][:100]}")
        ctx.sample({"main": src[:400], "vm": vm["raw"][:200], "spec": spec["raw"][:200]}, limit=4)
        if vm["cls"] == "TERM" and spec["cls"] != "TERM":
            # the harness's own wall-clock guard fired: re-run alone with a generous limit before judging
            vm = progstream.run_all([case], backends=("vm",), with_spec=False, timeout_ms=60000)[0].get("VM", vm)
        if vm["cls"] in ("PANIC", "CRASH", "HANG", "INTERRUPT", "COMPILE-ERROR", "MISSING"):
            ctx.violation({"kind": "prog", **rec, "vm": vm.get("raw", "")[:400], "spec": spec["raw"][:400]},
                          f"{label}: VM outcome {vm['cls']} ({vm.get('what', '')[:80]}) where the source semantics give {spec['cls']}")
            continue
        if not progstream.same_outcome(vm, spec):
            ctx.violation({"kind": "prog", **rec, "vm": vm["raw"][:600], "spec": spec["raw"][:600]},
                          f"{label}: compiled execution differs from the source semantics "
                          f"(vm: {vm['cls']} {vm.get('kind', '')} out={vm.get('out', '')[-60:]!r}; spec: {spec['cls']} {spec.get('kind', '')} out={spec.get('out', '')[-60:]!r})")
            continue
        if vm.get("trig", "") != spec.get("trig", ""):
            ctx.violation({"kind": "prog", **rec, "vm": vm["raw"][:600], "spec": spec["raw"][:600]},
                          f"{label}: trigger registrations differ")
            continue
        if vm["cls"] == "OK" and (vm.get("stack"), vm.get("mp"), vm.get("handlers")) != ("0", "0", "0"):
            ctx.violation({"kind": "prog", **rec, "vm": vm["raw"][:600]},
                          f"{label}: the core is not clean after normal completion: stack={vm.get('stack')} mp={vm.get('mp')} handlers={vm.get('handlers')}")
    return n_bad_unsupported


def run(ctx):
    st = core.prepare(ctx, MODULES)
    ctx.assumptions += [
        "programs are drawn from the fragment of the partial theorems (DESIGN.md §7a): exits in statement position, "
        "throws caught in the raising activation or not at all, no captured variables, <= 1 effectful argument per call, "
        "null-typed expressions only as statements, literal global initialisers, small integer ** operands",
        "floats only in the dyadic-safe class whose printing is modelled exactly",
    ]
    if not st["harness"] or not st["dump"] or not st["model"]:
        ctx.violation({"kind": "build", "log": st.get("log", "")[-3000:]}, "harness, table dump or Lean model no longer builds", no_input=True)
        return
    for e in core.load_known("C01"):
        if e.get("status") == "open":
            ctx.known(e["id"], e["what"])
    judge(ctx, CORPUS, "C01 corpus")
    fams = dict(families.all_families())
    fams["tour_vm_only"] = families.tour_vm_only()
    for fam, fsrcs in fams.items():
        for i in range(0, len(fsrcs), 1500):
            judge(ctx, fsrcs[i:i + 1500], f"C01 family {fam}")
        ctx.coverage[f"family_{fam}"] = len(fsrcs)
    # singletons: programs together with what the host provides for them
    sing = families.singleton_cases()
    before = ctx.evaluations
    judge(ctx, sing, "C01 family singletons")
    ctx.coverage["family_singletons"] = len(sing)
    if ctx.evaluations - before < len(sing):
        ctx.broken.append(f"singleton family: only {ctx.evaluations - before} of {len(sing)} programs were accepted and inside the model")
    ctx.coverage["family_singletons_host_provided"] = sum(1 for c in sing if c[2])
    n = 1200 if ctx.tier == "quick" else 20000
    srcs, feats = [], {}
    for _ in range(n):
        src, fs = progs.generate_case(ctx.rng, max_depth=ctx.rng.choice([2, 3, 3, 4]), allow_trigger=True, allow_singletons=True)
        srcs.append(src)
        for f in fs:
            feats[f] = feats.get(f, 0) + 1
    outside = 0
    for i in range(0, len(srcs), 2000):
        outside += judge(ctx, srcs[i:i + 2000], "C01")
    ctx.coverage["feature_histogram"] = dict(sorted(feats.items()))
    ctx.coverage["programs"] = len(srcs) + len(CORPUS)
    ctx.coverage["outside_model"] = outside
    ctx.coverage["rule"] = ("typed random programs (functions, globals, lets, assignments incl. compound/index/field, "
                            "lists/objects/options/ranges, if/match/block values, while/loop/for, break/continue/return, "
                            "try/throw, boundary integers) run on the real compiler+VM and on the Lean specification "
                            "semantics; singletons with and without host-provided values (the same values handed to the real "
                            "executors' LoadSingleton and to the models); non-trivial = distinct program producing output or a fatal outcome")
    ctx.coverage["traces_validated_against_impl"] = ctx.evaluations
    if ctx.evaluations < 0.7 * n:
        ctx.broken.append(f"generator drift: only {ctx.evaluations} of {n} generated programs were accepted and inside the model")
    if ctx.broken and not ctx.violations:
        ctx.violation({"kind": "broken-tie", "broken": ctx.broken[:10], "log": st.get("log", "")[-3000:]},
                      "proof obligation or model/code correspondence no longer checks: " + "; ".join(ctx.broken[:3]),
                      no_input=True)


def replay(ctx, rep):
    ok, log = core.build_harness()
    if not ok:
        print(log)
        return 1
    if rep.get("kind") != "prog":
        print("replay names a broken obligation, not an input:", rep)
        return 1
    r = progstream.run_all([progstream.source_of_record(rep)])[0]
    print(progstream.source_text(progstream.source_of_record(rep)))
    for k in ("A", "VM", "TREE", "SPEC"):
        v = r.get(k)
        print(f"{k}: {v if isinstance(v, str) else (v or {}).get('raw')}")
    vm, spec = r.get("VM"), r.get("SPEC")
    if vm and spec and progstream.same_outcome(vm, spec) and (vm["cls"] != "OK" or (vm.get("stack"), vm.get("mp"), vm.get("handlers")) == ("0", "0", "0")):
        print("replay: property holds on this input now")
        return 0
    print("VIOLATION property=C01 replay=(replayed)")
    return 1
