"""C02 — an accepted program can never crash, wedge or confuse the host.

Theorems: HmsProofs.C02 (bytecode height checker `hcheck` and its soundness on the VM model:
no stack/handler underflow, no out-of-frame memory access for checked code), HmsProofs.C09
(limit overshoot is always an interrupt, never a panic).
Tie: `hcheck` is evaluated on the code of the compiler model for every generated program (the
model's instruction stream is compared verbatim with the real compiler's in C01).
Oracle: every accepted program, on both backends, under three limit settings, returns to the
host with completion or an interrupt: no Go panic, no fatal runtime error, no hang; plus the
full (type kind x operator x boundary operand) product as one-line programs.
"""
import itertools

from gen import progs, families
from vlib import core, progstream, known

MODULES = ["HmsProofs.C02"]

INT_B = ["0", "1", "(-1)", "2", "63", "64", "65", "(-64)", "9223372036854775807", "(-9223372036854775807 - 1)", "4294967296"]
FLOAT_B = ["0.0", "1.5", "(-2.25)", "1000000.0"]
BOOL_B = ["true", "false"]
STR_B = ['""', '"a"', '"abc"']
INFIX = ["+", "-", "*", "/", "%", "**", "<<", ">>", "|", "&", "^", "||", "&&", "==", "!=", "<", "<=", ">", ">="]
ASSIGN = ["+=", "-=", "*=", "/=", "%=", "**=", "<<=", ">>=", "|=", "&=", "^="]
LIMITS = [(100, 500, 10000), (5, 12, 40), (100000, 100000, 1000000)]


def operator_matrix():
    """One-line programs for every (type, operator, boundary operands) the analyzer may admit;
    rejected ones are simply skipped by the judge."""
    out = []
    pools = {"int": INT_B, "float": FLOAT_B, "bool": BOOL_B, "str": STR_B}
    for ty, pool in pools.items():
        for op in INFIX:
            for a, b in itertools.product(pool, pool):
                out.append(f"fn main() {{ let a = {a}; let b = {b}; println(a {op} b); }}")
        for op in ASSIGN:
            for a, b in itertools.product(pool, pool):
                out.append(f"fn main() {{ let a = {a}; let b = {b}; a {op} b; println(a); }}")
        for pre in ["-", "!", "?"]:
            for a in pool:
                out.append(f"fn main() {{ let a = {a}; println({pre}a); }}")
    # indexing and slicing members on every container, with boundary indices (negative, one past the end, far out) and
    # non-ASCII strings (characters != bytes)
    idx = ["0", "1", "2", "3", "4", "5", "6", "(-1)", "(-2)", "(-3)", "(-5)", "(-6)", "(-7)", "9223372036854775807", "(-9223372036854775807 - 1)"]
    conts = ['""', '"abc"', '"h\u00e9llo"', '"\u00e4b"', '"\u65e5\u672c"', "[1, 2, 3]", "[7]", '["x", "\u00e9"]']
    for c in conts:
        for i in idx:
            out.append(f"fn main() {{ let c = {c}; let i = {i}; println(c[i]); }}")
            if c.startswith("["):
                out.append(f"fn main() {{ let c = {c}; let i = {i}; c[i] = c[0]; println(c); c.remove(i); println(c); }}")
                out.append(f"fn main() {{ let c = {c}; let i = {i}; c.insert(i, c[0]); println(c); }}")
            else:
                out.append(f"fn main() {{ let c = {c}; let i = {i}; println(c.substring(i)); }}")
                out.append(f"fn main() {{ let c = {c}; let i = {i}; println(c.repeat(i % 5).len()); }}")
        out.append(f"fn main() {{ let c = {c}; println(c.len()); for x in c {{ print(x, \"\"); }} println(c[c.len() - 1]); }}")
        out.append(f"fn main() {{ let c = {c}; println(c[c.len()]); }}")
    # every list member on lists of every element kind (the analyzer decides which exist; what it accepts must run)
    elems = {"int": "[3, 1, 2]", "float": "[2.5, 0.5]", "bool": "[true, false]", "str": '["b", "a"]', "list": "[[2], [1]]",
             "range": "[1..3, 0..2]", "opt": "[?2, ?1]", "obj": "[new { a: 2 }, new { a: 1 }]"}
    for lit in elems.values():
        for m in ["sort()", "join(\",\")", "to_string()", "to_json()", "contains(c[0])", "last()", "pop()", "pop_front()", "len()",
                  "concat(c)", "push(c[0])", "push_front(c[0])", "insert(0, c[0])", "remove(0)"]:
            out.append(f"fn main() {{ let c = {lit}; println(c.{m}); println(c); }}")
            out.append(f"fn main() {{ let c = {lit}; c.{m}; println(c); }}")
    # `==` / `!=` between dynamically typed values of every shape pair (objects with the same number of fields and other
    # keys, nested in objects and lists, lists against objects, null, scalars): through JSON and through an any-object
    docs = ['{"a":{"x":1}}', '{"a":{"y":1}}', '{"a":{"x":1,"k":2}}', '{"a":{"y":1,"k":2}}', '{"a":[{"x":1}]}', '{"a":[{"y":1}]}',
            '{"a":[1]}', '{"a":null}', '{"a":1}', '{"a":"1"}', '{"b":{"x":1}}', '{}', '{"a":{}}', '{"a":1.5}', '{"a":true}']
    for a, b in itertools.product(docs, docs):
        out.append(f"fn main() {{ let a = '{a}'.parse_json() as {{ ? }}; let b = '{b}'.parse_json() as {{ ? }}; println(a == b, a != b); }}")
    vals = ["new { x: 1, k: \"v\" }", "new { y: 1, k: \"v\" }", "new { x: 1 }", "new { y: 1 }", "[new { x: 1 }]", "[new { y: 1 }]", "[1]", "1", "\"1\"",
            "none", "?1", "1..2", "new { x: new { p: 1 } }", "new { x: new { q: 1 } }"]
    for a, b in itertools.product(vals, vals):
        out.append(f"fn main() {{ let o = new {{ ? }}; o.set(\"a\", {a}); o.set(\"b\", {b}); println(o.get(\"a\") == o.get(\"b\"), o.get(\"a\") != o.get(\"b\")); }}")
    # corners of the language outside the typed generator (type definitions, event functions, trigger statements and
    # annotations, host type imports, impl blocks, builtins): accepted => both backends end with completion or an interrupt
    out += families.tour() + families.tour_vm_only()
    return out


def init_limit_programs():
    """Global initializers whose evaluation overshoots the operand-stack limit of the core that runs the initialization code
    (nested groupings and nested list literals keep their pending operands on the stack; the limits are polled once per
    quantum of 50 instructions): with the tiny limit triple the overshoot happens inside `NewVM` from depth ~40 on, with the
    default one at depth 600. In the entry module and in an imported one; long flat literals are the harmless neighbours."""
    out = []
    for n in (3, 12, 14, 40, 60, 100, 600):
        nested = ["".join(f"{i} + (" for i in range(n)) + "1" + ")" * n, "[" * n + "1" + "]" * n,
                  "[" + ", ".join(str(i) for i in range(n)) + "]"]
        for e in nested:
            out.append(f"let g = {e};\nfn main() {{ println(\"start\"); println(g); }}")
        out.append(("import { g } from lib;\nfn main() { try { println(g); } catch e { println(\"caught\"); } }",
                    {"lib": f"pub let g = {nested[n % 2]};\nfn main() {{ }}"}, None))
    return out


def judge(ctx, srcs, limits, label, compare_spec=True):
    """srcs: main texts, or (main, mods, singletons) triples (see progstream.run_all)."""
    res = progstream.run_all(srcs, limits=limits, call_limit=limits[0], with_spec=compare_spec)
    for src, r in zip(srcs, res):
        if not r["A"].startswith("ACCEPT") and not r.get("crashed"):
            if r["A"].startswith("PANIC"):
                ctx.count(case_key=(progstream.source_text(src), limits), nontrivial=True)
                ctx.violation({"kind": "prog", **progstream.source_record(src), "limits": list(limits), "go": r["A"][:300]}, f"{label}: the analyzer panicked: {r['A'][:120]}")
            continue
        ctx.count(case_key=(progstream.source_text(src), limits), nontrivial=True)
        if r.get("crashed"):
            ctx.violation({"kind": "prog", **progstream.source_record(src), "limits": list(limits), "go": r["A"][:300]},
                          f"{label}: an accepted program crashed or wedged the host under limits {limits}: {r['A'][:120]}")
            continue
        ctx.sample({"main": progstream.source_text(src)[:200], "limits": list(limits), "vm": (r.get("VM") or {}).get("raw", "")[:120]}, limit=4)
        for bname in ("VM", "TREE"):
            o = r.get(bname)
            if o is None:
                continue
            if o["cls"] in ("PANIC", "CRASH", "HANG", "COMPILE-ERROR"):
                ctx.violation({"kind": "prog", **progstream.source_record(src), "limits": list(limits), bname: o.get("raw", "")[:400]},
                              f"{label}: {bname} under limits {limits}: {o['cls']} {o.get('what', '')[:100]}")
                break
            if o["cls"] == "TERM":
                rr = progstream.run_all([src], limits=limits, with_spec=False, timeout_ms=60000)[0].get(bname, o)
                if rr["cls"] == "TERM":
                    ctx.violation({"kind": "prog", **progstream.source_record(src), "limits": list(limits), bname: rr.get("raw", "")[:400]},
                                  f"{label}: {bname} under limits {limits} does not return (wedged until the host's timeout)")
                    break


def run(ctx):
    st = core.prepare(ctx, MODULES)
    ctx.assumptions += [
        "programs inside the fragment of the partial theorems; the zone of the open finding V28 (null-typed call results in "
        "value position) is not generated",
        "'never deadlocks' is shown for the single-core VM model and the Wait protocol model (C10/C16/C17), not for the Go scheduler",
    ]
    if not st["harness"] or not st["dump"] or not st["model"]:
        ctx.violation({"kind": "build", "log": st.get("log", "")[-3000:]}, "harness, table dump or Lean model no longer builds", no_input=True)
        return
    known.replay_open(ctx, "C02")
    matrix = operator_matrix()
    ctx.coverage["operator_matrix_programs"] = len(matrix)
    for i in range(0, len(matrix), 3000):
        judge(ctx, matrix[i:i + 3000], LIMITS[0], "C02 operator matrix", compare_spec=False)
    # global initializers that throw (or overshoot a limit) while the VM is constructed, entry and imported modules (G1):
    # the host gets an interrupt back from both backends under every limit triple, never a panic out of the constructor
    ginit = families.global_init_failures() + init_limit_programs()
    ctx.coverage["global_init_programs"] = len(ginit)
    for lim in LIMITS:
        judge(ctx, ginit, lim, "C02 global initializers", compare_spec=False)
    # `spawn` in every shape (S1): what the analyzer accepts compiles to Opcode_Spawn and runs on both backends under
    # every limit triple; spawns of function values and `join` on the result have to be rejected (skipped by the judge)
    spawns = families.spawn_programs()
    ctx.coverage["spawn_programs"] = len(spawns)
    for lim in LIMITS:
        judge(ctx, spawns, lim, "C02 spawn", compare_spec=False)
    n = 400 if ctx.tier == "quick" else 6000
    srcs = [progs.generate(ctx.rng, max_depth=ctx.rng.choice([2, 3, 4]), fault_rate=0.15)[0] for _ in range(n)]
    for lim in LIMITS:
        for i in range(0, len(srcs), 2000):
            judge(ctx, srcs[i:i + 2000], lim, "C02", compare_spec=False)
    # hcheck on the model-compiled code of every generated program (translation validation chain)
    res = progstream.run_all(srcs[: (300 if ctx.tier == "quick" else 3000)], backends=(), with_spec=False)
    lines = [f"hcheck {r['raw']['AST']}" for r in res if "AST" in r.get("raw", {})]
    if lines:
        ans = core.lean_lines(lines)
        ok = sum(1 for a in ans if a.startswith("HCHECK-OK"))
        rej = [a for a in ans if a.startswith("HCHECK-REJECT")]
        ctx.coverage["hcheck_accepted"] = ok
        ctx.coverage["hcheck_rejected"] = len(rej)
        ctx.coverage["hcheck_other"] = len(ans) - ok - len(rej)
        if rej:
            ctx.broken.append(f"hcheck rejects real bytecode inside the fragment: {rej[0][:120]}")
    ctx.coverage["rule"] = ("full (type x infix/assign/prefix operator x boundary operand pair) product as one-line programs; typed random "
                            "programs with a raised rate of faulting operands (x/0, bad index, negative shift) under three limit triples "
                            "(tiny, default, huge) on both backends; non-trivial = every accepted (program, limits) pair")
    ctx.coverage["traces_validated_against_impl"] = ctx.evaluations
    if ctx.broken and not ctx.violations:
        ctx.violation({"kind": "broken-tie", "broken": ctx.broken[:10], "log": st.get("log", "")[-3000:]},
                      "proof obligation or model/code correspondence no longer checks: " + "; ".join(ctx.broken[:3]), no_input=True)


def replay(ctx, rep):
    ok, log = core.build_harness()
    if not ok:
        print(log)
        return 1
    if rep.get("kind") != "prog":
        print("replay names a broken obligation, not an input:", rep)
        return 1
    lim = tuple(rep.get("limits", LIMITS[0]))
    r = progstream.run_all([progstream.source_of_record(rep)], limits=lim, with_spec=False)[0]
    print(progstream.source_text(progstream.source_of_record(rep)), lim)
    bad = r.get("crashed", False)
    for k in ("VM", "TREE"):
        o = r.get(k)
        print(k + ":", o and o.get("raw"))
        if o and o["cls"] in ("PANIC", "CRASH", "HANG"):
            bad = True
    if not bad:
        print("replay: property holds on this input now")
        return 0
    print("VIOLATION property=C02 replay=(replayed)")
    return 1
