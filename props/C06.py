"""C06 — the token stream is a faithful image of the source text.

Theorems: HmsProofs.C06 (tables agree with the regenerated keyword/operator tables;
the lexer model meets the lexical specification on every input: partition, classes,
decoded values, maximal munch, exact spans; totality; error spans).
Tie: Go `NextToken` stream <-> Lean `lexAll` on the same code points.
Oracle: the Go stream satisfies `Spec.tokensMeetSpec` (evaluated by the driver on the
Go output, independent of the lexer model) and every span names the file.
"""
import itertools

from vlib import core
from vlib.tables import list_of_tuples

MODULES = ["HmsProofs.C06"]

OPERATORS = ["#", "?", "@", "$", ";", ",", ":", ".", "..", "->", "=>", "~>", "(", ")", "{", "}", "[", "]",
             "||", "&&", "==", "!=", "<", "<=", ">", ">=", "!", "+", "-", "*", "/", "%", "**", "<<", ">>",
             "|", "&", "^", "=", "+=", "-=", "*=", "/=", "**=", "%=", "<<=", ">>=", "|=", "&=", "^="]
KEYWORDS = ["true", "on", "false", "off", "null", "none", "pub", "fn", "if", "else", "match", "for", "while",
            "loop", "break", "continue", "return", "import", "as", "from", "let", "in", "type", "try", "catch",
            "new", "spawn", "event", "impl", "with", "templ", "trigger", "_"]
IDENTS = ["a", "foo", "x1", "_a", "truex", "fn_", "F", "iff", "on_", "__", "v8", "v9", "x0123456789", "area_1980", "for9", "a8b", "Z_9_", "k7", "n00"]
NUMBERS = ["0", "7", "42", "1_000", "1__0", "1_", "3.14", "1_0.2_5", "0.0", "5f", "1_0f", "10.5", "007", "89", "9876543210", "8.9", "9f", "0.08"]
STRINGS = ['""', "''", '"abc"', "'a b'", '"\\n\\t\\r\\b\\\\"', '"\\""', "'\\''", '"\\x41"', '"\\u00e9"',
           '"\\U0001F600"', '"\\101"', '"é∑"', '"line1\nline2"', "'\"'", '"\\x7f\\000"', '"\\UFFFFFFFF"',
           '"\\ud800"', '"//not a comment"', '"/* nor this */"']
TRIVIA = ["", " ", "\n", "\t", "\r\n", "  ", " // c\n", "/* c */", "/* a\nb */", " /**/ ", "//\n", "/* * / */"]
BAD = ['"abc', "'x\\", '"\\q"', '"\\x4"', '"\\u12"', '"\\U0000"', '"\\8"', '"\\1"', "~", "~x", "`", "\\", "é", "a ~ b",
       "/* open", "// open", "/*/", "/**", "1.", "1..2", "1.f", "1.a", "..=", "§", "\x00", "a\x0bb", "﻿a"]


def cps(s):
    return "(" + " ".join(str(ord(c)) for c in s) + ")"


def run_cases(ctx, texts, stage):
    """Three-way: Go stream == Lean stream; Go stream meets the spec."""
    lines = [cps(t) for t in texts]
    go = core.go_lines("lex", lines)
    lean = core.lean_lines(["lex " + l for l in lines])
    spec_in, spec_idx = [], []
    for i, g in enumerate(go):
        body = g.replace(" file=ok", "").replace(" file=bad", "").strip()
        if g.startswith(("CRASH", "HANG", "PANIC")):
            ctx.violation({"kind": "lex", "text": texts[i], "go": g}, f"{stage}: Go lexer crashed on {texts[i]!r}: {g[:120]}")
            continue
        spec_in.append(f"tokcheck {lines[i]} | {body}")
        spec_idx.append(i)
    spec = dict(zip(spec_idx, core.lean_lines(spec_in))) if spec_in else {}
    bad_tie = 0
    for i, t in enumerate(texts):
        g = go[i]
        if g.startswith(("CRASH", "HANG", "PANIC")):
            continue
        ntoks = g.count(" T") + (1 if g.startswith("T") else 0)
        ctx.count(case_key=t, nontrivial=ntoks >= 2 or "X" in g)
        if "file=bad" in g:
            ctx.violation({"kind": "lex", "text": t, "go": g}, f"{stage}: a token or error span of {t!r} does not name the file")
            continue
        if "!" in g:
            ctx.violation({"kind": "lex", "text": t, "go": g}, f"{stage}: malformed EOF / non-terminating token stream for {t!r}")
            continue
        s = spec.get(i)
        if s == "SPEC-FAIL":
            ctx.violation({"kind": "lex", "text": t, "go": g},
                          f"{stage}: token stream of {t!r} violates the lexical specification (classes/values/munch/spans)")
            continue
        body = g.replace(" file=ok", "").strip()
        if body != lean[i].strip():
            bad_tie += 1
            if s == "SPEC-NA":
                # error path: the specification side has no verdict; the model is the reference
                ctx.violation({"kind": "lex", "text": t, "go": g, "model": lean[i]},
                              f"{stage}: error path of {t!r} differs from the model (class or span): go={body[-80:]} model={lean[i][-80:]}")
            elif bad_tie <= 3:
                ctx.broken.append(f"correspondence:lex:{t!r}: go={body[:160]} lean={lean[i][:160]}")
        ctx.sample({"text": t, "go": g[:240]})
    return bad_tie


def gen_texts(ctx):
    rng = ctx.rng
    lexemes = OPERATORS + KEYWORDS + IDENTS + NUMBERS + STRINGS
    texts = []
    # every lexeme alone, with surrounding trivia
    for lx in lexemes + BAD:
        texts.append(lx)
        texts.append(" " + lx + "\n")
    # all ordered pairs with and without separating trivia (exhaustive)
    seps = ["", " "] if ctx.tier == "quick" else ["", " ", "\n", "/* c */"]
    for a, b in itertools.product(lexemes, lexemes):
        for sp in seps:
            texts.append(a + sp + b)
    n_pairs = len(texts)
    # triples (thorough) over a reduced alphabet
    if ctx.tier == "thorough":
        small = OPERATORS + ["a", "1", "1.5", "if", '"s"']
        for a, b, c in itertools.product(small, small, small):
            texts.append(a + b + c)
    # random sequences with random trivia, unicode, multi-line
    n = 4000 if ctx.tier == "quick" else 120000
    for _ in range(n):
        k = rng.randrange(1, 12)
        parts = []
        for _ in range(k):
            r = rng.random()
            if r < 0.03:
                parts.append(rng.choice(BAD))
            else:
                parts.append(rng.choice(lexemes))
            parts.append(rng.choice(TRIVIA))
        texts.append("".join(parts))
    # arbitrary characters
    alphabet = list("ab1_f.\"'\\/*\n \t<>=!-+~|&^%#?@$;,:(){}[]xXuU07é\r")
    for _ in range(n // 2):
        texts.append("".join(rng.choice(alphabet) for _ in range(rng.randrange(0, 14))))
    return texts, n_pairs


def run(ctx):
    st = core.prepare(ctx, MODULES)
    ctx.assumptions += [
        "the lexical specification is grammar.ebnf plus the undocumented tokens ? @ $ # ~> and the escapes \\' \\\"",
        "Go's []rune(string) and string([]rune) conversions are trusted (invalid code points become U+FFFD)",
    ]
    if not st["harness"] or not st["dump"]:
        ctx.violation({"kind": "build", "log": st.get("log", "")[-3000:]},
                      "harness or table dump no longer builds against /repo", no_input=True)
        return
    if not st["model"]:
        ctx.violation({"kind": "build", "log": st.get("log", "")[-3000:]},
                      "Lean model no longer builds", no_input=True)
        return
    texts, n_pairs = gen_texts(ctx)
    ctx.coverage["exhaustive_pair_cases"] = n_pairs
    bad = 0
    for i in range(0, len(texts), 20000):
        bad += run_cases(ctx, texts[i:i + 20000], "C06")
    ctx.coverage["rule"] = ("every lexeme of a representative set (all operators, all keywords, identifier/number/string "
                            "shapes incl. every escape form) alone and in all ordered pairs with and without separating "
                            "trivia (exhaustive), random sequences with comments/unicode/newlines, unterminated constructs, "
                            "arbitrary character soup; non-trivial = distinct text with >= 2 tokens or an error")
    ctx.coverage["traces_validated_against_impl"] = ctx.evaluations
    if ctx.broken and not ctx.violations:
        ctx.violation({"kind": "broken-tie", "broken": ctx.broken[:10], "log": st.get("log", "")[-3000:]},
                      "proof obligation or model/code correspondence no longer checks: " + "; ".join(ctx.broken[:3]),
                      no_input=True)


def replay(ctx, rep):
    ok, log = core.build_harness()
    if not ok:
        print(log)
        return 1
    if rep.get("kind") != "lex":
        print("replay names a broken obligation, not an input:", rep)
        return 1
    t = rep["text"]
    g = core.go_lines("lex", [cps(t)])[0]
    body = g.replace(" file=ok", "").replace(" file=bad", "").strip()
    s = core.lean_lines([f"tokcheck {cps(t)} | {body}", "lex " + cps(t)])
    print("text:", repr(t))
    print("go:   ", g)
    print("model:", s[1])
    print("spec: ", s[0])
    if s[0] != "SPEC-FAIL" and body == s[1].strip() and "file=ok" in g:
        print("replay: property holds on this input now")
        return 0
    print("VIOLATION property=C06 replay=(replayed)")
    return 1
