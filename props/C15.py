"""C15 — modules are isolated and linked by name and visibility.

Theorems: HmsProofs.C15 (import decision, cycle check, @init shape, linking under
NoCrossModuleClash, counterexamples for V22 / V24 / A8 / V31).
Tie: for every generated module graph the real analyzer's error-level diagnostics (class + import
statement pointed at) equal the Lean model's (`Hms.Mod.analyze`); the @init functions of the real
compiler have the shape of `Hms.Mod.initOf`; both backends' output equals `Hms.Mod.runLex`
(lexical, per-module resolution) and, where the Core specification semantics covers the program,
`Core.runProgram` on the analysed AST.
Oracle (implementation side): an import statement carries an error-level diagnostic iff the
generator knows it to be illegal (missing module / item, wrong kind, not `pub`, self-import; a
statement on a cycle may or may not carry one but a reachable cycle always yields a `cyclic`
diagnostic); an accepted program prints exactly what lexical per-module resolution prescribes,
on both backends, in every repetition.
"""
import re

from gen import modgraphs as mg
from vlib import core, progstream

MODULES = ["HmsProofs.C15"]

ASSUMPTIONS = [
    "module graphs without cross-module name clashes (finding V22, open: one global scope keyed by the source name, "
    "getMangledFn falls back to any module) — theorem hypothesis NoCrossModuleClash; clash witnesses are replayed as known findings",
    "no module imports a name it also defines and no name is imported twice ('already exists in current scope' is a different rule)",
    "global initialisers are literals (the analyzer demands constant initialisers), so the order in which the modules' "
    "@init functions run is not observable",
    "template and trigger imports (host modules) are not generated",
]

# regression witnesses of fixed findings (fail the check if they fail again)
REGRESSIONS = [
    ("A8", {"main": "import f from a;\nfn main() { f(); }", "a": "import f from a;\npub fn f() { }\nfn main() { }"}),
    ("A8", {"main": "import f from a;\nfn main() { f(); }", "a": "import h from b;\npub fn f() { }\nfn main() { }",
            "b": "import f from a;\npub fn h() { }\nfn main() { }"}),
]

KNOWN = {
    "V22": [("global", mg.V22_GLOBAL_CLASH, "a.f a.x\nb.g b.x\n"), ("function", mg.V22_FN_CLASH, "a.g a.x\nb.y\n")],
}


def mod_line(cmd, mods, extra=""):
    parts = [f"({cmd}{(' ' + extra) if extra else ''}"]
    for n, s in mods.items():
        parts.append(f"(main {mg.xhex(s)})" if n == "main" else f"(mod {mg.xhex(n)} {mg.xhex(s)})")
    return " ".join(parts) + ")"


def fields(line):
    out = {}
    for p in line.strip().split(" | "):
        if "=" in p:
            k, v = p.split("=", 1)
            out[k] = v
    return out


def hexout(s):
    try:
        return bytes.fromhex(s[1:]).decode("utf-8", "replace") if s and s.startswith("x") else None
    except ValueError:
        return None


def init_shape(asm_hex):
    """<module>:<#SetGlobImm>:<callees joined by +>:<ends with Return>;… from the real instruction streams"""
    txt = hexout(asm_hex)
    if txt is None:
        return None
    out = {}
    cur = None
    for line in txt.splitlines():
        if line.startswith("FN "):
            m = re.match(r"FN @(.+)[._]@init$", line)
            cur = m.group(1) if m else None
            if cur is not None:
                out[cur] = {"set": 0, "calls": [], "last": ""}
            continue
        if cur is None:
            continue
        o = out[cur]
        o["last"] = line
        if line.startswith("SetGlobImm("):
            o["set"] += 1
        m = re.match(r"Call_Imm\(@(.+)[._]@init\)$", line)
        if m:
            o["calls"].append(m.group(1))
    return ";".join(f"{n}:{o['set']}:{'+'.join(sorted(o['calls']))}:{'true' if o['last'] == 'Return' else 'false'}"
                    for n, o in sorted(out.items()))


def judge(ctx, graphs, label):
    go = core.go_lines("modgraph", [mod_line("modgraph", g.sources(), "(asm true) (ast true)") for g in graphs], timeout=900)
    lean = core.lean_lines(["modgraph " + g.sexp() for g in graphs], timeout=1800)
    spec_in, spec_idx = [], []
    for i, (g, gl) in enumerate(zip(graphs, go)):
        f = fields(gl)
        if "AST" in f:
            spec_in.append(f"spec 200000 100 {f['AST']}")
            spec_idx.append(i)
    spec = dict(zip(spec_idx, core.lean_lines(spec_in, timeout=1800))) if spec_in else {}
    for i, (g, gl, ll) in enumerate(zip(graphs, go, lean)):
        desc = g.describe()
        gf, lf = fields(gl), fields(ll)
        rep = {"kind": "modgraph", "mods": desc["mods"], "family": g.family,
               "illegal": {f"{k[0]}#{k[1]}": sorted(g.illegal_reasons(g.mod(k[0]), k[1])) for k in g.stmt_keys()
                           if k[0] in g.reachable_from_main()},
               "on_cycle": sorted(m.name for m in g.mods if g.reaches(m.name, m.name)),
               "want": hexout(lf.get("OUT", ""))}
        fam = g.family.split(":")[0]
        ctx.coverage["family_" + fam] = ctx.coverage.get("family_" + fam, 0) + 1
        if gl.startswith(("CRASH", "HANG", "PANIC", "A=PANIC")) or "D" not in gf:
            ctx.count(case_key=desc["mods"], nontrivial=True)
            ctx.violation(dict(rep, go=gl[:300]), f"{label}: the toolchain crashed or hung on a module graph: {gl[:100]}")
            continue
        if lf.get("FRAG") != "true" or lf.get("CLASH") != "false":
            ctx.broken.append(f"generator:graph outside the fragment of the theorems ({g.family})")
            continue
        diags = [d for d in gf["D"].split(",") if d]
        mdiags = [d for d in lf.get("D", "").split(",") if d]
        per_stmt = {}
        for d in diags:
            m = re.match(r"(.+)@(.+)#(\d+|-)$", d)
            if m and m.group(3) != "-":
                per_stmt.setdefault((m.group(2), int(m.group(3))), []).append(m.group(1))
        illegal = {k: g.illegal_reasons(g.mod(k[0]), k[1]) for k in g.stmt_keys()}
        reach = g.reachable_from_main()
        ctx.count(case_key=desc["mods"], nontrivial=bool(diags) or bool(gf.get("VM")))
        ctx.sample({"family": g.family, "mods": desc["mods"], "go": gl[:200], "model": ll[:200]}, limit=4)
        # ---- oracle: diagnostic present iff the import is illegal ---------------------------------
        bad = None
        for k, reasons in illegal.items():
            if k[0] not in reach:
                continue
            hard = reasons - {"cycle"}
            has = bool(per_stmt.get(k))
            if hard and not has:
                bad = f"illegal import statement {k[0]}#{k[1]} ({'/'.join(sorted(hard))}) is accepted without a diagnostic"
            elif not reasons and has and not (set(per_stmt[k]) == {"cyclic"} and g.reaches(k[0], k[0])):
                # (finding A11: the analyzer repeats "Illegal cyclic import" at every later first-time import of a
                # module that lies on a cycle; such a program is rejected anyway)
                bad = f"legal import statement {k[0]}#{k[1]} is reported: {per_stmt[k]}"
            for r in reasons:
                ctx.coverage["reason_" + r] = ctx.coverage.get("reason_" + r, 0) + 1
        cyc_stmts = [k for k, r in illegal.items() if k[0] in reach and ("cycle" in r or "self-import" in r)]
        has_cyc_diag = any(c == "cyclic" for v in per_stmt.values() for c in v)
        real_cycle = any("cycle" in illegal[k] for k in cyc_stmts)
        if real_cycle and not has_cyc_diag:
            bad = "a cyclic import reachable from main is not reported as cyclic"
        # (a self-import is a cycle of length one: it is always reported, as a missing or private item, and as
        # cyclic when the module imports another module for the first time afterwards)
        if has_cyc_diag and not cyc_stmts:
            bad = "a cyclic import is reported but the import graph has no cycle"
        if cyc_stmts and not diags:
            bad = "a program with a cyclic or self import is accepted"
        for k, cs in per_stmt.items():
            if "cyclic" in cs and not g.reaches(k[0], k[0]):
                bad = f"statement {k[0]}#{k[1]} is reported as cyclic but module {k[0]} lies on no import cycle"
        if any(d.startswith("other:") for d in diags):
            bad = bad or f"unclassified diagnostic: {[hexout('x' + d.split(':')[1].split('@')[0]) for d in diags if d.startswith('other:')][:2]}"
        if bad:
            ctx.violation(dict(rep, go=gl[:300]), f"{label}: {bad}")
            continue
        # ---- tie: the model's diagnostics and the generator's verdicts -------------------------------
        if sorted(diags) != sorted(mdiags):
            if sum(1 for b in ctx.broken if b.startswith("correspondence:diag")) < 3:
                ctx.broken.append(f"correspondence:diagnostics ({g.family}) go={gf['D']} model={lf.get('D')} mods={desc['mods']}")
        mill = sorted(x for x in lf.get("ILLEGAL", "").split(",") if x)
        gill = sorted(f"{k[0]}#{k[1]}" for k, r in illegal.items() if r)
        if mill != gill:
            if sum(1 for b in ctx.broken if b.startswith("correspondence:legal")) < 3:
                ctx.broken.append(f"correspondence:legality spec ({g.family}) generator={gill} model={mill} mods={desc['mods']}")
        if diags:
            continue
        # ---- accepted: execution ----------------------------------------------------------------------
        ctx.coverage["accepted"] = ctx.coverage.get("accepted", 0) + 1
        want = hexout(lf.get("OUT", ""))
        if want is None or lf.get("CLOSED") != "true":
            ctx.broken.append(f"model:no lexical output for an accepted program ({g.family}) {desc['mods']}")
            continue
        if lf.get("LINKED") != "same" or lf.get("STARTUP") != "true":
            ctx.broken.append(f"model:linking/startup depends on the visiting order inside the fragment ({g.family}) {desc['mods']}")
        bad = None
        if any(progstream.parse_outcome(gf.get(b))["cls"] in ("TERM", "HANG") for b in ("VM", "TREE")):
            # the harness's own wall-clock guard fired: re-run alone with a generous limit before judging
            ctx.coverage["rerun_after_timeout"] = ctx.coverage.get("rerun_after_timeout", 0) + 1
            gf = fields(core.go_lines("modgraph", [mod_line("modgraph", g.sources(), "(asm true) (timeout 60000)")], timeout=300)[0])
        for b in ("VM", "TREE"):
            o = progstream.parse_outcome(gf.get(b))
            if o["cls"] != "OK":
                bad = f"{b} outcome {o['cls']} {o.get('kind', '')} {o.get('msg', o.get('what', ''))[:80]!r} where lexical resolution prints {want[:60]!r}"
            elif o.get("out") != want:
                bad = f"{b} prints {o.get('out', '')[:120]!r} where lexical per-module resolution prints {want[:120]!r}"
            elif b == "VM" and (o.get("stack"), o.get("mp"), o.get("handlers")) != ("0", "0", "0"):
                bad = f"VM core not clean after main: {gf.get(b)[-40:]}"
            if bad:
                break
        if bad:
            ctx.violation(dict(rep, go=gl[:400], want=want), f"{label}: {bad}")
            continue
        s = spec.get(i)
        if s is not None:
            so = progstream.parse_outcome(s)
            if so["cls"] == "OK":
                ctx.coverage["core_spec_compared"] = ctx.coverage.get("core_spec_compared", 0) + 1
                if so.get("out") != want:
                    ctx.broken.append(f"correspondence:Core specification semantics vs Mod lexical semantics ({g.family}) {desc['mods']}")
            else:
                ctx.coverage["core_spec_outside"] = ctx.coverage.get("core_spec_outside", 0) + 1
        shape = init_shape(gf.get("ASM", ""))
        if shape != lf.get("INIT"):
            if sum(1 for b in ctx.broken if b.startswith("correspondence:init")) < 3:
                ctx.broken.append(f"correspondence:init shape ({g.family}) go={shape} model={lf.get('INIT')}")


def replay_known(ctx):
    for e in core.load_known("C15"):
        if e.get("status") != "open":
            continue
        w = e.get("witness", {})
        mods = w.get("mods")
        fails = None
        if mods and "diag" in w.get("expect", {}):
            out = core.go_lines("modgraph", [mod_line("modgraph", mods)], timeout=120)[0]
            fails = fields(out).get("D") == w["expect"]["diag"]
        elif mods:
            fails = witness_fails(mods, w.get("expect", {}).get("lexical_out"))
        ctx.known(e["id"], e["what"] + ("" if fails or fails is None else " [witness no longer fails]"))
        if fails is False:
            ctx.note(f"known finding {e['id']}: the witness no longer fails")


def witness_fails(mods, want, reps=40):
    """does some repetition of the witness deviate from the lexical output on some backend?"""
    out = core.go_lines("repeat", [mod_line("repeat", mods, f"(n {reps})")] * 3, timeout=300)
    for l in out:
        f = fields(l)
        if f.get("SAME") != "true":
            return True
        for b in ("VM", "TREE"):
            o = progstream.parse_outcome(f.get(b))
            if o["cls"] != "OK" or (want is not None and o.get("out") != want):
                return True
    return False


def host_reexport_cases():
    """-> ([(main, {"b": src})], [expected analysis class])"""
    import itertools
    host = [("type HttpResponse", "net"), ("ping", "net"), ("http", "net"), ("trigger minute", "triggers")]
    cases, want = [], []
    for r in range(1, len(host) + 1):
        for sub in itertools.combinations(host, r):
            imps = ""
            for hm in ("net", "triggers"):
                its = [n for n, m in sub if m == hm]
                if its:
                    imps += "import { " + ", ".join(sorted(its, key=lambda n: not n.startswith("trigger"))) + " } from " + hm + ";\n"
            b = imps + 'pub fn g() { println("b.g"); }\nfn main() { }\n'
            cases.append(('import { g } from b;\nfn main() { g(); }\n', {"b": b}))
            want.append("ACCEPT")
            for k in range(1, 3):
                for asked in itertools.combinations(host, k):
                    names = [n for n, _ in asked]
                    # triggers have no `pub`: a module hands on the triggers it imported (the property speaks of functions,
                    # globals and types) — not judged unless another asked name settles the verdict
                    if all(n.startswith("trigger") and (n, m) in sub for n, m in asked):
                        continue
                    for items in (names, ["g"] + names, names + ["g"]):
                        # the parser knows `trigger` only at the head of an import list
                        items = sorted(items, key=lambda n: not n.startswith("trigger"))
                        cases.append(("import { " + ", ".join(items) + " } from b;\nfn main() { }\n", {"b": b}))
                        want.append("REJECT")
    # event functions are not `pub`: they cannot be imported either (alone, next to a pub item, through a chain)
    a = 'pub fn g() { println("a.g"); }\nevent fn tick() { println("a.tick"); }\nfn hidden() { }\nfn main() { }\n'
    for items, w in ((["g"], "ACCEPT"), (["tick"], "REJECT"), (["g", "tick"], "REJECT"), (["tick", "g"], "REJECT"), (["hidden"], "REJECT")):
        cases.append(("import { " + ", ".join(items) + " } from b;\nfn main() { " + "".join(f"{i}(); " for i in items) + "}\n", {"b": a}))
        want.append(w)
    # F3: a module's own function may not take the name of a value it imports (the analyzer would type the calls against
    # the import, both backends would run the module's own function)
    b = 'pub fn g() { println("b.g"); }\nfn main() { }\n'
    cases.append(('import { g } from b;\nfn g() { }\nfn main() { g(); }\n', {"b": b}))
    want.append("REJECT")
    cases.append(('import { g } from b;\nfn h() { }\nfn main() { g(); h(); }\n', {"b": b}))
    want.append("ACCEPT")
    cases.append(('import { hv } from b;\nfn hv() -> int { 5 }\nfn main() { println(hv()); }\n', {"b": 'pub let hv = 1;\nfn main() { }\n'}))
    want.append("REJECT")
    # S1: a pub function imported from a code module is a function of the program (it can be spawned, like a function of
    # the entry module); a function value is not: a local that holds or shadows the imported function, a host function
    for main, w in (('import { g } from b;\nfn main() { spawn g(); let h = spawn g(); for i in 0..2 { spawn g(); } }\n', "ACCEPT"),
                    ('import { g } from b;\nfn own() { }\nfn main() { spawn own(); spawn g(); }\n', "ACCEPT"),
                    ('import { g } from b;\nfn main() { let f = g; spawn f(); }\n', "REJECT"),
                    ('import { g } from b;\nfn main() { let g = fn() { }; spawn g(); }\n', "REJECT"),
                    ('import { g } from b;\nfn main() { let h = spawn g(); h.join(); }\n', "REJECT"),
                    ('import { ping } from net;\nimport { g } from b;\nfn main() { spawn g(); spawn ping("a", 1.0); }\n', "REJECT")):
        cases.append((main, {"b": b}))
        want.append(w)
    # braced lists mixing kinds: every entry has its own kind (`type` applies to the entry it prefixes only); every order
    geo = 'pub type Point = { x: int, y: int };\npub type Size = int;\npub fn scale(p: Point, k: int) -> int { p.x * k }\npub let unit = 1;\nfn hidden() { }\nfn main() { }\n'
    use = 'fn main() { let p: Point = new { x: 2, y: 3 }; println(scale(p, unit)); }\n'
    for items, w in ((["type Point", "scale", "unit"], "ACCEPT"), (["scale", "type Point", "unit"], "ACCEPT"), (["scale", "unit", "type Point"], "ACCEPT"),
                     (["type Point", "type Size", "scale", "unit"], "ACCEPT"), (["type Point", "scale", "type Size", "unit"], "ACCEPT"),
                     (["type Point", "Size", "scale", "unit"], "REJECT"), (["type Point", "scale", "unit", "type scale"], "REJECT"),
                     (["type Point", "scale", "unit", "hidden"], "REJECT"), (["type Point", "type unit", "scale"], "REJECT")):
        cases.append(("import { " + ", ".join(items) + " } from b;\n" + use, {"b": geo}))
        want.append(w)
    return cases, want


def run(ctx):
    st = core.prepare(ctx, MODULES)
    ctx.assumptions += ASSUMPTIONS
    if not st["harness"] or not st["dump"] or not st["model"]:
        ctx.violation({"kind": "build", "log": st.get("log", "")[-3000:]}, "harness, table dump or Lean model no longer builds", no_input=True)
        return
    replay_known(ctx)
    # witnesses of the open zones still behave as recorded (evidence only; never a verdict)
    for fid, ws in KNOWN.items():
        for name, mods, want in ws:
            ctx.coverage[f"witness_{fid}_{name}_fails"] = witness_fails(mods, want)
    # fixed findings: ordinary regression cases
    for fid, mods in REGRESSIONS:
        out = core.go_lines("modgraph", [mod_line("modgraph", mods)], timeout=120)[0]
        ctx.count(case_key=mods, nontrivial=True)
        if out.startswith(("CRASH", "HANG", "PANIC", "A=PANIC")) or "cyclic" not in out and "noitem" not in out:
            ctx.violation({"kind": "modgraph", "mods": mods, "go": out[:300]}, f"C15 regression {fid}: {out[:120]}")
    # V23 (repaired): a function called from a function whose local shadows a global reads the global on both backends
    if witness_fails(mg.V23_DYNAMIC_SCOPE, "main.h main.x\nlocal\na.f a.y\n", reps=5):
        ctx.violation({"kind": "modgraph", "mods": mg.V23_DYNAMIC_SCOPE}, "C15 regression V23: a free variable of a called function is "
                      "resolved through the caller's scopes (or the backends disagree) on the recorded witness")
    # V41 (repaired): a function literal created in one module and called from another runs in its own module
    v41 = {"main": "import { apply, get } from b;\nlet xm = 9;\nfn main() { println(apply(fn() -> int { get() })); println(apply(fn() -> int { xm })); }",
           "b": "let xb = 5;\npub fn get() -> int { xb }\npub fn apply(f: fn() -> int) -> int { f() + xb }\nfn main() { }"}
    if witness_fails(v41, "10\n14\n", reps=5):
        ctx.violation({"kind": "modgraph", "mods": v41}, "C15 regression V41: a function literal called from another module does not run in "
                      "the module that created it (or a backend fails) on the recorded witness")
    # parameters and locals of an imported function named like a global of its module: every cross-module call gets its own
    # frame and leaves none behind (later calls read and write the module's global)
    scoped = [
        ({"main": "import { setx, getx, bump } from a;\nfn main() { println(getx()); setx(42); println(getx()); bump(5); println(getx()); setx(7); println(getx()); }",
          "a": "let x = 1;\npub fn getx() -> int { x }\npub fn setx(x: int) { println(\"setx\", x); }\npub fn bump(n: int) { let x = n * 2; println(\"bump\", x); }\nfn main() { }"},
         "1\nsetx 42\n1\nbump 10\n1\nsetx 7\n1\n"),
        ({"main": "import { shadow, inc, get } from a;\nfn main() { println(shadow(100)); inc(); inc(); println(get()); println(shadow(5)); inc(); println(get()); }",
          "a": "let cnt = 0;\npub fn shadow(cnt: int) -> int { cnt + 1 }\npub fn inc() { cnt += 1; }\npub fn get() -> int { cnt }\nfn main() { }"},
         "101\n2\n6\n3\n"),
        ({"main": "import { via } from a;\nimport { read } from b;\nfn main() { println(via(3)); println(read()); println(via(4)); println(read()); }",
          "a": "import { put } from b;\nlet ka = 10;\npub fn via(ka: int) -> int { put(ka); ka + 1 }\nfn main() { }",
          "b": "let store = 0;\npub fn put(store: int) { println(\"put\", store); }\npub fn read() -> int { store }\nfn main() { }"},
         "put 3\n4\n0\nput 4\n5\n0\n"),
    ]
    # a singleton extracted by an imported function is the singleton of the DEFINING module; function literals crossing the
    # module border in both directions run against the module that created them, named functions against their own
    scoped += [
        ({"main": "import { dim, level } from dev;\nfn main() { let a = dim(20); println(a, level()); let b = dim(5); println(b + level()); }",
          "dev": "$Lamp = { lvl: int };\npub fn dim(lamp: $Lamp, p: int) -> int { lamp.lvl = p; lamp.lvl }\npub fn level(lamp: $Lamp) -> int { lamp.lvl }\nfn main() { }"},
         "20 20\n10\n"),
        ({"main": "import { twice, next, make } from lib;\nlet counter = 100;\nfn own() -> int { counter }\nfn main() { println(twice(fn() -> int { next() })); println(counter); println(next()); let add = make(); println(add(own)); counter = 2; println(add(own)); }",
          "lib": "let cnt = 0;\nlet base = 10;\npub fn next() -> int { cnt += 1; cnt }\npub fn twice(f: fn() -> int) -> int { f() + f() }\n"
                 "pub fn make() -> fn(cb: fn() -> int) -> int { fn(cb: fn() -> int) -> int { cb() + base } }\nfn main() { }"},
         "3\n100\n3\n110\n12\n"),
    ]
    for mods, want in scoped:
        ctx.count(case_key=mods, nontrivial=True)
        if witness_fails(mods, want, reps=3):
            ctx.violation({"kind": "modgraph", "mods": mods, "want": want}, "C15 scoped calls: a parameter or local of an imported function named like a global of "
                          "its module disturbs a later cross-module call (or a backend fails): output differs from lexical per-module resolution")
    # host re-export: what a module imported from a host (builtin) module is not an item of that module; asking the module
    # for it is reported, alone or next to a genuine pub item, whatever else the module imported from the host
    hcases, hwant = host_reexport_cases()
    hres = progstream.run_all(hcases, with_spec=False, backends=())
    for (main, mods), want, r in zip(hcases, hwant, hres):
        ctx.count(case_key=(main, mods["b"]), nontrivial=True)
        got = r["A"].split()[0] if r.get("A") else "?"
        if got != want or (want == "REJECT" and "syn=0" not in r["A"]):
            why = ("an imported pub function is a function of the program and can be spawned, a function value cannot: " + " ".join(main.split())[:120]
                   if "spawn" in main else "only pub items declared in b can be imported from b")
            ctx.violation({"kind": "prog", "main": main, "mods": mods, "analysis": r["A"][:300], "want": want},
                          f"C15 import visibility: `{main.splitlines()[0]}` with b = `{mods['b'].splitlines()[0]}`: analysis says {r['A'][:60]}, "
                          f"expected {want} ({why})")
            if len(ctx.violations) >= 5:
                break
    two = list(mg.family_a()) + list(mg.family_b()) + list(mg.family_c()) + list(mg.family_e()) + list(mg.family_r())
    for i in range(0, len(two), 1000):
        if len(ctx.violations) >= 5:
            ctx.note("stopped early: five violations reported")
            break
        judge(ctx, two[i:i + 1000], "C15 two-module")
    edges, nsets, nflags = mg.family_d_space()
    if ctx.tier == "quick":
        three = [mg.family_d_graph(ctx.rng, ctx.rng.randrange(nsets), ctx.rng.randrange(nflags)) for _ in range(2500)]
        # small edge sets are where accepted programs live: sample them separately
        for _ in range(1500):
            eset = 0
            for _ in range(ctx.rng.randint(1, 3)):
                eset |= 1 << ctx.rng.randrange(len(edges))
            three.append(mg.family_d_graph(ctx.rng, eset, ctx.rng.randrange(nflags)))
    else:
        three = [mg.family_d_graph(ctx.rng, e, fl) for e in range(nsets) for fl in range(nflags)]
    for i in range(0, len(three), 1000):
        if len(ctx.violations) >= 5:
            break
        judge(ctx, three[i:i + 1000], "C15 three-module")
    ctx.coverage["graphs"] = len(two) + len(three)
    ctx.coverage["rule"] = ("module graphs over functions f,g / globals x,y / type T with pub and private variants: 2 modules "
                            "exhaustively (every visibility table x every import subset; wrong kinds; every set and order of "
                            "import statements incl. self-imports, missing modules, all cycle shapes), 3 modules over all edge "
                            "sets x pub flags (sampled in quick, exhaustive in thorough; imported item subsets and statement "
                            "order drawn at random); non-trivial = distinct graph with a diagnostic or an executed program")
    ctx.coverage["traces_validated_against_impl"] = ctx.evaluations
    if ctx.broken and not ctx.violations:
        ctx.violation({"kind": "broken-tie", "broken": ctx.broken[:10], "log": st.get("log", "")[-3000:]},
                      "proof obligation or model/code correspondence no longer checks: " + "; ".join(ctx.broken[:3])[:600],
                      no_input=True)


def replay(ctx, rep):
    ok, log = core.build_harness()
    if not ok:
        print(log)
        return 1
    if rep.get("kind") != "modgraph":
        print("replay names a broken obligation, not an input:", rep)
        return 1
    mods = rep["mods"]
    for n, s in mods.items():
        print(f"--- {n}\n{s}")
    out = core.go_lines("modgraph", [mod_line("modgraph", mods)], timeout=120)[0]
    print("go:", out[:600])
    f = fields(out)
    bad = None
    if out.startswith(("CRASH", "HANG", "PANIC", "A=PANIC")) or "D" not in f:
        bad = "the toolchain crashed or hung"
    else:
        diags = [d for d in f["D"].split(",") if d]
        per = {}
        for d in diags:
            m = re.match(r"(.+)@(.+)#(\d+|-)$", d)
            if m and m.group(3) != "-":
                per.setdefault(f"{m.group(2)}#{m.group(3)}", []).append(m.group(1))
        for k, reasons in (rep.get("illegal") or {}).items():
            hard = [r for r in reasons if r != "cycle"]
            print(f"import statement {k}: generator says {'illegal (' + '/'.join(reasons) + ')' if reasons else 'legal'}; diagnostics: {per.get(k, [])}")
            if hard and not per.get(k):
                bad = f"illegal import {k} accepted without a diagnostic"
            if not reasons and per.get(k) and not (set(per[k]) == {"cyclic"} and k.split("#")[0] in rep.get("on_cycle", [])):
                bad = f"legal import {k} reported"
        if any("cycle" in r for r in (rep.get("illegal") or {}).values()) and not any("cyclic" in v for v in per.values()):
            bad = "cyclic import not reported as cyclic"
        want = rep.get("want")
        if not bad and not diags and want is not None:
            for b in ("VM", "TREE"):
                o = progstream.parse_outcome(f.get(b))
                print(f"{b}: {o.get('cls')} out={o.get('out')!r}   lexical: {want!r}")
                if o["cls"] != "OK" or o.get("out") != want:
                    bad = f"{b} deviates from lexical per-module resolution"
        if not bad and "expect_fails" in rep:
            bad = "witness of a known finding still fails" if witness_fails(mods, want) else None
    if not bad:
        print("replay: property holds on this input now")
        return 0
    print(f"({bad})")
    print("VIOLATION property=C15 replay=(replayed)")
    return 1
