"""C20 — the semantic fuzzer's rewrites preserve behaviour.

Theorems: HmsProofs.C20 — one lemma per rewrite rule of the transformer over the specification
semantics (64-bit wrap-around integers, booleans, the evaluator of Hms.Core): the literal rules,
commutations, `a - b = a + -(b)`, the loop that unrolls a product, `!!b`, `==` as `!(… != …)`,
swapped comparisons, the grouped-operand trees are normal (so the printers' missing parentheses
cannot change them, C19), the loop-control guard; counterexamples for the rules that were wrong
inside the class before the fixes (R8, R14, R17).

Tie: every variant the real `Transformer` builds (its analysed AST, before printing) is, node by
node, the original or an instance of a modelled rule (`variantcheck` of the driver).

Oracle (implementation side): for (program, seed, passes) in the class of the property statement,
every variant is accepted by the analyzer and yields the original's outcome line on the VM and on
the interpreter.
"""
import os
import re

from gen import printgen
from props import C19 as P
from vlib import core

MODULES = ["HmsProofs.C20"]

# shipped programs that are not used, and why
SHIPPED_EXCLUDED = dict(P.SHIPPED_EXCLUDED)
SHIPPED_EXCLUDED.update({
    "examples/singleton1.hms": "rejected by the analyzer of the testing host (unknown annotation)",
    "examples/import_export.hms": "rejected (imports itself)",
    "tests/regression_foreign_globals_caller.hms": "rejected (imports a private function, by design)",
    "tests/function.hms": "runs into the call-stack limit by design: wrapped statements reach it at another depth",
    "tests/try.hms": "prints line/column of its own exceptions",
})

# shipped programs that compute for seconds: one seed, one pass, a generous wall-clock guard
HEAVY = {"examples/pi.hms", "examples/fibonacci.hms", "examples/e.hms", "tests/string_conversion.hms"}

# (id, program): witnesses of the fuzzer findings; every seed in CORPUS_SEEDS and 1..3 passes
CORPUS = [
    ("R8", "fn main() { let p = 10 - 2 ** 2; let q = 7 / 2 * 2; let r = 9 % 4 * 3; let s = 2 + 3 * 4 - 1; println(p, q, r, s); let a = 10; let b = 3; let t = a - b ** 2; let u = a / b * b; let v = a - (b + 1); let w = 1.5 - 2.25 + 3.0; println(t, u, v, w); }"),
    ("R9", "fn g() { return; } fn main() { g(); let i = 0; while i < 4 { i += 1; match i { 2 => { continue; }, _ => { if i == 3 { break; } } }; println(i); } println(\"end\", i); }"),
    ("R9", "import { trigger minute } from triggers;\nevent fn cb(_e: int) { println(\"cb\"); }\nfn main() { trigger cb on minute(5); for k in 0..3 { match k { _ => { break; } }; } println(\"t\"); }"),
    # loop control in a NON-default arm, none in the default arm: the guard must look at every arm
    ("R9", "fn main() { let n = 0; for k in 0..6 { n += 1; match k { 1 => { continue; }, 4 => { break; }, _ => { println(\"d\", k); } }; println(\"after\", k); } println(n); let i = 0; while i < 6 { i += 1; match i { 2 => { continue; }, 5 => { break; }, _ => {} }; println(\"w\", i); } println(i); }"),
    ("R9", "fn main() { let s = 0; loop { s += 1; match s { 3 => { break; }, _ => { s += 1; } }; println(s); if s > 20 { break; } } println(\"end\", s); for q in 0..4 { match q { 0 | 2 => { continue; }, _ => { println(q); } }; println(\"x\", q); } }"),
    # loop control inside a CATCH block (none in the try block): the try statement must not be wrapped into a loop
    ("R9", "fn risky(n: int) -> int { if n % 2 == 0 { throw(\"even\"); } n } fn main() { let s = 0; for k in 0..6 { try { s += risky(k); } catch e { continue; }; println(\"odd\", k); } println(s); let i = 0; while i < 9 { i += 1; try { let r = risky(i + 1); println(r); } catch e { if i > 4 { break; } }; } println(i); loop { try { throw(\"x\"); } catch e { break; }; } println(\"end\"); }"),
    # multiplication by the literals 0 and 1 (the unrolled product must be 0 / the factor), both orders
    ("R17", "fn main() { let x = 7; let a = x * 0; let b = x * 1; let c = 0 * x; let d = 1 * x; let e = x * 2; println(a, b, c, d, e); let y = -3; println(y * 0, y * 1, y * 3); println((x + 1) * 0 == 0, x * 0 < 1); }"),
    ("R10", "fn main() { let x: ?int = none; let o = new { ? }; o.set(\"k\", 1); println(x, o); let n = null; if x == none { println(\"none\"); } }"),
    ("R14", "fn tag() -> str { return \"x\"; } fn two(k: int) -> int { if k > 0 { return 1; } return 2; } fn lp() -> int { loop { return 3; } } fn main() { println(tag(), two(0), two(1), lp()); }"),
    ("R14", "fn f(k: int) -> int { let i = 0; loop { i += 1; if i > k { return i; } continue; } } fn main() { type T = int; let t: T = 1; println(f(2), t); loop { let x = if true { break; } else { 1 }; println(x); } }"),
    ("R15", "$S = { x: int };\nfn ext(s: $S, k: int) -> int { s.x + k }\nfn main() { $S.x = 2; println(ext(1), $S.x); }"),
    ("R15", "import { trigger minute } from triggers;\n#[trigger on minute(5)]\nevent fn cb(_e: int) { println(\"cb\"); }\nfn main() { println(1 + 2); }"),
    ("R17", "fn main() { let p = (0 - 3) * 2; let q = (-3) * 2; let r = 3 * 2; let s = 0 * 5; let a = -4; let t = a * 3; println(p, q, r, s, t); }"),
    ("-", "fn main() { let i = 0; while i < 3 { i += 1; println(i * 2, i + 1, i - 1, i == 2, i != 2, i < 2, i >= 2); } println(1.5 + 2.25, 3f * 2f, 10.0 - 0.5, true, !false, (1 + 2) as float); }"),
    # global initialisers must stay constant in every variant: each operator class at the top of an initialiser, with
    # products (the one rewrite that is not constant) as operands on both sides
    ("static", "let A: bool = 60 * 24 <= 2000;\nlet B = 3 * 4 > 2 * 5;\nlet C = 2 * 3 == 3 * 2;\nlet D = 2 * 8 != 4 * 4;\nlet E = 6 * 7 + 2 * 1;\nlet F = 5 * 2 - 3 * 3;\n"
               "let G = (2 * 2) * (3 * 3);\nlet H = 9 * 3 >= 3 * 9;\nlet I = 1 * 0 < 0 * 1;\nlet J = true && 2 * 2 < 5;\nlet K = [2 * 3, 4 * 5];\nlet L = -(2 * 6);\n"
               "fn main() { println(A, B, C, D, E, F, G, H, I, J, K, L); }"),
    # loop bodies that END in an expression (no semicolon): the value is dropped, its effects are not
    ("trailing", "fn main() { let i = 0; while i < 3 { i += 1; println(i) } println(\"done\"); let s = 0; let j = 0; while j < 5 { j += 1; let k = 0; while k < j { k += 1; if k % 2 == 0 { s += k; } else { s += 1; } } } println(s); "
                 "let n = 0; loop { n += 1; if n > 2 { break; } else { println(\"n\", n) } } for q in 0..3 { println(\"q\", q) } let m = 3; while m > 0 { m -= 1; match m { 1 => println(\"one\"), _ => println(\"other\") } } }"),
    # integral float literals in every directly rewritten position, values whose quotient by 42 / 69 / 4711 is not exact
    ("floatlit", "let GF = 27.0;\nfn ret() -> float { return 23.0; } fn tail() -> float { 19.0 } fn main() { let w: float = 27.0; let h = 183.0; let d = 11.0; let a = 22.0; "
                 "println(w, h, d, a, GF, ret(), tail(), w == 27.0, w as int, 13.0 < 14.0, { 53.0 }); 31.0; let m = if h > 100.0 { 37.0 } else { 41.0 }; println(m); }"),
    ("-", "let g = [1, 2]; let h = \"s\"; fn main() { for x in g { if x == 1 { continue; } println(x, h); } let r = if g.len() > 1 { \"many\" } else { \"few\" }; println(r); }"),
]
CORPUS_SEEDS = list(range(1, 21))
# (id, program, seed, passes): seeds found to hit a specific variant on the unrepaired transformer
CORPUS_EXACT = [
    # the guard ignored the default arm: the match is wrapped into a one-iteration loop and `break` leaves the
    # wrapper (n = 3 instead of 1); visible once the printers keep the default arm (R6)
    ("R9", "fn main() { let n = 0; for k in 0..3 { n += 1; match k { _ => { break; } }; } println(n); }", 30, 1),
    ("R17", "fn main() { let p = (0 - 3) * 2; let q = (-3) * 2; let r = 3 * 2; let s = 0 * 5; let a = -4; let t = a * 3; println(p, q, r, s, t); }", 8, 3),
    ("R8", "fn main() { let a = 10; let b = 3; let t = a - b ** 2; let u = a / b * b; println(t, u); }", 1, 2),
]

# just outside the class: the difference the class hypothesis excludes may (not must) show
OUTSIDE = [
    ("effectful-operands", "fn a() -> int { println(\"a\"); 1 } fn b() -> int { println(\"b\"); 2 } fn main() { println(a() + b(), a() * b(), a() < b()); }"),
    ("literal-at-overflow-edge", "fn main() { println(9223372036854775807, 4611686018427387904, 1957808935221903); }"),
]


def norm(o):
    return P.obs(o)


def transform_line(main, mods, seed, passes, extra=""):
    return P.line_for("transform", main, mods, f"(seed {seed}) (passes {passes}) {extra}".strip())


def judge(ctx, cases, stage, model_ok=False, judged=True):
    """cases: dict(main, mods, seed, passes, label). Returns (#variants judged, #different outcomes)."""
    def extra(c):
        return (("(ast true) " if model_ok and c.get("tie") else "") + (f"(timeout {c['timeout']})" if c.get("timeout") else "")).strip()
    lines = [transform_line(c["main"], c.get("mods"), c["seed"], c["passes"], extra(c)) for c in cases]
    go = core.go_lines("transform", lines, timeout=1200)
    nvar = ndiff = 0
    lean_in, lean_at = [], []
    for c, g in zip(cases, go):
        rep = {"kind": "transform", "main": c["main"], "mods": c.get("mods") or {}, "seed": c["seed"], "passes": c["passes"]}
        label = c.get("label", "")
        if g.startswith(("CRASH", "HANG")):
            # the run of some variant (or of the original) killed the harness: judge without execution
            ctx.coverage["harness_crash_in_execution"] = ctx.coverage.get("harness_crash_in_execution", 0) + 1
            g = core.go_lines("transform", [transform_line(c["main"], c.get("mods"), c["seed"], c["passes"], "(run false)")])[0]
            if g.startswith(("CRASH", "HANG")):
                ctx.count(case_key=(c["main"], c["seed"], c["passes"]), nontrivial=True)
                if judged:
                    ctx.violation(dict(rep, go=g[:300]), f"{stage} {label}: the transformer crashed or hung (seed {c['seed']}, {c['passes']} passes): {P.dec(g)[:160]}")
                continue
        f = P.fields(g)
        if judged and any(v.startswith("TERM") for k, v in f.items() if re.fullmatch(r"(VM|TREE)\d+", k)) \
                and not c.get("timeout"):
            # the wall-clock guard of the harness fired: run this case alone with a generous one before judging
            g = core.go_lines("transform", [transform_line(c["main"], c.get("mods"), c["seed"], c["passes"], "(timeout 40000)")], timeout=1200)[0]
            f = P.fields(g)
            ctx.coverage["rerun_with_long_timeout"] = ctx.coverage.get("rerun_with_long_timeout", 0) + 1
        if not f.get("A", "").startswith("ACCEPT"):
            ctx.coverage[f"{stage}:rejected-original"] = ctx.coverage.get(f"{stage}:rejected-original", 0) + 1
            continue
        ctx.count(case_key=(c["main"], c["seed"], c["passes"]), nontrivial=True)
        if "TRANSFORM" in f:
            if judged:
                ctx.violation(dict(rep, go=f["TRANSFORM"]), f"{stage} {label}: the transformer panicked (seed {c['seed']}, {c['passes']} passes): {P.dec(f['TRANSFORM'])[:160]}")
            continue
        n = int(f.get("N", "0"))
        bad = False
        for i in range(1, n + 1):
            nvar += 1
            text = P.unhex(f.get(f"T{i}", "x"))
            a = f.get(f"A{i}", "")
            if a == "" :
                continue
            if not a.startswith("ACCEPT"):
                ndiff += 1
                if judged:
                    ctx.violation(dict(rep, variant_pass=i, variant=text[:3000], verdict=a[:300]),
                                  f"{stage} {label}: the variant of pass {i} (seed {c['seed']}) is not accepted by the analyzer: {P.dec(a)[:200]}")
                bad = True
                break
            for be, k in (("VM", "VM"), ("interpreter", "TREE")):
                o0, oi = f.get(f"{k}0"), f.get(f"{k}{i}")
                if o0 is None or oi is None or o0.startswith(P.UNJUDGED):
                    continue
                if norm(o0) != norm(oi):
                    ndiff += 1
                    if judged:
                        ctx.violation(dict(rep, variant_pass=i, variant=text[:3000], original_outcome=o0[:400], variant_outcome=oi[:400]),
                                      f"{stage} {label}: the variant of pass {i} (seed {c['seed']}) behaves differently on the {be}: "
                                      f"{P.dec(o0)[:150]} // {P.dec(oi)[:150]}")
                    bad = True
                    break
            if bad:
                break
        if not bad:
            ctx.sample({"main": c["main"][:200], "seed": c["seed"], "passes": c["passes"], "variant": P.unhex(f.get(f"T{n}", "x"))[:300]}, limit=3)
            if model_ok and c.get("tie") and "AST" in f:
                prev = None
                for i in range(1, n + 1):
                    xi = f.get(f"X{i}")
                    if xi is None:
                        break
                    src_ast = f["AST"] if prev is None else "(modules " + prev + ")"
                    lean_in.append(f"variantcheck {src_ast} | (modules {xi})")
                    lean_at.append((c, i))
                    prev = xi
                    break      # the input of pass 1 is the optimised tree the harness dumped; later passes start from built trees
    if lean_in:
        lean = core.lean_lines(lean_in, timeout=1800)
        nbad = nok = 0
        for (c, i), l in zip(lean_at, lean):
            if l.startswith("OK"):
                nok += 1
            elif l.startswith(("DECODE-ERROR", "UNSUPPORTED")):
                ctx.coverage["variantcheck_outside_model"] = ctx.coverage.get("variantcheck_outside_model", 0) + 1
            else:
                nbad += 1
                if nbad <= 3:
                    ctx.broken.append(f"correspondence:variant-not-an-instance-of-a-modelled-rule:seed={c['seed']} {c['main'][:100]!r}: {l[:200]}")
        ctx.coverage["variants_matched_against_rule_model"] = ctx.coverage.get("variants_matched_against_rule_model", 0) + nok
    return nvar, ndiff


def shipped_programs():
    out = []
    for d in ("examples", "tests"):
        base = os.path.join(core.REPO, d)
        if not os.path.isdir(base):
            continue
        files = sorted(f for f in os.listdir(base) if f.endswith(".hms"))
        mods = {f[:-4]: open(os.path.join(base, f), encoding="utf-8", errors="replace").read() for f in files}
        for f in files:
            name = f"{d}/{f}"
            if name in SHIPPED_EXCLUDED:
                continue
            others = {k: v for k, v in mods.items() if k != f[:-4] and k != "main"}
            out.append({"main": mods[f[:-4]], "mods": others, "label": name})
    return out


def run(ctx):
    st = core.prepare(ctx, MODULES)
    ctx.assumptions += [
        "class of the property statement, made concrete by the generator: operands of operators are free of calls, effects and "
        "faults; the right operand of an integer multiplication is a small non-negative literal; integer literals are below 2^41, "
        "float literals dyadic and below 2^11; the identifiers the transformer introduces (count_once, _i, lhs_init, mul_res, "
        "mul_count) are not used; no program prints positions of its own text or runs near a resource limit",
        "behaviour is compared per backend as class, fatal kind and message, output and trigger trace (no positions)",
        "the transformer is driven as cmd/main.go drives it: optimised entry module, one Transformer per seed, `passes` "
        "successive Transform calls, every intermediate tree printed, re-analysed and run",
    ]
    if not st["harness"] or not st["dump"]:
        ctx.violation({"kind": "build", "log": st.get("log", "")[-3000:]}, "harness or table dump no longer builds against the repository", no_input=True)
        return
    model_ok = bool(st["model"])
    if model_ok:
        try:
            model_ok = core.lean_lines(["variantcheck (modules) | (modules)"])[0].startswith("OK")
        except Exception:                                        # noqa: BLE001
            model_ok = False
        if not model_ok:
            if core.DEV:
                ctx.note("the driver in use does not know the C20 commands (development mode): model tie skipped")
            else:
                ctx.broken.append("driver:C20 commands missing (Driver.CmdsPrint not built into hmsdrv)")
    for e in core.load_known("C20"):
        if e.get("status") != "open":
            continue
        if replay_fails(e.get("witness", {})):
            ctx.known(e["id"], e["what"])
        else:
            ctx.note(f"known finding {e['id']}: its witness no longer fails")

    quick = ctx.tier == "quick"
    # 1. corpus: witnesses of the findings, many seeds
    cases = []
    for fid, src in CORPUS:
        for sd in (CORPUS_SEEDS if quick else list(range(1, 61))):
            cases.append({"main": src, "seed": sd, "passes": 1 + sd % 3, "label": f"corpus[{fid}]", "tie": sd <= 6})
    for fid, src, sd, ps in CORPUS_EXACT:
        cases.append({"main": src, "seed": sd, "passes": ps, "label": f"corpus[{fid}]", "tie": True})
        cases += [{"main": src, "seed": k, "passes": 1 + k % 3, "label": f"corpus[{fid}]"} for k in range(21, 41)]
    nv, _ = judge(ctx, cases, "C20 corpus", model_ok)
    # 2. shipped programs x seeds x 1..4 passes
    shipped = shipped_programs()
    ctx.coverage["shipped_programs"] = len(shipped)
    ctx.coverage["shipped_excluded"] = SHIPPED_EXCLUDED
    seeds = [ctx.rng.randrange(1, 1 << 40) for _ in range(5 if quick else 40)]
    cases = [dict(c, seed=sd, passes=1 + k % 4, tie=k == 0) for c in shipped for k, sd in enumerate(seeds)
             if c["label"] not in HEAVY or (k == 0 or not quick)]
    for c in cases:
        if c["label"] in HEAVY:
            c["passes"] = 1
            c["timeout"] = 30000
    nv2, _ = judge(ctx, cases, "C20 shipped", model_ok)
    # 3. generated programs in the class x seeds x 1..4 passes
    nprog = 150 if quick else 900
    per = 4 if quick else 10
    feats = {}
    cases = []
    for _ in range(nprog):
        src, fs = printgen.inclass_program(ctx.rng, max_depth=ctx.rng.choice([2, 3, 3]))
        for ft in fs:
            feats[ft] = feats.get(ft, 0) + 1
        for k in range(per):
            cases.append({"main": src, "seed": ctx.rng.randrange(1, 1 << 40), "passes": 1 + k % 4, "label": "generated", "tie": k == 0})
    nv3 = 0
    for i in range(0, len(cases), 600):
        a, _ = judge(ctx, cases[i:i + 600], "C20 generated", model_ok)
        nv3 += a
    ctx.coverage["feature_histogram"] = dict(sorted(feats.items()))
    ctx.coverage["variants_judged"] = {"corpus": nv, "shipped": nv2, "generated": nv3}
    # 4. just outside the class: is the class hypothesis needed? (not judged)
    out_cases = [{"main": src, "seed": sd, "passes": 2, "label": name} for name, src in OUTSIDE for sd in range(1, 13)]
    _, nd = judge(ctx, out_cases, "C20 outside-class", False, judged=False)
    ctx.coverage["outside_class_variants_that_differ"] = nd

    ctx.coverage["rule"] = ("(program, seed, passes) triples: witnesses of every fuzzer finding x 20 seeds (thorough: 60), the shipped examples/tests x "
                            "random seeds x 1..4 passes, typed random programs inside the class of the statement x random seeds x 1..4 "
                            "passes; every intermediate variant is re-analysed and run on both backends; non-trivial = distinct triple "
                            "whose original is accepted")
    ctx.coverage["traces_validated_against_impl"] = ctx.evaluations
    if ctx.broken and not ctx.violations:
        ctx.violation({"kind": "broken-tie", "broken": ctx.broken[:10], "log": st.get("log", "")[-3000:]},
                      "proof obligation or model/code correspondence no longer checks: " + "; ".join(ctx.broken[:3]),
                      no_input=True)


def replay_fails(w):
    if w.get("kind") != "transform":
        print("replay names a broken obligation, not an input:", w)
        return True
    g = core.go_lines("transform", [transform_line(w["main"], w.get("mods") or {}, w["seed"], w["passes"])])[0]
    if g.startswith(("CRASH", "HANG")):
        g = core.go_lines("transform", [transform_line(w["main"], w.get("mods") or {}, w["seed"], w["passes"], "(run false)")])[0]
        if g.startswith(("CRASH", "HANG")):
            print("  the transformer crashed:", P.dec(g)[:200])
            return True
    f = P.fields(g)
    print("  original:", P.dec(f.get("A", "")), "VM:", P.dec(f.get("VM0", ""))[:200])
    if not f.get("A", "").startswith("ACCEPT"):
        return False
    if "TRANSFORM" in f:
        print("  transformer:", P.dec(f["TRANSFORM"])[:200])
        return True
    for i in range(1, int(f.get("N", "0")) + 1):
        a = f.get(f"A{i}", "")
        if a and not a.startswith("ACCEPT"):
            print(f"  variant {i} rejected: {P.dec(a)[:200]}\n{P.unhex(f.get(f'T{i}', 'x'))[:1500]}")
            return True
        for k in ("VM", "TREE"):
            o0, oi = f.get(f"{k}0"), f.get(f"{k}{i}")
            if o0 and oi and not o0.startswith(P.UNJUDGED) and norm(o0) != norm(oi):
                print(f"  variant {i} differs on {k}: {P.dec(o0)[:200]} // {P.dec(oi)[:200]}\n{P.unhex(f.get(f'T{i}', 'x'))[:1500]}")
                return True
    return False


def replay(ctx, rep):
    ok, log = core.build_harness()
    if not ok:
        print(log)
        return 1
    if replay_fails(rep):
        print("VIOLATION property=C20 replay=(replayed)")
        return 1
    print("replay: property holds on this input now")
    return 0
