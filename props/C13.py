"""C13 — runtime values obey equality, copy and serialisation laws.

Theorems: HmsProofs.C13 (eq_refl, eq_symm, eq_trans, eq_iff_content, clone_eq, clone_fresh,
clone_isolated, orig_isolated, json_roundtrip, display_agree, …) about the value model
`Hms.Value.*` (equality, display, JSON tree mapping, the cell heap with Clone and in-place
mutation).
Tie: Go `IsEqual`, `Display`, `Clone`, the mutating builtins / assignments, `to_json`,
`parse_json`, `TypeAwareUnmarshalValue` of runtime/value and interpreter/value <-> the model, case
by case; the same laws through programs (`==`, `to_string`, `to_json`, `parse_json`) on both
backends.
Oracle (on the Go results only): `a == a`; `a == b` iff `b == a`; `a == b` and `b == c` give
`a == c`; `a == b` iff same structural content; a clone is equal to its original in both
directions; mutating the clone leaves the original as built and vice versa; marshal -> typed
unmarshal gives an equal value; both libraries display the same text and write the same JSON.
"""
import json
import unicodedata

from gen import values as G
from vlib import core

import os
if os.environ.get("VERIF_DRV"):      # development only: a scratch driver while the shared one is being rebuilt
    core.DRV = os.environ["VERIF_DRV"]

MODULES = ["HmsProofs.C13"]


def same_content(a, b):
    """structural content: objects are finite maps"""
    return G.canon(a) == G.canon(b)


def has_fn(v):
    return "fn" in G.sx_val(v).replace("(", " ").replace(")", " ").split()


# ---------------------------------------------------------------------------
# stream 1: equality laws on same-type triples
# ---------------------------------------------------------------------------

def gen_triples(ctx, n):
    rng = ctx.rng
    out = []
    for _ in range(n):
        T = G.gen_type(rng, rng.choice([0, 1, 2, 3, 3, 4]), allow_any=rng.random() < 0.3)
        a = G.gen_value(rng, T, depth=3, nfc_only=False)
        r = rng.random()
        if r < 0.3:
            b = a
        elif r < 0.75:
            b, _ = perturb_same_type(rng, a, T)
        else:
            b = G.gen_value(rng, T, depth=3, nfc_only=False)
        r = rng.random()
        if r < 0.4:
            c = b
        elif r < 0.7:
            c, _ = perturb_same_type(rng, b, T)
        else:
            c = a
        # the same content in another field order must be equal too
        if rng.random() < 0.5:
            b = shuffle_fields(rng, b)
        out.append((T, a, b, c))
    return out


def shuffle_fields(rng, v):
    t = v[0]
    if t == "some":
        return ("some", shuffle_fields(rng, v[1]))
    if t == "l":
        return ("l", [shuffle_fields(rng, x) for x in v[1]])
    if t in ("o", "a"):
        fields = [(k, shuffle_fields(rng, x)) for k, x in v[1]]
        rng.shuffle(fields)
        return (t, fields)
    return v


def perturb_same_type(rng, v, T):
    """a value of the same static type differing in one place: regenerate one sub-value from its type"""
    positions = typed_positions(v, T)
    pos, sub_t = rng.choice(positions)

    def change(x):
        if sub_t in ("any", "anyobj") and rng.random() < 0.2:
            # the same number in the other numeric kind (1 against 1.0, somewhere inside): different content
            y = kind_flip(rng, x)
            if y != x:
                return y
        if sub_t == "anyobj" and x[0] == "a":
            k = rng.randrange(4)
            fields = list(x[1])
            if k == 0:
                extra = next((q for q in G.KEYS if q not in dict(fields)), "zz")
                return ("a", fields + [(extra, G.gen_any_value(rng, 1))])
            if k == 1 and fields:
                del fields[rng.randrange(len(fields))]
                return ("a", fields)
            if k == 3 and fields:
                # the same number of fields, the same values, one key spelled differently
                i = rng.randrange(len(fields))
                fields[i] = (next((q for q in G.KEYS if q not in dict(fields)), "zz"), fields[i][1])
                return ("a", fields)
            if fields:
                i = rng.randrange(len(fields))
                fields[i] = (fields[i][0], G.gen_any_value(rng, 1))
                return ("a", fields)
        if sub_t in ("any", "anyobj") and x[0] in ("o", "a") and rng.random() < 0.7:
            # descend to some nested object and drop or add one field (sub-object / super-object)
            def mut(y):
                if y[0] in ("o", "a"):
                    fields = list(y[1])
                    inner = [i for i, (_, z) in enumerate(fields) if z[0] in ("o", "a", "l", "some")]
                    if inner and rng.random() < 0.5:
                        i = rng.choice(inner)
                        fields[i] = (fields[i][0], mut(fields[i][1]))
                        return (y[0], fields)
                    r3 = rng.random()
                    if fields and r3 < 0.33:
                        # same arity, other key set (a lookup of a key of one object in the other finds nothing)
                        i = rng.randrange(len(fields))
                        fields[i] = (next((q for q in G.KEYS if q not in dict(fields)), "zz"), fields[i][1])
                    elif fields and r3 < 0.66:
                        del fields[rng.randrange(len(fields))]
                    else:
                        extra = next((q for q in G.KEYS if q not in dict(fields)), "zz")
                        fields.append((extra, G.gen_any_value(rng, 0)))
                    return (y[0], fields)
                if y[0] == "l" and y[1]:
                    xs = list(y[1])
                    i = rng.randrange(len(xs))
                    xs[i] = mut(xs[i])
                    return ("l", xs)
                if y[0] == "some":
                    return ("some", mut(y[1]))
                return G.gen_any_value(rng, 1)
            return mut(x)
        if isinstance(sub_t, tuple) and sub_t[0] == "list" and x[0] == "l" and rng.random() < 0.5:
            xs = list(x[1])
            if xs and rng.random() < 0.5:
                xs.pop(rng.randrange(len(xs)))
            else:
                xs.insert(rng.randrange(len(xs) + 1), G.gen_value(rng, sub_t[1], 1, nfc_only=False))
            return ("l", xs)
        if sub_t == "range" and x[0] == "r":
            return rng.choice([("r", x[1], x[2], not x[3]), ("r", x[1] + 1, x[2], x[3]), ("r", x[1], x[2] - 1, x[3])])
        if sub_t == "str" and x[0] == "s" and rng.random() < 0.4:
            # the same text in another normalisation form is the same string
            return ("s", unicodedata.normalize("NFD", x[1]))
        return G.gen_value(rng, sub_t, 2, nfc_only=False)

    return G.replace_at(v, pos, change), pos


def kind_flip(rng, v):
    """v with one int leaf turned into the equal whole float, or one whole float into the equal int"""
    leaves = []

    def walk(x, path):
        t = x[0]
        if t == "i" and abs(x[1]) < 2**40:
            leaves.append(path)
        elif t == "f" and x[2] == 0 and abs(x[1]) < 2**40:
            leaves.append(path)
        elif t == "some":
            walk(x[1], path + (("u",),))
        elif t == "l":
            for i, y in enumerate(x[1]):
                walk(y, path + (("i", i),))
        elif t in ("o", "a"):
            for k, y in x[1]:
                walk(y, path + (("k", k),))
    walk(v, ())
    if not leaves:
        return v
    pos = rng.choice(leaves)
    return G.replace_at(v, pos, lambda x: ("f", x[1], 0) if x[0] == "i" else ("i", x[1]))


def typed_positions(v, T, pre=()):
    out = [(pre, T)]
    if isinstance(T, tuple):
        if T[0] == "list" and v[0] == "l":
            for i, x in enumerate(v[1]):
                out += typed_positions(x, T[1], pre + (("i", i),))
        elif T[0] == "opt" and v[0] == "some":
            out += typed_positions(v[1], T[1], pre + (("u",),))
        elif T[0] == "obj" and v[0] == "o":
            ft = dict(T[1])
            for k, x in v[1]:
                out += typed_positions(x, ft[k], pre + (("k", k),))
    return out


def nfc_val(v):
    """the value as both libraries store it (strings in NFC; X11)"""
    t = v[0]
    if t == "s":
        return ("s", unicodedata.normalize("NFC", v[1]))
    if t == "some":
        return ("some", nfc_val(v[1]))
    if t == "l":
        return ("l", [nfc_val(x) for x in v[1]])
    if t in ("o", "a"):
        return (t, [(k, nfc_val(x)) for k, x in v[1]])
    return v


def bool_of(ctx, line, rep, what):
    if line in ("true", "false"):
        return line == "true"
    ctx.violation(dict(rep, go=line[:300]), f"{what}: IsEqual did not answer ({line[:120]})")
    return None


def check_equality(ctx, triples):
    pairs = []
    for T, a, b, c in triples:
        pairs += [(a, a), (a, b), (b, a), (b, c), (a, c), (c, a)]
    lines = []
    for lib in ("vm", "tree"):
        lines += [f"(eq {lib} {G.sx_val(x)} {G.sx_val(y)})" for x, y in pairs]
    go = core.go_lines("val", lines)
    # the model sees the values as stored (NFC); equality of the stored values
    lean = core.lean_lines([f"veq {G.sx_val(nfc_val(x))} {G.sx_val(nfc_val(y))}" for x, y in pairs])
    n = len(pairs)
    for t, (T, a, b, c) in enumerate(triples):
        rep = {"kind": "eq", "type": G.sx_ty(T), "a": G.sx_val(a), "b": G.sx_val(b), "c": G.sx_val(c)}
        ctx.count(case_key=(rep["a"], rep["b"], rep["c"]), nontrivial=(not isinstance(T, str)) or a != b)
        for li, lib in enumerate(("vm", "tree")):
            res = []
            bad = False
            for j in range(6):
                g = go[li * n + t * 6 + j]
                r = bool_of(ctx, g, dict(rep, lib=lib, pair=j), f"{lib}: pair {j}")
                if r is None:
                    bad = True
                res.append(r)
            if bad:
                continue
            aa, ab, ba, bc, ac, ca = res
            what = None
            if not aa:
                what = f"{lib}: `==` is not reflexive"
            elif ab != ba:
                what = f"{lib}: `==` is not symmetric (a==b is {ab}, b==a is {ba})"
            elif ac != ca:
                what = f"{lib}: `==` is not symmetric (a==c is {ac}, c==a is {ca})"
            elif ab and bc and not ac:
                what = f"{lib}: `==` is not transitive"
            else:
                for (x, y), r in (((a, b), ab), ((b, c), bc), ((a, c), ac)):
                    if r != same_content(nfc_val(x), nfc_val(y)):
                        what = f"{lib}: `==` is {r} although the structural content is {'the same' if not r else 'different'}"
                        rep = dict(rep, x=G.sx_val(x), y=G.sx_val(y))
                        break
            if what:
                ctx.violation(dict(rep, lib=lib), what)
                continue
            for j in range(6):
                m = lean[t * 6 + j].split()[0]
                g = go[li * n + t * 6 + j]
                if m != g:
                    ctx.broken.append(f"correspondence:eq:{lib}: go={g} model={lean[t*6+j]} :: {lines[li*n+t*6+j][:200]}")
        ctx.sample({"a": rep["a"][:100], "b": rep["b"][:100], "vm": go[t * 6 + 1]})


# ---------------------------------------------------------------------------
# stream 2: display and JSON of both libraries
# ---------------------------------------------------------------------------

def check_display_json(ctx, typed):
    vals = [v for _, v in typed]
    lines = []
    for lib in ("vm", "tree"):
        lines += [f"(disp {lib} {G.sx_val(v)})" for v in vals]
    for lib in ("vm", "tree"):
        lines += [f"(json {lib} {G.sx_val(v)})" for v in vals]
    go = core.go_lines("val", lines)
    n = len(vals)
    lean = core.lean_lines([f"vdisp vm {G.sx_val(nfc_val(v))}" for v in vals] + [f"vdisp tree {G.sx_val(nfc_val(v))}" for v in vals]
                           + [f"vjson vm {G.sx_val(nfc_val(v))}" for v in vals] + [f"vjson tree {G.sx_val(nfc_val(v))}" for v in vals])
    for i, v in enumerate(vals):
        rep = {"kind": "render", "value": G.sx_val(v)}
        ctx.count(case_key=("render", rep["value"]), nontrivial=v[0] in ("l", "o", "a", "some", "f", "s"))
        dvm, dtree = go[i], go[n + i]
        if dvm.startswith(("PANIC", "CRASH", "HANG")) or dtree.startswith(("PANIC", "CRASH", "HANG")):
            ctx.violation(dict(rep, vm=dvm[:200], tree=dtree[:200]), f"Display crashed: {dvm[:80]} / {dtree[:80]}")
            continue
        if dvm != dtree:
            ctx.violation(dict(rep, vm=dvm[:300], tree=dtree[:300]),
                          f"the two runtimes render the same value differently: vm={core.unhex(dvm)[:80]!r} tree={core.unhex(dtree)[:80]!r}")
            continue
        if dvm != lean[i] or dtree != lean[n + i]:
            ctx.broken.append(f"correspondence:display: go={core.unhex(dvm)[:100]!r} model={core.unhex(lean[i])[:100]!r} :: {rep['value'][:160]}")
        jvm, jtree = go[2 * n + i], go[3 * n + i]
        mvm, mtree = lean[2 * n + i], lean[3 * n + i]
        for lib, g, m in (("vm", jvm, mvm), ("tree", jtree, mtree)):
            if g.startswith("PANIC") and "Cannot encode" in core.unhex(g.split()[1]):
                g = "ERR " + g.split()[1]      # X9 (C18's finding): the VM panics where the interpreter raises a JSON error
            if g.startswith(("PANIC", "CRASH", "HANG")):
                ctx.violation(dict(rep, lib=lib, go=g[:200]), f"{lib}: to_json crashed: {g[:120]}")
                continue
            if g.startswith("ERR") != m.startswith("ERR"):
                ctx.broken.append(f"correspondence:json:{lib}: go={g[:100]} model={m[:100]} :: {rep['value'][:160]}")
                continue
            if g.startswith("OK "):
                tree_go = G.jtree_of_text(core.unhex(g[3:]))
                if tree_go is None:
                    continue   # numbers outside the dyadic class
                # compare as the parser sees them: the integer-literal flag is text only
                if strip_intlit(tree_go) != strip_intlit(sort_jtree(m[3:])):
                    ctx.broken.append(f"correspondence:json:{lib}: go={core.unhex(g[3:])[:120]!r} model={m[:160]} :: {rep['value'][:160]}")
        if jvm.startswith("OK ") and jtree.startswith("OK "):
            a, b = G.jtree_of_text(core.unhex(jvm[3:])), G.jtree_of_text(core.unhex(jtree[3:]))
            if a is not None and b is not None and strip_intlit(a) != strip_intlit(b):
                ctx.violation(dict(rep, vm=jvm[:300], tree=jtree[:300]),
                              f"the two runtimes serialise the same value to different JSON: vm={core.unhex(jvm[3:])[:80]!r} tree={core.unhex(jtree[3:])[:80]!r}")


def strip_intlit(tree):
    import re
    return re.sub(r"\(jn (-?\d+) (\d+) (?:true|false)\)", r"(jn \1 \2)", sort_jtree(tree))


def sort_jtree(text):
    """JSON tree S-expression with object members sorted by key"""
    def go(s):
        if isinstance(s, str):
            return s
        if s and s[0] == "jo":
            members = sorted(((m[0], go(m[1])) for m in s[1:]), key=lambda kv: bytes.fromhex(kv[0][1:]))
            return "(jo" + "".join(f" ({k} {x})" for k, x in members) + ")"
        return "(" + " ".join(go(x) for x in s) + ")"
    return go(G.parse_sx(text))


# ---------------------------------------------------------------------------
# stream 3: JSON round trips
# ---------------------------------------------------------------------------

def check_roundtrip(ctx, typed):
    lines = []
    for lib in ("vm", "tree"):
        lines += [f"(rt {lib} {G.sx_val(v)} {G.sx_ty(T)})" for T, v in typed]
    go = core.go_lines("val", lines)
    n = len(typed)
    lean = core.lean_lines([f"vrt vm {G.sx_val(nfc_val(v))} {G.sx_ty(T)}" for T, v in typed]
                           + [f"vrt tree {G.sx_val(nfc_val(v))} {G.sx_ty(T)}" for T, v in typed])
    stats = {"vm_in_class": 0, "tree_in_class": 0}
    for i, (T, v) in enumerate(typed):
        rep = {"kind": "roundtrip", "type": G.sx_ty(T), "value": G.sx_val(v)}
        for li, lib in enumerate(("vm", "tree")):
            g, m = go[li * n + i], lean[li * n + i]
            fl = dict(p.split("=", 1) for p in m.split() if "=" in p)
            in_class = fl.get("repr") == "true" if lib == "vm" else fl.get("prog") == "true"
            ctx.count(case_key=("rt", lib, rep["value"], rep["type"]), nontrivial=in_class and not isinstance(T, str))
            if in_class:
                stats[lib + "_in_class"] += 1
                ok = " eq=true" in g
                if ok:
                    back = G.canon(G.val_of_sx(G.parse_sx(g.split(" back=")[1].split(" eq=")[0])))
                    ok = back == G.canon(nfc_val(v))
                if not ok:
                    ctx.violation(dict(rep, lib=lib, go=g[:400]),
                                  f"{lib}: a JSON-representable value does not survive to_json / parse under its type: {g[:200]}")
                    continue
            # the model predicts the outcome inside and outside the class
            g_ok = " eq=" in g
            m_ok = " eq=" in m
            if g.startswith(("PANIC", "CRASH")):
                g_ok = False
            if g_ok != m_ok:
                ctx.broken.append(f"correspondence:roundtrip:{lib}: go={g[:120]} model={m[:120]} :: {rep['value'][:120]} : {rep['type'][:80]}")
            elif g_ok:
                gb = G.canon(G.val_of_sx(G.parse_sx(g.split(" back=")[1].split(" eq=")[0])))
                mb = G.canon(G.val_of_sx(G.parse_sx(m.split(" back=")[1].split(" eq=")[0])))
                if gb != mb or g.split(" eq=")[1] != m.split(" eq=")[1]:
                    ctx.broken.append(f"correspondence:roundtrip:{lib}: go={g[:160]} model={m[:160]}")
    return stats


# ---------------------------------------------------------------------------
# stream 4: clone and mutation
# ---------------------------------------------------------------------------

MODEL_OPS = ("push", "push_front", "pop", "pop_front", "insert", "remove", "concat", "seti", "setf", "assign")


def gen_mutations(ctx, n):
    rng = ctx.rng
    out = []
    for _ in range(n):
        T = G.gen_type(rng, rng.choice([1, 2, 3, 3]), allow_any=False)
        v = G.gen_value(rng, T, depth=3)
        if has_fn(v):
            continue
        ops = G.gen_ops(rng, v, rng.randrange(1, 7))
        out.append((v, ops, rng.choice(["clone", "orig"])))
    return out


def check_clone(ctx, cases):
    go = core.go_lines("val", [f"(clone {G.sx_val(v)})" for v, _, _ in cases]
                       + [f"(mut {side} {G.sx_val(v)} {ops})" for v, ops, side in cases])
    lean = core.lean_lines([f"vmut {side} {G.sx_val(v)} {ops}" for v, ops, side in cases])
    n = len(cases)
    for i, (v, ops, side) in enumerate(cases):
        rep = {"kind": "clone", "value": G.sx_val(v), "ops": ops, "side": side}
        ctx.count(case_key=(rep["value"], ops, side), nontrivial=True)
        c = go[i]
        if c.startswith(("PANIC", "CRASH", "HANG")):
            ctx.violation(dict(rep, go=c[:200]), f"Clone crashed: {c[:120]}")
            continue
        cv = G.canon(G.val_of_sx(G.parse_sx(c.split(" eq=")[0])))
        if " eq=true qe=true" not in c or cv != G.canon(v):
            ctx.violation(dict(rep, go=c[:300]), f"a clone is not equal to its original: {c[:200]}")
            continue
        g, m = go[n + i], lean[i]
        if g.startswith(("PANIC", "CRASH", "HANG")):
            ctx.violation(dict(rep, go=g[:200]), f"mutating a {'clone' if side == 'clone' else 'cloned original'} crashed: {g[:120]}")
            continue
        gp = dict(p.split("=", 1) for p in split_fields(g))
        mp = dict(p.split("=", 1) for p in split_fields(m))
        untouched = gp["orig"] if side == "clone" else gp["clone"]
        if G.canon(G.val_of_sx(G.parse_sx(untouched))) != G.canon(v):
            ctx.violation(dict(rep, go=g[:400]),
                          f"a mutation of the {'clone' if side == 'clone' else 'original'} changed the {'original' if side == 'clone' else 'clone'}: "
                          f"{untouched[:160]} (built as {rep['value'][:160]})")
            continue
        if gp != mp:
            ctx.broken.append(f"correspondence:mut: go={g[:200]} model={m[:200]} :: {rep['value'][:120]} {ops[:160]}")
        ctx.sample({"value": rep["value"][:100], "ops": ops[:140], "go": g[:160]})


def split_fields(line):
    """applied=.. orig=<sexp> clone=<sexp> -> ['applied=..', 'orig=…', 'clone=…']"""
    a, rest = line.split(" orig=", 1)
    o, c = rest.split(" clone=", 1)
    return [a, "orig=" + " ".join(o.split()), "clone=" + " ".join(c.split())]


# ---------------------------------------------------------------------------
# stream 5: the same laws through programs
# ---------------------------------------------------------------------------

def gen_programs(ctx, n):
    rng = ctx.rng
    cand = []
    tries = 0
    while len(cand) < n and tries < 30 * n:
        tries += 1
        T = G.gen_type(rng, rng.choice([1, 2, 2, 3]), allow_any=False, allow_null=False, allow_anyobj=False)
        if rng.random() < 0.7 and not (isinstance(T, tuple) and T[0] in ("list", "obj")):
            continue                              # to_json exists on lists and objects only
        ts = G.hms_type(T)
        if ts is None:
            continue
        a = G.gen_value(rng, T, depth=3, json_safe=True, non_integral=rng.random() < 0.8)
        b = a if rng.random() < 0.3 else perturb_same_type(rng, a, T)[0]
        sa, sb = G.hms_value(a, T), G.hms_value(b, T)
        if sa is None or sb is None:
            continue
        cand.append((T, a, b, ts, sa, sb))
    # the decidable class `jsonRepr ∧ noIntegralFloat` (evaluated by the driver) says which values must survive
    cls = core.lean_lines([f"vrt tree {G.sx_val(nfc_val(a))} {G.sx_ty(T)}" for T, a, *_ in cand]) if cand else []
    out = []
    for (T, a, b, ts, sa, sb), c in zip(cand, cls):
        jsonable = " prog=true" in c and isinstance(T, tuple) and T[0] in ("list", "obj")
        body = [f"    let a: {ts} = {sa};", f"    let b: {ts} = {sb};",
                "    println(a == b, b == a, a == a, a != b);", "    println(a);"]
        if jsonable:
            body += [f"    let back: {ts} = a.to_json().parse_json();", "    println(back == a, a == back);", "    println(a.to_json());"]
        src = "fn main() {\n" + "\n".join(body) + "\n}"
        out.append((T, a, b, jsonable, src))
    return out


def check_programs(ctx, progs):
    go = core.go_lines("run", [f"(run (main {G.hexs(src)}))" for *_, src in progs], timeout=900)
    lean = core.lean_lines([f"vdisp vm {G.sx_val(nfc_val(a))}" for _, a, *_ in progs])
    stats = {"run": 0, "rejected_by_analyzer": 0, "with_json": 0}
    for i, (T, a, b, jsonable, src) in enumerate(progs):
        g = go[i]
        rep = {"kind": "program", "source": src}
        if g.startswith(("CRASH", "HANG")):
            ctx.violation(dict(rep, go=g[:300]), f"value-law program crashed the harness: {g[:120]}")
            continue
        parts = dict(p.split("=", 1) for p in g.split(" | "))
        if not parts.get("A", "").startswith("ACCEPT"):
            stats["rejected_by_analyzer"] += 1
            continue
        stats["run"] += 1
        stats["with_json"] += 1 if jsonable else 0
        ctx.count(case_key=src, nontrivial=True)
        eq = same_content(nfc_val(a), nfc_val(b))
        disp = core.unhex(lean[i])
        t = lambda x: "true" if x else "false"
        expect_head = f"{t(eq)} {t(eq)} true {t(not eq)}\n{disp}\n"
        outs = {}
        for be in ("VM", "TREE"):
            w = parts[be].split()
            kv = dict(p.split("=", 1) for p in w[1:] if "=" in p)
            out = core.unhex(kv["out"]) if "out" in kv else ""
            outs[be] = out
            what = None
            if w[0] != "OK":
                what = f"{be}: comparing / printing / serialising a value ended the program: {parts[be][:200]}"
            elif not out.startswith(expect_head):
                first = out.split("\n")[0]
                if first != expect_head.split("\n")[0]:
                    what = f"{be}: `==` on two values of one type gives {first!r}, structural content says {expect_head.splitlines()[0]!r}"
                else:
                    ctx.broken.append(f"correspondence:program-display:{be}: out={out[:160]!r} model={expect_head[:160]!r}")
            elif jsonable:
                rest = out[len(expect_head):].split("\n")
                if rest[0] != "true true":
                    what = f"{be}: to_json / parse_json under the value's type does not give an equal value ({rest[0]!r})"
            if what:
                ctx.violation(dict(rep, backend=be, go=parts[be][:400]), what)
        if outs.get("VM") != outs.get("TREE") and not any(v["replay"] for v in ctx.violations[-2:] if False):
            # the printed JSON text may differ in number syntax only when a float is integral: excluded by the generator
            if outs.get("VM", "").split("\n")[:2] != outs.get("TREE", "").split("\n")[:2]:
                ctx.violation(dict(rep, vm=outs.get("VM", "")[:300], tree=outs.get("TREE", "")[:300]),
                              "the two runtimes print / compare the same values differently")
        ctx.sample({"source": src[:300], "vm": parts.get("VM", "")[:100]})
    return stats


# ---------------------------------------------------------------------------

FIXED_WITNESSES = [
    # objects nested under `any` may have different field sets (JSON-derived): a sub-object is not equal to its super-object,
    # in either direction, at any depth
    ("anyobj", ("a", [("dev", ("o", [("id", ("i", 1))]))]), ("a", [("dev", ("o", [("id", ("i", 1)), ("power", ("b", True))]))]),
     ("a", [("dev", ("o", [("id", ("i", 1))]))])),
    ("anyobj", ("a", [("dev", ("o", [("id", ("i", 1)), ("power", ("b", True))]))]), ("a", [("dev", ("o", [("id", ("i", 1))]))]),
     ("a", [("dev", ("o", [("power", ("b", True)), ("id", ("i", 1))]))])),
    (("list", "any"), ("l", [("o", [("k", ("s", "v"))]), ("a", [])]), ("l", [("o", [("k", ("s", "v")), ("m", ("null",))]), ("a", [])]),
     ("l", [("o", []), ("a", [])])),
    (("opt", "any"), ("some", ("o", [])), ("some", ("o", [("x", ("i", 0))])), ("some", ("a", []))),
    # pairs (type, a, b, c) exercising the fixed findings; judged by the generic oracle
    ("anyobj", ("a", [("a", ("i", 1))]), ("a", [("a", ("i", 1)), ("b", ("i", 2))]), ("a", [("a", ("i", 1))])),     # X2
    ("anyobj", ("a", [("a", ("s", "x"))]), ("a", [("a", ("i", 1))]), ("a", [("a", ("s", "x"))])),                  # X20
    ("range", ("r", 1, 5, True), ("r", 1, 5, False), ("r", 1, 5, True)),                                         # X3
    ("str", ("s", "é"), ("s", "é"), ("s", "é")),                                                           # X11
    (("opt", "any"), ("some", ("s", "x")), ("some", ("i", 1)), ("some", ("s", "x"))),                           # X20
]

# whole floats beyond the int64 range keep their kind and value on the way through JSON (both runtimes); the wire format of
# the direct value streams carries int64 mantissas, so these run as programs only
HUGE_FLOAT_PROGRAMS = [
    ("fn main() {\n    let a: [float] = [10000000000000000000.0, -10000000000000000000.0, 30000000000000000000.0, 2.5, 9223372036854775808.0];\n"
     "    let back: [float] = a.to_json().parse_json();\n    println(back == a, a == back);\n"
     "    let o = new { big: 100000000000000000000.0, small: 0.5, l: [18446744073709551616.0] };\n"
     "    let ob: { big: float, small: float, l: [float] } = o.to_json().parse_json();\n    println(ob == o, o == ob);\n"
     "    let n: [[float]] = [[1.5, -700000000000000000000.0], [0.25]];\n    let nb: [[float]] = n.to_json().parse_json();\n    println(nb == n);\n}",
     "true true\ntrue true\ntrue\n"),
    # many significant digits at and beyond 1e21 (where Go's own JSON encoder switches to exponent notation), tiny values
    ("fn main() {\n    let a: [float] = [602214076000000000000000.0, 12345678900000000000000000.0, 1234567890123456789012.0, 999999999999999983222784.0, 0.000000123456789, -0.00000000987654321];\n"
     "    let back: [float] = a.to_json().parse_json();\n    println(back == a, a == back);\n"
     "    let o = new { peak: ?12345678900000000000000000.0, counts: [602214076000000000000000.0, 1500000000000000000000.0, 2.5], unit: \"1/mol\" };\n"
     "    let ob: { peak: ?float, counts: [float], unit: str } = o.to_json().parse_json();\n    println(ob == o, o == ob, ob.counts[0] == o.counts[0], ob.peak == o.peak);\n}",
     "true true\ntrue true true true\n"),
    # the JSON text of strings with HTML-sensitive characters is the same on both runtimes and in both members
    ("fn main() {\n    let l = [\"a < b && c > d\", \"</script>\"];\n    println(l.to_json());\n    let o = new { k: \"<&>\", n: [\"x>y\"] };\n    println(o.to_json());\n"
     "    println(l.to_json() == l.to_json_indent().replace(\"\\n\", \"\").replace(\"    \", \"\"));\n    let back: [str] = l.to_json().parse_json();\n    println(back == l);\n}",
     "[\"a \\u003c b \\u0026\\u0026 c \\u003e d\",\"\\u003c/script\\u003e\"]\n{\"k\":\"\\u003c\\u0026\\u003e\",\"n\":[\"x\\u003ey\"]}\ntrue\ntrue\n"),
]


# J1 / X33 / X5: `parse_json` reads a number by its spelling — an integer spelling which fits an int is that int, exactly
# (ints beyond 2^53 used to be rounded through float64, 2^63-1 used to come back as a float), every other number is a float
# (a whole float such as 2.0, written `2.0`, used to come back as the int 2 and was refused by `let f: float`). The
# generated values stay within 2^53 / mostly non-integral where JSON is involved, so these run as fixed programs.
JSON_NUMBER_PROGRAMS = [
    # ints beyond 2^53 (where a float64 has gaps) and at the ends of the int64 range, under annotated lets and `as`
    ("fn main() {\n    let a: [int] = [9007199254740993, 1, 9223372036854775807, -9223372036854775807, 9007199254740992, -9007199254740993];\n"
     "    let back: [int] = a.to_json().parse_json();\n    println(back == a, a == back);\n    println(back);\n"
     "    let o = new { id: 9223372036854775807, n: -9007199254740993, l: [4611686018427387905] };\n"
     "    let ob: { id: int, n: int, l: [int] } = o.to_json().parse_json();\n    println(ob == o, o == ob, ob.id, ob.n, ob.l);\n"
     "    let m = o.to_json().parse_json() as { id: int, n: int, l: [int] };\n    println(m == o, m.id - 1, m.l[0] - 1);\n"
     "    println(\"9223372036854775807\".parse_json() as int, \"-9223372036854775807\".parse_json() as int, \"9007199254740993\".parse_json() as int);\n"
     "    let i: int = 9007199254740993;\n    let ib: int = \"9007199254740993\".parse_json();\n    println(ib == i, ib);\n}",
     "true true\n[9007199254740993, 1, 9223372036854775807, -9223372036854775807, 9007199254740992, -9007199254740993]\n"
     "true true 9223372036854775807 -9007199254740993 [4611686018427387905]\ntrue 9223372036854775806 4611686018427387904\n"
     "9223372036854775807 -9223372036854775807 9007199254740993\ntrue 9007199254740993\n"),
    # whole floats are written with a fraction and read back as floats: annotated lets (which convert nothing) accept them
    ("fn main() {\n    let f: float = 2.0;\n    let fb: float = \"2.0\".parse_json();\n    println(fb == f, f == fb, [f].to_json());\n"
     "    let l: [float] = [2.0, 0.0, -3.0, 1.5, 1000000.0, 9007199254740992.0];\n    let lb: [float] = l.to_json().parse_json();\n    println(lb == l, l == lb, lb);\n"
     "    let o = new { level: 4.0, count: 4, opt: ?7.0, items: [1.0, 2.5], deep: [[?3.0]] };\n"
     "    let ob: { level: float, count: int, opt: ?float, items: [float], deep: [[?float]] } = o.to_json().parse_json();\n"
     "    println(ob == o, o == ob, ob.level, ob.count, o.to_json() == ob.to_json());\n"
     "    let oa = o.to_json().parse_json() as { level: float, count: int, opt: ?float, items: [float], deep: [[?float]] };\n    println(oa == o, oa.to_json() == o.to_json());\n}",
     "true true [2.0]\ntrue true [2, 0, -3, 1.5, 1e+06, 9.007199254740992e+15]\ntrue true 4 4 true\ntrue true\n"),
    # the spelling decides the kind of a number of a document: ints and floats stay apart under annotated lets
    ("fn main() {\n    let x: [any] = \"[1, 2.0, 1e3, 1E0, -0, 0.0, 9223372036854775808, 9223372036854775807, -9223372036854775808, 2.5]\".parse_json();\n    println(x.to_json());\n"
     "    try { let bad: [int] = \"[1, 2.0]\".parse_json(); println(bad); } catch e { println(\"refused\"); }\n"
     "    try { let bad: [float] = \"[1.5, 2]\".parse_json(); println(bad); } catch e { println(\"refused\"); }\n"
     "    try { let ok: [int] = \"[1, 2]\".parse_json(); println(ok); } catch e { println(\"refused\"); }\n"
     "    try { let ok: [float] = \"[1.5, 2.0]\".parse_json(); println(ok); } catch e { println(\"refused\"); }\n"
     "    try { println(\"1e999\".parse_json() as float); } catch e { println(\"caught\"); }\n"
     "    try { println(\"[1] 2\".parse_json() as [int]); } catch e { println(\"caught\"); }\n}",
     "[1,2.0,1000.0,1.0,0,0.0,9223372036854775808.0,9223372036854775807,-9223372036854775808,2.5]\nrefused\nrefused\n[1, 2]\n[1.5, 2]\ncaught\ncaught\n"),
]


# a copy shares no mutable state with its original — the iteration cursor included: a loop (the compiler's snapshot is a
# clone), an assigned copy, a value read from a field or passed as an argument, each left early, then iterated again
CURSOR_PROGRAMS = [
    ("fn first(r: range) -> int { for i in r { return i; } 0 - 1 }\n"
     "fn main() {\n    let r = 0..5;\n    for i in r { if i == 1 { break; } }\n    for i in r { print(i); }\n    println(\"\");\n"
     "    let q = r;\n    for i in q { if i == 2 { break; } }\n    for i in r { print(i); }\n    for i in q { print(i); }\n    println(\"\", r == q);\n"
     "    println(first(r), first(r));\n    for i in r { print(i); }\n    println(\"\");\n"
     "    let s = 0..6;\n    s.start = 3;\n    for i in s { print(i); }\n    println(\"\", s == 3..6);\n"
     "    let o = new { r: 1..4, w: \"abcd\", l: [7, 8, 9] };\n    for i in o.r { break; }\n    for c in o.w { break; }\n    for x in o.l { break; }\n"
     "    for i in o.r { print(i); }\n    for c in o.w { print(c); }\n    for x in o.l { print(x); }\n    println(\"\");\n"
     "    let w = \"xyz\";\n    for c in w { if c == \"y\" { break; } }\n    for c in w { print(c); }\n    let v = w;\n    for c in v { break; }\n    for c in w { print(c); }\n    println(\"\");\n"
     "    for i in r { for j in r { print(i * 10 + j, \"\"); if j == 1 { break; } } if i == 1 { break; } }\n    println(\"\");\n}",
     "01234\n0123401234 true\n0 0\n01234\n345 true\n123abcd789\nxyzxyz\n0 1 10 11 \n"),
]


# whole floats inside options (and options inside lists / objects) come back from JSON as ints: `as` converts them at every depth
OPTION_FLOAT_PROGRAMS = [
    ("fn main() {\n    let o = new { level: ?2.0, frac: ?2.5, plain: 4.0, items: [?1.0, none, ?0.5], deep: ?[?3.0], ob: ?new { x: 7.0 } };\n"
     "    let b = o.to_json().parse_json() as { level: ?float, frac: ?float, plain: float, items: [?float], deep: ?[?float], ob: ?{ x: float } };\n"
     "    println(b == o, o == b);\n    println(b.level, b.items, b.deep, b.ob.unwrap().x);\n"
     "    let l = [?1.0, ?2.0];\n    let lb = l.to_json().parse_json() as [?float];\n    println(lb == l, lb);\n}",
     "true true\nSome(2) [Some(1), none, Some(0.5)] Some([Some(3)]) 7\ntrue [Some(1), Some(2)]\n"),
]


def check_huge_floats(ctx):
    progs = HUGE_FLOAT_PROGRAMS + JSON_NUMBER_PROGRAMS + CURSOR_PROGRAMS + OPTION_FLOAT_PROGRAMS
    go = core.go_lines("run", [f"(run (main {G.hexs(src)}))" for src, _ in progs], timeout=300)
    for (src, want), g in zip(progs, go):
        ctx.count(case_key=src, nontrivial=True)
        rep = {"kind": "program", "source": src}
        if g.startswith(("CRASH", "HANG")):
            ctx.violation(dict(rep, go=g[:300]), f"value-law program crashed the harness: {g[:120]}")
            continue
        parts = dict(p.split("=", 1) for p in g.split(" | "))
        if not parts.get("A", "").startswith("ACCEPT"):
            ctx.broken.append(f"huge-float program is not accepted by the analyzer: {parts.get('A', '')[:160]}")
            continue
        for be in ("VM", "TREE"):
            w = parts.get(be, "").split()
            kv = dict(p.split("=", 1) for p in w[1:] if "=" in p)
            out = core.unhex(kv["out"]) if "out" in kv else ""
            if not w or w[0] != "OK" or out != want:
                ctx.violation(dict(rep, backend=be, go=parts.get(be, "")[:400]),
                              f"{be}: " + ("to_json / parse_json of floats beyond the int64 range does not give an equal value" if (src, want) in HUGE_FLOAT_PROGRAMS else
                                           "to_json / parse_json of ints beyond 2^53 / of whole floats under the value's type does not give an equal value" if (src, want) in JSON_NUMBER_PROGRAMS else
                                           ("a copy (loop snapshot, assignment, field read, argument) shares iteration state with its original" if (src, want) in CURSOR_PROGRAMS else
                                            "JSON round trip of whole floats inside options through `as`"))
                              + f" ({out!r}, expected {want!r})")


def run_known(ctx):
    for e in core.load_known("C13"):
        if e.get("status") != "open":
            continue
        w = e.get("witness", {})
        now = ""
        if isinstance(w, dict) and w.get("kind") == "roundtrip":
            g = core.go_lines("val", [f"(rt {w.get('lib', 'vm')} {w['value']} {w['type']})"])[0]
            now = f" [now: {g[:120]}]"
        elif isinstance(w, dict) and w.get("kind") == "program":
            g = core.go_lines("run", [f"(run (main {G.hexs(w['source'])}))"])[0]
            now = f" [now: {g[:120]}]"
        ctx.known(e["id"], e.get("what", "") + now)


def gen_typed_values(ctx, n, **kw):
    rng = ctx.rng
    out = []
    for _ in range(n):
        T = G.gen_type(rng, rng.choice([0, 1, 2, 3, 3, 4]), allow_any=rng.random() < 0.2)
        out.append((T, G.gen_value(rng, T, depth=3, **kw)))
    return out


def run(ctx):
    st = core.prepare(ctx, MODULES)
    ctx.assumptions += [
        "object values are finite maps (no field twice): Val.wf, checked per case by the driver",
        "floats are NaN-free and restricted to the dyadic class of Hms/Value/Val.lean (exact printing and parsing)",
        "Go's encoding/json text layer (printing, parsing, escaping) and unicode NFC normalisation are trusted; "
        "the model works on the JSON tree and on already-normalised strings",
        "mutation sequences act on a clone (or the cloned original) with freshly built argument values",
    ]
    if not st["harness"] or not st["dump"]:
        ctx.violation({"kind": "build", "log": st.get("log", "")[-3000:]},
                      "harness or table dump no longer builds against /repo", no_input=True)
        return
    if not st["model"]:
        ctx.violation({"kind": "build", "log": st.get("log", "")[-3000:]}, "Lean model no longer builds", no_input=True)
        return
    run_known(ctx)
    quick = ctx.tier == "quick"
    check_equality(ctx, FIXED_WITNESSES + gen_triples(ctx, 2500 if quick else 50000))
    typed = gen_typed_values(ctx, 2500 if quick else 40000, nfc_only=False)
    check_display_json(ctx, typed)
    rt_stats = check_roundtrip(ctx, gen_typed_values(ctx, 1500 if quick else 30000, json_safe=True)
                               + gen_typed_values(ctx, 1000 if quick else 20000, json_safe=True, non_integral=True))
    ctx.coverage["roundtrip_cases_in_class"] = rt_stats
    check_clone(ctx, gen_mutations(ctx, 2500 if quick else 50000))
    check_huge_floats(ctx)
    pstats = check_programs(ctx, gen_programs(ctx, 700 if quick else 12000))
    ctx.coverage["program_cases"] = pstats
    ctx.coverage["rule"] = ("same-type triples (equal, differing in exactly one place, unrelated; other field order; NFC/NFD "
                            "spellings; empty containers; nested options; both range flags) through IsEqual of both libraries; "
                            "Display and to_json of both libraries on values of every kind to depth 4; marshal -> unmarshal under "
                            "the type (typed unmarshaller of the VM library, parse_json + annotated-let cast for the interpreter "
                            "library); clone, then 1-6 mutations (push/pop/insert/remove/concat/index-, field- and cell-assignment at "
                            "random depths) applied to the clone or to the original; the same laws through one-function programs "
                            "on both backends")
    ctx.coverage["traces_validated_against_impl"] = ctx.evaluations
    if ctx.broken and not ctx.violations:
        ctx.violation({"kind": "broken-tie", "broken": ctx.broken[:10], "log": st.get("log", "")[-3000:]},
                      "proof obligation or model/code correspondence no longer checks: " + "; ".join(ctx.broken[:3]),
                      no_input=True)


def replay(ctx, rep):
    ok, log = core.build_harness()
    if not ok:
        print(log)
        return 1
    before = len(ctx.violations)
    kind = rep.get("kind")
    pv = lambda s: G.val_of_sx(G.parse_sx(s))
    if kind == "eq":
        from props.C12 import ty_of_sx
        check_equality(ctx, [(ty_of_sx(G.parse_sx(rep["type"])), pv(rep["a"]), pv(rep["b"]), pv(rep["c"]))])
    elif kind == "render":
        check_display_json(ctx, [("any", pv(rep["value"]))])
    elif kind == "roundtrip":
        from props.C12 import ty_of_sx
        check_roundtrip(ctx, [(ty_of_sx(G.parse_sx(rep["type"])), pv(rep["value"]))])
    elif kind == "clone":
        check_clone(ctx, [(pv(rep["value"]), rep["ops"], rep["side"])])
    elif kind == "program":
        g = core.go_lines("run", [f"(run (main {G.hexs(rep['source'])}))"])[0]
        print(rep["source"])
        print(g)
        print("(re-run the check for the verdict on this program)")
        return 1 if "PANIC" in g or "FATAL" in g else 0
    else:
        print("replay names a broken obligation, not an input:", rep)
        return 1
    if len(ctx.violations) > before:
        return 1
    print("replay: property holds on this input now")
    return 0
