"""C03 — the analyzer rejects every ill-typed program and accepts every well-typed one.

Theorems: HmsProofs.C03 (rule lemmas, soundness / completeness / recorded types of the
algorithmic checker `Hms.Check.check` against the declarative typing relation, template
decision table).
Tie: `hv panalyze` (real analyzer: error-level diagnostics as a sorted multiset of message
classes + the types recorded in the analysed AST, pre-order) <-> driver command `check` (the
Lean model run on the parser AST the analyzer consumed), on well-typed programs and on
single-fault mutants.
Oracle (implementation side): a generated well-typed program receives no error-level
diagnostic and the recorded types are the generator's; a single-fault mutant receives at
least one error-level diagnostic; the analyzer never panics; the class table is total.
"""
import collections
import re

from gen import faults, progs
from vlib import core

MODULES = ["HmsProofs.C03"]

def lean_lines(lines):
    """core.lean_lines, retried: while several people work in /verif the shared driver binary
    may be replaced by a concurrent `lake build` in the middle of a run."""
    import time
    for attempt in range(5):
        try:
            return core.lean_lines(lines)
        except (RuntimeError, OSError):
            if attempt == 4:
                raise
            time.sleep(6)


def parse_go(line):
    """-> dict(status=ok|syntax|panic|crash, v=[classes], w, i, syn, p=sexp, t=types string)"""
    if line.startswith(("CRASH", "HANG", "PANIC")):
        return {"status": "crash", "raw": line[:300]}
    if line.startswith("SYNTAX"):
        return {"status": "syntax", "raw": line[:300]}
    f = line.split(" | ")
    m = re.match(r"V=(\S+)(?: W=(\d+) I=(\d+) SYN=(\d+))?", f[0])
    if not m:
        return {"status": "crash", "raw": line[:300]}
    d = {"status": "ok", "p": f[1][2:] if len(f) > 1 else "", "t": f[2][2:] if len(f) > 2 else ""}
    if m.group(1).startswith("PANIC"):
        d["status"] = "panic"
        d["raw"] = core.unhex(m.group(1).split(":", 1)[1])
        return d
    d["v"] = [] if m.group(1) == "-" else m.group(1).split(",")
    d["w"], d["i"], d["syn"] = int(m.group(2)), int(m.group(3)), int(m.group(4))
    return d


def parse_lean(line):
    if line.startswith("UNSUPPORTED"):
        return {"status": "unsupported", "why": core.unhex(line.split()[1])}
    m = re.match(r"V=(\S+) R=(\S+) W=(\d+) T=(.*)$", line)
    if not m:
        return {"status": "bad", "raw": line[:300]}
    return {"status": "ok", "v": [] if m.group(1) == "-" else m.group(1).split(","),
            "r": [] if m.group(2) == "-" else m.group(2).split(","), "t": m.group(3 + 1)}


class Case:
    __slots__ = ("text", "expect", "types", "label", "rule", "where", "nomain", "template")

    def __init__(self, text, expect, label, types=None, rule=None, where=None, nomain=False, template=None):
        self.text, self.expect, self.label, self.types, self.rule, self.where, self.nomain = \
            text, expect, label, types, rule, where, nomain
        self.template = template        # abstract form for the decision-table model

    def replay(self, **extra):
        d = {"kind": "prog", "text": self.text, "expect": self.expect, "label": self.label, "nomain": self.nomain}
        if self.types is not None:
            d["types"] = self.types
        if self.rule:
            d["rule"] = self.rule
        d.update(extra)
        return d


def go_input(c):
    return ("nomain " if c.nomain else "") + core.xhex(c.text)


def judge(ctx, cases, with_model, stats):
    """Run the analyzer (and the model) on the cases, apply oracle and tie."""
    go = [parse_go(l) for l in core.go_lines("panalyze", [go_input(c) for c in cases], timeout=900)]
    lean = {}
    if with_model:
        idx = [i for i, g in enumerate(go) if g["status"] in ("ok", "panic") and g.get("p")]
        if idx:
            out = lean_lines(["check " + ("nomain " if cases[i].nomain else "") + go[i]["p"] for i in idx])
            lean = {i: parse_lean(l) for i, l in zip(idx, out)}
    tmpl = {}
    if with_model:
        idx = [i for i, c in enumerate(cases) if c.template and go[i]["status"] == "ok"]
        if idx:
            out = lean_lines([("trigger " if cases[i].label == "trigger" else "template ") + cases[i].template for i in idx])
            tmpl = dict(zip(idx, out))
    tie_bad = 0
    for i, (c, g) in enumerate(zip(cases, go)):
        ctx.count(case_key=c.text, nontrivial=True)
        stats["cases:" + c.label] += 1
        if c.rule:
            if c.label in ("typed-mutant", "progs-mutant"):
                stats["rule:" + c.rule.replace("blockpos:", "")] += 1
            else:
                stats["rule:(" + c.label.split(":")[0] + ")"] += 1
        # ---- oracle on the implementation ------------------------------------------------
        if g["status"] in ("panic", "crash"):
            ctx.violation(c.replay(go=g.get("raw", "")), f"analyzer panics / crashes ({c.label}): {g.get('raw', '')[:120]}")
            continue
        if g["status"] == "syntax":
            stats["syntax-skipped"] += 1
            if c.expect == "accept":
                ctx.violation(c.replay(go=g["raw"]), f"generated well-typed program does not parse ({c.label})")
            continue
        for cl in g["v"]:
            if cl.startswith("other:"):
                ctx.violation(c.replay(message=core.unhex(cl[6:])),
                              "error-level diagnostic whose message no rule class of the table matches: " + core.unhex(cl[6:])[:100])
        if c.expect == "accept":
            if g["v"]:
                ctx.violation(c.replay(go=g["v"]), f"well-typed program rejected ({c.label}): {','.join(g['v'])}")
                continue
            if c.types is not None and g["t"] != c.types:
                ctx.violation(c.replay(go_types=g["t"]), f"recorded types differ from the types the rules assign ({c.label})")
                continue
        elif c.expect == "reject":
            if not g["v"]:
                ctx.violation(c.replay(), f"ill-typed program accepted ({c.label}; rule {c.rule} at {c.where})")
                continue
        # ---- tie with the model --------------------------------------------------------------
        if i in tmpl:
            stats["template-judged"] += 1
            want = "V=" + (",".join(g["v"]) or "-")
            if tmpl[i] != want and c.expect is None and tmpl[i].startswith("V=") and (tmpl[i] == "V=-") != (want == "V=-"):
                ctx.violation(c.replay(expect="accept" if tmpl[i] == "V=-" else "reject", model=tmpl[i], go=g["v"]),
                              f"{c.label} rules: the decision-table model says {tmpl[i]}, the analyzer {want}")
            elif tmpl[i] != want:
                tie_bad += 1
                if tie_bad <= 3:
                    ctx.broken.append(f"correspondence:{c.label}:{c.where}: go={want} model={tmpl[i]} text={c.text[:300]!r}")
            continue
        l = lean.get(i)
        if l is None:
            continue
        if l["status"] == "unsupported":
            stats["model-unsupported"] += 1
            stats["unsupported:" + l["why"][:40]] += 1
            continue
        stats["model-judged"] += 1
        if l["status"] != "ok" or l["v"] != g["v"] or l["t"] != g["t"]:
            if l["status"] == "ok" and c.expect is None and bool(l["v"]) != bool(g["v"]):
                # no generator expectation: the model (proved equivalent to the typing relation) is the oracle
                want = "reject" if l["v"] else "accept"
                ctx.violation(c.replay(expect=want, model=l["v"], go=g["v"]),
                              f"{'ill' if l['v'] else 'well'}-typed program {'accepted' if l['v'] else 'rejected'} "
                              f"({c.label}; judged by the model: {','.join(l['r']) or '-'}; analyzer: {','.join(g['v']) or '-'})")
                continue
            tie_bad += 1
            if tie_bad <= 3:
                what = "verdict" if l.get("v") != g["v"] else "types"
                ctx.broken.append(f"correspondence:check:{what}:{c.label}: go={','.join(g['v']) or '-'} model={','.join(l.get('v', ['?'])) or '-'} text={c.text[:300]!r}")
            continue
        if c.expect == "reject" and c.rule and not l["r"]:
            tie_bad += 1
        ctx.sample({"text": c.text[:400], "expect": c.expect, "go": ",".join(g["v"]) or "-", "model_rules": ",".join(l["r"]) or "-"})
    return tie_bad


def gen_cases(ctx, avoid):
    rng = ctx.rng
    n_typed, k_typed, n_progs, k_progs = (1200, 10, 350, 8) if ctx.tier == "quick" else (14000, 14, 4000, 12)
    n_table = 500 if ctx.tier == "quick" else 6000
    cases = []
    feats = collections.Counter()
    # hand-written witnesses and decision tables
    for fid, text, err, what in faults.fixed_cases():
        cases.append(Case(text, "reject" if err else "accept", "fixed:" + fid, rule=what if err else None, where=fid))
    for text, err, what, sexp in faults.template_cases(rng, n_table):
        expect = None if err is None else ("reject" if err else "accept")
        cases.append(Case(text, expect, "template", rule="template:" + what if err else None, where=what, template=sexp))
    for text, err, what, sexp in faults.trigger_cases(rng, n_table):
        expect = None if err is None else ("reject" if err else "accept")
        cases.append(Case(text, expect, "trigger", rule="trigger:" + what if err else None, where=what, template=sexp))
    # impl blocks of the harness host's three-method template: accepted exactly when the implemented methods are the
    # required ones (every subset, under four capability selections)
    from props.C14 import template_programs
    need = {"c1, c2, c3": {"m1", "m2", "m3"}, "all": {"m1", "m2", "m3"}, "c3, c1": {"m1", "m3"}, "c2": {"m2"}}
    for mods, _ in template_programs():
        text = mods["main"]
        caps = text.split("with { ")[1].split(" }")[0]
        have = {m for m in ("m1", "m2", "m3", "zz") if f"fn {m}(" in text}
        ok = have == need[caps]
        cases.append(Case(text, "accept" if ok else "reject", "template-trio", rule=None if ok else "template:methods", where=caps))
    cases.append(Case("fn f() { }\n", "accept", "nomain", nomain=True))
    # assorted snippets, well- and ill-typed: oracle "no panic, table total", tie with the model
    for text in faults.soup_cases(rng, n_table * 2):
        cases.append(Case(text, None, "soup"))
    for text in faults.operator_matrix_cases():
        cases.append(Case(text, None, "opmatrix"))
    # typed programs and their tree-level mutants
    for _ in range(n_typed):
        tree, fs = faults.typed_program(rng, avoid=avoid, max_depth=rng.choice([2, 3, 3, 4]))
        feats.update(fs)
        cases.append(Case(tree.text(), "accept", "typed", types="(" + " ".join(tree.recs()) + ")"))
        for text, rule, where in faults.mutants_typed(rng, tree, k=k_typed):
            cases.append(Case(text, "reject", "typed-mutant", rule=rule, where=where))
        for text, rule, where in faults.mutants_multi(rng, tree, k=2):
            cases.append(Case(text, "reject", "multi-fault", rule=rule, where=where))
    # accepted programs of the execution generator and text-level mutants
    for _ in range(n_progs):
        src, fs = progs.generate(rng, max_depth=rng.choice([2, 3]))
        feats.update("progs:" + f for f in fs)
        cases.append(Case(src, "accept", "progs"))
        for text, rule, where in faults.mutants_text(rng, src, k=k_progs):
            cases.append(Case(text, "reject", "progs-mutant", rule=rule, where=where))
    return cases, feats


def run(ctx):
    st = core.prepare(ctx, MODULES)
    ctx.assumptions += [
        "host scope and templates are those of the testing host (TestingAnalyzerScopeAdditions, TestingAnalyzerHost)",
        "imports, singletons, impl blocks, trigger statements, annotations and type definitions are outside the Lean model "
        "(oracle only; the impl/template rules are proved for a decision-table model)",
        "warnings and hints are not compared (only error-level diagnostics decide acceptance)",
    ]
    if not st["harness"] or not st["dump"]:
        ctx.violation({"kind": "build", "log": st.get("log", "")[-3000:]},
                      "harness or table dump no longer builds against /repo", no_input=True)
        return
    with_model = bool(st["model"])
    if not with_model:
        ctx.note("Lean model / driver does not build; running the implementation-side oracle only")
    # 1. known findings
    avoid = set()
    known = core.load_known("C03")
    for e in known:
        if e.get("status") != "open":
            continue
        w = e.get("witness", {})
        g = parse_go(core.go_lines("panalyze", [core.xhex(w.get("text", ""))])[0])
        still = (g["status"] != "ok") or (bool(g.get("v")) != (w.get("expect") == "reject"))
        ctx.known(e["id"], e.get("what", "") + ("" if still else " [witness no longer fails]"))
        avoid.update(e.get("avoid", []))
    # 2. cases
    stats = collections.Counter()
    cases, feats = gen_cases(ctx, avoid)
    tie_bad = 0
    for i in range(0, len(cases), 4000):
        tie_bad += judge(ctx, cases[i:i + 4000], with_model, stats)
    judged, unsup = stats["model-judged"], stats["model-unsupported"]
    ctx.coverage["cases_by_stream"] = {k[6:]: v for k, v in stats.items() if k.startswith("cases:")}
    ctx.coverage["mutants_by_rule"] = {k[5:]: v for k, v in stats.items() if k.startswith("rule:")}
    ctx.coverage["model_fragment"] = {"judged_by_model": judged, "unsupported_by_model": unsup,
                                      "fraction_in_fragment": round(judged / max(1, judged + unsup), 4),
                                      "unsupported_reasons": {k[12:]: v for k, v in stats.items() if k.startswith("unsupported:")}}
    ctx.coverage["template_cases_judged_by_model"] = stats["template-judged"]
    ctx.coverage["tie_mismatches"] = tie_bad
    ctx.coverage["constructs_hit"] = dict(feats.most_common(60))
    ctx.coverage["rule"] = ("well-typed programs from a typed generator that knows the type of every expression (closures, match, "
                            "try, objects, options, loops, diverging blocks) and from the execution generator gen/progs.py; every "
                            "one mutated by single faults (one static rule x one syntactic position, tree-level and text-level); "
                            "hand-written witnesses of the analyzer findings; impl/template and trigger decision tables against "
                            "the testing host; non-trivial = distinct program text")
    ctx.coverage["exhaustive"] = False
    ctx.coverage["traces_validated_against_impl"] = judged
    if ctx.broken and not ctx.violations:
        ctx.violation({"kind": "broken-tie", "broken": ctx.broken[:10], "log": st.get("log", "")[-3000:]},
                      "proof obligation or model/code correspondence no longer checks: " + "; ".join(ctx.broken[:3])[:1500],
                      no_input=True)


def replay(ctx, rep):
    ok, log = core.build_harness()
    if not ok:
        print(log)
        return 1
    if rep.get("kind") != "prog":
        print("replay names a broken obligation, not an input:", rep)
        return 1
    line = ("nomain " if rep.get("nomain") else "") + core.xhex(rep["text"])
    g = parse_go(core.go_lines("panalyze", [line])[0])
    print("program:")
    print(rep["text"])
    print("expected:", rep.get("expect"), "rule:", rep.get("rule"))
    print("analyzer:", g.get("v", g.get("raw")), "status:", g["status"])
    bad = g["status"] != "ok"
    if not bad:
        bad = any(c.startswith("other:") for c in g["v"])
        if rep.get("expect") == "accept":
            bad = bad or bool(g["v"]) or ("types" in rep and g["t"] != rep["types"])
            if "types" in rep and g["t"] != rep["types"]:
                print("recorded:", g["t"])
                print("expected:", rep["types"])
        elif rep.get("expect") == "reject":
            bad = bad or not g["v"]
    if not bad:
        print("replay: property holds on this input now")
        return 0
    print("VIOLATION property=C03 replay=(replayed)")
    return 1
