"""C16 — host invocations on one VM are correct, repeatable and leave no residue.

Theorems: HmsProofs.C16 over the models Hms.Conc.Invoke (host layer: argument reversal,
pre-push, callee pops, result from the stack top, globals threading, fresh core per call) and
Hms.Conc.Protocol (Wait / cores list / cores lock / signal channels).
Tie: histories of (function, arguments) on ONE real VM (`hv host`, every call under a 2 s
watchdog) <-> `runHistory` of the model (`hostmodel`), the per-call body outcome being given by
the reference semantics of the function library in gen/host.py.
Oracle (implementation side): per call the result value and kind, the output, the globals as the
earlier calls left them, no core listed, cores lock free, finished core empty but for the
result, never BLOCKED, and after a failure every later call answers with an interrupt.
"""
import json
import os
import re
from concurrent.futures import ThreadPoolExecutor

from vlib import core
from gen import host as H

MODULES = ["HmsProofs.C16"]

# regression witnesses of the findings fixed for this property (always run first)
REGRESSIONS = [
    ("V18", "Wait kept the cores read lock after an interrupt: the call after a failed call blocked forever",
     [("acall", "sub", [H.I(10), H.I(3)]), ("acall", "boom", [H.S("bang")]), ("acall", "sub", [H.I(1), H.I(1)])]),
    ("V18", "same through SpawnSync",
     [("call", "zero", []), ("call", "partial", [H.I(5)]), ("call", "get_counter", []), ("call", "bump", [])]),
    ("V17", "any-object return value dropped by HandleTermination",
     [("acall", "r_anyobj", [H.I(4), H.S("k")]), ("call", "r_anyobj", [H.I(5), H.S("")])]),
    ("V3", "singleton extraction leaves a stale operand on the finished core's stack",
     [("acall", "sing", [H.I(1), H.I(2)]), ("acall", "sing", [H.I(3), H.I(4)])]),
]


def to_json(v):
    if v is None:
        return None
    if v[0] == "list":
        return ["list", [to_json(e) for e in v[1]]]
    if v[0] == "some":
        return ["some", to_json(v[1])]
    return list(v)


def from_json(j):
    if j is None:
        return None
    if j[0] == "list":
        return ("list", [from_json(e) for e in j[1]])
    if j[0] == "some":
        return ("some", from_json(j[1]))
    return tuple(j)


def hist_json(hist):
    return [[m, f, [to_json(a) for a in args]] for m, f, args in hist]


def hist_from_json(j):
    return [(m, f, [from_json(a) for a in args]) for m, f, args in j]


FIELD = re.compile(r"(\w+)=(\S+)")


def parse_part(p):
    """One per-call answer of `hv host` / `hostmodel` -> dict."""
    p = p.strip()
    if p.startswith(("BLOCKED", "SKIPPED", "PANIC", "NOFUNC", "CRASH", "HANG")):
        return {"kind": p.split()[0], "raw": p}
    d = {"raw": p}
    if " globals=" in p:
        p, d["globals"] = p.split(" globals=", 1)
    if " out=" not in p:
        return {"kind": "GARBLED", "raw": d["raw"]}
    head, tail = p.split(" out=", 1)
    tail = "out=" + tail
    for k, v in FIELD.findall(tail):
        d[k] = v
    if head.startswith("RET "):
        d["kind"] = "RET"
        d["value"] = head[4:]
    elif head.startswith("EXC "):
        d["kind"] = "EXC"
        m = re.match(r"EXC (\w+) kind=(\S+) msg=(\S+)$", head)
        if not m:
            return {"kind": "GARBLED", "raw": d["raw"]}
        d["cls"], d["ekind"], d["msg"] = m.group(1), m.group(2), m.group(3)
    else:
        return {"kind": "GARBLED", "raw": d["raw"]}
    return d


def judge_history(hist, go_line, model_line):
    """Returns (violation text or None, tie text or None, stats dict)."""
    exp = H.expected(hist)
    stats = {"v10_handlers": 0}
    if go_line.startswith(("CRASH", "HANG", "PANIC")):
        return f"host process died / panicked on the history: {go_line[:160]}", None, stats
    parts = go_line.split(" | ")
    head = parts[0]
    if not head.startswith("A=ACCEPT"):
        return f"the function library was not accepted / VM construction failed: {head[:200]}", None, stats
    m = re.search(r"globals=(.*)$", head)
    if not m or m.group(1) != H.globals_sx(H.init_globals()):
        return f"globals after initialisation are {m.group(1) if m else '?'}", None, stats
    got = [parse_part(p) for p in parts[1:]]
    if len(got) != len(exp):
        return f"{len(got)} answers for {len(exp)} calls", None, stats
    mod = [parse_part(p) for p in model_line.split(" | ")] if model_line is not None else None
    tie = None
    for i, (e, g) in enumerate(zip(exp, got)):
        where = f"call {i} {e['fn']}({', '.join(H.sx(a) for a in e['args'])})"
        if g["kind"] == "BLOCKED":
            return f"{where} BLOCKED: the host call did not return within the watchdog", None, stats
        if g["kind"] not in ("RET", "EXC"):
            return f"{where}: {g['raw'][:160]}", None, stats
        # ---- oracle: implementation vs reference semantics -------------------------
        if e["kind"] == "ret":
            if g["kind"] != "RET":
                return f"{where} failed ({g.get('cls')} {g.get('ekind')}) but must return {H.sx(e['value'])}", None, stats
            if g["value"] != H.sx(e["value"]):
                return f"{where} returned {g['value']}, expected {H.sx(e['value'])}", None, stats
        else:
            if g["kind"] != "EXC":
                return f"{where} returned {g.get('value')} but must fail ({e['cls']} {e['ekind']})", None, stats
            if g["cls"] != e["cls"] or g["ekind"] != e["ekind"]:
                return f"{where} failed with {g['cls']}/{g['ekind']}, expected {e['cls']}/{e['ekind']}", None, stats
            if e["msg"] is not None and g["msg"] != H.xhex(e["msg"]):
                return f"{where} failed with message {core.unhex(g['msg'])!r}, expected {e['msg']!r}", None, stats
        if g["out"] != H.xhex(e["out"]):
            return f"{where} printed {core.unhex(g['out'])!r}, expected {e['out']!r}", None, stats
        if g["globals"] != H.globals_sx(e["after"]):
            return f"{where}: globals afterwards are {g['globals']}, expected {H.globals_sx(e['after'])}", None, stats
        if g["cores"] != "0":
            return f"{where}: {g['cores']} cores still listed after the call", None, stats
        if g["lock"] != "free":
            return f"{where}: the cores lock cannot be taken after the call", None, stats
        if e["mode"] == "acall" and e["kind"] == "ret":
            if "v8" in e["flags"]:
                pass        # open finding V8: the pending operand stays below the result
            elif g["stack"] != str(e["stack"]) or g["frames"] != "0" or g["mp"] != "0":
                return (f"{where}: finished core keeps stack={g['stack']} frames={g['frames']} mp={g['mp']} "
                        f"(expected stack={e['stack']} frames=0 mp=0)"), None, stats
            if g["handlers"] != "0":
                if "v10" in e["flags"]:
                    stats["v10_handlers"] += 1
                else:
                    return f"{where}: finished core keeps {g['handlers']} exception handlers", None, stats
        # ---- tie: implementation vs model --------------------------------------------
        if mod is not None and tie is None:
            mm = mod[i] if i < len(mod) else {"kind": "MISSING", "raw": ""}
            keys = ["kind", "value", "cls", "ekind", "out", "cores", "lock", "globals"]
            if e.get("msg") is not None:
                keys.append("msg")
            if e["mode"] == "acall" and (e["kind"] == "ret" or e.get("cls") == "terminate") and "v8" not in e["flags"]:
                keys += ["stack", "frames"]
            for k in keys:
                if g.get(k) != mm.get(k):
                    tie = f"{where}: {k}: go={g.get(k)} model={mm.get(k)}"
                    break
    return None, tie, stats


def shrink(hist, still_fails):
    cur = list(hist)
    i = 0
    budget = 40
    while i < len(cur) and budget > 0:
        cand = cur[:i] + cur[i + 1:]
        budget -= 1
        if cand and still_fails(cand):
            cur = cand
        else:
            i += 1
    return cur


def go_parallel(subcmd, lines, workers=8, timeout=900):
    """core.go_lines over several harness processes (the VM's Wait sleeps 5 ms per idle round)."""
    if len(lines) < 2 * workers:
        return core.go_lines(subcmd, lines, timeout=timeout)
    step = (len(lines) + workers - 1) // workers
    chunks = [lines[i:i + step] for i in range(0, len(lines), step)]
    with ThreadPoolExecutor(max_workers=workers) as ex:
        outs = list(ex.map(lambda c: core.go_lines(subcmd, c, timeout=timeout), chunks))
    return [l for o in outs for l in o]


def run_batch(ctx, hists, stage, have_model):
    go = go_parallel("host", [H.host_line(h) for h in hists])
    model = core.lean_lines([H.model_line(H.expected(h)) for h in hists]) if have_model else [None] * len(hists)
    ties = 0
    for h, g, m in zip(hists, go, model):
        viol, tie, stats = judge_history(h, g, m)
        exp = H.expected(h)
        fails = sum(1 for e in exp if e["kind"] == "exc" and e["body"] is not None)
        ctx.count(case_key=H.host_line(h), nontrivial=len(h) >= 2)
        ctx.coverage["calls"] = ctx.coverage.get("calls", 0) + len(h)
        ctx.coverage["histories_with_failure"] = ctx.coverage.get("histories_with_failure", 0) + (1 if fails else 0)
        ctx.coverage["calls_after_failure"] = ctx.coverage.get("calls_after_failure", 0) + sum(1 for e in exp if e["body"] is None)
        ctx.coverage["dead_core_handlers_left_by_return_inside_try_V10"] = \
            ctx.coverage.get("dead_core_handlers_left_by_return_inside_try_V10", 0) + stats["v10_handlers"]
        for e in exp:
            ctx.fn_hits[e["fn"]] = ctx.fn_hits.get(e["fn"], 0) + 1
        if viol and len(ctx.violations) >= 3:
            ctx.violations.append({"what": f"{stage}: {viol}", "replay": "(not recorded: more than 3 violations)"})
        elif viol:
            def still(c):
                gl = core.go_lines("host", [H.host_line(c)], timeout=120)[0]
                return judge_history(c, gl, None)[0] is not None
            small = shrink(h, still) if len(h) > 1 else h
            gl = core.go_lines("host", [H.host_line(small)], timeout=120)[0]
            v2 = judge_history(small, gl, None)[0] or viol
            ctx.violation({"kind": "history", "hist": hist_json(small), "go": gl[:2000]}, f"{stage}: {v2}")
        elif tie:
            ties += 1
            if ties <= 3:
                ctx.broken.append(f"correspondence:hostmodel:{tie} history={json.dumps(hist_json(h))[:300]}")
        ctx.sample({"history": [f"{m_} {f}" for m_, f, _ in h][:6], "go": g[:300]})
    return ties


INIT_FAILURES = [
    # (initializer that throws while NewVM runs @init, fatal kind, message): G1
    ("1 / 0", "ValueError", "Division by zero error: this is operation is illegal"),
    ("7 % 0", "ValueError", "Division by zero error: this is operation is illegal"),
    ("1 << -1", "ValueError", "Negative shift count: this is operation is illegal"),
    ("[1, 2][5]", "IndexOutOfBounds", "Index out of bounds: cannot index a list of length 2 with 5"),
]


def init_failure_cases(ctx):
    """A library whose global initializer fails (G1): constructing the VM hands the host a VM (no panic), and EVERY invocation
    on it — SpawnSync or SpawnAsync + Wait + HandleTermination, with and without arguments, also after earlier ones —
    answers with the exception of the initialization (kind and message, not 'terminated'), prints nothing, leaves no core
    listed and the cores lock free; the globals defined before the failing one keep their initial values, the later ones
    do not exist. Implementation-side oracle only (the host model starts from an initialised VM)."""
    lines, want = [], []
    for expr, kind, msg in INIT_FAILURES:
        src = (f"let first = 5;\nlet broken = {expr};\nlet later = 6;\nfn get() -> int {{ println(\"get\"); first }}\n"
               "fn add(a: int, b: int) -> int { a + b }\nfn touch() { first = first + 1; }\nfn main() { println(\"main\"); }\n")
        for hist in ([("call", "get", [])], [("acall", "get", [])],
                     [("call", "add", [H.I(1), H.I(2)]), ("acall", "touch", []), ("call", "main", []), ("acall", "add", [H.I(3), H.I(4)]), ("call", "get", [])],
                     [("acall", "main", []), ("acall", "main", []), ("call", "touch", []), ("acall", "get", [])]):
            lines.append(f"(host (main {H.xhex(src)})" + "".join(f" ({m} {H.xhex(f)}" + "".join(" " + H.sx(a) for a in args) + ")" for m, f, args in hist) + ")")
            want.append((expr, kind, msg, hist))
    for line, (expr, kind, msg, hist), g in zip(lines, want, core.go_lines("host", lines, timeout=300)):
        ctx.count(case_key=line, nontrivial=True)
        ctx.coverage["init_failure_histories"] = ctx.coverage.get("init_failure_histories", 0) + 1
        parts = g.split(" | ")
        viol = None
        if not parts[0].startswith("A=ACCEPT"):
            viol = f"constructing the VM did not return to the host: {parts[0][:200]}"
        elif not parts[0].endswith("globals=" + H.globals_sx({"first": H.I(5)})):
            viol = f"globals after the failed initialization: {parts[0][-120:]}"
        elif len(parts) - 1 != len(hist):
            viol = f"{len(parts) - 1} answers for {len(hist)} calls"
        else:
            for (m, f, _), p in zip(hist, parts[1:]):
                d = parse_part(p)
                if (d.get("kind"), d.get("cls"), d.get("ekind"), d.get("msg")) != ("EXC", "fatal", kind, H.xhex(msg)):
                    viol = f"{m} {f} answered {p[:200]}, expected the exception of the initialization (fatal {kind}: {msg})"
                elif d.get("out") != "x" or d.get("cores") != "0" or d.get("lock") != "free" or not p.endswith("globals=" + H.globals_sx({"first": H.I(5)})):
                    viol = f"{m} {f} on the VM whose initialization failed: {p[:300]}"
                if viol:
                    break
        if viol:
            ctx.violation({"kind": "hostline", "line": line, "go": g[:1500]}, f"C16 failed initialization (let broken = {expr};): {viol}")


def run(ctx):
    st = core.prepare(ctx, MODULES)
    ctx.fn_hits = {}
    ctx.assumptions += [
        "the per-call outcome of a library function (value / throw / fatal, globals afterwards, output) is given by the "
        "reference semantics in gen/host.py; the Lean model is parametric in it (all bodies, all value types)",
        "asynchronous invocations are covered in the sequential pattern SpawnAsync + Wait + HandleTermination only",
        "handlers left in a *finished* core by a return from inside try (V10, property C11) are counted, not judged: "
        "every call runs on a fresh core (theorem fresh_core_isolated)",
    ]
    if not st["harness"] or not st["dump"]:
        ctx.violation({"kind": "build", "log": st.get("log", "")[-3000:]},
                      "harness or table dump no longer builds against the repository", no_input=True)
        return
    have_model = bool(st["model"])
    if not have_model:
        ctx.note("Lean model/driver does not build; running the implementation-side oracle only")
    # 1. known findings of this property with status open: none; regression witnesses of the fixed ones
    for e in core.load_known(ctx.prop):
        if e.get("status") == "open" and e.get("witness", {}).get("kind") == "history":
            h = hist_from_json(e["witness"]["hist"])
            g = core.go_lines("host", [H.host_line(h)], timeout=120)[0]
            v = judge_history(h, g, None)[0]
            if v:
                ctx.known(e["id"], e.get("what", v))
            else:
                ctx.note(f"known finding {e['id']}: witness no longer fails")
    run_batch(ctx, [h for _, _, h in REGRESSIONS], "C16 regression", have_model)
    init_failure_cases(ctx)
    # 2. generated histories
    rng = ctx.rng
    if ctx.tier == "quick":
        n, maxlen = 1200, 12
    else:
        n, maxlen = 9000, 60
    hists = []
    for i in range(n):
        p_fail = rng.choice([0.0, 0.0, 0.05, 0.15, 0.3])
        hists.append(H.gen_history(rng, maxlen if rng.random() < 0.8 else max(2, maxlen // 3), p_fail))
    # every function at least once alone and after a bump (exhaustive over the library)
    for fn, (ptypes, _, _, flags) in H.FUNCS.items():
        for want_fail in ([False, True] if "fails" in flags else [False]):
            args = [H.gen_arg(rng, t, want_fail) for t in ptypes]
            if fn == "idx":
                args[1] = H.I(len(args[0][1]) + 1) if want_fail else H.I(0)
            hists.append([("acall", "bump", []), ("acall", fn, args), ("call", "get_counter", []), ("acall", fn, args)])
    if ctx.violations:
        hists = hists[:100]          # already failing on the regression witnesses: a short confirmation run only
    ties = 0
    for i in range(0, len(hists), 400):
        ties += run_batch(ctx, hists[i:i + 400], "C16", have_model)
        if len(ctx.violations) >= 5:
            break
    ctx.coverage["functions_exercised"] = dict(sorted(ctx.fn_hits.items()))
    ctx.coverage["rule"] = (
        "random histories (length <= %d) over a library of %d host-callable functions: 0..4 parameters of mixed types "
        "whose result encodes the argument order, counters/strings/flags/lists in globals, returns from inside "
        "for/while/loop/match/try, caught and uncaught throws, fatal errors (division by zero, index, unwrap, call-stack "
        "overflow), every return type kind (int, float, bool, str, list, nested list, option, range, object, any-object, "
        "null), singleton extraction; SpawnSync and SpawnAsync+Wait+HandleTermination mixed; calls continue after a "
        "failure; plus every function alone, twice, around a global update; non-trivial = distinct history with >= 2 calls"
        % (maxlen, len(H.FUNCS)))
    ctx.coverage["traces_validated_against_impl"] = ctx.evaluations
    if ctx.broken and not ctx.violations:
        ctx.violation({"kind": "broken-tie", "broken": ctx.broken[:10], "log": st.get("log", "")[-3000:]},
                      "proof obligation or model/code correspondence no longer checks: " + "; ".join(ctx.broken[:3]),
                      no_input=True)


def replay(ctx, rep):
    ok, log = core.build_harness()
    if not ok:
        print(log)
        return 1
    if rep.get("kind") == "hostline":
        g = core.go_lines("host", [rep["line"]], timeout=120)[0]
        for p in g.split(" | "):
            print("  go:", p[:400])
        bad = not g.startswith("A=ACCEPT") or any(parse_part(p).get("cls") != "fatal" for p in g.split(" | ")[1:])
        print("VIOLATION property=C16 replay=(replayed)" if bad else "replay: property holds on this input now")
        return 1 if bad else 0
    if rep.get("kind") != "history":
        print("replay names a broken obligation, not an input:", json.dumps(rep)[:2000])
        return 1
    h = hist_from_json(rep["hist"])
    g = core.go_lines("host", [H.host_line(h)], timeout=120)[0]
    print("history:", [(m, f, [H.sx(a) for a in args]) for m, f, args in h])
    for p in g.split(" | "):
        print("  go:", p[:400])
    v = judge_history(h, g, None)[0]
    if v is None:
        print("replay: property holds on this input now")
        return 0
    print("  " + v)
    print("VIOLATION property=C16 replay=(replayed)")
    return 1
