"""C19 — printing and optimising a program preserve its meaning.

Theorems: HmsProofs.C19 — expression core: the printer of the expression model is
`Pratt.flatten`; printing a normal tree and parsing the result gives the tree back
(`print_parse`, `print_fixed_point`, `print_parsed_roundtrip`, from the proved C07
completeness/soundness), a non-normal tree does not survive (`print_parse_counterexample`,
finding R8); `string_literal_roundtrip` over the proved lexer model for the escaping function
of the (fixed) printers; `optimize_preserves` for the model of optimizer.block against the
specification semantics under `NeverDiverges`, and `optimize_needs_never_diverges_counterexample`
(finding A5).

Tie: Go `String()` of parsed expressions, re-lexed, == `flatten` of the model tree (token for
token); Go string literal printers == the model's `quote (escape s)` (code point for code point);
Go optimizer output == the model's truncation of every function body.

Oracle (implementation side): parse(print(parse s)) == parse s with spans erased; print of that
== print(parse s); the printed parse tree and the printed ANALYSED tree are accepted iff the
original was and give the same outcome line on the VM and on the interpreter; the optimizer's
output gives the same outcome lines as its input.
"""
import os
import re

from gen import printgen
from vlib import core, progstream

MODULES = ["HmsProofs.C19"]

# name -> why the shipped program is not used (or only partly used)
SHIPPED_EXCLUDED = {
    "examples/json.hms": "older annotation syntax: does not parse",
    "examples/main.hms": "older annotation syntax: does not parse",
    "examples/singleton0.hms": "older singleton syntax: does not parse",
    "examples/sig_term.hms": "runs (by design) until it is killed",
    "examples/dates.hms": "prints the current time",
    "examples/binary.hms": "prints the current time",
    "examples/iterators.hms": "reads the current time",
}
# these print positions of their own source text (exception line/column): behaviour is compared up to those
POSITION_DEPENDENT = {"tests/try.hms"}

LIB = ("pub fn inc(a: int) -> int { a + 1 }\npub let K = 7;\npub type P = { x: int, y: int };\n"
       "fn priv() { }\nfn main() { }\n")

# fixed findings (regressions) and hand-written boundary programs; always run first.
# (id, main text): the id names the finding whose witness it is
CORPUS = [
    ("R1", 'fn main() { let s = "a\\tb\\"c\\\\d\\n"; println(s, "\\x41\\u00e9\\U0001F600\\101\\r\\b", \'sq"\'); }'),
    ("R1", 'fn main() { let o = new { "q\\"t": 1, "b\\\\s": 2, "t\\tb": 3, "": 4 }; println(o); let t: { "q\\"t": int } = new { "q\\"t": 1 }; println(t); }'),
    ("R1", 'fn f() -> str {\n    let out = "";\n    for i in 0..2 {\n        if i == 1 {\n            out += "\\n";\n        }\n    }\n    out\n}\nfn main() { println(f().len()); }'),
    ("R2", "fn main() { let o = new { ? }; o.set(\"k\", 1); println(o); let p: { ? } = new { ? }; println(p); }"),
    ("R3", "import { K } from lib;\npub let g = 1;\npub type T = { a: int };\nevent fn e() { }\npub fn q() { }\nfn main() { println(g, K); }"),
    ("R4", "$S = { x: int, \"y z\": str };\n$E = { };\nfn main() { println($S.x); $S.x = 4; println($S, $E); }"),
    ("R5", "import { templ FooFeature } from templates;\n$D = { b: int };\nimpl FooFeature with { light } for $D {\n    fn dim(self: $D, percent: int) -> bool { self.b = percent; true }\n}\nfn main() { println(dim(3), $D.b); }"),
    ("R6", "fn main() { let x = match 3 { 1 => 10, _ => 20 }; println(x); match x { 20 => println(\"a\"), _ => { } }; }"),
    ("R7", "fn main() { println(1000000000000000000000.0, 0.00001, 3f, 2.5, 123456789012345678.0, 0.1, 4.0, 0.000_001); }"),
    ("R11", "fn main() { let o = new { \"a b\": 1, \"type\": 2, name: 3, k: 4 }; println(o); }"),
    ("R12", "$S = { @setting x: int, plain: bool };\nfn main() { println($S.x); }"),
    ("R13", "$S = { x: int };\nfn f(s: $S, k: int) -> int { s.x + k }\nfn main() { println(f(3)); }"),
    ("R16", "import { inc } from lib;\nimport { type P } from lib;\nfn main() { let p: P = new { x: inc(1), y: 2 }; println(p); }"),
    ("-", "fn main() { let a = 1; let b = 2; println(a + b * a - b / a % b, a ** b ** a, (a + b) * a, a << b >> a, a | b & a ^ b, a < b == true, a < b && b > a || false, -a ** 2, (-a) ** 2); }"),
    ("-", "fn main() { let a = 1; a = 2; a += 1; a -= 1; a *= 2; a /= 2; a %= 3; a **= 2; a <<= 1; a >>= 1; a |= 4; a &= 7; a ^= 1; println(a); }"),
    ("-", "fn main() { let x = if true { 1 } else if false { 2 } else { 3 }; println(x); if x == 1 { println(\"a\") } else if x == 2 { println(\"b\") }; let y = { let z = 2; { z * 2 } }; println(y); }"),
    ("-", "fn f() -> int { loop { return 1; } } fn main() { println(f()); let i = 0; while i < 3 { i += 1; if i == 2 { continue; } println(i); } loop { break; } for _ in 0..2 { print(\".\"); } }"),
    ("-", "fn main() { try { throw(\"boom\"); } catch e { println(e.message); } let r = try { 1 } catch _e { 2 }; println(r); }"),
    ("-", "import { trigger minute } from triggers;\n#[trigger at minute(1 + 2), trigger in minute(0)]\nevent fn cb(_elapsed: int) { println(\"cb\"); }\nfn main() { trigger cb on minute(5); }"),
    ("-", "fn nop() { } fn main() { let _t = spawn nop(); println(\"z\"); }"),
    ("-", "fn main() { let l = [1..3, 4..=5]; println(l, (1..3).start, [1, 2].len(), \"s\".len(), [[1], [2]][1][0]); let e = new { }; println(e); }"),
    ("-", "fn main() { println(9223372036854775807, -9223372036854775807 - 1, 1_000, - -3, !!true, ?1, ??2); }"),
    # an `else` block that has statements of its own and ENDS in an `if` (not an `else if` chain: the statements belong to
    # the block), with and without a local that the trailing `if` uses; next to genuine `else if` chains
    ("-", "fn pick(n: int) -> str { if n < 0 { \"neg\" } else { println(\"in else\", n); let half = n / 2; if half > 2 { \"big\" } else if half > 0 { \"mid\" } else { \"small\" } } } "
          "fn main() { println(pick(-1), pick(1), pick(3), pick(9)); if false { println(\"a\"); } else { println(\"b\"); if true { println(\"c\"); } } "
          "let v = if false { 1 } else { let w = 5; println(\"w\", w); if w > 3 { w } else { 0 } }; println(v); if false { } else if false { } else { println(\"chain\"); if true { println(\"tail\") } } }"),
    # guard statements: a short-circuit operator whose right operand diverges completes normally when the left operand
    # decides — what follows it is reachable (and must survive the optimizer)
    ("-", "fn chk(ok: bool) -> int { ok || { return 0; }; println(\"checked\"); 1 } fn neg(n: int) -> str { n < 0 && { return \"negative\"; }; println(\"not negative\"); \"fine\" } "
          "fn main() { println(chk(true)); println(chk(false)); println(neg(1), neg(-1)); let i = 0; loop { i += 1; i < 3 || { break; }; println(\"round\", i); } println(i); "
          "for k in 0..4 { k % 2 == 0 && { continue; }; println(\"odd\", k); } }"),
    ("-", "fn f(a: bool) -> int { let x = a && { return 7; }; println(\"x\", x); if a || { return 8; } { println(\"t\"); } 9 } fn main() { println(f(false)); println(f(true)); }"),
]
# forms that are only accepted when findings of other areas are fixed: (capability, text)
CORPUS_CAPS = [
    ("lambda", "fn main() { println((fn(a: int) -> int { a + 1 })(1)); let r = (fn() -> str { \"r\" })(); println(r); }"),
    ("fn_types", "type F = fn(x: int, y: str) -> ?int;\nfn h(x: int, y: str) -> ?int { ?x }\nfn main() { let f: F = h; println(f(1, \"a\")); let g = fn(a: int) -> int { a * 2 }; println(g(2)); }"),
]

OPT_CORPUS = [
    ("-", "fn f() -> int { return 1; println(\"dead\"); 2 } fn main() { println(f()); }"),
    ("-", "fn f(k: int) -> int { println(\"a\"); if k == 0 { return 1; println(\"dead\"); } loop { if k > 2 { break; println(\"dead\"); } k += 1; continue; println(\"dead\"); } match k { 1 => { return 5; }, _ => { return 6; } }; println(\"dead\"); 7 } fn main() { println(f(0), f(1), f(3)); }"),
    ("-", "fn f(k: int) -> int { if k > 0 { return 1; } else { return 2; } println(\"dead\"); } fn main() { println(f(0), f(1)); }"),
    ("-", "fn f(k: int) -> int { throw(\"x\"); println(\"dead\"); 1 } fn main() { try { println(f(0)); } catch e { println(e.message); } }"),
    ("-", "fn f(k: int) -> int { loop { println(\"l\"); return 3; } println(\"dead\"); } fn main() { println(f(0)); }"),
    ("-", "fn f(k: int) -> int { { return 4; }; println(\"dead\"); } fn main() { println(f(0)); }"),
    ("-", "fn f() -> int { try { return 1; println(\"dead\"); } catch e { return 2; } println(\"dead2\"); } fn main() { println(f()); }"),
    ("-", "fn main() { let i = 0; while i < 3 { i += 1; if i == 1 { continue; println(\"dead\"); } println(i); break; println(\"dead2\"); } println(\"end\"); return; println(\"dead3\"); }"),
    # a loop left by break, a while and a for complete normally: nothing after them may go
    ("-", "fn main() { loop { break; } println(\"a\"); while false { return; } println(\"b\"); for _i in 0..0 { return; } println(\"c\"); if false { return; } println(\"d\"); }"),
]
# A5 (analyzer; DESIGN.md §9): a match WITHOUT default whose arms all diverge is typed `never`
A5_WITNESS = "fn f(k: int) -> int { match k { 1 => { return 1; } }; println(\"live\"); 9 } fn main() { println(f(1)); println(f(0)); }"

# probes for the capabilities of printgen (findings of other areas)
CAP_PROBES = {
    "lambda": "fn main() { let _ = (fn(a: int) -> int { a })(1); return; }",
    "fn_types": "fn main() { let f: fn(a: int) -> int = fn(a: int) -> int { a }; println(f(2)); }",
}


def x(s):
    return core.xhex(s)


def line_for(cmd, main, mods=None, opts=""):
    parts = [f"({cmd}"]
    if opts:
        parts.append(opts)
    parts.append(f"(main {x(main)})")
    for name, src in (mods or {}).items():
        parts.append(f"(mod {x(name)} {x(src)})")
    return " ".join(parts) + ")"


def fields(line):
    out = {}
    for p in line.strip().split(" | "):
        if "=" in p:
            k, v = p.split("=", 1)
            out[k] = v
    return out


def obs(outcome, mask_positions=False):
    """Observable part of an outcome line: class, fatal kind + message, output, trigger trace."""
    d = progstream.parse_outcome(outcome)
    out = d.get("out")
    if mask_positions and out is not None:
        out = re.sub(r"\b(line|column): \d+", r"\1: N", out)
    return (d["cls"], d.get("kind"), d.get("msg"), out, d.get("trig"))


UNJUDGED = ("PANIC", "CRASH", "HANG", "TERM", "INTERRUPT", "COMPILE-ERROR", "MISSING", "-")


def unhex(a):
    try:
        return core.unhex(a)
    except Exception:
        return a


def dec(v):
    return re.sub(r"\bx([0-9a-f]+)\b", lambda m: repr(unhex(m.group(0))[-120:]), v or "")


# ---------------------------------------------------------------------------------------------
# reprint oracle
# ---------------------------------------------------------------------------------------------

def judge_reprint(ctx, cases, stage):
    """cases: list of dict(main, mods, label, must_parse, mask). Returns number judged."""
    lines = [line_for("reprint", c["main"], c.get("mods")) for c in cases]
    go = core.go_lines("reprint", lines, timeout=900)
    for c, g in zip(cases, go):
        rep = {"kind": "reprint", "main": c["main"], "mods": c.get("mods") or {}, "mask": bool(c.get("mask"))}
        label = c.get("label", "")
        if g.startswith(("CRASH", "HANG")):
            # a crash of the whole harness process: the VM panicked on a core goroutine (findings of the
            # execution properties); the printers run before and are judged by the parse-only pass
            ctx.coverage["harness_crash_in_execution"] = ctx.coverage.get("harness_crash_in_execution", 0) + 1
            g2 = core.go_lines("reprint", [line_for("reprint", c["main"], c.get("mods"), "(run false)")])[0]
            if g2.startswith(("CRASH", "HANG")):
                ctx.count(case_key=c["main"], nontrivial=True)
                ctx.violation(dict(rep, go=g2[:300]), f"{stage}: printing/parsing crashed or hung: {dec(g2)[:160]}")
                continue
            g = g2
        f = fields(g)
        problems = check_reprint_fields(f, c)
        ctx.count(case_key=c["main"], nontrivial=f.get("P1") == "OK" and len(c["main"]) > 40)
        for k in ("P1", "A1"):
            key = f"{stage}:{k}:{f.get(k, '?').split(' ')[0]}"
            ctx.coverage[key] = ctx.coverage.get(key, 0) + 1
        if problems:
            what, detail = problems[0]
            ctx.violation(dict(rep, failed=[p[0] for p in problems], detail=detail[:600]),
                          f"{stage}{' ' + label if label else ''}: {what}: {detail[:200]}")
        else:
            ctx.sample({"main": c["main"][:300], "printed": unhex(f.get("T1", "x"))[:300]}, limit=3)
    return len(cases)


def check_reprint_fields(f, c):
    """-> list of (what, detail) for every oracle that fails on this answer."""
    bad = []
    mask = c.get("mask", False)
    p1 = f.get("P1", "")
    if p1.startswith("PANIC"):
        return [("the parser panicked", dec(p1))]
    if p1 != "OK":
        if c.get("must_parse"):
            bad.append(("a valid program does not parse", dec(p1)))
        return bad
    if f.get("T1", "").startswith("PANIC"):
        return [("String() of the parse tree panicked", dec(f["T1"]))]
    if f.get("P2") != "OK":
        return [("the printed parse tree does not parse", dec(f.get("P2", "")) + " printed: " + unhex(f.get("T1", "x"))[:300])]
    if f.get("T2", "").startswith("PANIC"):
        return [("String() of the re-parsed tree panicked", dec(f["T2"]))]
    if f.get("TREE") != "same":
        d1, d2 = f.get("D1", ""), f.get("D2", "")
        i = next((k for k in range(min(len(d1), len(d2))) if d1[k] != d2[k]), min(len(d1), len(d2)))
        bad.append(("parse(print(parse s)) differs from parse s", f"original …{dec(d1[max(0, i - 80):i + 120])}  reparsed …{dec(d2[max(0, i - 80):i + 120])}"))
    if f.get("FIX") != "true":
        bad.append(("printing is not a fixed point after one round", unhex(f.get("T1", "x"))[:200] + " // " + unhex(f.get("T2", "x"))[:200]))
    a1 = f.get("A1", "")
    if a1.startswith("PANIC"):
        return bad          # analyzer crashes belong to C05
    if not a1.startswith("ACCEPT"):
        if f.get("PA", "").startswith("ACCEPT"):
            bad.append(("the original is rejected but its printed parse tree is accepted", dec(a1)))
        return bad
    # accepted: printed parse tree
    if not f.get("PA", "").startswith("ACCEPT"):
        bad.append(("the printed parse tree of an accepted program is rejected", dec(f.get("PA", "")) + " printed: " + unhex(f.get("T1", "x"))[:400]))
    else:
        for be, a, b in (("VM", "VM1", "PVM"), ("interpreter", "TREE1", "PTREE")):
            if a in f and b in f and not f[a].startswith(UNJUDGED) and obs(f[a], mask) != obs(f[b], mask):
                bad.append((f"the printed parse tree behaves differently on the {be}", f"{dec(f[a])[:200]} // {dec(f[b])[:200]}"))
    # accepted: printed analysed tree
    at1 = f.get("AT1", "")
    if at1.startswith("PANIC"):
        bad.append(("String() of the analysed program panicked", dec(at1)))
        return bad
    if not f.get("A2", "").startswith("ACCEPT"):
        bad.append(("the printed analysed program is rejected", dec(f.get("A2", "")) + " printed: " + unhex(at1 or "x")[:600]))
        return bad
    for be, a, b in (("VM", "VM1", "VM2"), ("interpreter", "TREE1", "TREE2")):
        if a in f and b in f and not f[a].startswith(UNJUDGED) and obs(f[a], mask) != obs(f[b], mask):
            bad.append((f"the printed analysed program behaves differently on the {be}", f"{dec(f[a])[:200]} // {dec(f[b])[:200]}"))
    if f.get("AT2", "").startswith("PANIC"):
        bad.append(("String() of the re-analysed program panicked", dec(f["AT2"])))
    elif f.get("AFIX") != "true":
        bad.append(("printing the analysed program is not a fixed point after one round", unhex(at1 or "x")[:200]))
    return bad


# ---------------------------------------------------------------------------------------------
# optimizer oracle + tie
# ---------------------------------------------------------------------------------------------

def sx_parse(s):
    """Minimal S-expression reader -> nested lists / atoms."""
    pos = 0
    n = len(s)

    def rd():
        nonlocal pos
        while pos < n and s[pos] == " ":
            pos += 1
        if s[pos] == "(":
            pos += 1
            items = []
            while True:
                while pos < n and s[pos] == " ":
                    pos += 1
                if s[pos] == ")":
                    pos += 1
                    return items
                items.append(rd())
        st = pos
        while pos < n and s[pos] not in " ()":
            pos += 1
        return s[st:pos]
    return rd()


def fn_bodies(mods_sx):
    """(module, fn) -> list of statement sexps of the top-level body, from an sxModules dump."""
    out = {}
    for m in mods_sx[1:]:
        mname = m[1]
        for fn in m[5]:
            # (fn span name params ret modifier hasAnn (block span ty (stmts) expr))
            block = fn[7]
            out[(mname, fn[2])] = (block[3], block[4])
    return out


def judge_optimize(ctx, cases, stage, model_ok):
    lines = [line_for("optimize", c["main"], c.get("mods"), "(ast true)") for c in cases]
    go = core.go_lines("optimize", lines, timeout=900)
    lean_in, lean_idx, expect = [], [], {}
    for i, (c, g) in enumerate(zip(cases, go)):
        rep = {"kind": "optimize", "main": c["main"], "mods": c.get("mods") or {}}
        if g.startswith(("CRASH", "HANG")):
            ctx.coverage["harness_crash_in_execution"] = ctx.coverage.get("harness_crash_in_execution", 0) + 1
            g = core.go_lines("optimize", [line_for("optimize", c["main"], c.get("mods"), "(ast true) (run false)")])[0]
            if g.startswith(("CRASH", "HANG")):
                ctx.count(case_key=c["main"], nontrivial=True)
                ctx.violation(dict(rep, go=g[:300]), f"{stage}: the optimizer crashed or hung: {dec(g)[:160]}")
                continue
        f = fields(g)
        a = f.get("A", "")
        ctx.coverage[f"{stage}:A:{a.split(' ')[0]}"] = ctx.coverage.get(f"{stage}:A:{a.split(' ')[0]}", 0) + 1
        if not a.startswith("ACCEPT"):
            continue
        diag = f.get("DIAG", "")
        if diag.startswith("PANIC"):
            ctx.count(case_key=c["main"], nontrivial=True)
            ctx.violation(dict(rep, go=diag), f"{stage}: the optimizer panicked: {dec(diag)[:160]}")
            continue
        nwarn = int(diag.split(",")[1]) if "," in diag else 0
        ctx.count(case_key=c["main"], nontrivial=nwarn > 0)
        bad = False
        for be, a0, a1 in (("VM", "VM0", "VM1"), ("interpreter", "TREE0", "TREE1")):
            if a0 in f and a1 in f and not f[a0].startswith(UNJUDGED) and obs(f[a0]) != obs(f[a1]):
                ctx.violation(dict(rep, before=f[a0][:400], after=f[a1][:400]),
                              f"{stage}: the optimised program behaves differently on the {be}: {dec(f[a0])[:150]} // {dec(f[a1])[:150]}")
                bad = True
                break
        if bad:
            continue
        # structure: every function body of the output is a prefix of the input body that ends with the
        # first statement of recorded type `never` (or is the whole body), the trailing expression stays
        try:
            before, after = fn_bodies(sx_parse(f["AST"])), fn_bodies(sx_parse(f["OPT"]))
            never = {(m[0], fn[0]): [int(k) for k in fn[1]] for m in sx_parse(f["NEVER"]) for fn in m[1]}
        except Exception as e:                                   # noqa: BLE001
            ctx.broken.append(f"correspondence:optimize:cannot read the AST dump: {e}")
            continue
        req = []
        for key, (stmts, tail) in sorted(before.items()):
            ostmts, otail = after.get(key, (None, None))
            if ostmts is None or ostmts != stmts[:len(ostmts)] or otail != tail:
                ctx.violation(dict(rep, function=list(key)),
                              f"{stage}: the optimised body of {unhex(key[1])} is not a prefix of the original body (plus its trailing expression)")
                bad = True
                break
            req.append((key, len(stmts), never.get(key, []), len(ostmts)))
        if bad:
            continue
        if model_ok and req:
            payload = " ".join(f"({n} ({' '.join(map(str, nv))}))" for _, n, nv, _ in req)
            lean_in.append("optprefix (" + payload + ")")
            lean_idx.append(i)
            expect[i] = [kept for _, _, _, kept in req]
        ctx.sample({"main": c["main"][:300], "warnings": nwarn, "vm": dec(f.get("VM1", ""))[:160]}, limit=3)
    if lean_in:
        lean = core.lean_lines(lean_in)
        nbad = 0
        for i, l in zip(lean_idx, lean):
            want = "OK " + " ".join(map(str, expect[i]))
            if l.strip() != want:
                nbad += 1
                if nbad <= 3:
                    ctx.broken.append(f"correspondence:optimize-model-vs-go:{cases[i]['main'][:100]!r}: go={want} lean={l[:80]}")
        ctx.coverage["optimizer_bodies_compared_with_model"] = ctx.coverage.get("optimizer_bodies_compared_with_model", 0) + len(lean_in)


# ---------------------------------------------------------------------------------------------
# ties of the expression-core printer and of the string literal printer
# ---------------------------------------------------------------------------------------------

BIN_OPS = ["||", "&&", "|", "^", "&", "==", "!=", "<", ">", "<=", ">=", "<<", ">>", "+", "-", "*", "/", "%", "**"]
ASG_OPS = ["=", "+=", "-=", "*=", "/=", "%=", "**=", "<<=", ">>=", "|=", "&=", "^="]
EXPR_ATOMS = ["a", "b1", "1", "42", "1.5", "true", "false", '"s"', "null", "none"]


def gen_expr_text(rng, depth):
    """Expression text over the forms of the Pratt model, with needed and redundant parentheses."""
    if depth <= 0 or rng.random() < 0.15:
        return rng.choice(EXPR_ATOMS)
    d = depth - 1
    c = rng.random()
    sub = lambda: gen_expr_text(rng, d)                        # noqa: E731
    par = lambda s: f"({s})" if rng.random() < 0.35 else s   # noqa: E731
    if c < 0.45:
        return f"{par(sub())} {rng.choice(BIN_OPS)} {par(sub())}"
    if c < 0.57:
        return f"{rng.choice(['!', '-', '?'])}{par(sub())}"
    if c < 0.65:
        return f"{par(sub())}({', '.join(sub() for _ in range(rng.randrange(0, 3)))})"
    if c < 0.71:
        return f"{par(sub())}[{sub()}]"
    if c < 0.77:
        return f"{par(sub())}{rng.choice(['.', '->', '~>'])}m"
    if c < 0.83:
        return f"{par(sub())} as int"
    if c < 0.88:
        return f"({sub()})..{'=' if rng.random() < 0.3 else ''}({sub()})"
    if c < 0.93:
        return "[" + ", ".join(sub() for _ in range(rng.randrange(0, 4))) + "]"
    return f"{rng.choice(['a', 'a[1]', 'a.m'])} {rng.choice(ASG_OPS)} {par(sub())}"


def tie_expressions(ctx, n, model_ok):
    rng = ctx.rng
    texts = [gen_expr_text(rng, rng.randrange(1, 5)) for _ in range(n)]
    go1 = core.go_lines("parse", [x(t) for t in texts])
    pat = re.compile(r"OK toks=(.*?) tree=(.*?) print=(\S+)$")
    idx, printed = [], []
    for i, g in enumerate(go1):
        m = pat.match(g)
        if m:
            idx.append(i)
            printed.append(unhex(m.group(3)))
    go2 = core.go_lines("parse", [x(p) for p in printed]) if printed else []
    lean_in, lean_idx = [], []
    for j, (i, g2) in enumerate(zip(idx, go2)):
        m1, m2 = pat.match(go1[i]), pat.match(g2)
        ctx.count(case_key=texts[i], nontrivial=" " in texts[i] or "(" in texts[i])
        rep = {"kind": "expr", "text": texts[i]}
        if not m2:
            ctx.violation(dict(rep, printed=printed[j], go=g2[:200]), f"C19 expr: the printed expression {printed[j]!r} of {texts[i]!r} does not parse")
            continue
        if m2.group(2) != m1.group(2):
            ctx.violation(dict(rep, printed=printed[j], tree=m1.group(2), reparsed=m2.group(2)),
                          f"C19 expr: parse(print(parse {texts[i]!r})) differs: {m1.group(2)} vs {m2.group(2)}")
            continue
        if m2.group(3) != m1.group(3):
            ctx.violation(dict(rep, printed=printed[j]), f"C19 expr: printing {texts[i]!r} is not a fixed point")
            continue
        if model_ok:
            lean_in.append("printexpr " + m1.group(1))
            lean_idx.append((i, m2.group(1), m1.group(2)))
    if lean_in:
        lean = core.lean_lines(lean_in)
        nbad = 0
        for (i, toks2, tree), l in zip(lean_idx, lean):
            # model: OK flat=<codes of flatten(parse toks)> reparse=same tree=<render>
            m = re.match(r"OK flat=(.*?) reparse=(\w+) tree=(.*)$", l)
            if not m or m.group(1).strip() != toks2.strip() or m.group(2) != "same" or m.group(3) != tree:
                nbad += 1
                if nbad <= 3:
                    ctx.broken.append(f"correspondence:print-expr:{texts[i]!r}: go-printed-tokens={toks2} lean={l[:160]}")
        ctx.coverage["expressions_printed_token_for_token_like_model"] = len(lean_in) - nbad


STR_ALPHABET = ['a', 'Z', '0', ' ', '"', "'", '\\', '\n', '\t', '\r', '\b', '\x00', '\x7f', 'é', 'ß', '→', '😀', '日',
                '\u00a0', '\ufffd', '{', '}', '/', '*', '$', 'n', 't', 'x', 'u', '1']


def tie_strings(ctx, n, model_ok):
    rng = ctx.rng
    vals = ["", '"', "\\", "\\n", "a\\", '\\"', "\n", "\t", "\r", 'a"b\\c\nd\te\rf', "\\\\", '""', "\\t", "😀", "\x00"]
    for _ in range(n):
        vals.append("".join(rng.choice(STR_ALPHABET) for _ in range(rng.randrange(0, 9))))
    cps = ["(" + " ".join(str(ord(c)) for c in v) + ")" for v in vals]
    go = core.go_lines("strlit", cps)
    lean = core.lean_lines(["strlit " + c for c in cps]) if model_ok else [None] * len(cps)
    nbad = 0
    for v, c, g, l in zip(vals, cps, go, lean):
        ctx.count(case_key=("str", v), nontrivial=any(ch in v for ch in '"\\\n\t\r'))
        f = fields(g)
        rep = {"kind": "strlit", "value_code_points": [ord(ch) for ch in v]}
        want = f"1:{STRING_KIND}:{c}"
        if f.get("RP") != want:
            ctx.violation(dict(rep, go=g[:300]), f"C19 strlit: the parser AST prints the string value {v!r} as a literal that lexes back to {f.get('RP', g)[:80]}")
            continue
        if f.get("RA") != want:
            ctx.violation(dict(rep, go=g[:300]), f"C19 strlit: the analysed AST prints the string value {v!r} as a literal that lexes back to {f.get('RA', g)[:80]}")
            continue
        if l is not None:
            # model: P=(code points of quote (escape s)) | R=1:<kind>:(value)
            lf = fields(l)
            if lf.get("P") != f.get("P") or lf.get("P") != f.get("A") or lf.get("R") != want:
                nbad += 1
                if nbad <= 3:
                    ctx.broken.append(f"correspondence:strlit:{v!r}: go={g[:120]} lean={l[:120]}")
    if model_ok:
        ctx.coverage["string_literals_printed_like_model"] = len(vals) - nbad


STRING_KIND = None


# ---------------------------------------------------------------------------------------------

def shipped_programs():
    out = []
    for d in ("examples", "tests"):
        base = os.path.join(core.REPO, d)
        if not os.path.isdir(base):
            continue
        files = sorted(f for f in os.listdir(base) if f.endswith(".hms"))
        mods = {f[:-4]: open(os.path.join(base, f), encoding="utf-8", errors="replace").read() for f in files}
        for f in files:
            name = f"{d}/{f}"
            if name in SHIPPED_EXCLUDED:
                continue
            others = {k: v for k, v in mods.items() if k != f[:-4] and k != "main"}
            out.append({"main": mods[f[:-4]], "mods": others, "label": name, "mask": name in POSITION_DEPENDENT})
    return out


def probe_caps(ctx):
    caps = {}
    names = sorted(CAP_PROBES)
    go = core.go_lines("reprint", [line_for("reprint", CAP_PROBES[n], None, "(run false)") for n in names])
    for n, g in zip(names, go):
        caps[n] = fields(g).get("A1", "").startswith("ACCEPT")
    # A5: is the match of the witness recorded as `never`?
    g = core.go_lines("optimize", [line_for("optimize", A5_WITNESS, None, "(ast true) (run false)")])[0]
    f = fields(g)
    caps["match_never"] = False
    if f.get("A", "").startswith("ACCEPT") and "NEVER" in f:
        try:
            nv = {(m[0], fn[0]): fn[1] for m in sx_parse(f["NEVER"]) for fn in m[1]}
            caps["match_never"] = not any(v for (_, fnname), v in nv.items() if unhex(fnname) == "f")
        except Exception:                                        # noqa: BLE001
            pass
    ctx.coverage["capabilities"] = caps
    return caps


def run(ctx):
    global STRING_KIND
    st = core.prepare(ctx, MODULES)
    ctx.assumptions += [
        "behaviour is compared per backend (VM with VM, interpreter with interpreter) as class, fatal kind and message, output and "
        "trigger trace; positions are not compared (printing changes the layout), and programs that print positions of their own "
        "text are generated without them",
        "programs whose ORIGINAL run panics, crashes or hangs a backend are findings of the execution properties and are only "
        "judged on the parser/analyzer layers",
        "forms that the analyzer rejects because of open findings of other areas (A1 lambdas, A3 function types, A5 match without "
        "default) are generated only when a probe shows the finding fixed on the tree under test",
        "layout of the printed text beyond token order is not a claim",
    ]
    if not st["harness"] or not st["dump"]:
        ctx.violation({"kind": "build", "log": st.get("log", "")[-3000:]}, "harness or table dump no longer builds against the repository", no_input=True)
        return
    model_ok = bool(st["model"])
    if model_ok:
        try:
            model_ok = core.lean_lines(["optprefix ((1 ()))"])[0].startswith("OK")
        except Exception:                                        # noqa: BLE001
            model_ok = False
        if not model_ok:
            if core.DEV:
                ctx.note("the driver in use does not know the C19 commands (development mode): model ties skipped")
            else:
                ctx.broken.append("driver:C19 commands missing (Driver.CmdsPrint not built into hmsdrv)")
    from vlib.tables import kind_codes
    try:
        STRING_KIND = kind_codes()["String"]
    except Exception:                                            # noqa: BLE001
        STRING_KIND = 83

    # 1. known findings (open): replay the witness, report once
    for e in core.load_known("C19"):
        if e.get("status") != "open":
            continue
        w = e.get("witness", {})
        still = replay_fails(w)
        if still:
            ctx.known(e["id"], e["what"])
        else:
            ctx.note(f"known finding {e['id']}: its witness no longer fails")
    caps = probe_caps(ctx)

    # 2. corpus: fixed findings (regressions), boundary programs, shipped programs
    corpus = [{"main": src, "mods": {"lib": LIB}, "label": f"corpus[{fid}]", "must_parse": True} for fid, src in CORPUS]
    corpus += [{"main": src, "mods": {"lib": LIB}, "label": f"corpus[{cap}]", "must_parse": True} for cap, src in CORPUS_CAPS if caps.get(cap)]
    judge_reprint(ctx, corpus, "C19 corpus")
    shipped = shipped_programs()
    ctx.coverage["shipped_programs"] = len(shipped)
    ctx.coverage["shipped_excluded"] = SHIPPED_EXCLUDED
    judge_reprint(ctx, shipped, "C19 shipped")
    judge_reprint(ctx, [{"main": s, "label": "syntax-only"} for s in printgen.SYNTAX_ONLY], "C19 syntax")

    # 3. generated programs reaching every printer form
    n = 500 if ctx.tier == "quick" else 6000
    feats = {}
    cases = []
    for _ in range(n):
        src, mods, fs = printgen.generate(ctx.rng, caps, max_depth=ctx.rng.choice([2, 3, 3]))
        cases.append({"main": src, "mods": mods, "must_parse": True})
        for ft in fs:
            feats[ft] = feats.get(ft, 0) + 1
    for i in range(0, len(cases), 1000):
        judge_reprint(ctx, cases[i:i + 1000], "C19 generated")
    ctx.coverage["feature_histogram"] = dict(sorted(feats.items()))

    # 3b. which forms of the parser AST did the inputs reach? (tags of the span-erased dump)
    probe = [c["main"] for c in corpus] + list(printgen.SYNTAX_ONLY) + [c["main"] for c in cases[:60]]
    seen = set()
    for g in core.go_lines("reprint", [line_for("reprint", m, None, "(run false) (dump true)") for m in probe]):
        seen.update(re.findall(r"\((\w+)", fields(g).get("D1", "")))
    expected = {"prog", "fn", "block", "annotation", "name", "sing", "opt", "list", "obj", "int", "float", "bool", "str", "ident",
                "null", "none", "range", "anyobj", "lambda", "grp", "pre", "infix", "assign", "call", "index", "member", "cast",
                "blockexpr", "if", "match", "try", "let", "typedef", "trigger", "return", "break", "continue", "loop", "while",
                "for", "expr"}
    ctx.coverage["parser_ast_forms_reached"] = sorted(seen & expected)
    ctx.coverage["parser_ast_forms_missed"] = sorted(expected - seen)
    if expected - seen:
        ctx.note("the generators did not reach these parser AST forms: " + ", ".join(sorted(expected - seen)))

    # 4. optimizer
    opt_cases = [{"main": src} for _, src in OPT_CORPUS]
    if caps.get("match_never"):
        opt_cases.append({"main": A5_WITNESS})
    opt_cases += [dict(c) for c in shipped]
    no = 400 if ctx.tier == "quick" else 5000
    ofeats = {}
    for _ in range(no):
        src, fs = printgen.optimizer_program(ctx.rng, caps)
        opt_cases.append({"main": src})
        for ft in fs:
            ofeats[ft] = ofeats.get(ft, 0) + 1
    for i in range(0, len(opt_cases), 1000):
        judge_optimize(ctx, opt_cases[i:i + 1000], "C19 optimizer", model_ok)
    ctx.coverage["optimizer_feature_histogram"] = dict(sorted(ofeats.items()))

    # 5. ties of the expression-core printer and of the string literal printers with the Lean model
    tie_expressions(ctx, 1500 if ctx.tier == "quick" else 20000, model_ok)
    tie_strings(ctx, 600 if ctx.tier == "quick" else 8000, model_ok)

    ctx.coverage["rule"] = ("hand-written witnesses of every printer finding, the shipped examples/tests, texts that only have to parse "
                            "(all annotation/impl/type forms), typed random programs decorated with every literal, key, type, item and "
                            "statement form (see feature_histogram), optimizer programs with diverging statements followed by "
                            "live-looking code at every depth; random expressions and string values for the model ties; "
                            "non-trivial = distinct program text / expression with an operator / string with a character that needs an escape")
    ctx.coverage["traces_validated_against_impl"] = ctx.evaluations
    if ctx.broken and not ctx.violations:
        ctx.violation({"kind": "broken-tie", "broken": ctx.broken[:10], "log": st.get("log", "")[-3000:]},
                      "proof obligation or model/code correspondence no longer checks: " + "; ".join(ctx.broken[:3]),
                      no_input=True)


# ---------------------------------------------------------------------------------------------

def replay_fails(w):
    """Re-run one recorded input; True if the property fails on it."""
    kind = w.get("kind")
    if kind == "reprint":
        c = {"main": w["main"], "mods": w.get("mods") or {}, "mask": w.get("mask", False), "must_parse": True}
        g = core.go_lines("reprint", [line_for("reprint", c["main"], c["mods"])])[0]
        if g.startswith(("CRASH", "HANG")):
            g = core.go_lines("reprint", [line_for("reprint", c["main"], c["mods"], "(run false)")])[0]
            if g.startswith(("CRASH", "HANG")):
                return True
        probs = check_reprint_fields(fields(g), c)
        for p in probs:
            print("  fails:", p[0], "-", p[1][:300])
        return bool(probs)
    if kind == "optimize":
        g = core.go_lines("optimize", [line_for("optimize", w["main"], w.get("mods") or {}, "(ast true)")])[0]
        if g.startswith(("CRASH", "HANG")):
            print("  the run crashed:", dec(g)[:200])
            return True
        f = fields(g)
        print("  " + dec(" | ".join(f"{k}={v}" for k, v in f.items() if k in ("A", "DIAG", "VM0", "VM1", "TREE0", "TREE1")))[:900])
        if f.get("DIAG", "").startswith("PANIC"):
            return True
        for a0, a1 in (("VM0", "VM1"), ("TREE0", "TREE1")):
            if a0 in f and a1 in f and not f[a0].startswith(UNJUDGED) and obs(f[a0]) != obs(f[a1]):
                return True
        try:
            before, after = fn_bodies(sx_parse(f["AST"])), fn_bodies(sx_parse(f["OPT"]))
            for key, (stmts, tail) in before.items():
                ostmts, otail = after.get(key, (None, None))
                if ostmts is None or ostmts != stmts[:len(ostmts)] or otail != tail:
                    return True
        except Exception:                                        # noqa: BLE001
            pass
        return False
    if kind == "strlit":
        c = "(" + " ".join(str(k) for k in w["value_code_points"]) + ")"
        g = core.go_lines("strlit", [c])[0]
        print("  " + g[:300])
        f = fields(g)
        return not (f.get("RP", "").endswith(":" + c) and f.get("RP", "").startswith("1:") and f.get("RA") == f.get("RP"))
    if kind == "expr":
        pat = re.compile(r"OK toks=(.*?) tree=(.*?) print=(\S+)$")
        g1 = core.go_lines("parse", [x(w["text"])])[0]
        m1 = pat.match(g1)
        if not m1:
            print("  does not parse:", g1[:200])
            return False
        g2 = core.go_lines("parse", [m1.group(3)])[0]
        m2 = pat.match(g2)
        print("  tree:", m1.group(2), " printed:", unhex(m1.group(3)), " reparsed:", m2.group(2) if m2 else g2[:100])
        return not (m2 and m2.group(2) == m1.group(2) and m2.group(3) == m1.group(3))
    print("replay names a broken obligation, not an input:", w)
    return True


def replay(ctx, rep):
    ok, log = core.build_harness()
    if not ok:
        print(log)
        return 1
    if replay_fails(rep):
        print("VIOLATION property=C19 replay=(replayed)")
        return 1
    print("replay: property holds on this input now")
    return 0
