"""C10 — cancellation always stops execution promptly (partial w.r.t. real time / the Go scheduler).

Theorems: HmsProofs.C10 over Hms.Conc.Poll (run loop of a core with an arbitrary instruction
function and the regenerated quantum; the interpreter's poll per node) and Hms.Conc.Protocol
(Wait / cores / channels / locks, all interleavings).
Tie: a context whose Done() closes at the k-th poll drives the unmodified VM and interpreter
(`hv cancel`); for straight-line programs (prints and calls) the compiled listing is run by the
model (`pollmodel`): number of polls, prints seen before every poll, outcome of every k.
Oracle (implementation side): for every k up to completion the wait returns Terminate after
exactly k polls (no poll, no print after the cancellation; with n cores at most n-1 further
polls), the output is the prefix produced before poll k, beyond completion the program's own
outcome; the wait always returns (watchdog) and the goroutine count goes back to the baseline.
"""
import json
import os
import re
from concurrent.futures import ThreadPoolExecutor

from vlib import core
from vlib import tables
from gen import host as H

MODULES = ["HmsProofs.C10"]

# witness of the open finding V29 (NewVM panics when @init is interrupted)
V29_SRC = "fn main() { }\n"
# regression witnesses of fixed findings
H2_SRCS = ["fn main() { loop { } }\n", "fn main() { try { loop { } } catch e { print(\"never\"); } }\n",
            "fn main() { for i in 0..9000000000000000 { } }\n"]
# every kind of minimal loop body: the loop itself must poll, whatever its body does or does not execute
MINIMAL_BODIES = ["type T = int;", "let x = 1;", "1;", "{ }", "if false { };", "match 1 { _ => {} };", "for j in 0..2 { }", "continue;",
                  "type T = int; type U = T;", "null;", "let f = fn() { };"]
MINIMAL_LOOPS = ([f"fn main() {{ loop {{ {b} }} }}\n" for b in MINIMAL_BODIES]
                 + [f"fn main() {{ for i in 0..9000000000000000 {{ {b} }} }}\n" for b in MINIMAL_BODIES]
                 + [f"fn main() {{ while true {{ {b} }} }}\n" for b in MINIMAL_BODIES]
                 + [f"fn main() {{ let k = 0; loop {{ k += 1; loop {{ {b} }} }} }}\n" for b in MINIMAL_BODIES[:4]])
V19_SRC = "fn worker(n: int) { let i = 0; loop { i += n; } }\nfn main() { spawn worker(1); spawn worker(2); spawn worker(3); loop { } }\n"


def quantum():
    src = open(os.path.join(core.LEAN, "HmsGen", "Enums.lean")).read()
    m = re.search(r"def vmQuantum : Nat := (\d+)", src)
    return int(m.group(1)) if m else 50


def go_parallel(subcmd, lines, workers=8, timeout=900):
    if len(lines) < 2 * workers:
        return core.go_lines(subcmd, lines, timeout=timeout)
    step = (len(lines) + workers - 1) // workers
    chunks = [lines[i:i + step] for i in range(0, len(lines), step)]
    with ThreadPoolExecutor(max_workers=workers) as ex:
        outs = list(ex.map(lambda c: core.go_lines(subcmd, c, timeout=timeout), chunks))
    return [l for o in outs for l in o]


RUN = re.compile(r"^(\S+) k=(\d+) p0=(\d+) polls=(\d+) after=(\d+) out=(\S+) opp=\(([^)]*)\) tpp=\(([^)]*)\) maxgap=(\d+) gor=(\S+)$")


def parse_run(s):
    if s.startswith("SKIPPED"):
        return None
    m = RUN.match(s.strip())
    if not m:
        return {"outcome": "GARBLED", "raw": s}
    return {"outcome": m.group(1), "k": int(m.group(2)), "p0": int(m.group(3)), "polls": int(m.group(4)),
            "after": int(m.group(5)), "out": bytes.fromhex(m.group(6)[1:]), "opp": [int(x) for x in m.group(7).split() if x != "..."],
            "tpp": [int(x) for x in m.group(8).split() if x != "..."], "maxgap": int(m.group(9)), "gor": m.group(10), "raw": s}


def parse_line(line):
    """-> {"verdict":…, "vm": full, "vmk": [runs], "tree": full, "treek": [runs], "asm": str}"""
    d = {"verdict": "", "vm": None, "vmk": [], "tree": None, "treek": [], "asm": None}
    for part in line.split(" | "):
        if part.startswith("A="):
            d["verdict"] = part
        elif part.startswith("VM="):
            d["vm"] = parse_run(part[3:])
        elif part.startswith("VMk="):
            d["vmk"].append(parse_run(part[4:]))
        elif part.startswith("TREE="):
            d["tree"] = parse_run(part[5:])
        elif part.startswith("TREEk="):
            d["treek"].append(parse_run(part[6:]))
        elif part.startswith("ASM="):
            d["asm"] = part[4:]
    return d


def judge_backend(name, full, runs, ncores, finite, q):
    """Oracle on one backend. Returns violation (text, k) or None."""
    if full is not None:
        if full["outcome"] in ("HANG", "GARBLED") or full["outcome"].startswith("PANIC"):
            return f"{name}: uncancelled run: {full['outcome']}", 0
        if full["gor"] != "ok":
            return f"{name}: uncancelled run leaves goroutines behind ({full['gor']})", 0
        if name == "VM" and full["maxgap"] > q:
            return f"{name}: {full['maxgap']} prints between two polls of the context (quantum {q})", 0
    for r in runs:
        k = r["k"]
        if r["outcome"] == "HANG":
            return f"{name}: cancelled at poll {k}: the wait did not return within the watchdog (polls seen: {r['polls']})", k
        if r["outcome"] == "GARBLED" or r["outcome"].startswith("PANIC"):
            return f"{name}: cancelled at poll {k}: {r['outcome'][:120]}", k
        if r["gor"] != "ok":
            return f"{name}: cancelled at poll {k}: goroutines left behind after the wait returned ({r['gor']})", k
        before_end = full is None or k <= full["polls"]
        if before_end:
            if r["outcome"] != "TERM":
                return f"{name}: cancelled at poll {k} (of {full['polls'] if full else 'an endless run'}): outcome {r['outcome']}, expected a termination interrupt", k
            if r["polls"] < k or r["after"] > ncores - 1:
                return f"{name}: cancelled at poll {k}: {r['polls']} polls seen, {r['after']} after the cancellation (cores: {ncores})", k
            if ncores == 1 and full is not None:
                want = full["out"][:full["opp"][k - 1]] if k - 1 < len(full["opp"]) else None
                if want is not None and r["out"] != want:
                    return (f"{name}: cancelled at poll {k}: output {r['out']!r} is not what had been printed before that poll "
                            f"({want!r})"), k
        else:
            if r["outcome"] != full["outcome"]:
                return f"{name}: cancelled after completion (poll {k} > {full['polls']}): outcome {r['outcome']}, the program's own outcome is {full['outcome']}", k
            if ncores == 1 and r["out"] != full["out"]:
                return f"{name}: cancelled after completion: output differs from the uncancelled run", k
    return None


def judge(case, line, q):
    if line.startswith(("CRASH", "HANG", "PANIC")):
        return f"harness process died: {line[:160]}", 0, None
    d = parse_line(line)
    if not d["verdict"].startswith("A=ACCEPT"):
        return f"program not accepted: {d['verdict'][:200]}", 0, None
    for name, full, runs in (("VM", d["vm"], d["vmk"]), ("TREE", d["tree"], d["treek"])):
        nc = case["ncores"] if name == "VM" else 1
        v = judge_backend(name, full, runs, nc, case["finite"], q)
        if v:
            return v[0], v[1], name
    return None, 0, None


def model_tie(ctx, cases, lines):
    """Straight-line programs: the listing machine of the model must reproduce the polls."""
    model_in, idx = [], []
    for i, (c, line) in enumerate(zip(cases, lines)):
        if c["cls"] != "straight" or line.startswith(("CRASH", "HANG", "PANIC")):
            continue
        d = parse_line(line)
        if not d["asm"] or not d["vm"]:
            continue
        fns = H.listing_ops(d["asm"])
        if fns is None:
            ctx.coverage["straight_not_straight"] = ctx.coverage.get("straight_not_straight", 0) + 1
            continue
        ks = [r["k"] for r in d["vmk"]]
        model_in.append(H.poll_model_line(fns, H.xhex("@main.main"), ks))
        model_in.append(H.poll_model_line(fns, H.xhex("@main.@init"), []))
        idx.append((i, d))
    if not model_in:
        return
    out = core.lean_lines(model_in)
    bad = 0
    for j, (i, d) in enumerate(idx):
        mm, mi = out[2 * j], out[2 * j + 1]
        parts = mm.split(" | ")
        m = re.match(r"FULL sig=(\S+) steps=(\d+) polls=(\d+) tpp=\(([^)]*)\)", parts[0])
        problems = []
        if not m:
            problems.append(f"model answered {mm[:100]}")
        else:
            tpp = [int(x) for x in m.group(4).split()]
            if int(m.group(3)) != d["vm"]["polls"] or tpp != d["vm"]["tpp"]:
                problems.append(f"polls/prints-before-poll: go={d['vm']['polls']} {d['vm']['tpp']} model={m.group(3)} {tpp}")
            if m.group(1) != "nil" or d["vm"]["outcome"] != "OK":
                problems.append(f"outcome go={d['vm']['outcome']} model={m.group(1)}")
            for r, p in zip(d["vmk"], parts[1:]):
                if p.endswith("beyond"):
                    if r["outcome"] != "OK":
                        problems.append(f"k={r['k']}: go={r['outcome']} model=beyond the last poll")
                    continue
                pm = re.match(r"k=(\d+) sig=(\S+) polls=(\d+) prints=(\d+)", p)
                go_prints = d["vm"]["tpp"][r["k"] - 1] if r["k"] - 1 < len(d["vm"]["tpp"]) else None
                if not pm or pm.group(2) != "terminate" or r["outcome"] != "TERM" or int(pm.group(3)) != r["polls"] \
                        or (go_prints is not None and int(pm.group(4)) != go_prints):
                    problems.append(f"k={r['k']}: go={r['outcome']} polls={r['polls']} model={p}")
        mi_m = re.match(r"FULL sig=(\S+) steps=(\d+) polls=(\d+)", mi)
        if not mi_m or int(mi_m.group(3)) != d["vm"]["p0"]:
            problems.append(f"polls during construction: go={d['vm']['p0']} model={mi[:60]}")
        ctx.coverage["model_ties"] = ctx.coverage.get("model_ties", 0) + 1
        if problems:
            bad += 1
            if bad <= 3:
                ctx.broken.append(f"correspondence:pollmodel:{problems[0]} src={cases[i]['src'][:200]!r}")


def gen_cases(ctx):
    rng = ctx.rng
    quick = ctx.tier == "quick"
    cases = []
    for _ in range(150 if quick else 800):
        cases.append({"cls": "straight", "src": H.gen_straight(rng, rng.choice([6, 20, 45, 90])), "ncores": 1, "finite": True,
                      "line_opts": dict(ks=["all"], backends=("vm",), asm=True)})
    for _ in range(150 if quick else 1000):
        cases.append({"cls": "finite", "src": H.gen_finite(rng), "ncores": 1, "finite": True,
                      "line_opts": dict(ks=["all"], maxk=40 if quick else 400, stride=rng.choice([1, 1, 2, 3, 7]))})
    for b in H.INFINITE_BODIES:
        for _ in range(2 if quick else 10):
            ks = sorted(set([1, 2, 3] + [rng.randrange(1, 60) for _ in range(3)] + [rng.randrange(60, 400)]))
            cases.append({"cls": "infinite", "src": H.INF_HELPERS + "fn main() { " + b + " }\n", "ncores": 1, "finite": False,
                          "line_opts": dict(ks=ks, full=False)})
    for _ in range(80 if quick else 600):
        src, n, fin = H.gen_spawn_cancel(rng)
        if fin:
            opts = dict(ks=["all"], backends=("vm",), stride=rng.choice([1, 2, 3]), maxk=30)
        else:
            opts = dict(ks=sorted(set([1, 2, rng.randrange(3, 12), rng.randrange(12, 80)])), backends=("vm",), full=False)
        cases.append({"cls": "spawn", "src": src, "ncores": n, "finite": fin, "line_opts": opts})
    return cases


def case_line(c):
    o = dict(c["line_opts"])
    stride = o.pop("stride", None)
    line = H.cancel_line(c["src"], o.pop("ks"), **o)
    if stride:
        line = line.replace("(main ", f"(stride {stride}) (main ", 1)
    return line


def run_cases(ctx, cases, stage, have_model, q):
    lines = go_parallel("cancel", [case_line(c) for c in cases])
    for c, line in zip(cases, lines):
        viol, k, backend = judge(c, line, q)
        d = parse_line(line) if not line.startswith(("CRASH", "HANG", "PANIC")) else None
        nruns = (len(d["vmk"]) + len(d["treek"])) if d else 0
        ctx.count(case_key=c["src"], nontrivial=nruns >= 2)
        ctx.coverage["cancel_points"] = ctx.coverage.get("cancel_points", 0) + nruns
        ctx.coverage["programs_" + c["cls"]] = ctx.coverage.get("programs_" + c["cls"], 0) + 1
        if viol:
            if len(ctx.violations) >= 3:
                ctx.violations.append({"what": viol, "replay": "(not recorded)"})
            else:
                ctx.violation({"kind": "cancel", "src": c["src"], "k": k, "backend": backend, "ncores": c["ncores"],
                               "finite": c["finite"], "opts": {kk: (list(v) if isinstance(v, tuple) else v) for kk, v in c["line_opts"].items()},
                               "go": line[:1500]}, f"{stage}: {viol}")
        ctx.sample({"class": c["cls"], "src": c["src"][-160:], "go": line[:240]})
    if have_model:
        model_tie(ctx, cases, lines)


def run(ctx):
    st = core.prepare(ctx, MODULES)
    ctx.assumptions += [
        "real-time promptness and the fairness of the Go scheduler are outside the model: bounds are in steps of a core "
        "(instructions, frame pops), node visits of the interpreter and steps of Wait; the run samples them under a watchdog",
        "cancellation indices count polls after VM construction (NewVM runs @init and panics on any interrupt: open finding V29)",
        "a blocking builtin is prompt only if it polls the context itself (time.sleep of the testing executor does, every 10 ms)",
    ]
    if not st["harness"] or not st["dump"]:
        ctx.violation({"kind": "build", "log": st.get("log", "")[-3000:]},
                      "harness or table dump no longer builds against the repository", no_input=True)
        return
    have_model = bool(st["model"])
    if not have_model:
        ctx.note("Lean model/driver does not build; running the implementation-side oracle only")
    q = quantum()
    ctx.coverage["quantum"] = q
    # 1. open findings: replay their witnesses
    for e in core.load_known(ctx.prop):
        w = e.get("witness", {})
        if e.get("status") == "open" and w.get("kind") == "cancel-abs":
            line = H.cancel_line(w["src"], [w["k"]], backends=("vm",), full=False).replace("(main ", "(abs true) (main ", 1)
            g = core.go_lines("cancel", [line], timeout=60)[0]
            if "PANIC" in g or g.startswith("CRASH"):
                ctx.known(e["id"], e.get("what", "NewVM panics when the initialisation is interrupted"))
            else:
                ctx.note(f"known finding {e['id']}: witness no longer fails")
    # 2. regression witnesses of fixed findings
    reg = [{"cls": "infinite", "src": s, "ncores": 1, "finite": False, "line_opts": dict(ks=[1, 2, 5, 9], full=False)} for s in H2_SRCS]
    reg += [{"cls": "infinite", "src": s, "ncores": 1, "finite": False, "line_opts": dict(ks=[1, 3, 7], full=False)} for s in MINIMAL_LOOPS]
    reg.append({"cls": "spawn", "src": V19_SRC, "ncores": 4, "finite": False, "line_opts": dict(ks=[3, 9, 20], backends=("vm",), full=False)})
    run_cases(ctx, reg, "C10 regression", False, q)
    # 3. generated programs
    cases = gen_cases(ctx)
    if ctx.violations:
        cases = cases[:40]
    for i in range(0, len(cases), 200):
        run_cases(ctx, cases[i:i + 200], "C10", have_model, q)
        if len(ctx.violations) >= 5:
            break
    ctx.coverage["rule"] = (
        "straight-line programs (prints, nested calls; every poll index exhaustively, tied to the model's listing machine); "
        "finite programs with for/while/loop, calls and recursion, try/catch in loops, match, sleep, a final uncaught throw "
        "(every poll index up to a cap, then strided, plus the last poll and one beyond completion; VM and interpreter); "
        "endless programs incl. handlers around the loop, nested handlers, sleeping loops, loops inside callees (sampled poll "
        "indices up to 400); programs spawning 1..4 cores (endless, sleeping, mixed, finite); non-trivial = distinct program "
        "with >= 2 cancellation points")
    ctx.coverage["traces_validated_against_impl"] = ctx.coverage.get("cancel_points", 0)
    if ctx.broken and not ctx.violations:
        ctx.violation({"kind": "broken-tie", "broken": ctx.broken[:10], "log": st.get("log", "")[-3000:]},
                      "proof obligation or model/code correspondence no longer checks: " + "; ".join(ctx.broken[:3]),
                      no_input=True)


def replay(ctx, rep):
    ok, log = core.build_harness()
    if not ok:
        print(log)
        return 1
    if rep.get("kind") != "cancel":
        print("replay names a broken obligation, not an input:", json.dumps(rep)[:2000])
        return 1
    c = {"cls": "replay", "src": rep["src"], "ncores": rep.get("ncores", 1), "finite": rep.get("finite", True),
         "line_opts": rep.get("opts", dict(ks=[rep.get("k", 1)]))}
    if "backends" in c["line_opts"]:
        c["line_opts"]["backends"] = tuple(c["line_opts"]["backends"])
    line = core.go_lines("cancel", [case_line(c)], timeout=300)[0]
    print("program:\n" + rep["src"])
    for p in line.split(" | "):
        print("  go:", p[:300])
    v, k, b = judge(c, line, quantum())
    if v is None:
        print("replay: property holds on this input now")
        return 0
    print("  " + v)
    print("VIOLATION property=C10 replay=(replayed)")
    return 1
