"""C04 — the tree-walking interpreter and the VM agree.

Theorems: HmsProofs.C04 (fatal-kind vocabularies of the two backends are in bijection —
regenerated tables) plus the C01 theorems about the shared specification semantics.
Tie: Go interpreter outcome == Lean `runProgram` outcome (the same specification the VM is
tied to in C01). Oracle: Go interpreter outcome == Go VM outcome (output, completion /
fatal kind + message) on programs of the shared language.
"""
from gen import progs, families, nesting
from vlib import core, progstream, known
from props.C01 import CORPUS

# C01VM: on the proved fragment the VM model computes what the specification (= the model of the tree-walking
# interpreter) computes; audited here too because agreement of the backends rests on it
MODULES = ["HmsProofs.C04", "HmsProofs.C01VM"]


def judge(ctx, srcs, label):
    """srcs: main texts, or (main, mods, singletons) triples (see progstream.run_all)."""
    res = progstream.run_all(srcs)
    for case, r in zip(srcs, res):
        src, rec = progstream.source_text(case), progstream.source_record(case)
        if r.get("crashed"):
            ctx.count(case_key=src, nontrivial=True)
            ctx.violation({"kind": "prog", **rec, "go": r["A"][:400]}, f"{label}: a backend crashed the host: {r['A'][:120]}")
            continue
        if not r["A"].startswith("ACCEPT"):
            continue
        vm, tree, spec = r.get("VM"), r.get("TREE"), r.get("SPEC")
        if vm is None or tree is None:
            continue
        ctx.count(case_key=src, nontrivial=len(vm.get("out", "")) > 0 or vm["cls"] != "OK")
        ctx.sample({"main": src[:300], "vm": vm["raw"][:160], "tree": tree["raw"][:160]}, limit=4)
        for name, o in (("VM", vm), ("interpreter", tree)):
            if o["cls"] in ("PANIC", "CRASH", "HANG", "INTERRUPT", "COMPILE-ERROR"):
                ctx.violation({"kind": "prog", **rec, "vm": vm["raw"][:400], "tree": tree["raw"][:400]},
                              f"{label}: the {name} ended with {o['cls']} ({o.get('what', '')[:80]})")
                break
        else:
            if "TERM" in (vm["cls"], tree["cls"]):
                # wall-clock guard of the harness: re-run alone with a generous limit
                rr = progstream.run_all([case], with_spec=False, timeout_ms=60000)[0]
                vm, tree = rr.get("VM", vm), rr.get("TREE", tree)
            if not progstream.same_outcome(vm, tree):
                ctx.violation({"kind": "prog", **rec, "vm": vm["raw"][:600], "tree": tree["raw"][:600]},
                              f"{label}: backends disagree (vm: {vm['cls']} {vm.get('kind', '')} {vm.get('msg', '')[:40]!r} out={vm.get('out', '')[-50:]!r}; "
                              f"interpreter: {tree['cls']} {tree.get('kind', '')} {tree.get('msg', '')[:40]!r} out={tree.get('out', '')[-50:]!r})")
                continue
            if spec and spec["cls"] not in ("UNSUPPORTED", "TIMEOUT", "DECODE-ERROR") and not progstream.same_outcome(tree, spec):
                ctx.broken.append(f"correspondence:interpreter-vs-spec:{src[:80]!r}")


def run(ctx):
    st = core.prepare(ctx, MODULES)
    ctx.assumptions += [
        "shared language only: no spawn, no trigger statements, no -> / ~> member access",
        "programs inside the fragment of the partial theorems (see C01); the zones of the open findings V12, V13, V23 are not generated",
    ]
    if not st["harness"] or not st["dump"] or not st["model"]:
        ctx.violation({"kind": "build", "log": st.get("log", "")[-3000:]}, "harness, table dump or Lean model no longer builds", no_input=True)
        return
    known.replay_open(ctx, "C04")
    judge(ctx, CORPUS, "C04 corpus")
    known_srcs = {e["witness"]["main"] for e in core.load_known("C04") if e.get("status") == "open" and e.get("witness", {}).get("kind") == "prog"}
    for fam, fsrcs in families.all_families().items():
        fsrcs = [x for x in fsrcs if not (isinstance(x, str) and x in known_srcs)]
        for i in range(0, len(fsrcs), 1500):
            judge(ctx, fsrcs[i:i + 1500], f"C04 family {fam}")
        ctx.coverage[f"family_{fam}"] = len(fsrcs)
    # singletons: both backends are handed the same host values (LoadSingleton)
    sing = families.singleton_cases()
    before = ctx.evaluations
    judge(ctx, sing, "C04 family singletons")
    ctx.coverage["family_singletons"] = len(sing)
    ctx.coverage["family_singletons_host_provided"] = sum(1 for c in sing if c[2])
    if ctx.evaluations - before < len(sing):
        ctx.broken.append(f"singleton family: only {ctx.evaluations - before} of {len(sing)} programs were accepted by the analyzer")
    # the control-flow nestings of C11 (exits out of loops, try/catch, calls, with shadowed canaries), here VM vs interpreter
    nest = [nesting.program(ws, x) for ws, x, _ in nesting.enumerate_all(2 if ctx.tier == "quick" else 3)]
    if ctx.tier != "quick":
        nest = nest[:600] + ctx.rng.sample(nest[600:], min(len(nest) - 600, 2500))
    for i in range(0, len(nest), 1500):
        judge(ctx, nest[i:i + 1500], "C04 nesting")
    ctx.coverage["family_nesting"] = len(nest)
    n = 1200 if ctx.tier == "quick" else 20000
    srcs = [progs.generate_case(ctx.rng, max_depth=ctx.rng.choice([2, 3, 3, 4]), allow_singletons=True)[0] for _ in range(n)]
    ctx.coverage["programs_with_singletons"] = sum(1 for c in srcs if isinstance(c, tuple))
    for i in range(0, len(srcs), 2000):
        judge(ctx, srcs[i:i + 2000], "C04")
    ctx.coverage["rule"] = ("typed random programs of the shared language run on the real interpreter, the real compiler+VM "
                            "and the Lean specification semantics; non-trivial = distinct program with output or a fatal outcome")
    ctx.coverage["traces_validated_against_impl"] = ctx.evaluations
    if ctx.evaluations < 0.7 * n:
        ctx.broken.append(f"generator drift: only {ctx.evaluations} of {n} generated programs were accepted and inside the model")
    if ctx.broken and not ctx.violations:
        ctx.violation({"kind": "broken-tie", "broken": ctx.broken[:10], "log": st.get("log", "")[-3000:]},
                      "proof obligation or model/code correspondence no longer checks: " + "; ".join(ctx.broken[:3]), no_input=True)


def replay(ctx, rep):
    ok, log = core.build_harness()
    if not ok:
        print(log)
        return 1
    if rep.get("kind") != "prog":
        print("replay names a broken obligation, not an input:", rep)
        return 1
    r = progstream.run_all([progstream.source_of_record(rep)], with_spec=False)[0]
    print(progstream.source_text(progstream.source_of_record(rep)))
    vm, tree = r.get("VM"), r.get("TREE")
    print("VM:  ", vm and vm["raw"])
    print("TREE:", tree and tree["raw"])
    if vm and tree and progstream.same_outcome(vm, tree):
        print("replay: property holds on this input now")
        return 0
    print("VIOLATION property=C04 replay=(replayed)")
    return 1
