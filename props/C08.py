"""C08 — every reported position is real, points at the culprit and can be rendered.

Theorems: HmsProofs.C08 (`render_safe`: a span whose ends are real positions of the text, start not
after end, is rendered by both renderers without an index out of range or a negative Repeat count —
over Lean transcriptions of errors.Error.Display / diagnostic.Diagnostic.Display; counterexamples for
the three failure shapes; token spans, error spans and every start_i.Until(end_j) of the proved lexer
model are such spans).
Tie: the transcriptions' verdict == what the two Go functions actually do (panic or not), on arbitrary
spans over small texts (exhaustive-ish grid + random) and on every span the parser/analyzer reported in
the run; the harness' position verdict == the model's `InText`.
Oracle (implementation side): every syntax error names a location inside the named file's text; every
diagnostic does or is the whole-file position; start <= end; `Display` returns; for directed cases
(static and runtime, in the entry module and in an imported module, single- and multi-line, at end of
input) the reported position lies inside the culprit construct the generator planted, on both backends.
"""
import collections
import itertools
import re

from vlib import core
from gen import totalgen as tg

MODULES = ["HmsProofs.C08"]
MAX_VIOLATIONS = 8


def cps(s):
    return "(" + " ".join(str(ord(c)) for c in s) + ")"


def item_problem(it):
    """Why this reported position violates the property (None = fine)."""
    is_syntax = it.tag in ("PS", "PH", "AS")
    if it.pos.startswith("bad"):
        return f"position is not a location of the text of the file it names ({it.pos[4:]})"
    if is_syntax and it.pos != "in":
        return "a syntax error carries the whole-file position (errors.Error.Display cannot render it)"
    if it.tag == "AD" and it.pos == "whole-nofile" and str(getattr(it, "kind", "")) == "3" and getattr(it, "syntax_clean", False):
        # (judged on syntactically valid programs whose only error this is: with syntax errors, or after another error, the
        # analyzer works on recovery nodes and values that carry no position)
        return "the only error of a syntactically valid program names no file and no location (the all-zero span)"
    if not it.ord:
        return "start lies after end"
    if it.disp != "ok":
        return "Display panics: " + bytes.fromhex(it.disp.split(":x", 1)[1]).decode("utf-8", "replace")[:100]
    return None


def report_item(ctx, case, it, why, stage, seen):
    sig = (it.tag, why[:60], it.msg[:24])
    seen[sig] = seen.get(sig, 0) + 1
    if seen[sig] > 1 or len(ctx.violations) >= MAX_VIOLATIONS:
        return
    small = case

    def same(c):
        r = tg.run_total([c], limit=10)[0]
        return bool(r is not None and r.total_ok and any(item_problem(x) == why and x.msg[:24] == it.msg[:24] for x in r.items))
    if len(case["main"]) < 20000:
        try:
            small = tg.shrink(case, same, 200)
        except Exception:
            small = case
    rep = tg.case_replay(small, case.get("stream"))
    rep["kind"] = "position"
    rep["message_prefix"] = it.msg[:24]
    ctx.violation(rep, f"{stage}: {'syntax error' if it.tag != 'AD' else 'diagnostic'} {it.msg[:60]!r} at "
                       f"{it.file}:{it.span} on {small['main'][:80]!r}: {why}")


# ---------------------------------------------------------------------------
# ties
# ---------------------------------------------------------------------------

def disp_tie(ctx):
    """Arbitrary spans: Lean transcription vs the real Display functions."""
    rng = ctx.rng
    texts = ["", "a", "ab\ncd", "\n", "a\n", "é∑\nx", "ab\n\ncd\n", "😀b\nc"]
    vals = [0, 1, 2, 3, 4, 9]
    cases = []
    # grid on "ab\ncd": all (sl, sc, el, ec) over vals
    for sl, sc, el, ec in itertools.product(vals, repeat=4):
        cases.append(("ab\ncd", (sl, sc, 0, el, ec, 0), 3))
    n = 4000 if ctx.tier == "quick" else 60000
    for _ in range(n):
        t = rng.choice(texts) if rng.random() < 0.5 else "".join(rng.choice("ab\n é") for _ in range(rng.randrange(0, 12)))
        sp = tuple(rng.choice(vals + [rng.randrange(0, 20)]) for _ in range(6))
        cases.append((t, sp, rng.randrange(0, 4)))
    # the wrap-around edge: end column = start column - 1 gives Repeat(…, 0)
    for sc in range(1, 6):
        cases.append(("abcdef", (1, sc, 0, 1, sc - 1, 0), 3))
    go = core.go_lines("disp", [f"(disp {tg.xhex(t)} {' '.join(map(str, sp))} {lvl})" for t, sp, lvl in cases])
    lean = core.lean_lines([f"rendercheck {cps(t)} {' '.join(map(str, sp))}" for t, sp, _ in cases])
    bad = 0
    agree = collections.Counter()
    for (t, sp, lvl), g, l in zip(cases, go, lean):
        ctx.count(case_key=("disp", t, sp, lvl), nontrivial=True)
        gm = re.match(r"err=(\w+)\S* diag=(\w+)", g)
        lm = re.match(r"err=(\w+) diag=(\w+)", l)
        if not gm or not lm:
            bad += 1
            ctx.broken.append(f"correspondence:render:{t!r}{sp}: go={g[:60]} lean={l[:60]}")
            continue
        agree[(gm.group(1), gm.group(2))] += 1
        if gm.groups() != lm.groups():
            bad += 1
            if bad <= 3:
                ctx.broken.append(f"correspondence:render:{t!r} span={sp} level={lvl}: go={gm.groups()} model={lm.groups()}")
    ctx.coverage["tie_render_arbitrary"] = {"cases": len(cases), "mismatches": bad,
                                            "go_outcomes(err,diag)": {f"{a}/{b}": n for (a, b), n in agree.items()}}
    return bad


def reported_tie(ctx, pool):
    """Spans actually reported in this run: model verdicts (position class, both renderers) vs observed."""
    if not pool:
        return 0
    lean = core.lean_lines([f"rendercheck {cps(text)} {' '.join(map(str, it.span))}" for text, it in pool])
    bad = 0
    for (text, it), l in zip(pool, lean):
        m = re.match(r"err=(\w+) diag=(\w+) pos=(\w+) ord=(\d)", l)
        ctx.count(case_key=("reported", text, it.span), nontrivial=True)
        want_pos = {"in": "in", "whole": "whole", "whole-nofile": "whole"}.get(it.pos, "bad")
        got = (it.edisp.split(":")[0], it.ddisp.split(":")[0], want_pos, "1" if it.ord else "0")
        if not m or m.groups() != got:
            bad += 1
            if bad <= 3:
                ctx.broken.append(f"correspondence:reported-span:{it.span} of {text[:40]!r}: go={got} model={l}")
    return bad


# ---------------------------------------------------------------------------
# directed cases
# ---------------------------------------------------------------------------

def inside(span4, rng4):
    """(sl, sc, el, ec) lies within the inclusive range (line/column order)."""
    return (rng4[0], rng4[1]) <= (span4[0], span4[1]) <= (span4[2], span4[3]) <= (rng4[2], rng4[3])


OPT_CASES = [
    # (source, diverging statement, first dead statement): the optimizer's warning lies within the dead statement, its hint
    # within the statement that diverges
    ('fn f(n: int) -> int {\n    let a = n + 1;\n    return n * 2;\n    println("never printed");\n    a\n}\nfn main() {\n    println(f(4));\n}\n', "return n * 2;", 'println("never printed");'),
    ('fn main() {\n    let i = 0;\n    loop {\n        i += 1;\n        if i > 2 {\n            break;\n        }\n    }\n    println(i);\n    throw("stop");\n    println("dead one");\n    println("dead two");\n}\n', 'throw("stop");', 'println("dead one");'),
    ('fn spin() {\n    // c\n    loop {\n    }\n    let unreachable_local = 1;\n    println(unreachable_local);\n}\nfn main() {\n    println(1);\n}\n', "loop {\n    }", "let unreachable_local = 1;"),
]


def optimizer_directed(ctx):
    from props.C19 import line_for
    go = core.go_lines("optimize", [line_for("optimize", src, None, "") for src, _, _ in OPT_CASES], timeout=120)
    for (src, div, dead), g in zip(OPT_CASES, go):
        ctx.count(case_key=("optimizer", src), nontrivial=True)
        rep = {"kind": "optimizer-directed", "main": src}
        od = [p for p in g.split(" | ") if p.startswith("ODIAGS=")]
        if g.startswith(("CRASH", "HANG", "PANIC")) or not od:
            ctx.broken.append(f"generator:optimizer: no optimizer diagnostics for {src[:60]!r}: {g[:120]}")
            continue
        items = []
        for it in od[0][len("ODIAGS="):].split(";"):
            if it:
                lvl, sp, f, m = it.split("@")
                a, e = sp.split("-")
                items.append((int(lvl), tuple(int(x) for x in a.split(".")) + tuple(int(x) for x in e.split(".")), core.unhex(f), core.unhex(m)))
        for prefix, lvl, culprit in (("Unreachable statement", 2, dead), ("Any code following this statement", 0, div)):
            hits = [it for it in items if it[0] == lvl and it[3].startswith(prefix)]
            if not hits:
                ctx.broken.append(f"generator:optimizer: expected message {prefix!r} not reported for {src[:60]!r}")
                continue
            rng_ = tg.locate(src, culprit)
            _, sp, f, m = hits[0]
            if f != "main" or not inside(sp, rng_):
                ctx.violation(dict(rep, message=m, span=list(sp), culprit_range=list(rng_)),
                              f"C08 optimizer: {m[:50]!r} is reported at {f}:{sp}, the culprit {culprit!r} is at main:{rng_}")


def static_directed(ctx, seen):
    cases = tg.static_cases(ctx.rng, 2 if ctx.tier == "quick" else 12)
    res = tg.run_total(cases)
    n_bad = 0
    for c, r in zip(cases, res):
        ctx.count(case_key=("static", c["text"], c["where"]), nontrivial=True)
        if r is None or not r.total_ok:
            continue
        want_tag = ("AS",) if c["level"] == "syn" else ("AD",)
        hits = [it for it in r.items if it.tag in want_tag and it.msg.startswith(c["prefix"][:len(it.msg)] if len(it.msg) < len(c["prefix"]) else c["prefix"])
                and (c["level"] == "syn" or it.kind == c["level"])]
        if not hits:
            n_bad += 1
            if n_bad <= 2:
                ctx.broken.append(f"generator:static:{c['name']}: expected message {c['prefix']!r} not reported: {r.raw[:200]}")
            continue
        it = hits[0]
        s4 = (it.span[0], it.span[1], it.span[3], it.span[4])
        if it.file != c["file"] or not inside(s4, c["range"]):
            rep = tg.case_replay(c, "static:" + c["name"])
            rep.update(kind="position-directed", culprit_range=list(c["range"]), file=c["file"], prefix=c["prefix"], level=c["level"])
            sig = ("static", c["name"])
            seen[sig] = seen.get(sig, 0) + 1
            if seen[sig] == 1 and len(ctx.violations) < MAX_VIOLATIONS:
                ctx.violation(rep, f"C08 static:{c['name']} ({c['where']}): {it.msg[:50]!r} is reported at {it.file}:{s4}, "
                                   f"the culprit {c['culprit']!r} is at {c['file']}:{c['range']}")
    ctx.coverage["directed_static"] = {"cases": len(cases), "kinds": len(tg.STATIC_CULPRITS)}


SPAN_RE = re.compile(r"span=(\d+)\.(\d+)\.(\d+)-(\d+)\.(\d+)\.(\d+)@x([0-9a-f]*)")


def runtime_judge(c, answer):
    """Problems of one `hv spans` answer for a runtime case (list of strings)."""
    probs = []
    parts = dict(p.split("=", 1) for p in answer.split(" | ") if "=" in p)
    if not parts.get("A", "").startswith("ACCEPT"):
        return ["generator: program rejected: " + answer[:160]], 0
    cands = parts.get("C", "").split(" ")
    want = f"@{tg.xhex(c['file'])}:{c['range'][0]}.{c['range'][1]}-{c['range'][2]}.{c['range'][3]}"
    kind = c["kind"].split(":")[0]
    if not any(x.startswith(kind + ":") and x.endswith(want) for x in cands):
        probs.append(f"generator: the culprit range {c['range']} is not a '{kind}' construct of the analysed AST")
    seen_pos = 0
    for be in ("VM", "TREE"):
        out = parts.get(be, "")
        if out.startswith("PANIC"):
            continue       # host panics are C02's business
        m = SPAN_RE.search(out)
        if m:
            seen_pos += 1
            sl, sc, si, el, ec, ei = (int(x) for x in m.groups()[:6])
            f = bytes.fromhex(m.group(7)).decode()
            text = (c["main"] if f == "main" else c["mods"].get(f, ""))
            if f != c["file"]:
                probs.append(f"{be}: interrupt names file {f!r}, the culprit is in {c['file']!r}")
            elif not inside((sl, sc, el, ec), c["range"]):
                probs.append(f"{be}: interrupt span {(sl, sc, el, ec)} is not inside the culprit {c['culprit']!r} at {c['range']}")
            elif not (si <= ei <= len(text)) or tg.locate_index(text, si) != (sl, sc) or tg.locate_index(text, ei) != (el, ec):
                probs.append(f"{be}: interrupt span {(sl, sc, si, el, ec, ei)} is not a real position of {f!r}")
        om = re.search(r"out=x([0-9a-f]*)", out)
        printed = bytes.fromhex(om.group(1)).decode("utf-8", "replace") if om else ""
        pm = re.search(r"@@ (\d+) (\d+) (\S+) @@", printed)
        if pm:
            seen_pos += 1
            line, col, f = int(pm.group(1)), int(pm.group(2)), pm.group(3)
            if f != c["file"]:
                probs.append(f"{be}: caught error names file {f!r}, the culprit is in {c['file']!r}")
            elif not inside((line, col, line, col), c["range"]):
                probs.append(f"{be}: caught error position {(line, col)} is not inside the culprit {c['culprit']!r} at {c['range']}")
    return probs, seen_pos


def runtime_directed(ctx, seen):
    cases = tg.runtime_cases(ctx.rng, 1 if ctx.tier == "quick" else 8)
    res = core.go_lines("spans", [tg.run_line(c) for c in cases], args=("-limit", "20"))
    judged = 0
    gen_problems = 0
    unjudged = 0
    for c, r in zip(cases, res):
        ctx.count(case_key=("runtime", c["main"], tuple(sorted(c["mods"].items()))), nontrivial=True)
        if r.startswith(("CRASH", "HANG", "PANIC")):
            unjudged += 1       # the host died (property C02); no position to judge
            continue
        probs, npos = runtime_judge(c, r)
        judged += npos
        if npos == 0:
            unjudged += 1
        for p in probs:
            if p.startswith("generator:"):
                gen_problems += 1
                if gen_problems <= 2:
                    ctx.broken.append(f"{p} [{c['name']}/{c['where']}]")
                continue
            sig = ("runtime", c["name"], p.split(":")[0], p.split(" ")[1] if " " in p else "")
            seen[sig] = seen.get(sig, 0) + 1
            if seen[sig] == 1 and len(ctx.violations) < MAX_VIOLATIONS:
                rep = {"kind": "position-runtime", "main": tg.xhex(c["main"]), "mods": {k: tg.xhex(v) for k, v in c["mods"].items()},
                       "file": c["file"], "culprit_range": list(c["range"]), "culprit": c["culprit"], "culprit_kind": c["kind"],
                       "name": c["name"], "main_text": c["main"][:600]}
                ctx.violation(rep, f"C08 runtime:{c['name']} ({c['where']}, {'caught' if c['caught'] else 'uncaught'}): {p}")
    ctx.coverage["directed_runtime"] = {"cases": len(cases), "positions_judged": judged, "kinds": len(tg.CULPRITS),
                                        "cases_without_a_position": unjudged}
    if unjudged * 4 > len(cases):
        ctx.broken.append(f"directed-runtime: {unjudged} of {len(cases)} programs produced no position to judge "
                          f"(first answer: {next((r for r in res if r.startswith(('CRASH', 'HANG', 'PANIC'))), res[0])[:160]})")


# ---------------------------------------------------------------------------

def run(ctx):
    st = core.prepare(ctx, MODULES)
    ctx.assumptions += [
        "a position is 'real' when its rune index is <= the number of runes of the named file's text and its line and column "
        "are the ones recomputed from the text (1 + newlines before, 1 + runes since the last newline); the end-of-input "
        "position is a real position",
        "the all-zero span is the explicit whole-file position; diagnostics about builtin definitions carry it without a file "
        "name (counted, accepted); syntax errors must never carry it (errors.Error.Display has no case for it)",
        "containment in the culprit construct is judged on directed programs whose culprit position is known by construction "
        "(and cross-checked against the analysed AST), not on fuzzed inputs",
        "texts of the arbitrary-span tie are valid UTF-8 (the byte length of a line is the UTF-8 size of its runes)",
    ]
    if not st["harness"] or not st["dump"] or not st["model"]:
        ctx.violation({"kind": "build", "log": st.get("log", "")[-3000:]},
                      "harness, table dump or Lean model no longer builds against /repo", no_input=True)
        return
    # open findings: replayed, printed as KNOWN-FINDING while their witness still fails
    for e in core.load_known("C08"):
        w = e.get("witness", {})
        if e.get("status") == "open" and w.get("kind") == "position":
            r = tg.run_total([{"main": tg.b(w["main"]), "mods": {}}], limit=20)[0]
            if r is not None and any(it.tag == "AD" and it.kind == 3 and it.pos == "whole-nofile" for it in r.items):
                ctx.known(e["id"], e["what"])
            else:
                ctx.note(f"witness of open finding {e['id']} no longer fails as recorded")
    ctx.assumptions.append("an error at the all-zero span is judged when it is the only error of a syntactically valid program; as a "
                           "follow-up of other errors it is the open finding A17 (counted under pos=whole-nofile)")
    seen = {}
    toks = tg.token_texts()
    corp = tg.corpus_files()

    # 1. every position reported on the totality streams
    streams = tg.build_streams(ctx, toks, corp)
    per_stream = {}
    pos_classes = collections.Counter()
    tags = collections.Counter()
    pool = []
    multi_line = eof_pos = in_module = 0
    for name, cases in streams:
        if len(ctx.violations) >= MAX_VIOLATIONS:
            break
        results = tg.run_total(cases, chunk=50 if name == "import-graphs" else 2000)
        n_items = skipped = 0
        for c, r in zip(cases, results):
            if r is None or not r.total_ok:
                skipped += 1        # not total: reported by C05
                continue
            n_items += int(r.fields.get("items", "0"))
            ctx.count(case_key=(c["main"], tuple(sorted(c.get("mods", {}).items()))), nontrivial=bool(r.items))
            for it in r.items:
                pos_classes[it.pos] += 1
                tags[it.tag] += 1
                if it.span[0] != it.span[3]:
                    multi_line += 1
                if it.file != "main":
                    in_module += 1
                why = item_problem(it)
                if why:
                    report_item(ctx, c, it, why, "C08 " + c.get("stream", name), seen)
            if int(r.fields.get("bad", "0")) > 0 and not any(item_problem(it) for it in r.items):
                ctx.broken.append(f"harness:bad-count-without-item:{c.get('stream')}")
            # sample for the model tie: short valid UTF-8 texts
            if r.items and len(c["main"]) < 3000 and ctx.rng.random() < 0.08 and len(pool) < (2500 if ctx.tier == "quick" else 20000):
                it = ctx.rng.choice(r.items)
                src = c["main"] if it.file == "main" else c.get("mods", {}).get(it.file)
                if src is not None and len(src) < 3000:
                    try:
                        text = src.decode("utf-8")
                        pool.append((text, it))
                        if it.span[2] == len(text) or it.span[5] == len(text):
                            eof_pos += 1
                    except UnicodeDecodeError:
                        pass
        per_stream[name] = {"cases": len(cases), "reported_positions": n_items, "skipped_not_total": skipped}
    ctx.coverage["streams"] = per_stream
    ctx.coverage["position_classes"] = dict(pos_classes)
    ctx.coverage["reported_by"] = dict(tags)
    ctx.coverage["multi_line_spans"] = multi_line
    ctx.coverage["positions_in_imported_modules"] = in_module
    ctx.coverage["problem_signatures"] = {f"{k}": v for k, v in seen.items()}

    # 2. directed cases: the position lies inside the planted culprit
    if len(ctx.violations) < MAX_VIOLATIONS:
        static_directed(ctx, seen)
        runtime_directed(ctx, seen)
        optimizer_directed(ctx)

    # 3. ties of the transcription
    if not ctx.violations:
        disp_tie(ctx)
        bad = reported_tie(ctx, pool)
        ctx.coverage["tie_render_reported"] = {"cases": len(pool), "mismatches": bad, "at_end_of_input": eof_pos}
    ctx.coverage["rule"] = ("all syntax errors and diagnostics (up to 48 per input, every ill-formed one) produced by the C05 "
                            "streams (prefixes, token edits, soups, arbitrary bytes, towers, 64 KiB inputs, grammar-directed "
                            "programs, import graphs; entry and imported module); 15 static and 11 runtime culprit kinds x "
                            "{entry, callee, imported module} x {caught, uncaught} x random layout with multi-line constructs and "
                            "multi-byte characters; arbitrary spans: full grid of (line, column) pairs over a two-line text plus "
                            "random spans over random small texts; non-trivial = input with at least one reported position / "
                            "directed case / span case")
    ctx.coverage["traces_validated_against_impl"] = ctx.evaluations
    if ctx.broken and not ctx.violations:
        ctx.violation({"kind": "broken-tie", "broken": ctx.broken[:10], "log": st.get("log", "")[-3000:]},
                      "proof obligation or model/code correspondence no longer checks: " + "; ".join(ctx.broken[:3]),
                      no_input=True)


def replay(ctx, rep):
    ok, log = core.build_harness()
    if not ok:
        print(log)
        return 1
    kind = rep.get("kind")
    if kind in ("position", "position-directed", "total"):
        case = tg.case_of_replay(rep)
        r = tg.run_total([case], stop_after_dead=100)[0]
        print("main:", repr(case["main"][:300]))
        for k, v in case["mods"].items():
            print(f"module {k}:", repr(v[:300]))
        print("answer:", r.raw[:900])
        if not r.total_ok:
            print("Parse/Analyze does not return on this input (property C05)")
            return 1
        bad = [(it, item_problem(it)) for it in r.items if item_problem(it)]
        if kind == "position-directed":
            want_tag = "AS" if rep["level"] == "syn" else "AD"
            hits = [it for it in r.items if it.tag == want_tag and it.msg.startswith(rep["prefix"][:len(it.msg)])]
            for it in hits[:1]:
                s4 = (it.span[0], it.span[1], it.span[3], it.span[4])
                if it.file != rep["file"] or not inside(s4, tuple(rep["culprit_range"])):
                    bad.append((it, f"reported at {it.file}:{s4}, culprit at {rep['file']}:{rep['culprit_range']}"))
        for it, why in bad[:5]:
            print(f"  {it.tag} {it.msg[:50]!r} {it.file}:{it.span}: {why}")
        if bad:
            print("VIOLATION property=C08 replay=(replayed)")
            return 1
        print("replay: every reported position of this input is well-formed now")
        return 0
    if kind == "position-runtime":
        c = {"main": bytes.fromhex(rep["main"][1:]).decode(), "mods": {k: bytes.fromhex(v[1:]).decode() for k, v in rep["mods"].items()},
             "file": rep["file"], "range": tuple(rep["culprit_range"]), "culprit": rep["culprit"], "kind": rep["culprit_kind"]}
        r = core.go_lines("spans", [tg.run_line(c)], args=("-limit", "20"))[0]
        print("answer:", r[:900])
        probs, _ = runtime_judge(c, r)
        for p in probs:
            print(" ", p)
        if any(not p.startswith("generator:") for p in probs):
            print("VIOLATION property=C08 replay=(replayed)")
            return 1
        print("replay: the runtime positions of this program lie inside the culprit now")
        return 0
    print("replay names a broken obligation, not an input:", str(rep)[:2000])
    return 1
