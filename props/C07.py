"""C07 — parse trees follow the documented grammar and ignore layout.

Theorems: HmsProofs.C07 (table theorem over the regenerated Prec() table,
pratt_correct / pratt_sound / uniqueness / totality for the loop model).
Tie: Go parser tree dump  <->  Lean `parseExpr` on the Go token kinds.
Oracle (implementation side): Go tree with grouping stripped == the generator's
intended tree, where the text was produced from the property's rank rules by an
independent renderer; layout variants and redundant parentheses must not change it.
"""
import itertools
import re

from vlib import core
from vlib.tables import kind_codes

MODULES = ["HmsProofs.C07"]

# rank of binary operators, from the property statement (independent of the Go table)
BIN_RANK = {
    "||": 1, "&&": 2, "|": 3, "^": 4, "&": 5, "==": 6, "!=": 6,
    "<": 7, ">": 7, "<=": 7, ">=": 7, "<<": 8, ">>": 8, "+": 9, "-": 9,
    "*": 10, "/": 10, "%": 10, "**": 12,
}
ASSIGN_OPS = ["=", "+=", "-=", "*=", "/=", "%=", "**=", "<<=", ">>=", "|=", "&=", "^="]
AS_RANK = 11
PREFIX_OPS = ["!", "-", "?"]
MEMBER_OPS = [".", "->", "~>"]
KIND_OF_OP = {
    "||": "Or", "&&": "And", "|": "BitOr", "^": "BitXor", "&": "BitAnd", "==": "Equal",
    "!=": "NotEqual", "<": "LessThan", ">": "GreaterThan", "<=": "LessThanEqual",
    ">=": "GreaterThanEqual", "<<": "ShiftLeft", ">>": "ShiftRight", "+": "Plus", "-": "Minus",
    "*": "Multiply", "/": "Divide", "%": "Modulo", "**": "Power",
    "=": "Assign", "+=": "PlusAssign", "-=": "MinusAssign", "*=": "MultiplyAssign",
    "/=": "DivideAssign", "%=": "ModuloAssign", "**=": "PowerAssign", "<<=": "ShiftLeftAssign",
    ">>=": "ShiftRightAssign", "|=": "BitOrAssign", "&=": "BitAndAssign", "^=": "BitXorAssign",
    "!": "Not", "?": "QuestionMark", ".": "Dot", "->": "Arrow", "~>": "TildeArrow",
}
ATOMS = [("a", "Identifier"), ("b1", "Identifier"), ("1", "Int"), ("42", "Int"), ("1.5", "Float"),
         ("true", "True"), ("false", "False"), ('"s"', "String"), ("null", "Null"), ("none", "None")]


# ---------------------------------------------------------------------------
# spec trees and the independent renderer
# ---------------------------------------------------------------------------

def top_rank(t):
    """(rank, kind) of the top construct for parenthesisation; primaries have rank 100."""
    k = t[0]
    if k == "bin":
        return BIN_RANK[t[1]]
    if k == "asg":
        return 0
    if k == "cast":
        return AS_RANK
    if k == "pre":
        return 50          # tighter than all binary ranks, looser than postfix
    if k == "range":
        return -1          # always parenthesised when nested
    return 100             # atom, call, index, member, list


def paren(s):
    return ["("] + s + [")"]


def render(t, rng=None, extra=0.0):
    """Token texts of the minimal rendering of spec tree t (plus, with probability
    `extra`, redundant parentheses around operands)."""
    def sub(child, need):
        s = render(child, rng, extra)
        if need or (rng is not None and extra > 0 and rng.random() < extra):
            return paren(s)
        return s
    k = t[0]
    if k == "atom":
        return [t[1]]
    if k == "pre":
        c = t[2]
        return [t[1]] + sub(c, top_rank(c) < 50)
    if k == "bin":
        r = BIN_RANK[t[1]]
        l, rt = t[2], t[3]
        if t[1] == "**":       # right-associative
            nl = top_rank(l) <= r
            nr = top_rank(rt) < r
        else:
            nl = top_rank(l) < r
            nr = top_rank(rt) <= r
        return sub(l, nl) + [t[1]] + sub(rt, nr)
    if k == "asg":
        return render(t[2], rng, extra) + [t[1]] + sub(t[3], top_rank(t[3]) <= 0)
    if k == "cast":
        return sub(t[1], top_rank(t[1]) < AS_RANK) + ["as", "int"]
    if k == "call":
        out = sub(t[1], top_rank(t[1]) < 100) + ["("]
        for i, a in enumerate(t[2]):
            if i:
                out.append(",")
            out += sub(a, a[0] == "range" and False)
        if t[2] and rng is not None and extra > 0 and rng.random() < 0.3:
            out.append(",")    # trailing comma
        return out + [")"]
    if k == "index":
        return sub(t[1], top_rank(t[1]) < 100) + ["["] + render(t[2], rng, extra) + ["]"]
    if k == "member":
        return sub(t[2], top_rank(t[2]) < 100) + [t[1], "m"]
    if k == "range":
        return sub(t[2], top_rank(t[2]) < 100) + ([".."] + (["="] if t[1] else [])) + sub(t[3], top_rank(t[3]) < 100)
    if k == "list":
        out = ["["]
        for i, a in enumerate(t[1]):
            if i:
                out.append(",")
            out += render(a, rng, extra)
        if t[1] and rng is not None and extra > 0 and rng.random() < 0.3:
            out.append(",")
        return out + ["]"]
    raise ValueError(k)


def canon(t, codes):
    """Canonical string of a spec tree in the render format of both sides (no grp)."""
    k = t[0]
    if k == "atom":
        return str(codes[t[2]])
    if k == "pre":
        return f"(pre {codes[KIND_OF_OP[t[1]]]} {canon(t[2], codes)})"
    if k == "bin":
        return f"(bin {codes[KIND_OF_OP[t[1]]]} {canon(t[2], codes)} {canon(t[3], codes)})"
    if k == "asg":
        return f"(asg {codes[KIND_OF_OP[t[1]]]} {canon(t[2], codes)} {canon(t[3], codes)})"
    if k == "cast":
        return f"(cast {canon(t[1], codes)})"
    if k == "call":
        return "(call " + " ".join([canon(t[1], codes)] + [canon(a, codes) for a in t[2]]) + ")"
    if k == "index":
        return f"(index {canon(t[1], codes)} {canon(t[2], codes)})"
    if k == "member":
        return f"(member {codes[KIND_OF_OP[t[1]]]} {canon(t[2], codes)})"
    if k == "range":
        return f"(range {'true' if t[1] else 'false'} {canon(t[2], codes)} {canon(t[3], codes)})"
    if k == "list":
        return "(list" + "".join(" " + canon(a, codes) for a in t[1]) + ")"
    raise ValueError(k)


def strip_grp(s):
    """Remove every (grp X) wrapper from a rendered tree string."""
    out = []
    stack = []   # True if the paren opened a grp
    i = 0
    while i < len(s):
        if s.startswith("(grp ", i):
            stack.append(True)
            i += 5
        elif s[i] == "(":
            stack.append(False)
            out.append("(")
            i += 1
        elif s[i] == ")":
            if not stack.pop():
                out.append(")")
            i += 1
        else:
            out.append(s[i])
            i += 1
    return "".join(out)


def layout(tokens, rng, style):
    """Join token texts. style 0: single spaces; 1: random whitespace/comments."""
    if style == 0:
        return " ".join(tokens)
    seps = [" ", "  ", "\n", " \n ", " /* c */ ", " // c\n", "\r\n", " /* a\n b */ ", "\t", " /*/ + 1 */ ", " /**/ ", " /***/ ",
            " /* * / */ ", " // /* \n", " /* // */ ", " //\n", " //\r\n", " //\n//\n", " /**/\n"]
    tight = set("()[],")
    out = []
    for i, t in enumerate(tokens):
        if i:
            prev = tokens[i - 1]
            if (prev in tight or t in tight) and rng.random() < 0.5:
                out.append("")
            else:
                out.append(rng.choice(seps))
        out.append(t)
    return "".join(out)


def atom(rng):
    text, kind = rng.choice(ATOMS)
    return ("atom", text, kind)


def ident(rng):
    return ("atom", rng.choice(["a", "b1", "xs"]), "Identifier")


def gen_tree(rng, depth):
    if depth <= 0 or rng.random() < 0.15:
        return atom(rng)
    c = rng.random()
    d = depth - 1
    if c < 0.45:
        return ("bin", rng.choice(list(BIN_RANK)), gen_tree(rng, d), gen_tree(rng, d))
    if c < 0.57:
        return ("pre", rng.choice(PREFIX_OPS), gen_tree(rng, d))
    if c < 0.65:
        return ("call", gen_postfix_base(rng, d), [gen_tree(rng, d) for _ in range(rng.randrange(0, 4))])
    if c < 0.71:
        return ("index", gen_postfix_base(rng, d), gen_tree(rng, d))
    if c < 0.77:
        return ("member", rng.choice(MEMBER_OPS), gen_postfix_base(rng, d))
    if c < 0.83:
        return ("cast", gen_tree(rng, d))
    if c < 0.88:
        return ("range", rng.random() < 0.3, gen_tree(rng, d), gen_tree(rng, d))
    if c < 0.93:
        return ("list", [gen_tree(rng, d) for _ in range(rng.randrange(0, 4))])
    # assignment: valid targets only
    tc = rng.random()
    if tc < 0.4:
        target = ident(rng)
    elif tc < 0.7:
        target = ("index", gen_postfix_base(rng, d), gen_tree(rng, d))
    elif tc < 0.9:
        target = ("member", rng.choice(MEMBER_OPS), gen_postfix_base(rng, d))
    else:
        target = ("cast", gen_tree(rng, d))
    return ("asg", rng.choice(ASSIGN_OPS), target, gen_tree(rng, d))


def gen_postfix_base(rng, d):
    return gen_tree(rng, d)


def has_toplevel_literal_call(t):
    return False


# ---------------------------------------------------------------------------

def judge(ctx, codes, cases, stage):
    """cases: list of (spec_tree or None, text, label). Runs both sides."""
    go = core.go_lines("parse", [core.xhex(text) for _, text, _ in cases])
    lean_in, idx = [], []
    for i, line in enumerate(go):
        m = re.match(r"OK toks=(.*?) tree=(.*?) print=(\S+)$", line)
        if m:
            lean_in.append("pratt " + m.group(1))
            idx.append(i)
    lean = core.lean_lines(lean_in) if lean_in else []
    lean_by = dict(zip(idx, lean))
    bad_tie = 0
    for i, (spec, text, label) in enumerate(cases):
        g = go[i]
        nontrivial = spec is not None and spec[0] != "atom"
        ctx.count(case_key=text, nontrivial=nontrivial)
        m = re.match(r"OK toks=(.*?) tree=(.*?) print=(\S+)$", g)
        if spec is not None:
            want = canon(spec, codes)
            if not m:
                ctx.violation({"kind": "expr", "text": text, "expected_tree": want, "go": g},
                              f"{stage}: Go parser rejects/crashes on a valid expression {text!r}: {g[:120]}")
                continue
            got = strip_grp(m.group(2))
            if got != want:
                ctx.violation({"kind": "expr", "text": text, "expected_tree": want, "go_tree": m.group(2)},
                              f"{stage}: tree of {text!r} is {got}, the operator table of the property gives {want}")
                continue
        if m:
            l = lean_by[i]
            lm = re.match(r"OK normal=(\w+) (.*)$", l)
            if not lm or lm.group(2) != m.group(2) or lm.group(1) != "true":
                bad_tie += 1
                if bad_tie <= 3:
                    ctx.broken.append(f"correspondence:pratt:{text!r}: go={m.group(2)} lean={l}")
        elif g.startswith(("CRASH", "HANG", "PANIC")):
            ctx.violation({"kind": "expr", "text": text, "go": g},
                          f"{stage}: Go parser crashed on {text!r}: {g[:160]}")
        ctx.sample({"text": text, "go": g[:200], "lean": lean_by.get(i, "")[:200]})
    return bad_tie


def exhaustive_cases():
    """All ordered pairs and triples of binary operators, pairs with prefix and postfix forms."""
    a = ("atom", "a", "Identifier")
    b = ("atom", "b1", "Identifier")
    c = ("atom", "1", "Int")
    d = ("atom", "x", "Identifier")
    ops = list(BIN_RANK)
    cases = []

    def assoc(op1, op2, l, m, r):
        """spec tree of `l op1 m op2 r` by the rank rules"""
        r1, r2 = BIN_RANK[op1], BIN_RANK[op2]
        if r1 > r2 or (r1 == r2 and op1 != "**"):
            return ("bin", op2, ("bin", op1, l, m), r)
        return ("bin", op1, l, ("bin", op2, m, r))

    for o1, o2 in itertools.product(ops, ops):
        cases.append((assoc(o1, o2, a, b, c), f"a {o1} b1 {o2} 1", "pair"))
    for o1, o2, o3 in itertools.product(ops, ops, ops):
        # fold left to right with a small shift-reduce by rank
        toks = [a, o1, b, o2, c, o3, d]
        cases.append((shift_reduce(toks), f"a {o1} b1 {o2} 1 {o3} x", "triple"))
    for p in PREFIX_OPS:
        for o in ops:
            cases.append((("bin", o, ("pre", p, a), b), f"{p}a {o} b1", "prefix-left"))
            cases.append((("bin", o, a, ("pre", p, b)), f"a {o} {p}b1", "prefix-right"))
        cases.append((("pre", p, ("call", a, [c])), f"{p}a(1)", "prefix-call"))
        cases.append((("pre", p, ("index", a, c)), f"{p}a[1]", "prefix-index"))
        for mo in MEMBER_OPS:
            cases.append((("pre", p, ("member", mo, a)), f"{p}a{mo}m", "prefix-member"))
        cases.append((("cast", ("pre", p, a)), f"{p}a as int", "prefix-cast"))
        for p2 in PREFIX_OPS:
            cases.append((("pre", p, ("pre", p2, a)), f"{p} {p2}a", "prefix-prefix"))
    for o in ops:
        cases.append((("bin", o, a, ("call", b, [c])), f"a {o} b1(1)", "postfix-right"))
        cases.append((("bin", o, a, ("index", b, c)), f"a {o} b1[1]", "postfix-right"))
        cases.append((("bin", o, a, ("member", ".", b)), f"a {o} b1.m", "postfix-right"))
        if BIN_RANK[o] < AS_RANK:
            cases.append((("bin", o, a, ("cast", b)), f"a {o} b1 as int", "cast-right"))
            cases.append((("bin", o, ("cast", a), b), f"a as int {o} b1", "cast-left"))
        else:
            cases.append((("cast", ("bin", o, a, b)), f"a {o} b1 as int", "cast-right"))
            cases.append((("bin", o, ("cast", a), b), f"a as int {o} b1", "cast-left"))
    for ao in ASSIGN_OPS:
        for o in ops:
            cases.append((("asg", ao, a, ("bin", o, b, c)), f"a {ao} b1 {o} 1", "assign"))
    return cases


def shift_reduce(toks):
    """Operator-precedence parse of [operand, op, operand, ...] by BIN_RANK (spec side)."""
    operands = [toks[0]]
    ops = []
    i = 1

    def reduce():
        r = operands.pop()
        l = operands.pop()
        operands.append(("bin", ops.pop(), l, r))
    while i < len(toks):
        op = toks[i]
        while ops and (BIN_RANK[ops[-1]] > BIN_RANK[op] or (BIN_RANK[ops[-1]] == BIN_RANK[op] and op != "**")):
            reduce()
        ops.append(op)
        operands.append(toks[i + 1])
        i += 2
    while ops:
        reduce()
    return operands[0]


def run(ctx):
    st = core.prepare(ctx, MODULES)
    ctx.assumptions += [
        "operands that the expression level treats as opaque (blocks, if, match, try, fn, new, spawn, $x) are not in the model",
        "cast types are single identifiers in the model",
    ]
    if not st["harness"] or not st["dump"]:
        ctx.violation({"kind": "build", "log": st.get("log", "")[-3000:]},
                      "harness or table dump no longer builds against /repo", no_input=True)
        return
    codes = kind_codes()
    n_random = 3000 if ctx.tier == "quick" else 40000
    depth = 4 if ctx.tier == "quick" else 6
    cases = exhaustive_cases()
    ctx.coverage["exhaustive_operator_cases"] = len(cases)
    rng = ctx.rng
    for _ in range(n_random):
        t = gen_tree(rng, rng.randrange(1, depth + 1))
        style = rng.randrange(0, 2)
        extra = rng.choice([0.0, 0.0, 0.2, 0.5])
        toks = render(t, rng, extra)
        cases.append((t, layout(toks, rng, style), "random"))
        if rng.random() < 0.2:
            # same tokens, other layout: must give the same tree (layout irrelevance)
            cases.append((t, layout(toks, rng, 1), "relayout"))
    # malformed stream: the tie must also hold on inputs that do not parse
    for _ in range(n_random // 10):
        t = gen_tree(rng, rng.randrange(1, depth))
        toks = render(t, rng, 0.0)
        if len(toks) > 1:
            j = rng.randrange(len(toks))
            edit = rng.random()
            if edit < 0.4:
                del toks[j]
            elif edit < 0.7:
                toks.insert(j, rng.choice(list(BIN_RANK) + [")", "(", ","]))
            else:
                toks[j] = rng.choice(list(BIN_RANK) + ["a", "1"])
        cases.append((None, " ".join(toks), "malformed"))
    groups = opaque_layout_cases(rng, 2 if ctx.tier == "quick" else 8)
    judge_opaque(ctx, groups)
    ctx.coverage["opaque_operand_layout_groups"] = len(groups)
    if st["model"]:
        bad_tie = judge(ctx, codes, cases, "C07")
    else:
        bad_tie = 0
        ctx.note("Lean model does not build; running the implementation-side oracle only")
        judge_go_only(ctx, codes, cases)
    ctx.coverage["rule"] = ("expression trees generated over all operators (depth <= %d), rendered by an independent "
                            "rank-based renderer with random redundant parentheses, trailing commas and layout; plus all "
                            "ordered pairs/triples of binary operators and prefix/postfix/cast/assign combinations "
                            "(exhaustive); non-trivial = distinct text with at least one operator" % depth)
    ctx.coverage["exhaustive"] = False
    ctx.coverage["traces_validated_against_impl"] = ctx.evaluations
    if ctx.broken and not ctx.violations:
        ctx.violation({"kind": "broken-tie", "broken": ctx.broken[:10], "log": st.get("log", "")[-3000:]},
                      "proof obligation or model/code correspondence no longer checks: " + "; ".join(ctx.broken[:3]),
                      no_input=True)


OPAQUE_HEADS = [
    ["if", "c", "{", "xs", "}", "else", "{", "ys", "}"],
    ["match", "1", "{", "1", "=>", "inc", ",", "_", "=>", "dec", "}"],
    ["{", "xs", "}"],
    ["try", "{", "f", "}", "catch", "e", "{", "g", "}"],
    ["if", "c", "{", "1", "}", "else", "if", "d", "{", "2", "}", "else", "{", "3", "}"],
]
OPAQUE_TAILS = [["[", "1", "]"], ["(", "41", ")"], [".", "len", "(", ")"], ["[", "0", "]", "(", "2", ")"], ["(", ")", "[", "i", "]"],
                ["+", "1"], ["as", "int"], ["[", "1", "]", "*", "2"], ["(", "x", ")", "+", "y", "*", "z"], ["==", "b"], [".", "m", "[", "0", "]"]]


def opaque_layout_cases(rng, n_layouts):
    """Block-like operands (if / match / block / try) followed by postfix and infix operators: whatever whitespace and
    comments separate the tokens, the tree is the one of the single-line text (layout irrelevance; no model involved)."""
    out = []
    for head in OPAQUE_HEADS:
        for tail in OPAQUE_TAILS:
            for pre in ([], ["-"], ["!"], ["a", "+"], ["("]):
                toks = list(pre) + head + tail + ([")"] if pre == ["("] else [])
                base = layout(toks, rng, 0)
                variants = [layout(toks, rng, 1) for _ in range(n_layouts)]
                # the separators a statement-level heuristic would look at: newline / comments directly behind the `}`
                k = len(pre) + len(head)
                for sep in ["\n", " // c\n", " /* a\n b */ ", "\r\n", "\n\n  ", " //\n", " //\n //\n"]:
                    variants.append(" ".join(toks[:k]) + sep + " ".join(toks[k:]))
                out.append((base, variants))
    return out


def judge_opaque(ctx, groups):
    texts = [t for base, vs in groups for t in [base] + vs]
    go = core.go_lines("parse", [core.xhex(t) for t in texts])
    trees = {}
    for t, g in zip(texts, go):
        m = re.match(r"OK toks=(.*?) tree=(.*?) print=(\S+)$", g)
        trees[t] = m.group(2) if m else g[:80]
    for base, vs in groups:
        ctx.count(case_key=("opaque", base), nontrivial=True)
        if not trees[base].startswith("("):
            ctx.broken.append(f"opaque-layout: the single-line text {base!r} does not parse: {trees[base]}")
            continue
        for v in vs:
            ctx.count(case_key=("opaque", v), nontrivial=True)
            if trees[v] != trees[base]:
                ctx.violation({"kind": "expr", "text": v, "expected_tree": trees[base], "go_tree": trees[v], "single_line": base},
                              f"C07 layout: tree of {v!r} is {trees[v]}, the same tokens on one line give {trees[base]}")
                break


def judge_go_only(ctx, codes, cases):
    go = core.go_lines("parse", [core.xhex(text) for _, text, _ in cases])
    for (spec, text, label), g in zip(cases, go):
        ctx.count(case_key=text, nontrivial=spec is not None and spec[0] != "atom")
        if spec is None:
            continue
        want = canon(spec, codes)
        m = re.match(r"OK toks=(.*?) tree=(.*?) print=(\S+)$", g)
        if not m or strip_grp(m.group(2)) != want:
            ctx.violation({"kind": "expr", "text": text, "expected_tree": want, "go": g},
                          f"tree of {text!r} differs from the operator table of the property")


def replay(ctx, rep):
    ok, log = core.build_harness()
    if not ok:
        print(log)
        return 1
    if rep.get("kind") != "expr":
        print("replay names a broken obligation, not an input:", rep)
        return 1
    g = core.go_lines("parse", [core.xhex(rep["text"])])[0]
    print("text:", rep["text"])
    print("go:  ", g)
    print("want:", rep.get("expected_tree"))
    m = re.match(r"OK toks=(.*?) tree=(.*?) print=(\S+)$", g)
    if m and rep.get("expected_tree") and strip_grp(m.group(2)) == rep["expected_tree"]:
        print("replay: property holds on this input now")
        return 0
    print(f"VIOLATION property=C07 replay=(replayed)")
    return 1
