package main

// usage: run <vm|tree|analyze> main=<src> [mod=<src> ...]
import (
	"context"
	"fmt"
	"os"
	"strings"
	"sync"
	"time"

	hms "github.com/smarthome-go/homescript/v3/homescript"
	"github.com/smarthome-go/homescript/v3/homescript/analyzer"
	"github.com/smarthome-go/homescript/v3/homescript/analyzer/ast"
	"github.com/smarthome-go/homescript/v3/homescript/compiler"
	"github.com/smarthome-go/homescript/v3/homescript/diagnostic"
	"github.com/smarthome-go/homescript/v3/homescript/errors"
	pAst "github.com/smarthome-go/homescript/v3/homescript/parser/ast"
	"github.com/smarthome-go/homescript/v3/homescript/runtime"
	ivalue "github.com/smarthome-go/homescript/v3/homescript/interpreter/value"
)

type host struct{ mods map[string]string }

func (h host) GetBuiltinImport(m, v string, s errors.Span, k pAst.IMPORT_KIND) (analyzer.BuiltinImport, bool, bool) {
	return hms.TestingAnalyzerHost{}.GetBuiltinImport(m, v, s, k)
}
func (h host) ResolveCodeModule(m string) (string, bool, error) { c, ok := h.mods[m]; return c, ok, nil }
func (h host) PostValidationHook(map[string]ast.AnalyzedProgram, string, *analyzer.Analyzer, bool) []diagnostic.Diagnostic {
	return nil
}
func (h host) GetKnownObjectTypeFieldAnnotations() []string { return nil }

func main() {
	mode := os.Args[1]
	mods := map[string]string{}
	for _, a := range os.Args[2:] {
		kv := strings.SplitN(a, "=", 2)
		mods[kv[0]] = kv[1]
	}
	analyzed, diags, syn := hms.Analyze(hms.InputProgram{ProgramText: mods["main"], Filename: "main"}, hms.TestingAnalyzerScopeAdditions(), host{mods}, true)
	bad := false
	for _, s := range syn {
		fmt.Printf("SYNTAX %s @%d:%d-%d:%d %s\n", s.Message, s.Span.Start.Line, s.Span.Start.Column, s.Span.End.Line, s.Span.End.Column, s.Span.Filename)
		bad = true
	}
	for _, d := range diags {
		if d.Level == diagnostic.DiagnosticLevelError {
			bad = true
		}
		if d.Level >= diagnostic.DiagnosticLevelWarning {
			fmt.Printf("DIAG[%v] %s @%d:%d-%d:%d %s\n", d.Level, d.Message, d.Span.Start.Line, d.Span.Start.Column, d.Span.End.Line, d.Span.End.Column, d.Span.Filename)
		}
	}
	if bad {
		fmt.Println("REJECTED")
		return
	}
	fmt.Println("ACCEPTED")
	if mode == "analyze" {
		for n, m := range analyzed {
			fmt.Printf("--- module %s\n%s\n", n, m.String())
		}
		return
	}
	ctx, cancel := context.WithTimeout(context.Background(), 3*time.Second)
	defer cancel()
	if mode == "tree" {
		out := ""
		ex := hms.TestingTreeExecutor{Output: &out}
		i := hms.Run(1000, analyzed, "main", ex, hms.TestingInterpreterScopeAdditions(), &ctx)
		fmt.Printf("\nOUT=%q\n", out)
		if i != nil {
			fmt.Printf("INTERRUPT kind=%v msg=%q\n", (*i).Kind(), firstLine((*i).Message()))
			if r, ok := (*i).(ivalue.RuntimeErr); ok {
				fmt.Printf("  errkind=%v span=%d:%d\n", r.ErrKind, r.Span.Start.Line, r.Span.Start.Column)
			}
		} else {
			fmt.Println("OK")
		}
		return
	}
	c := compiler.NewCompiler(analyzed, "main")
	prog, err := c.Compile()
	if err != nil {
		panic(err)
	}
	if mode == "asm" {
		fmt.Println(prog.AsmString(false))
		return
	}
	buf := ""
	ex := hms.TestingVmExecutor{PrintBuf: &buf, PintBufMutex: &sync.Mutex{}}
	lim := runtime.CoreLimits{CallStackMaxSize: 100, StackMaxSize: 500, MaxMemorySize: 10000}
	vm := runtime.NewVM(prog, ex, &ctx, &cancel, hms.TestingVmScopeAdditions(), lim)
	core := vm.SpawnAsync(runtime.MainFn(), nil, nil, nil)
	n, i := vm.Wait()
	fmt.Printf("OUT=%q\n", buf)
	if i != nil {
		fmt.Printf("INTERRUPT core=%d kind=%s msg=%q span=%d:%d-%d:%d\n", n, (*i).KindString(), firstLine((*i).Message()), (*i).GetSpan().Start.Line, (*i).GetSpan().Start.Column, (*i).GetSpan().End.Line, (*i).GetSpan().End.Column)
	} else {
		fmt.Printf("OK stack=%d mp=%d handlers=%d\n", len(core.Stack), core.MemoryPointer, len(core.ExceptionCatchLabels))
	}
}

func firstLine(s string) string { return strings.SplitN(s, "\n", 2)[0] }
