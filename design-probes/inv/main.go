package main

import (
	"fmt"
	"go/ast"
	"go/types"
	"sort"

	"golang.org/x/tools/go/packages"
)

func main() {
	cfg := &packages.Config{Mode: packages.NeedName | packages.NeedFiles | packages.NeedSyntax | packages.NeedTypes | packages.NeedTypesInfo | packages.NeedImports | packages.NeedDeps, Dir: "/repo"}
	pkgs, err := packages.Load(cfg, "./homescript/...")
	if err != nil {
		panic(err)
	}
	var out []string
	loops := 0
	for _, p := range pkgs {
		for _, f := range p.Syntax {
			ast.Inspect(f, func(n ast.Node) bool {
				switch x := n.(type) {
				case *ast.RangeStmt:
					if t := p.TypesInfo.TypeOf(x.X); t != nil {
						if _, ok := t.Underlying().(*types.Map); ok {
							pos := p.Fset.Position(x.Pos())
							out = append(out, fmt.Sprintf("%s:%d", pos.Filename[len("/repo/homescript/"):], pos.Line))
						}
					}
				case *ast.ForStmt:
					if p.Name == "parser" || p.Name == "lexer" {
						loops++
					}
				}
				return true
			})
		}
	}
	sort.Strings(out)
	fmt.Println("map ranges:", len(out), " parser+lexer for-loops:", loops)
	for _, o := range out {
		fmt.Println(" ", o)
	}
}
