package main

import (
	"fmt"
	"os"

	"github.com/smarthome-go/homescript/v3/homescript"
)

func main() {
	src := os.Args[1]
	p, soft, hard := homescript.Parse(src, "f")
	for _, s := range soft {
		fmt.Printf("SOFT %s %+v\n", s.Message, s.Span)
	}
	if hard != nil {
		fmt.Printf("HARD %s %+v\n", hard.Message, hard.Span)
		return
	}
	fmt.Println(p.String())
}
