package main

import (
	"context"
	"fmt"
	"os"
	"sync"
	"time"

	hms "github.com/smarthome-go/homescript/v3/homescript"
	"github.com/smarthome-go/homescript/v3/homescript/analyzer/ast"
	"github.com/smarthome-go/homescript/v3/homescript/compiler"
	"github.com/smarthome-go/homescript/v3/homescript/errors"
	"github.com/smarthome-go/homescript/v3/homescript/runtime"
	"github.com/smarthome-go/homescript/v3/homescript/runtime/value"
)

func main() {
	src := os.Args[1]
	analyzed, diags, syn := hms.Analyze(hms.InputProgram{ProgramText: src, Filename: "main"}, hms.TestingAnalyzerScopeAdditions(), hms.TestingAnalyzerHost{}, true)
	if len(syn) > 0 {
		panic(syn[0].Message)
	}
	for _, d := range diags {
		if d.Level == 3 {
			panic(d.Message)
		}
	}
	c := compiler.NewCompiler(analyzed, "main")
	prog, _ := c.Compile()
	ctx, cancel := context.WithCancel(context.Background())
	buf := ""
	ex := hms.TestingVmExecutor{PrintBuf: &buf, PintBufMutex: &sync.Mutex{}}
	vm := runtime.NewVM(prog, ex, &ctx, &cancel, hms.TestingVmScopeAdditions(), runtime.CoreLimits{CallStackMaxSize: 100, StackMaxSize: 500, MaxMemorySize: 10000})
	intT := ast.NewIntType(errors.Span{})
	call := func(fn string, args ...int64) {
		done := make(chan string, 1)
		go func() {
			vals := []value.Value{}
			params := []runtime.FunctionInvocationSignatureParam{}
			for i, a := range args {
				vals = append(vals, *value.NewValueInt(a))
				params = append(params, runtime.FunctionInvocationSignatureParam{Ident: fmt.Sprint("p", i), Type: intT})
			}
			r := vm.SpawnSync(runtime.FunctionInvocation{Function: fn, Args: vals, FunctionSignature: runtime.FunctionInvocationSignature{Params: params, ReturnType: intT}}, nil, nil)
			if r.Exception != nil {
				done <- "EXC " + r.Exception.Interrupt.KindString()
				return
			}
			d, _ := r.ReturnValue.Display()
			done <- "RET " + d
		}()
		select {
		case s := <-done:
			fmt.Printf("%s%v -> %s | cores=%d\n", fn, args, s, len(vm.Cores.Cores))
		case <-time.After(2 * time.Second):
			fmt.Printf("%s%v -> BLOCKED FOREVER (2s)\n", fn, args)
		}
	}
	call("sub", 10, 3)
	call("bump")
	call("bump")
	call("boom")
	call("sub", 1, 1)
}
