-- scratch experiment: is `Normal` the right hypothesis for pratt_correct?
inductive Op | or | add | mul | pow deriving DecidableEq, Repr, BEq
inductive Tok | atom (n : Nat) | op (o : Op) | neg | lp | rp deriving DecidableEq, Repr, BEq
inductive Tree | atom (n : Nat) | bin (l : Tree) (o : Op) (r : Tree) | pre (e : Tree) | grp (e : Tree)
  deriving DecidableEq, Repr, BEq

def lbp : Op → Nat | .or => 3 | .add => 19 | .mul => 21 | .pow => 26
def rbp : Op → Nat | .or => 4 | .add => 20 | .mul => 22 | .pow => 25
def prefixBp : Nat := 29

def tokLbp : List Tok → Nat
  | Tok.op o :: _ => lbp o
  | _ => 0

mutual
def parseE (fuel : Nat) (p : Nat) (ts : List Tok) : Option (Tree × List Tok) :=
  match fuel with
  | 0 => none
  | fuel+1 =>
    match ts with
    | Tok.atom n :: rest => loop fuel p (Tree.atom n) rest
    | Tok.neg :: rest =>
      match parseE fuel prefixBp rest with
      | some (e, rest') => loop fuel p (Tree.pre e) rest'
      | none => none
    | Tok.lp :: rest =>
      match parseE fuel 0 rest with
      | some (e, Tok.rp :: rest') => loop fuel p (Tree.grp e) rest'
      | _ => none
    | _ => none
def loop (fuel : Nat) (p : Nat) (lhs : Tree) (ts : List Tok) : Option (Tree × List Tok) :=
  match fuel with
  | 0 => none
  | fuel+1 =>
    match ts with
    | Tok.op o :: rest =>
      if lbp o > p then
        match parseE fuel (rbp o) rest with
        | some (r, rest') => loop fuel p (Tree.bin lhs o r) rest'
        | none => none
      else some (lhs, ts)
    | _ => some (lhs, ts)
end

def flatten : Tree → List Tok
  | .atom n => [Tok.atom n]
  | .bin l o r => flatten l ++ [Tok.op o] ++ flatten r
  | .pre e => Tok.neg :: flatten e
  | .grp e => [Tok.lp] ++ flatten e ++ [Tok.rp]

-- right spine operators' rbp must be ≥ the lbp of the operator that follows
def rightSpineOK (q : Nat) : Tree → Bool
  | .bin _ o r => decide (rbp o ≥ q) && rightSpineOK q r
  | .pre e => decide (prefixBp ≥ q) && rightSpineOK q e
  | _ => true

def normal (p : Nat) : Tree → Bool
  | .atom _ => true
  | .grp e => normal 0 e
  | .pre e => normal prefixBp e
  | .bin l o r => decide (lbp o > p) && normal p l && rightSpineOK (lbp o) l && normal (rbp o) r

def ops : List Op := [.or, .add, .mul, .pow]
def trees : Nat → List Tree
  | 0 => [Tree.atom 0]
  | n+1 =>
    let sub := trees n
    sub ++ (sub.map Tree.pre) ++ (sub.map Tree.grp) ++
      (sub.flatMap fun l => sub.flatMap fun r => ops.map fun o => Tree.bin l o r)

def check (depth : Nat) : Nat × Nat × Nat × Nat :=
  (trees depth).foldl (fun (a : Nat × Nat × Nat × Nat) t =>
    let (nOK, nBad, cNormalFail, cNonNormalSucc) := a
    let res := parseE 200 0 (flatten t)
    let good := res == some (t, [])
    if normal 0 t then
      (nOK+1, nBad, if good then cNormalFail else cNormalFail+1, cNonNormalSucc)
    else
      (nOK, nBad+1, cNormalFail, if good then cNonNormalSucc+1 else cNonNormalSucc)) (0,0,0,0)

#eval (trees 3).length
#eval check 3
