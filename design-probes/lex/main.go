package main

import (
	"fmt"
	"os"

	"github.com/smarthome-go/homescript/v3/homescript/lexer"
)

func main() {
	src := os.Args[1]
	l := lexer.NewLexer(src, "f")
	for i := 0; i < 100; i++ {
		t, err := l.NextToken()
		if err != nil {
			fmt.Printf("ERR %s span=%+v\n", err.Message, err.Span)
			return
		}
		fmt.Printf("%-12v %q  %d:%d(%d)-%d:%d(%d) file=%q\n", t.Kind, t.Value, t.Span.Start.Line, t.Span.Start.Column, t.Span.Start.Index, t.Span.End.Line, t.Span.End.Column, t.Span.End.Index, t.Span.Filename)
		if t.Kind == lexer.EOF {
			return
		}
	}
}
