package main

import (
	"context"
	"errors"
	"fmt"
	"os"
	"runtime"
	"strconv"
	"sync"
	"sync/atomic"
	"time"

	hms "github.com/smarthome-go/homescript/v3/homescript"
	"github.com/smarthome-go/homescript/v3/homescript/compiler"
	rt "github.com/smarthome-go/homescript/v3/homescript/runtime"
)

// pollCtx: Done() is "closed" from the k-th call on.
type pollCtx struct {
	k      int64
	polls  atomic.Int64
	closed chan struct{}
	open   chan struct{}
}

func (c *pollCtx) Deadline() (time.Time, bool) { return time.Time{}, false }
func (c *pollCtx) Done() <-chan struct{} {
	if c.polls.Add(1) >= c.k {
		return c.closed
	}
	return c.open
}
func (c *pollCtx) Err() error {
	if c.polls.Load() >= c.k {
		return errors.New("cancelled-by-harness")
	}
	return nil
}
func (c *pollCtx) Value(any) any { return nil }

func main() {
	src := os.Args[1]
	k, _ := strconv.Atoi(os.Args[2])
	analyzed, _, _ := hms.Analyze(hms.InputProgram{ProgramText: src, Filename: "main"}, hms.TestingAnalyzerScopeAdditions(), hms.TestingAnalyzerHost{}, true)
	c := compiler.NewCompiler(analyzed, "main")
	prog, _ := c.Compile()
	closed := make(chan struct{})
	close(closed)
	pc := &pollCtx{k: int64(k), closed: closed, open: make(chan struct{})}
	var ctx context.Context = pc
	cancel := context.CancelFunc(func() {})
	buf := ""
	ex := hms.TestingVmExecutor{PrintBuf: &buf, PintBufMutex: &sync.Mutex{}}
	g0 := runtime.NumGoroutine()
	vm := rt.NewVM(prog, ex, &ctx, &cancel, hms.TestingVmScopeAdditions(), rt.CoreLimits{CallStackMaxSize: 100, StackMaxSize: 500, MaxMemorySize: 10000})
	vm.SpawnAsync(rt.MainFn(), nil, nil, nil)
	t0 := time.Now()
	_, i := vm.Wait()
	time.Sleep(20 * time.Millisecond)
	kind := "none"
	if i != nil {
		kind = (*i).KindString() + ": " + (*i).Message()
	}
	fmt.Printf("k=%d polls=%d interrupt=%q out_len=%d wait=%v goroutines %d->%d\n", k, pc.polls.Load(), kind, len(buf), time.Since(t0).Round(time.Millisecond), g0, runtime.NumGoroutine())
}
