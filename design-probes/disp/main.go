package main

import (
	"fmt"

	"github.com/smarthome-go/homescript/v3/homescript/diagnostic"
	"github.com/smarthome-go/homescript/v3/homescript/errors"
)

func try(name string, f func()) {
	defer func() {
		if r := recover(); r != nil {
			fmt.Printf("%s: PANIC %v\n", name, r)
		}
	}()
	f()
	fmt.Printf("%s: ok\n", name)
}

func main() {
	src := "ab\ncd"
	rev := errors.Span{Start: errors.Location{Line: 1, Column: 5, Index: 4}, End: errors.Location{Line: 1, Column: 2, Index: 1}}
	zero := errors.Span{}
	past := errors.Span{Start: errors.Location{Line: 3, Column: 1, Index: 6}, End: errors.Location{Line: 3, Column: 1, Index: 6}}
	for name, sp := range map[string]errors.Span{"reversed": rev, "zero": zero, "line-past-end": past} {
		sp := sp
		try("diag "+name, func() { _ = diagnostic.Diagnostic{Level: 3, Message: "m", Span: sp}.Display(src) })
		try("err  "+name, func() { _ = errors.Error{Message: "m", Span: sp}.Display(src) })
	}
}
