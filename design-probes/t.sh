#!/bin/bash
# t.sh <mode> <main-src> [mod=src...]
cd /root/scratch/probe
mode=$1; shift; m="$1"; shift
( ulimit -v 4000000; timeout 10 ./runbin "$mode" "main=$m" "$@" 2>&1 | grep -v '^TRIGGER\|^Reading' | tail -${TAILN:-12}; echo "exit=${PIPESTATUS[0]}" )
